#!/usr/bin/env python3
"""Cases for the C04 count-vs-emit correspondence of the EXPRESSION printers
       real printers (/verif/build/exprcount)  vs  extracted model (/verif/build/exprcount_driver).

usage: gen_exprcount_cases.py SEED [--quick] [--sizes]

One term per line; syntax: /verif/harness/cmd/exprcount/main.go.  Thorough: per node kind the FULL product of the
domains of every field its printers read, with list lengths 0..3 over pools of children that hold one representative
of every class the printers and their helper predicates distinguish (dynamic type, literal type, Parenthesized, nil /
list / other Value, negated numbers, nesting to depth 3, the classes of function names, the strings the three string
parsers treat differently), every term also wrapped in AliasedExpr and in the four WithElement forms.  Quick: the
full products of the small kinds, lists to length 2, and a seeded sample of the rest.
"""
import itertools
import random
import sys

ID = "id a -"
INT = "lit i 0 0 int"
STR = "lit s 0 0 str:0"


def ll(ty, items, paren=0):
    return "ll %s %d [ %s ]" % (ty, paren, " ".join(items)) if items else "ll %s %d [ ]" % (ty, paren)


def lst(items):
    return "[ %s ]" % " ".join(items) if items else "[ ]"


def fn(cls, args, params=None, settings=0, distinct=0, filt="-", over="-", alias="-", std=0):
    return "fn %s %s %s %d %d %s %s %s %d" % (cls, "-" if params is None else lst(params), lst(args), settings, distinct, filt, over, alias, std)


# one representative of every class the literal helpers distinguish
SCALARS = [
    INT, "lit i 0 0 uint", "lit f 0 0 flt", STR, "lit s 0 0 str:1", "lit b 0 0 bool", "lit n 0 0 nil",
    "lit i 1 0 int", "lit s 1 0 str:0", "lit n 1 0 nil",
]
NEGS = ["un 1 " + INT, "un 1 lit f 0 0 flt", "un 1 " + STR, "un 1 " + ID, "un 0 " + INT, "un 1 lit i 1 0 int"]
NONLITS = [ID, fn("plain", []), "cast " + ID + " - - 0", "bin plus 0 " + ID + " " + ID, "nil", "op 0", "subq 1 -"]
NESTED = [
    ll("t", []), ll("t", [INT]), ll("t", [INT, STR]), ll("t", ["un 1 " + INT, INT]), ll("t", [ID, INT]), ll("t", [ll("a", [])]),
    ll("t", [ll("a", [INT])]), ll("t", [ll("t", [INT, INT]), INT]), ll("t", [ll("t", [ID])]), ll("t", [INT, INT], 1),
    ll("t", ["lit i 1 0 int", "lit s 1 0 str:0"]),
    ll("a", []), ll("a", [INT]), ll("a", [INT, INT]), ll("a", [ll("a", [])]), ll("a", [ll("t", [INT])]), ll("a", [ID]), ll("a", ["lit i 1 0 int"]),
    ll("a", ["cast " + INT + " - - 1"]), ll("a", ["lit b 0 0 bool"]), ll("a", ["lit n 0 0 nil"]), ll("a", ["un 1 " + INT]), ll("a", [INT], 1),
    ll("a", [ll("a", [ll("a", [])])]), ll("a", [ll("a", [ll("t", [INT])])]), ll("a", [ll("a", [ID])]), ll("a", [ll("a", [INT])]),
    "lit t 0 0 nil", "lit a 0 0 nil", "lit t 0 0 oth", "lit a 0 0 oth",
]
ELEMS = SCALARS + NEGS + NONLITS + NESTED
ELEMS_SMALL = [INT, STR, "lit n 0 0 nil", "lit i 1 0 int", "un 1 " + INT, ID, ll("t", [INT, INT]), ll("t", [ID, INT]), ll("a", []), ll("a", [INT]),
               ll("a", [ll("a", [])]), "lit t 0 0 nil", ll("a", [ID]), ll("t", ["un 1 " + INT, INT])]

ATOMS = [ID, INT, "nil", "op 1"]

# arguments of a function call: one per class handleSpecialFunction / explainFunctionCallWithAlias test for
FNARGS = [
    ID, "id - -", "ast - 0 [ ] 0 [ ]", "subq 1 -", "subq 0 s", "in id n - 0 0 [ id h - id g - ] 0 0", "in id n - 0 0 [ ] 1 0",
    "ivl " + INT + " DAY", fn("toint", [INT]), "lit s 0 0 str:1", STR, "lit s 0 0 str:7", INT, "nil",
]
CLASSES = ["kql", "pos", "dadd", "dsub", "ddiff", "trim", "view", "toint", "plain"] + ["qa%d" % i for i in range(7)] + ["ql%d" % i for i in range(7)]
OVERS = ["-", "ov - [ ] 0 -", "ov w [ ] 0 -", "ov - [ " + ID + " ] 2 " + INT]


def lists(pool, lo, hi):
    for n in range(lo, hi + 1):
        for c in itertools.product(pool, repeat=n):
            yield list(c)


def wrap(t, wrappers):
    yield t
    for w in wrappers:
        yield w % t


WRAP_ALL = ["al %s al", "with w %s 0", "with w %s 1", "with - %s 0", "with - %s 1"]
WRAP_AL = ["al %s al"]


def binaries(ops, depth):
    """all BinaryExpr trees of at most [depth] levels over the operators [ops], both Parenthesized flags, leaves ID"""
    level = [ID]
    for _ in range(depth - 1):
        level = [ID] + ["bin %s %d %s %s" % (o, p, l, r) for o in ops for p in (0, 1) for l in level for r in level]
    for o in ops:
        for l in level:
            for r in level:
                yield "bin %s 0 %s %s" % (o, l, r)


TRANSFORMERS = ["tr 0 0 0 [ ]", "tr 1 0 0 [ ]", "tr 1 0 2 [ ]", "tr 1 1 2 [ ]", "tr 2 0 0 [ ]", "tr 2 0 0 [ " + ID + " - ]", "tr 3 0 1 [ " + ID + " ]"]
REPLS = [[], [ID], ["-"], [ID, "-", INT]]


def kinds(quick):
    """name -> (generator of base terms, wrappers)"""
    K = {}
    maxl = 2 if quick else 3
    pool = ELEMS_SMALL if quick else ELEMS
    K["ATOM"] = (iter(["nil", "op 0", "op 1", ID, "id a x", "id - -", "id - x", "param p 0", "param p 1", "param - 0", "param - 1",
                       "subq 1 -", "subq 0 -", "subq 1 s", "exists 1", "exists 0"]
                      + ["lit %s %d %d %s" % (t, p, b, v) for (t, vs) in (("i", ["int", "uint", "nil", "oth", "str:0"]), ("f", ["flt"]), ("s", ["str:%d" % k for k in range(9)]),
                                                                       ("b", ["bool"]), ("n", ["nil", "int"]), ("a", ["nil", "oth", "int"]), ("t", ["nil", "oth", "int"]))
                         for v in vs for p in (0, 1) for b in (0, 1)]), WRAP_ALL)
    # (Parenthesized of the outermost literal is read by no printer; the scalar flag of WithElement only for a Subquery)
    K["LIT"] = ((ll(ty, es) for ty in "ta" for es in lists(pool, 0, maxl)), WRAP_AL + ["with w %s 0", "with - %s 0"])
    K["LITX"] = ((ll(ty, es) for ty in "in" for es in lists(ELEMS_SMALL, 0, 2)), WRAP_AL)
    unary_operands = ELEMS + ["lit %s %d %d %s" % (t, p, b, v) for (t, v) in (("i", "int"), ("i", "uint"), ("i", "oth"), ("i", "str:2"), ("f", "flt"), ("s", "str:2"), ("s", "str:0"), ("n", "nil"))
                              for p in (0, 1) for b in (0, 1)]
    K["UN"] = (("un %d %s" % (m, o) for m in (0, 1) for o in unary_operands), WRAP_ALL)
    K["BIN2"] = (binaries(["cat", "and", "or", "plus"], 2), WRAP_ALL)
    if not quick:
        K["BIN3"] = (binaries(["and", "or"], 3), WRAP_AL + ["with w %s 0"])
        K["BINC"] = (binaries(["cat", "plus"], 3), WRAP_AL)
    K["BINX"] = (("bin %s %d %s %s" % (o, p, l, r) for o in ("cat", "and", "or", "plus") for p in (0, 1) for l in ATOMS for r in ATOMS), WRAP_ALL)
    K["SIMPLE"] = (itertools.chain(
        ("tern %s %s %s" % c for c in itertools.product(ATOMS, repeat=3)),
        ("aacc %s %s" % c for c in itertools.product(ATOMS, repeat=2)),
        ("tacc %s %s" % c for c in itertools.product(ATOMS, repeat=2)),
        ("like %s %s %d %d %s" % (e, p, n, c, a) for e in ATOMS for p in ATOMS for n in (0, 1) for c in (0, 1) for a in ("-", "own")),
        ("btw %s %s %s %d" % (e, l, h, n) for e in ATOMS for l in ATOMS for h in ATOMS for n in (0, 1)),
        ("isnull %s %d" % (e, n) for e in ATOMS for n in (0, 1)),
        ("extr %s %s %s" % (f, e, a) for f in ("YEAR", "DAY", "EPOCH") for e in ATOMS for a in ("-", "own")),
        ("lam %d %s" % (k, b) for k in range(4) for b in ATOMS),
        ("case %s %s %s %s" % (o, lst(list(ws)), e, a) for o in ("-", ID) for n in range(4) for ws in itertools.product([ID, "nil"], repeat=2 * n)
         for e in ("-", INT) for a in ("-", "own")),
        ("ivl %s %s" % (v, u) for v in ATOMS + ["lit s 0 0 str:%d" % k for k in range(9)] + ["lit s 1 1 str:4", "lit i 0 0 str:4", ll("n", [])] for u in ("-", "DAY", "u")),
    ), WRAP_ALL)
    cast_ops = ELEMS + [ll(ty, es) for ty in "ta" for es in lists(ELEMS_SMALL if quick else ELEMS, 1, 1 if quick else 2)]
    K["CAST"] = (("cast %s %s %s %d" % (e, te, a, o) for e in cast_ops for te in ("-", ID) for a in ("-", "own") for o in (0, 1)), WRAP_AL + ["with w %s 0", "with - %s 0"])
    K["IN"] = (("in %s 0 0 %s %d %d" % (ID, lst(items), q, t) for items in lists(pool, 0, maxl) for q in (0, 1) for t in (0, 1) if q == 0 or len(items) <= 1), WRAP_AL)
    K["INF"] = (("in %s %d %d %s %d %d" % (e, n, g, lst(items), q, t) for e in ATOMS for n in (0, 1) for g in (0, 1) for items in ([], [INT], [INT, INT], [ID, ID]) for q in (0, 1) for t in (0, 1)), WRAP_ALL)
    longs = []
    for n in (10, 11, 12):
        longs += [[STR] * n, [STR] * (n - 1) + ["lit n 0 0 nil"], [INT] * n, [STR] * (n - 1) + [INT], [STR] * (n - 1) + [ID], [ll("t", [INT, INT])] * n]
    K["INL"] = (("in %s 0 0 %s 0 %d" % (ID, lst(items), t) for items in longs for t in (0, 1)), WRAP_AL)
    fnmax = 2 if quick else 3
    K["FN"] = ((fn(c, args, alias=a, std=s, filt=f) for c in CLASSES for args in lists(FNARGS, 0, fnmax) for a in ("-", "own") for s in (0, 1) for f in ("-", ID)
                if not quick or (s, f) in ((0, "-"), (1, ID))), WRAP_AL)
    K["FN4"] = ((fn(c, [u, x, y, z], alias=a) for c in ("ddiff", "dadd", "plain") for u in (ID, "id - -", INT) for x in (ID, "nil") for y in (ID, INT) for z in (ID, "ast - 0 [ ] 0 [ ]")
                 for a in ("-", "own")), WRAP_AL)
    K["FNP"] = ((fn(c, args, params=p, settings=s, distinct=d, filt=f, over=o, alias=a)
                 for c in ("plain", "view", "trim", "qa2") for args in lists([ID, "ast - 0 [ ] 0 [ ]", "subq 1 -"], 0, 2)
                 for p in (None, [], [INT], [INT, ID]) for s in (0, 1) for d in (0, 1) for f in ("-", ID) for o in OVERS for a in ("-", "own")), WRAP_AL + ["with w %s 0", "with - %s 0"])
    tmax = 2 if quick else 3
    K["AST"] = (("ast %s %d %s %d %s" % (t, ne, lst(r), na, lst(trs)) for t in ("-", "tb") for ne in range(3) for r in REPLS for na in range(3)
                 for trs in lists(TRANSFORMERS, 0, tmax) if not trs or (ne, na) in ((0, 0), (2, 1))), WRAP_AL)
    K["COLS"] = (("cols %s %s %d %s %d %s" % (q, lst(cs), ne, lst(r), na, lst(trs)) for q in ("-", "tb") for cs in ([], [ID], [ID, "nil", INT]) for ne in range(3) for r in REPLS for na in range(3)
                  for trs in lists(TRANSFORMERS, 0, 2) if not trs or (ne, na) in ((0, 0), (2, 1))), WRAP_AL)
    K["NEST"] = (iter(["al al %s in out" % ID, "al with w %s 0 out" % ID, "with w al %s in 0" % ID, "with w with v %s 0 0" % ID, "al al %s in out" % ll("t", [ID]),
                       "al subq 1 s out", "al btw %s %s %s 0 out" % (ID, INT, INT), "al like %s %s 0 0 own out" % (ID, STR), "al ast - 0 [ ] 0 [ ] out", "al nil out", "al op 1 out",
                       "with w subq 1 s 0", "with w subq 1 s 1", "with - subq 1 s 1", "with - subq 1 - 1", "with w subq 0 - 0",
                       "al %s -" % ID, "al %s -" % INT, "al %s -" % ll("t", [ID]), "al bin and 0 %s %s -" % (ID, ID), "al un 0 %s -" % ID, "al tern %s %s %s -" % (ID, ID, ID),
                       "al param p 1 -", "al param - 0 -",
                       "al like %s %s 0 0 own -" % (ID, STR), "al like %s %s 1 1 - -" % (ID, STR), "al btw %s %s %s 0 -" % (ID, INT, INT), "al btw %s %s %s 1 -" % (ID, INT, INT)]), [])
    return K


def main():
    seed = int(sys.argv[1]) if len(sys.argv) > 1 else 1
    quick = "--quick" in sys.argv
    rnd = random.Random(seed)
    out = sys.stdout
    sizes = {}
    cap = 30000 if quick else None
    for name, (gen, wrappers) in kinds(quick).items():
        n = 0
        for base in gen:
            for t in wrap(base, wrappers):
                n += 1
                if cap is not None and n > cap and rnd.random() > 0.05:
                    continue
                if "--sizes" not in sys.argv:
                    out.write(name + "\t" + t + "\n")
        sizes[name] = n
    if "--sizes" in sys.argv:
        for k, v in sizes.items():
            print(k, v)
        print("total", sum(sizes.values()))


if __name__ == "__main__":
    main()
