"""C09, value lists of IN: a list of two or more scalar literals after IN is rendered as ONE tuple literal; that rendering must be
the one the same elements get as a tuple literal (`SELECT (e1, e2)`), which the literal model and spec cover (nesting in tuples,
negation, 64-bit boundaries).  Metamorphic comparison on the implementation: litdump on `(e1, ..)`, on `x IN (e1, ..)` and on
`x IN (e1, ..) AS hit`."""
import os
import random
import subprocess
import verif

INTS = ["0", "1", "255", "9223372036854775807", "9223372036854775808", "18446744073709551615", "18446744073709551616",
        "-1", "-0", "-9223372036854775808", "-9223372036854775809", "-18446744073709551615", "-18446744073709551616",
        "0x10", "0xFFFFFFFFFFFFFFFF", "-0xFFFFFFFFFFFFFFFF", "0b101", "007", "1_000", "340282366920938463463374607431768211456"]
FLOATS = ["1.5", "-1.5", "0.1", "1e10", "-1e-7", "1e21", "123456789.125", ".5", "1.", "0.0", "-0.0", "1e308", "4.9e-324"]
STRS = ["'a'", "''", "'it''s'", "'a\\\\b'", "'tab\\there'", "'é'", "'\\x00'", "'line\\nbreak'"]
OTHER = ["NULL", "true", "false"]


def gen(seed, n):
    r = random.Random(seed)
    out = []
    for a in INTS:                       # every boundary integer next to a small one and next to itself
        out.append("(%s, 1)" % a)
        out.append("(1, %s)" % a)
        out.append("(%s, %s)" % (a, a))
    for pool in (INTS, FLOATS, STRS, INTS + FLOATS, INTS + OTHER, STRS + OTHER, INTS + FLOATS + STRS + OTHER):
        for _ in range(n // 7):
            k = r.choice([2, 2, 3, 4, 12])
            out.append("(" + ", ".join(r.choice(pool) for _ in range(k)) + ")")
    return out


def run(rep, n):
    """Returns (mismatches, summary); a mismatch is (source, tuple rendering, IN rendering, which)."""
    lit = os.path.join(verif.BUILD, "litdump")
    srcs = gen(rep.seed, n)
    inp = "\n".join(s.encode().hex() for s in srcs) + "\n"
    outs = {}
    for name, flags in (("tuple", []), ("in", ["-inlist"]), ("in-alias", ["-inlist-alias"])):
        p = subprocess.run([lit] + flags, input=inp.encode(), stdout=subprocess.PIPE, timeout=900)
        outs[name] = [l.split("\t")[1:] for l in p.stdout.decode().splitlines()]
    mism, compared = [], 0
    for i, s in enumerate(srcs):
        t = outs["tuple"][i] if i < len(outs["tuple"]) else ["ERR", "-"]
        if t[0] != "L":
            continue            # the tuple itself is not one Literal line (e.g. NULL elements force the function form): nothing to compare
        for which in ("in", "in-alias"):
            o = outs[which][i] if i < len(outs[which]) else ["ERR", "-"]
            compared += 1
            if o != t:
                mism.append((s, bytes.fromhex(t[1]).decode("utf-8", "replace") if t[1] != "-" else "", o[0] + " " + (bytes.fromhex(o[1]).decode("utf-8", "replace") if len(o) > 1 and o[1] != "-" else ""), which))
    return mism, {"lists": len(srcs), "compared": compared, "mismatches": len(mism)}
