"""C11 — Explain is a read-only, repeatable function of the statement.
Theorems: coq/Properties/C11.v — restore discipline (a temporary edit with deferred restore leaves memory unchanged
on normal and panicking exit; without defer a panic leaks), and over the regenerated inventory: every tree write is
restored by defer, no package-level writes, no map ranges => output is a function of the statement for every history.
Ties: sharedgen inventory; deep snapshots before/after Explain/ExplainStatements/json.Marshal, repeated calls,
fresh-process comparison after random call histories including panicking calls."""
import os
import conccommon
import verif

TRUSTED = [
    "Coq 8.16.1 kernel and vm_compute; Print Assumptions of every theorem: closed under the global context",
    "translator/cmd/sharedgen inventory (writes, deferred-restore pattern, map ranges) — soundness argument in coq/Conc/SharedCheck.v, trusted",
    "reflection deep snapshot of the harness (all fields incl. unexported, slice lengths and capacities, pointer nil-ness)",
]


def run(rep):
    st = verif.proof_stage(rep, "C11", needs_translators=["sharedgen"], extra_targets=["Conc/SharedObligations.vo"])
    broken = list(st["broken"])
    with verif.Lock():
        g = verif.build_go(("conc",))
    if g["conc"][0] != 0:
        broken.append({"obligation": "build:go-conc", "detail": g["conc"][1][-1500:]})
    rc, table, lists, raw = conccommon.obligations_table()
    found = False
    for name in ("C11.all_tree_writes_restored", "C11.no_map_ranges", "C11.no_package_level_writes"):
        if table and not table.get(name, False):
            broken.append({"obligation": name, "detail": "keys: %s %s" % (lists.get("C11_unrestored_keys"), lists.get("C11_map_range_keys"))})
    if not any(b["obligation"].startswith("build:") for b in broken):
        hexp = conccommon.workload_hex()
        hist = "200" if rep.tier == "quick" else "3000"
        prc, j, races, first = conccommon.run_phase("D", False, hexp, ["-histories", hist])
        mism = j.get("mismatch_count", 0)
        if mism:
            found = True
            rep.violation("history", "Explain/Marshal changed the statement or its output depends on the call history: %d mismatch(es)" % mism,
                          {"mismatches": j.get("mismatches", [])[:5], "by_statement": j.get("mismatches_by_statement", {})},
                          key="history:" + ",".join(sorted(j.get("mismatches_by_statement", {}).keys())[:3]))
        if "error" in j:
            broken.append({"obligation": "harness:conc-D", "detail": str(j["error"])})
        counts = j.get("counts", {})
        rep.coverage.update({
            "evaluations": j.get("calls", 0), "distinct_nontrivial": counts.get("parsed_statements", 0),
            "rule": "per workload statement: deep snapshot before/after Explain, ExplainStatements and json.Marshal; byte-identical repetition; output compared with a fresh process; "
                    "random histories of prior calls incl. calls that panic (typed-nil nodes injected inside the former edit windows)",
            "samples": [l.strip() for l in open(conccommon.WORKLOAD).readlines()[4:8]], "counts": counts, "obligation_table": table, "trusted_base": TRUSTED,
        })
    verif.report_broken(rep, broken, found)
    rep.assumptions = ["json.Marshal of ast nodes does not mutate them (stdlib)"]


def replay(rec):
    print(rec)
    return 0
