#!/usr/bin/env python3
"""C18 case generator and three-way comparison (code vs extracted model vs extracted spec).

usage: gen_type_cases.py <seed> <count> [--run] [--typedump PATH] [--driver PATH] [--keep DIR]
                         [--max-report N] [--deviations PCT] [--mutants PCT] [--extras none|quick|thorough]
                         [--script-dump FILE]

Without --run: prints one case per line on stdout
    <hex source text of T> TAB <tree> TAB <separator style>
  <tree> is the type tree in the prefix notation read by /verif/build/types_driver
  (see /verif/driver/types/main.ml).  Case i depends on (<seed>, i) through splitmix64 only.
  The first cases are systematic: every (parent constructor, child constructor) pair once per separator
  style round; the remaining ones are random trees to depth 4.  Coverage is printed on stderr.

With --run: runs
    code  : /verif/build/typedump     `SELECT CAST(x AS <T>)` and `SELECT x::<T>` through the real parser + Explain
    model : /verif/build/types_driver (extracted TypeModel on the lexer's tokens of <T>)
    spec  : /verif/build/types_driver (extracted TypeSpec: shown, wf_ty, print_ty)
  and checks, per case
    (0) the lexer's tokens of the generated text are print_ty(tree)          (generator / lexer / print_ty agree)
    (1) model = code in both positions unless the model answers OOF          (well-formed trees must not be OOF)
    (2) code CAST form = code :: form                                        ("both positions show the same text")
    (3) wf_ty  =>  code = shown(tree)                                       (the theorem's instance)
    (4) trees containing a construct of one of the FORMER deviation classes F1..F4 (fixed in /repo) are counted
        per class together with the number where code != shown (must be 0 now); R = the residual combination
        excluded from wf_ty (element name that isDataTypeName knows before an unknown plain type name):
        the python classifier says R  =>  wf_ty must be false (cross-check).
    (5) SCRIPT pass: every case that parses alone in both positions is put into ONE script
        `SELECT CAST(x AS T_0); SELECT x::T_0; SELECT CAST(x AS T_1); ...` which `typedump -script` parses with a single
        parser.Parse call (at most SCRIPT_TYPES = 20000 types per script, i.e. one script in the quick tier); its per-statement results must equal the per-case results line by line (state carried from
        one type / statement to the next, e.g. a counter that is not restored, only shows inside one Parse call).
        A difference is reported with the script position and the type text; --script-dump FILE stores the types of the
        script up to and including the first differing one (hex, one per line) for the replay record.
  Exit status 1 on a failure of (0)-(5).

--extras: systematic classes appended after the <count> base cases (case index >= count; default quick):
    bytes  : string arguments whose VALUE is not valid UTF-8 (lone continuation bytes, truncated sequences, 0xFE/0xFF,
             overlong forms, surrogates, beyond U+10FFFF, Latin-1 text), spelled with backslash-xNN escapes, in every string
             position (Enum/Enum8/Enum16 values, DateTime / DateTime64 time zones, Enum without values).  Model and spec
             are over byte strings (list N), so these are ordinary three-way cases.
    strlen : string arguments of every length: <prefix of p filler bytes> <special> <tail of q filler bytes> for the
             specials (doubled quote, backslash-quote, doubled backslash, backslash-n, backslash-xE9) and 2/3/4-byte characters; quick: p in 0..70 and around 128/256/4096 with
             q in a small set, and q in 0..70 with p in a small set; thorough: all p, q in 0..70 too; plus plain
             strings of every length with ASCII and multi-byte filler.
    wide   : one Tuple / named Tuple / Variant / Enum16 with > 1500 arguments, and deeply nested types.

--deviations PCT: percentage of cases allowed to contain a construct of a former deviation class F1..F4 or R
  (default 25).
--mutants PCT: percentage of the random cases (after the systematic ones) replaced by a token-level mutant of a
  generated type (token deleted / duplicated / swapped / replaced by a word the parser treats specially);
  mutants carry no tree ("-") and are only used for check (1): malformed and out-of-fragment inputs must give
  the same answer (text, ERR) in code and model unless the model answers OOF (default 15).
"""
import os
import subprocess
import sys
import tempfile

MASK = (1 << 64) - 1


class SplitMix:
    def __init__(self, seed):
        self.s = seed & MASK

    def next(self):
        self.s = (self.s + 0x9E3779B97F4A7C15) & MASK
        z = self.s
        z = ((z ^ (z >> 30)) * 0xBF58476D1CE4E5B9) & MASK
        z = ((z ^ (z >> 27)) * 0x94D049BB133111EB) & MASK
        return z ^ (z >> 31)

    def below(self, n):
        return self.next() % n

    def choice(self, xs):
        return xs[self.below(len(xs))]

    def chance(self, num, den):
        return self.below(den) < num


def case_rng(seed, i):
    return SplitMix((seed * 0x9E3779B97F4A7C15 + i * 0xD1B54A32D192ED03 + 0x632BE59BD9B4E019) & MASK)


# ---------------------------------------------------------------------------------------------
# vocabulary

DTN = {"INT", "INT8", "INT16", "INT32", "INT64", "INT128", "INT256", "UINT8", "UINT16", "UINT32", "UINT64",
       "UINT128", "UINT256", "FLOAT32", "FLOAT64", "FLOAT", "DOUBLE", "BFLOAT16", "DECIMAL", "DECIMAL32",
       "DECIMAL64", "DECIMAL128", "DECIMAL256", "DEC", "STRING", "FIXEDSTRING", "UUID", "DATE", "DATE32",
       "DATETIME", "DATETIME64", "ENUM", "ENUM8", "ENUM16", "ARRAY", "TUPLE", "MAP", "NESTED", "NULLABLE",
       "LOWCARDINALITY", "BOOL", "BOOLEAN", "IPV4", "IPV6", "NOTHING", "INTERVAL", "JSON", "OBJECT", "VARIANT",
       "AGGREGATEFUNCTION", "SIMPLEAGGREGATEFUNCTION", "POINT", "RING", "POLYGON", "MULTIPOLYGON", "TIME64",
       "TIME", "DYNAMIC", "QBIT"}
# names of this generator's pools whose token is a keyword, not IDENT (token.Lookup of the upper-cased text)
KEYWORD_NAMES = {"ARRAY", "INTERVAL", "KEY", "INDEX", "VALUES", "FORMAT", "FIRST", "LAST"}

PLAIN_KNOWN = ["UInt8", "UInt16", "UInt32", "UInt64", "UInt128", "UInt256", "Int8", "Int16", "Int32", "Int64",
               "Int128", "Int256", "Float32", "Float64", "BFloat16", "String", "UUID", "Date", "Date32",
               "DateTime", "Bool", "IPv4", "IPv6", "Nothing", "Point", "Ring", "Polygon", "MultiPolygon",
               "Dynamic", "Time", "Decimal32", "Interval", "string", "UINT8", "date", "JSON", "Object", "Float",
               "Double", "Boolean", "Dec", "Int", "INT"]
PLAIN_UNKNOWN = ["LineString", "MultiLineString", "Geometry", "BIGINT", "TINYINT", "IntervalDay", "MyType",
                 "Varchar", "TEXT", "_t1", "T2x"]
ELEM_PLAIN = ["a", "b", "c", "id", "x1", "_f", "name", "value", "key", "ts", "n_1", "Index", "first", "k2", "V",
              # element names that are clause keywords of SELECT (a type parameter list is not a select list)
              "from", "to", "where", "limit", "offset", "format", "settings", "into", "having", "order", "group", "by", "with", "final", "sample"]
ELEM_QUOTED = ["a b", "x-y", "1st", "a.b", "sp ace d", "q?", "é", "имя", "日本", "naïve", "x1é", "ſ", "a b", "٣", "a$b", "$x", "x1$", "a$b c"]      # need backticks: not wf_ty, model-vs-code only
ELEM_TYPELIKE = ["date", "time", "string", "Int8", "uuid", "point", "Array", "interval", "bool", "json"]

PARENTS = ["Array", "Nullable", "LowCardinality", "Map", "Tuple", "TupleNamed", "Variant"]
LEAVES = ["Name", "Decimal", "FixedString", "DateTime", "DateTime64", "Enum8", "Enum16", "Enum", "EnumNoVal"]
KINDS = LEAVES + PARENTS

STR_PLAIN = ["UTC", "Europe/Amsterdam", "Asia/Istanbul", "a", "b", "hello", "hello world", "", "Упячка",
             "日本語", "é", "x=1", "a,b", "(", ")", "!#$%&(*+,-./:<=>?@[^`{|}~", "\"dq\"", "A B  C", "0", "-1",
             "😀", "UInt8", "--", "/*", "*/"]
STR_SPECIAL = ["it's", "'", "''", "a\\b", "\\", "\\\\", "tab\there", "\t", "line\nbreak", "\n", "\r\n", "nul\0x",
               "\0", "\b", "\f", "bell\bform\ffeed", "'\\'", "\\'", "it's a \\ mix\tof\nall\0", "Упя'чка",
               "日\\本", "\\n", "\\t"]
# string VALUES that are not valid UTF-8 (the lexer stores the byte given by a \xNN escape; every printer must copy bytes)
STR_BYTES = [b"caf\xe9", b"M\xfcnchen", b"Europe/Z\xfcrich", b"\xe9", b"\xe9t\xe9", b"na\xefve \xa3 5",     # Latin-1 text
             b"\x80", b"\xbf", b"a\x80b", b"\x80\x80\x80", b"x\xa0",                                         # lone continuation bytes
             b"\xc3", b"caf\xc3", b"\xe6\x97", b"\xe6\x97x", b"\xf0\x9f\x98", b"\xf0\x9f", b"\xf0", b"\xc3(",  # truncated sequences
             b"\xff", b"\xfe", b"\xfe\xff", b"\xff\xff\xff\xff", b"a\xffb",                                  # bytes that never occur in UTF-8
             b"\xc0\xaf", b"\xc0\x80", b"\xc1\xbf", b"\xe0\x80\xaf", b"\xe0\x9f\xbf", b"\xf0\x80\x80\xaf",       # overlong forms
             b"\xed\xa0\x80", b"\xed\xbf\xbf", b"\xed\xa0\xbd\xed\xb8\x80",                                  # surrogates (CESU-8)
             b"\xf4\x90\x80\x80", b"\xf8\x88\x80\x80\x80", b"\xfc\x84\x80\x80\x80\x80",                       # beyond U+10FFFF / 5- and 6-byte forms
             b"caf\xe9's", b"\xe9\\\xe8", b"'\xff'", b"\xe9\n\xe8\t", b"\xc3\xa9\xe9\xc3\xa9", b"\xe6\x97\xa5\xe6\x97", b"\x00\xff\x00"]  # mixed with quote / backslash / controls / valid UTF-8

SCRIPT_TYPES = 20000        # types per script of the script pass (2 statements each); the quick tier fits into one script

# classes excluded because they hit a defect of /repo that is reported and still open (name -> reason); empty = nothing excluded
KNOWN_OPEN = {}


def upper(s):
    return s.upper()


def is_dtn(s):
    return upper(s) in DTN


def is_ident_tok(s):
    return upper(s) not in KEYWORD_NAMES


# ---------------------------------------------------------------------------------------------
# trees: ('N', name) | ('A', name, [arg]);  arg: ('t', ty) ('n', name, ty) ('u', n) ('m', n) ('s', bytes) ('e', bytes, neg, n)

def spell(r, name):
    """constructor names are shown as written: mostly the usual spelling, sometimes another letter case"""
    k = r.below(12)
    if k == 0:
        return name.lower()
    if k == 1:
        return name.upper()
    return name


class Gen:
    def __init__(self, r, dev):
        self.r = r
        self.dev = dev          # allow known-deviation constructs in this case
        self.pairs = []         # (parent kind, child kind)

    def string(self, enum):
        r = self.r
        k = r.below(16)
        if k == 0 or k == 1:
            return r.choice(STR_BYTES)                     # not valid UTF-8
        if k == 2 or k == 3:
            return random_long_string(r)                   # any length, specials at any position (also right at the end)
        if self.dev and r.chance(1, 3):
            s = r.choice(STR_SPECIAL)
            if enum and not r.chance(1, 2):
                s = s.replace("'", "q")       # Enum values: only the quote deviates; keep the other specials often
            return s.encode()
        if enum and r.chance(1, 4):
            # Enum values escape everything but the quote correctly: specials without quote are NOT deviations
            return r.choice([x for x in STR_SPECIAL if "'" not in x]).encode()
        return r.choice(STR_PLAIN).encode()

    def plain_name(self, ctx_named):
        r = self.r
        if ctx_named and self.dev and r.chance(1, 4):
            return r.choice(PLAIN_UNKNOWN)
        if r.chance(1, 10) and (self.dev or not ctx_named):
            return r.choice(PLAIN_UNKNOWN)
        return r.choice(PLAIN_KNOWN)

    def number(self):
        r = self.r
        k = r.below(20)
        if k == 0:
            return r.choice([(1 << 63) - 1, 1 << 63, (1 << 64) - 1, 1 << 32])
        if k == 1:
            return 0
        return r.below(77)

    def elem_name(self, ty):
        r = self.r
        if r.chance(1, 25):
            return r.choice(ELEM_QUOTED)
        if self.dev and (not is_ident_tok(ty[1]) or not is_dtn(ty[1])) and r.chance(1, 2):
            return r.choice(ELEM_TYPELIKE)      # former F4 (keyword-token type) / residual R (unknown plain type)
        if self.dev and r.chance(1, 5):
            return r.choice(ELEM_TYPELIKE)
        if r.chance(1, 12):
            # type-like name before an IDENT type that isDataTypeName knows: recognised by the code
            h = ty[1]
            if is_dtn(h) and is_ident_tok(h):
                return r.choice(ELEM_TYPELIKE)
        return r.choice(ELEM_PLAIN)

    def enum_args(self, bits):
        r = self.r
        n = 1 + r.below(4)
        if r.chance(1, 10):
            n = r.choice([15, 16, 17, 20, 33, 64])     # long value lists (any size-dependent path of the printer)
        lo, hi = (-128, 127) if bits == 8 else (-32768, 32767)
        args = []
        for _ in range(n):
            k = r.below(6)
            if k == 0:
                v = lo
            elif k == 1:
                v = hi
            elif k == 2:
                v = -1 - r.below(-lo)
            elif k == 3:
                v = 0
            else:
                v = r.below(hi + 1)
            args.append(('e', self.string(True), v < 0, abs(v)))
        return args

    def build(self, kind, depth, ctx_named, force_child=None):
        """a type of constructor kind `kind`; `force_child`: kind of (one of) its type arguments"""
        r = self.r
        if kind == "Name":
            return ('N', self.plain_name(ctx_named))
        if kind == "Decimal":
            nm = r.choice(["Decimal", "Decimal", "Decimal32", "Decimal64", "Decimal128", "Decimal256", "DECIMAL"])
            if nm.upper() == "DECIMAL" and r.chance(3, 4):
                return ('A', nm, [('u', 1 + r.below(76)), ('u', r.below(40))])
            return ('A', nm, [('u', self.number())])
        if kind == "FixedString":
            return ('A', spell(r, "FixedString"), [('u', self.number() + (1 if r.chance(9, 10) else 0))])
        if kind == "DateTime":
            return ('A', spell(r, "DateTime"), [('s', self.string(False))])
        if kind == "DateTime64":
            args = [('u', r.below(10))]
            if r.chance(3, 4):
                args.append(('s', self.string(False)))
            if r.chance(1, 25):
                args[0] = ('m', r.below(10))
            return ('A', spell(r, "DateTime64"), args)
        if kind == "Enum8":
            return ('A', spell(r, "Enum8"), self.enum_args(8))
        if kind == "Enum16":
            return ('A', spell(r, "Enum16"), self.enum_args(16))
        if kind == "Enum":
            return ('A', spell(r, "Enum"), self.enum_args(r.choice([8, 16])))
        if kind == "EnumNoVal":
            n = 1 + r.below(3)
            return ('A', r.choice(["Enum", "Enum8", "Enum16"]), [('s', self.string(False)) for _ in range(n)])
        # parents
        def child(named_ctx, forced):
            ck = forced if forced is not None else self.pick_kind(depth - 1)
            self.pairs.append((kind, ck))
            return self.build(ck, depth - 1, named_ctx)
        if kind in ("Array", "Nullable", "LowCardinality"):
            return ('A', spell(r, kind), [('t', child(False, force_child))])
        if kind == "Map":
            if force_child is not None and r.chance(1, 2):
                k, v = child(False, None), child(False, force_child)
            else:
                k, v = child(False, force_child), child(False, None)
            return ('A', spell(r, "Map"), [('t', k), ('t', v)])
        if kind == "Variant":
            n = 1 + r.below(3)
            pos = r.below(n)
            return ('A', spell(r, "Variant"),
                    [('t', child(False, force_child if j == pos else None)) for j in range(n)])
        if kind == "Tuple":
            n = 1 + r.below(4)
            pos = r.below(n)
            nm = spell(r, "Tuple") if not r.chance(1, 30) else "Nested"
            return ('A', nm, [('t', child(True, force_child if j == pos else None)) for j in range(n)])
        if kind == "TupleNamed":
            n = 1 + r.below(4)
            pos = r.below(n)
            nm = spell(r, "Tuple") if not r.chance(1, 30) else "Nested"
            args = []
            for j in range(n):
                t = child(False, force_child if j == pos else None)   # the type after a name is read by parseDataType
                if j > 0 and r.chance(1, 12):
                    args.append(('t', self.retype_for_named_ctx(t)))  # mixed named / unnamed
                else:
                    args.append(('n', self.elem_name(t), t))
            return ('A', nm, args)
        raise ValueError(kind)

    def retype_for_named_ctx(self, t):
        if t[0] == 'N' and not is_dtn(t[1]) and not self.dev:
            return ('N', "String")
        return t

    def pick_kind(self, depth):
        r = self.r
        if depth <= 0:
            return r.choice(LEAVES)
        if r.chance(2, 3):
            return r.choice(PARENTS)
        return r.choice(LEAVES)


LENS_POW = [126, 127, 128, 129, 130, 254, 255, 256, 257, 258, 4094, 4095, 4096, 4097, 4098]
LENS = list(range(0, 71)) + LENS_POW
FILL = b"abcdefghijklmnopqrstuvwxyz0123456789ABCDEFGHIJKLMNOPQRSTUVWXYZ_-+/:. "
ATOMS_PLAIN = [bytes([c]) for c in FILL] + ["é".encode(), "я".encode(), "日".encode(), "😀".encode()]
ATOMS_SPECIAL = [b"'", b"'", b"\\", b"\n", b"\t", b"\0", b"\xe9", b"\xff", b"\x80", "é".encode(), "日".encode(), "😀".encode()]


def fill(n, off=0):
    """n filler bytes (no byte that any escaping touches); position-dependent, so a cut or a shift is visible"""
    reps = (n + off) // len(FILL) + 2
    return (FILL * reps)[off:off + n]


def random_long_string(r):
    k = r.below(8)
    if k < 5:
        n = r.below(71)
    elif k < 7:
        n = r.choice(LENS_POW[:10])
    else:
        n = r.choice(LENS_POW)
    out = bytearray()
    dense = r.chance(1, 4)
    while len(out) < n:
        if r.chance(1, 3 if dense else 12):
            out += r.choice(ATOMS_SPECIAL)
        else:
            out += r.choice(ATOMS_PLAIN)
    if r.chance(1, 2):
        # a special right at the end, or a few bytes before it
        tail = fill(r.below(4), r.below(40))
        out += r.choice(ATOMS_SPECIAL) + tail
    return bytes(out)


# ---------------------------------------------------------------------------------------------
# code_ok, as TypeSpec defines it (cross-checked with the driver's flag) and the deviation classes

def deviations(t, out):
    if t[0] == 'N':
        return
    named = upper(t[1]) in ("TUPLE", "NESTED", "JSON", "OBJECT")
    for a in t[2]:
        if a[0] == 't':
            if named and not is_dtn(a[1][1]):
                out.add("F3")
            deviations(a[1], out)
        elif a[0] == 'n':
            h = a[2][1]
            if is_dtn(a[1]) and not is_dtn(h):
                out.add("R")
            elif is_dtn(a[1]) and not is_ident_tok(h):
                out.add("F4")
            deviations(a[2], out)
        elif a[0] == 's':
            if any(b in a[1] for b in b"\\'\n\t\r\0\b\f"):
                out.add("F1")
        elif a[0] == 'e':
            if b"'" in a[1]:
                out.add("F2")


# ---------------------------------------------------------------------------------------------
# rendering with separators

SEP_STYLES = ["tight", "canonical", "spaces", "newlines", "comments", "mixed"]


def hx(b):
    return b.hex() if b else "-"


def utf8_len(b, i):
    """length of the valid UTF-8 sequence (in Go's and Python's strict sense) starting at b[i], 0 when there is none"""
    for n in (2, 3, 4):
        try:
            if len(b[i:i + n].decode("utf-8")) == 1 and i + n <= len(b):
                return n
        except UnicodeDecodeError:
            pass
    return 0


def render_string(r, b, style):
    """a SQL string literal (valid UTF-8 source text) whose lexer value is the BYTE string b: bytes that are not part of a
    valid UTF-8 sequence are spelled \\xNN (the source text itself must be valid UTF-8: the lexer reads runes)"""
    out = bytearray(b"'")
    fancy = style != "canonical"
    i = 0
    while i < len(b):
        c = b[i]
        i += 1
        if c >= 0x80:
            n = utf8_len(b, i - 1)
            if n and not r.chance(1, 16):
                out += b[i - 1:i - 1 + n]
                i += n - 1
            else:
                out += (b"\\x%02X" if r.chance(1, 2) else b"\\x%02x") % c     # also valid sequences, byte by byte, now and then
            continue
        if c == 0x27:
            out += b"''" if r.chance(1, 2) else b"\\'"
        elif c == 0x5C:
            out += b"\\\\"
        elif c == 0x0A:
            out += b"\n" if (fancy and r.chance(1, 2)) else b"\\n"
        elif c == 0x09:
            out += b"\t" if (fancy and r.chance(1, 2)) else b"\\t"
        elif c == 0x0D:
            out += b"\r" if (fancy and r.chance(1, 2)) else b"\\r"
        elif c == 0x00:
            out += b"\\0" if r.chance(1, 2) else b"\\x00"
        elif c == 0x08:
            out += b"\\b"
        elif c == 0x0C:
            out += b"\\f"
        elif c >= 0x20 and c != 0x7F and r.chance(1, 64):
            out += b"\\x%02x" % c                                               # \x41 is A
        else:
            out.append(c)
    out += b"'"
    return bytes(out)


def tokens_of(r, t, style, out):
    """out: list of (class, bytes); class w = word-like (needs a separator from another word), p = punctuation, m = minus"""
    if t[0] == 'N':
        out.append(('w', t[1].encode()))
        return
    out.append(('w', t[1].encode()))
    out.append(('p', b"("))
    for j, a in enumerate(t[2]):
        if j:
            out.append(('c', b","))
        if a[0] == 't':
            tokens_of(r, a[1], style, out)
        elif a[0] == 'n':
            nm = a[1].encode()
            if not all(chr(c).isalnum() or c == 0x5F for c in nm) or nm[:1].isdigit():
                nm = (b"`" + nm + b"`") if r.chance(2, 3) else (b'"' + nm + b'"')
            out.append(('w', nm))
            tokens_of(r, a[2], style, out)
        elif a[0] == 'u':
            out.append(('w', str(a[1]).encode()))
        elif a[0] == 'm':
            out.append(('m', b"-"))
            out.append(('w', str(a[1]).encode()))
        elif a[0] == 's':
            out.append(('p', a[2] if len(a) > 2 else render_string(r, a[1], style)))      # a[2]: fixed source spelling
        elif a[0] == 'e':
            out.append(('p', a[4] if len(a) > 4 else render_string(r, a[1], style)))      # a[4]: fixed source spelling
            out.append(('p', b"="))
            if a[2]:
                out.append(('m', b"-"))
            out.append(('w', str(a[3]).encode()))
    out.append(('p', b")"))


SPACEY = [b" ", b"  ", b"\t", b"\n", b" \n ", b"\r\n", b"      ", b"\n\n\t"]
COMMENTS = [b" /* c */ ", b"/**/", b" -- line\n", b" /* a /* nested */ b */", b"\n# hash\n", b" --\n",
            b"/* ' */", b"/* ) */", b" -- ')\n"]


def sep_for(r, style, prev, nxt):
    need = prev[0] == 'w' and nxt[0] == 'w'
    if style == "tight":
        return b" " if need else b""
    if style == "canonical":
        if prev[0] == 'c':
            return b" "
        if nxt[1] == b"=" or prev[1] == b"=":
            return b" "
        return b" " if need else b""
    if style == "spaces":
        return r.choice([b" ", b"  ", b"     "]) if (need or r.chance(2, 3)) else b""
    if style == "newlines":
        return r.choice(SPACEY) if (need or r.chance(2, 3)) else b""
    if style == "comments":
        if need or r.chance(1, 2):
            s = r.choice(COMMENTS)
            if need and s == b"/**/":
                s = b" /**/ "
            return s
        return b""
    # mixed
    k = r.below(4)
    if k == 0 and not need:
        return b""
    if k == 1:
        return r.choice(SPACEY)
    if k == 2:
        s = r.choice(COMMENTS)
        return b" " + s if need else s
    return b" "


MUT_WORDS = [b"UNSIGNED", b"signed", b"PRECISION", b"VARYING", b"LARGE", b"OBJECT", b"CHAR", b"CHARACTER",
             b"INT", b"BIGINT", b"DOUBLE", b"NCHAR", b"BINARY", b"NATIONAL", b"COLLATE", b"SKIP", b"JSON",
             b"Nested", b"Tuple", b"Array", b"NULL", b"INF", b"TIMESTAMP", b"DATE", b"ANY", b"ALL", b"AS", b"x"]
MUT_PUNCT = [b"=", b"==", b"+", b"-", b".", b"::", b"(", b")", b",", b"*", b"[", b"]", b"'s'", b"1", b"0x1f",
             b"1.5", b"1e3", b"18446744073709551616", b".5", b"?", b"{p:UInt8}"]


def mutate(r, toks):
    toks = list(toks)
    n = 1 + r.below(2)
    for _ in range(n):
        k = r.below(6)
        j = r.below(len(toks))
        if k == 0 and len(toks) > 1:
            del toks[j]
        elif k == 1:
            toks.insert(j, toks[j])
        elif k == 2 and len(toks) > 1:
            j = r.below(len(toks) - 1)
            toks[j], toks[j + 1] = toks[j + 1], toks[j]
        elif k == 3:
            toks[j] = ('w', r.choice(MUT_WORDS))
        elif k == 4:
            toks.insert(j, ('w', r.choice(MUT_WORDS)))
        else:
            toks.insert(j, ('w', r.choice(MUT_PUNCT)))     # class w: always separated by a space
    return toks


def render(r, t, style, mutant=False):
    toks = []
    tokens_of(r, t, style, toks)
    if mutant:
        toks = mutate(r, toks)
        return b" ".join(tk[1] for tk in toks)
    out = bytearray()
    # leading / trailing separators (never a bare line comment at the very end of the CAST form: it would swallow `)`)
    if style in ("spaces", "newlines", "mixed") and r.chance(1, 3):
        out += r.choice([b" ", b"\n", b"  "])
    if style == "comments" and r.chance(1, 3):
        out += b"/* lead */ "
    for j, tk in enumerate(toks):
        if j:
            out += sep_for(r, style, toks[j - 1], tk)
        out += tk[1]
    if style in ("spaces", "newlines", "mixed") and r.chance(1, 3):
        out += r.choice([b" ", b"\n", b"  "])
    if style == "comments" and r.chance(1, 3):
        out += b" /* trail */"
    return bytes(out)


def tree_str(t):
    if t[0] == 'N':
        return "N " + hx(t[1].encode())
    return "A %s %d %s" % (hx(t[1].encode()), len(t[2]), " ".join(arg_str(a) for a in t[2]))


def arg_str(a):
    if a[0] == 't':
        return "t " + tree_str(a[1])
    if a[0] == 'n':
        return "n %s %s" % (hx(a[1].encode()), tree_str(a[2]))
    if a[0] == 'u':
        return "u %d" % a[1]
    if a[0] == 'm':
        return "m %d" % a[1]
    if a[0] == 's':
        return "s " + hx(a[1])
    return "e %s %d %d" % (hx(a[1]), 1 if a[2] else 0, a[3])


def canon_py(t):
    """readable rendering for reports only (not used for any comparison)"""
    if t[0] == 'N':
        return t[1]
    parts = []
    for a in t[2]:
        if a[0] == 't':
            parts.append(canon_py(a[1]))
        elif a[0] == 'n':
            parts.append(a[1] + " " + canon_py(a[2]))
        elif a[0] == 'u':
            parts.append(str(a[1]))
        elif a[0] == 'm':
            parts.append("-" + str(a[1]))
        elif a[0] == 's':
            parts.append(repr(a[1])[1:])
        else:
            parts.append("%s = %s%d" % (repr(a[1])[1:], "-" if a[2] else "", a[3]))
    return t[1] + "(" + ", ".join(parts) + ")"


# ---------------------------------------------------------------------------------------------

ALL_PAIRS = [(p, c) for p in PARENTS for c in KINDS]


def make_case(seed, i, dev_pct, mut_pct=0):
    r = case_rng(seed, i)
    style = SEP_STYLES[i % len(SEP_STYLES)]
    dev = r.below(100) < dev_pct
    g = Gen(r, dev)
    nsys = len(ALL_PAIRS) * len(SEP_STYLES)
    if i < nsys:
        # systematic part: pair number (i // styles) under style (i % styles), at a random nesting depth 0..2
        p, c = ALL_PAIRS[i // len(SEP_STYLES)]
        t = g.build(p, 2, False, force_child=c)
        for _ in range(r.below(3)):
            t = ('A', r.choice(["Array", "Nullable", "LowCardinality"]), [('t', t)])
    else:
        k = g.pick_kind(4)
        t = g.build(k, 4 if not r.chance(1, 3) else 2, False)
        if r.below(100) < mut_pct:
            return None, "mutant", render(r, t, "canonical", mutant=True), []
    return t, style, render(r, t, style), g.pairs


# ---------------------------------------------------------------------------------------------
# systematic extra classes (case index >= count): bytes, strlen, wide

def holders(j, arg_s, arg_e):
    """the string positions of the property's constructors; arg_s / arg_e build the 's' / 'e' argument"""
    hs = [
        lambda: ('A', "DateTime", [arg_s()]),
        lambda: ('A', "DateTime64", [('u', 3), arg_s()]),
        lambda: ('A', "Enum8", [arg_e(False, 1)]),
        lambda: ('A', "Enum16", [arg_e(True, 5)]),
        lambda: ('A', "Enum", [arg_e(False, 0)]),
        lambda: ('A', "Enum", [arg_s()]),
        lambda: ('A', "Enum8", [('e', b"a", False, 1), arg_e(False, 2)]),
        lambda: ('A', "Enum16", [arg_s(), ('s', b"b")]),
        lambda: ('A', "Array", [('t', ('A', "Nullable", [('t', ('A', "DateTime", [arg_s()]))]))]),
        lambda: ('A', "Tuple", [('n', "a", ('A', "DateTime64", [('u', 9), arg_s()])), ('n', "b", ('N', "String"))]),
        lambda: ('A', "Map", [('t', ('A', "LowCardinality", [('t', ('A', "Enum8", [arg_e(True, 128)]))])), ('t', ('N', "UInt8"))]),
        lambda: ('A', "Variant", [('t', ('A', "Enum", [arg_e(False, 7), ('e', b"z", False, 8)])), ('t', ('N', "String"))]),
    ]
    return hs[j % len(hs)]()


NHOLDERS = 12

# (name, source spelling, value)
STRLEN_SPECIALS = [("''", b"''", b"'"), ("\\'", b"\\'", b"'"), ("\\\\", b"\\\\", b"\\"), ("\\n", b"\\n", b"\n"),
                   ("\\xE9", b"\\xE9", b"\xe9"), ("2-byte", "é".encode(), "é".encode()),
                   ("3-byte", "日".encode(), "日".encode()), ("4-byte", "😀".encode(), "😀".encode())]
SMALL_SET = [0, 1, 2, 6, 31, 32, 33]


def strlen_grid(extras):
    """(p, q) = (filler bytes before the special, filler bytes after it)"""
    g = set()
    for p in LENS:
        for q in (SMALL_SET if p <= 70 else [0, 1, 33]):
            g.add((p, q))
    for q in range(0, 71):
        for p in SMALL_SET:
            g.add((p, q))
    if extras == "thorough":
        for p in range(0, 71):
            for q in range(0, 71):
                g.add((p, q))
        for p in LENS_POW:
            for q in range(0, 71):
                g.add((p, q))
        for q in LENS_POW:
            for p in SMALL_SET:
                g.add((p, q))
        # the special at every stream offset around the reader's 4096-byte buffer boundary when the case is parsed alone
        # (the statement text before the string is 20..60 bytes long; inside the script every alignment occurs anyway)
        for p in range(4030, 4094):
            for q in (0, 1, 33):
                g.add((p, q))
    return sorted(g)


def wide_tree(kind, n):
    names = [x for x in PLAIN_KNOWN if is_ident_tok(x) and upper(x) not in ("INT", "JSON", "OBJECT")]
    small = [lambda k: ('N', names[k % len(names)]),
             lambda k: ('N', names[(7 * k + 3) % len(names)]),
             lambda k: ('A', "Array", [('t', ('A', "Nullable", [('t', ('N', names[k % len(names)]))]))]),
             lambda k: ('A', "DateTime", [('s', b"UTC")]),
             lambda k: ('A', "Decimal", [('u', 10), ('u', k % 10)]),
             lambda k: ('A', "Enum8", [('e', b"v%d" % k, k % 2 == 1, k % 128)]),
             lambda k: ('A', "Tuple", [('t', ('N', "UInt8")), ('t', ('N', "String"))])]
    if kind == "tuple-plain":
        return ('A', "Tuple", [('t', ('N', names[k % len(names)])) for k in range(n)])
    if kind == "variant-plain":
        return ('A', "Variant", [('t', ('N', names[(k * 5 + 1) % len(names)])) for k in range(n)])
    if kind == "tuple-named":
        return ('A', "Tuple", [('n', "c%d" % k, small[k % 3](k)) for k in range(n)])
    if kind == "variant-mixed":
        return ('A', "Variant", [('t', small[k % len(small)](k)) for k in range(n)])
    if kind == "tuple-mixed-nested":
        return ('A', "Map", [('t', ('N', "String")), ('t', ('A', "Array", [('t', ('A', "Tuple", [('t', small[(k + 2) % len(small)](k)) for k in range(n)]))]))])
    if kind == "enum16":
        return ('A', "Enum16", [('e', b"v%d" % k, False, k) for k in range(n)])
    if kind == "enum-novalues":
        return ('A', "Enum", [('s', b"label %d" % k) for k in range(n)])
    if kind == "deep-array":
        t = ('N', "UInt8")
        for _ in range(n):
            t = ('A', "Array", [('t', t)])
        return t
    if kind == "deep-mixed":
        t = ('A', "DateTime64", [('u', 3), ('s', b"UTC")])
        for k in range(n):
            w = k % 5
            if w == 0:
                t = ('A', "Array", [('t', t)])
            elif w == 1:
                t = ('A', "Nullable", [('t', t)])
            elif w == 2:
                t = ('A', "Tuple", [('n', "a", t), ('n', "b", ('N', "String"))])
            elif w == 3:
                t = ('A', "Map", [('t', ('N', "String")), ('t', t)])
            else:
                t = ('A', "Variant", [('t', ('N', "UInt8")), ('t', t)])
        return t
    raise ValueError(kind)


def extra_cases(seed, extras):
    """[(tree, style, text, class)] — deterministic in (seed, extras)"""
    out = []
    if extras == "none":
        return out
    j = 0

    def rng():
        return case_rng(seed, (1 << 40) + len(out))

    # bytes: every invalid-UTF-8 value in every string position
    if "bytes" not in KNOWN_OPEN:
        for v in STR_BYTES:
            for h in range(NHOLDERS):
                r = rng()
                t = holders(h, lambda: ('s', v), lambda neg, n: ('e', v, neg, n))
                style = SEP_STYLES[len(out) % len(SEP_STYLES)]
                out.append((t, style, render(r, t, style), "bytes"))
    # strlen: prefix / special / tail
    if "strlen" not in KNOWN_OPEN:
        grid = strlen_grid(extras)
        for (name, src, val) in STRLEN_SPECIALS:
            for (p, q) in grid:
                r = rng()
                off = (p * 7 + q) % len(FILL)
                pre, post = fill(p, off), fill(q, (off + 11) % len(FILL))
                if q and name in ("''", "\\'"):
                    post = (b"s bank" + post)[:q]
                value = pre + val + post
                source = b"'" + pre + src + post + b"'"
                t = holders(j, lambda: ('s', value, source), lambda neg, n: ('e', value, neg, n, source))
                j += 1
                style = ("tight", "canonical", "spaces")[j % 3]
                out.append((t, style, render(r, t, style), "strlen"))
        # plain strings of every length, ASCII and multi-byte filler (no special)
        for n in LENS:
            for unit in (None, "é".encode(), "日".encode(), "😀".encode()):
                r = rng()
                value = fill(n, n % 13) if unit is None else (unit * (n // len(unit) + 1))[:n - n % len(unit)] + fill(n % len(unit))
                source = b"'" + value + b"'"
                t = holders(j, lambda: ('s', value, source), lambda neg, n_: ('e', value, neg, n_, source))
                j += 1
                out.append((t, "canonical", render(r, t, "canonical"), "strlen"))
    # wide and deep
    if "wide" not in KNOWN_OPEN:
        sizes = [1600] if extras == "quick" else [1600, 5000, 12000]
        depths = [64, 300] if extras == "quick" else [64, 300, 1000]
        for n in sizes:
            for kind in ("tuple-plain", "variant-plain", "tuple-named", "variant-mixed", "tuple-mixed-nested", "enum16", "enum-novalues"):
                if n > 5000 and kind not in ("tuple-plain", "variant-mixed"):
                    continue        # the extracted model is quadratic in the argument count (about 4 s at 12000)
                r = rng()
                t = wide_tree(kind, n)
                style = SEP_STYLES[len(out) % len(SEP_STYLES)]
                out.append((t, style, render(r, t, style), "wide"))
        for n in depths:
            for kind in ("deep-array", "deep-mixed"):
                r = rng()
                t = wide_tree(kind, n)
                style = ("tight", "canonical", "newlines")[len(out) % 3]
                out.append((t, style, render(r, t, style), "wide"))
    return out


def kind_of(t):
    if t[0] == 'N':
        return "Name"
    u = upper(t[1])
    if u in ("TUPLE", "NESTED"):
        return "TupleNamed" if any(a[0] == 'n' for a in t[2]) else "Tuple"
    for k in PARENTS:
        if u == k.upper():
            return k
    if u.startswith("DECIMAL"):
        return "Decimal"
    if u == "FIXEDSTRING":
        return "FixedString"
    if u == "DATETIME":
        return "DateTime"
    if u == "DATETIME64":
        return "DateTime64"
    if u in ("ENUM", "ENUM8", "ENUM16"):
        if all(a[0] == 's' for a in t[2]):
            return "EnumNoVal"
        return {"ENUM": "Enum", "ENUM8": "Enum8", "ENUM16": "Enum16"}[u]
    return "Name"


def depth_of(t):
    if t[0] == 'N':
        return 0
    d = 0
    for a in t[2]:
        if a[0] == 't':
            d = max(d, depth_of(a[1]))
        elif a[0] == 'n':
            d = max(d, depth_of(a[2]))
    return 1 + d


def real_pairs(t, out):
    """(parent kind, child kind) pairs actually present in the tree"""
    if t[0] == 'N':
        return
    pk = kind_of(t)
    for a in t[2]:
        c = a[1] if a[0] == 't' else a[2] if a[0] == 'n' else None
        if c is not None:
            out.append((pk, kind_of(c)))
            real_pairs(c, out)


def dec(h):
    """the answer as bytes (so that %r shows bytes that are not UTF-8 as \\xNN), ERR / PANIC / OOF:... as text"""
    if h in ("-", ""):
        return b""
    try:
        return bytes.fromhex(h)
    except ValueError:
        return h


def short(a, b=None):
    """%r of the decoded answer a; long answers are cut to the neighbourhood of the first difference from b"""
    x = dec(a)
    if len(x) <= 300:
        return repr(x)
    y = dec(b) if b is not None else b""
    if not isinstance(y, type(x)):
        y = x[:0]
    k = 0
    while k < min(len(x), len(y)) and x[k] == y[k]:
        k += 1
    lo = max(0, k - 60)
    return "(%d bytes, first difference at byte %d) ...%r..." % (len(x), k, x[lo:k + 60])


def run_sharded(cmd, in_path, tmp, shards=8):
    """one-line-in / one-line-out filter over consecutive pieces of the input in parallel; returns the concatenated output"""
    lines = open(in_path).read().splitlines(True)
    if len(lines) < 4 * shards:
        return subprocess.run(cmd, stdin=open(in_path), capture_output=True, text=True, check=True).stdout
    # pieces of about equal BYTE size (a few cases are very long)
    total = sum(len(l) for l in lines)
    pieces, cur, acc = [], [], 0
    for l in lines:
        cur.append(l)
        acc += len(l)
        if acc >= total / shards and len(pieces) < shards - 1:
            pieces.append(cur)
            cur, acc = [], 0
    pieces.append(cur)
    procs = []
    for k, part in enumerate(pieces):
        pi = "%s.part%d" % (in_path, k)
        with open(pi, "w") as f:
            f.writelines(part)
        procs.append((subprocess.Popen("ulimit -s unlimited 2>/dev/null; exec " + " ".join(cmd) + " < " + pi + " > " + pi + ".out",
                                       shell=True, executable="/bin/bash"), pi))
    out = []
    for pr, pi in procs:
        pr.wait()
        if pr.returncode != 0:
            raise RuntimeError("%s failed on %s (rc %s)" % (cmd, pi, pr.returncode))
        out.append(open(pi + ".out").read())
        os.remove(pi)
        os.remove(pi + ".out")
    return "".join(out)


def main(argv):
    args = [a for a in argv[1:]]
    opts = {"--typedump": "/verif/build/typedump", "--driver": "/verif/build/types_driver", "--keep": None,
            "--max-report": "5", "--deviations": "25", "--mutants": "15", "--extras": "quick", "--script-dump": None, "--types-out": None}
    run = False
    pos = []
    j = 0
    while j < len(args):
        a = args[j]
        if a == "--run":
            run = True
        elif a in opts:
            opts[a] = args[j + 1]
            j += 1
        else:
            pos.append(a)
        j += 1
    if len(pos) != 2:
        sys.stderr.write(__doc__)
        return 2
    seed = int(pos[0]) if pos[0] != "env" else int(os.environ.get("VERIF_SEED", "1"))
    count = int(pos[1])
    dev_pct = int(opts["--deviations"])
    mut_pct = int(opts["--mutants"])
    maxrep = int(opts["--max-report"])

    sys.setrecursionlimit(100000)
    cases = []
    classes = []
    pair_count = {}
    depth_hist = {}
    style_hist = {}
    argkinds = {}
    extras = extra_cases(seed, opts["--extras"])
    class_hist = {}
    for i in range(count + len(extras)):
        if i < count:
            t, style, text, _ = make_case(seed, i, dev_pct, mut_pct)
            cls = "base"
        else:
            t, style, text, cls = extras[i - count]
        cases.append((t, style, text))
        classes.append(cls)
        class_hist[cls] = class_hist.get(cls, 0) + 1
        style_hist[style] = style_hist.get(style, 0) + 1
        if t is None:
            continue
        if cls == "wide":
            count_args(t, argkinds)
            continue
        ps = []
        real_pairs(t, ps)
        for p in ps:
            pair_count[p] = pair_count.get(p, 0) + 1
        depth_hist[depth_of(t)] = depth_hist.get(depth_of(t), 0) + 1
        count_args(t, argkinds)

    covered = [p for p in ALL_PAIRS if pair_count.get(p, 0) > 0]
    missing = [p for p in ALL_PAIRS if pair_count.get(p, 0) == 0]
    cov = ("coverage: parent/child constructor pairs %d/%d (min count %d), depth histogram %s, styles %s, "
           "argument kinds %s" % (
               len(covered), len(ALL_PAIRS),
               min([pair_count.get(p, 0) for p in ALL_PAIRS]) if ALL_PAIRS else 0,
               dict(sorted(depth_hist.items())), style_hist, dict(sorted(argkinds.items()))))
    if missing:
        cov += "; MISSING pairs: %s" % missing[:10]
    lens_seen = sorted(set(strlens(cases, classes)))
    cov2 = ("extra classes %s: bytes = %d values that are not valid UTF-8 x %d string positions; strlen = %d specials x (prefix, tail) grid "
            "of %d points + plain strings, string value lengths covered %s; wide = argument counts up to %d, depth up to %d; KNOWN_OPEN %s" % (
                {k: v for k, v in sorted(class_hist.items()) if k != "base"}, len(STR_BYTES), NHOLDERS, len(STRLEN_SPECIALS),
                len(strlen_grid(opts["--extras"])) if opts["--extras"] != "none" else 0, ranges(lens_seen),
                max([len(t[2]) for (t, _, _), c in zip(cases, classes) if c == "wide"] or [0]),
                max([depth_of(t) for (t, _, _), c in zip(cases, classes) if c == "wide"] or [0]), sorted(KNOWN_OPEN) or "none"))

    if not run:
        out = sys.stdout
        for t, style, text in cases:
            out.write("%s\t%s\t%s\n" % (hx(text), tree_str(t) if t is not None else "-", style))
        sys.stderr.write(cov + "\n" + cov2 + "\n")
        return 0

    keep = opts["--keep"]
    tmp = keep or tempfile.mkdtemp(prefix="c18types.")
    os.makedirs(tmp, exist_ok=True)
    fin = os.path.join(tmp, "cases.hex")
    with open(fin, "w") as f:
        for t, style, text in cases:
            f.write(hx(text) + "\n")
    hout = run_sharded([opts["--typedump"]], fin, tmp)
    hl = hout.splitlines()
    if len(hl) != len(cases):
        print("FAIL harness produced %d lines for %d cases" % (len(hl), len(cases)))
        return 1
    din = os.path.join(tmp, "driver.in")
    with open(din, "w") as f:
        for line, (t, style, text) in zip(hl, cases):
            h, a, b, toks = line.split("\t")
            f.write("%s\t%s\t%s\n" % (h, toks, tree_str(t) if t is not None else "-"))
    dout = run_sharded([opts["--driver"]], din, tmp)
    dl = dout.splitlines()
    if len(dl) != len(cases):
        print("FAIL driver produced %d lines for %d cases" % (len(dl), len(cases)))
        return 1
    if keep:
        open(os.path.join(tmp, "harness.out"), "w").write(hout)
        open(os.path.join(tmp, "driver.out"), "w").write(dout)

    # (5) script pass: every case that parses alone in both positions, all in ONE parser.Parse call
    NOTEXT = ("ERR", "PANIC", "SHAPE", "BADHEX")
    script_idx = [i for i, l in enumerate(hl) if l.split("\t")[1] not in NOTEXT and l.split("\t")[2] not in NOTEXT]
    sin = os.path.join(tmp, "script.in")
    with open(sin, "w") as f:
        for i in script_idx:
            f.write(hx(cases[i][2]) + "\n")
    if opts["--types-out"]:
        # the type texts that parse alone in both cast positions (for the operand pass of checks/c18.py)
        with open(opts["--types-out"], "w") as f:
            for i in script_idx:
                f.write(hx(cases[i][2]) + "\n")
    sp = subprocess.run([opts["--typedump"], "-script", str(SCRIPT_TYPES)], stdin=open(sin), capture_output=True, text=True)
    sl = sp.stdout.splitlines()
    if keep:
        open(os.path.join(tmp, "script.out"), "w").write(sp.stdout)
    if sp.returncode != 0 or len(sl) != len(script_idx):
        print("FAIL typedump -script: rc %d, %d lines for %d cases %s" % (sp.returncode, len(sl), len(script_idx), sp.stderr[-300:]))
        return 1

    n_tok_bad = n_model_bad = n_pos_bad = n_thm_bad = n_cls_bad = 0
    n_script_bad = n_script_skip = 0
    first_script_bad = None
    n_oof = n_wf = n_thm = n_mut = n_mut_oof = n_resid = 0
    mut_same = {}
    resid_answers = {}
    oof_reasons = {}
    fclass = {}          # class -> [cases, cases where code != shown]
    reports = []

    def report(kind, i, msg, order=None):
        txt = cases[i][2]
        shown_txt = repr(txt) if len(txt) <= 400 else repr(txt[:200]) + "...(%d bytes)..." % len(txt) + repr(txt[-120:])
        reports.append((kind, len(txt) if order is None else order, "%s case=%d seed=%d text=%s class=%s hex=%s %s" % (
            kind, i, seed, shown_txt, classes[i], hx(txt) if len(txt) <= 20000 else "-", msg[:1500])))

    for i, (hline, dline, (t, style, text)) in enumerate(zip(hl, dl, cases)):
        h, ca, cb, _ = hline.split("\t")
        h2, ma, mb, spec = dline.split("\t")
        assert h == h2
        if t is None:
            n_mut += 1
            for (c, m, posn) in ((ca, ma, "CAST"), (cb, mb, "::")):
                if m.startswith("OOF:"):
                    n_mut_oof += 1
                    oof_reasons[m] = oof_reasons.get(m, 0) + 1
                elif m != c:
                    n_model_bad += 1
                    report("MODEL", i, "%s code=%s model=%s" % (posn, short(c, m), short(m, c)))
                else:
                    mut_same[("ERR" if m == "ERR" else "text")] = mut_same.get(("ERR" if m == "ERR" else "text"), 0) + 1
            continue
        f = dict(x.split("=") for x in spec.split(";")[1:])
        shown = spec.split(";")[0]
        wf, toks = f["wf"] == "1", f["toks"] == "1"
        n_wf += wf
        if not toks:
            n_tok_bad += 1
            report("TOKENS", i, "lexer tokens differ from print_ty(tree) %s" % tree_str(t))
        for (c, m, posn) in ((ca, ma, "CAST"), (cb, mb, "::")):
            if m.startswith("OOF:"):
                n_oof += 1
                oof_reasons[m] = oof_reasons.get(m, 0) + 1
                if wf:
                    n_model_bad += 1
                    report("MODEL-OOF", i, "%s well-formed tree but model says %s" % (posn, m))
            elif m != c:
                n_model_bad += 1
                report("MODEL", i, "%s code=%s model=%s" % (posn, short(c, m), short(m, c)))
        if ca != cb:
            n_pos_bad += 1
            report("POSITIONS", i, "CAST=%s ::=%s" % (short(ca, cb), short(cb, ca)))
        devs = set()
        deviations(t, devs)
        if "R" in devs:
            n_resid += 1
            if wf:
                n_cls_bad += 1
                report("CLASSIFIER", i, "python says residual combination but wf_ty = true")
            else:
                resid_answers[dec(ca) if ca in ("ERR", "PANIC", "SHAPE") else "text"] = \
                    resid_answers.get(dec(ca) if ca in ("ERR", "PANIC", "SHAPE") else "text", 0) + 1
        if wf:
            n_thm += 1
            differs = not (ca == shown and cb == shown)
            if differs:
                n_thm_bad += 1
                report("SPEC", i, "expected %s, CAST form %s, :: form %s, type %s" % (
                    short(shown, ca if ca != shown else cb), short(ca, shown), short(cb, shown), canon_py(t)[:300]))
            if devs:
                key = "+".join(sorted(devs))
                e = fclass.setdefault(key, [0, 0])
                e[0] += 1
                e[1] += differs

    for k, (i, sline) in enumerate(zip(script_idx, sl)):
        if sline == hl[i]:
            continue
        sh_, sa, sb, _ = sline.split("\t")
        h, ca, cb, _ = hl[i].split("\t")
        if sa == "SKIP" and sb == "SKIP":
            n_script_skip += 1
            continue
        n_script_bad += 1
        if first_script_bad is None:
            first_script_bad = k
        kk = k % SCRIPT_TYPES
        nscr = min(SCRIPT_TYPES, len(script_idx) - (k - kk))
        for (posn, one, scr, stno) in (("CAST", ca, sa, 2 * kk), ("::", cb, sb, 2 * kk + 1)):
            if one != scr and scr != "SKIP":
                report("SCRIPT", i, "position=%s script-statement=%d of %d (type number %d in script %d): alone %s, inside the script %s%s" % (
                    posn, stno, 2 * nscr, kk, k // SCRIPT_TYPES, short(one, scr), short(scr, one),
                    "" if cases[i][0] is None else " type " + canon_py(cases[i][0])[:300]), order=k)
                break
    if first_script_bad is not None and opts["--script-dump"]:
        with open(opts["--script-dump"], "w") as f:
            for i in script_idx[first_script_bad - first_script_bad % SCRIPT_TYPES:first_script_bad + 1]:
                f.write(hx(cases[i][2]) + "\n")

    print(cov)
    print(cov2)
    print("script pass: %d cases = %d statements in %d parser.Parse call(s) of at most %d statements (scripts of %d bytes in all): %d cases differ from their per-case result, %d skipped after the restart limit" % (
        len(script_idx), 2 * len(script_idx), (len(script_idx) + SCRIPT_TYPES - 1) // SCRIPT_TYPES, 2 * SCRIPT_TYPES,
        sum(len(cases[i][2]) * 2 + 30 for i in script_idx), n_script_bad, n_script_skip))
    print("tree cases %d: wf %d (theorem instances checked against the code: %d), residual combination R (not wf) %d %s" % (
        len(cases) - n_mut, n_wf, n_thm, n_resid, resid_answers))
    print("mutants (text only) %d: model = code on %s answers, model OOF on %d answers" % (n_mut, mut_same, n_mut_oof))
    print("model OOF answers on trees %d; all OOF reasons %s" % (n_oof, oof_reasons))
    print("former deviation classes on wf trees (cases, of which code != spec): %s" % dict(sorted(fclass.items())))
    bad = n_tok_bad + n_model_bad + n_pos_bad + n_thm_bad + n_cls_bad + n_script_bad
    print("disagreements: tokens %d, model-vs-code %d, CAST-vs-:: %d, spec-vs-code on wf trees %d, classifier %d, script-vs-single %d" % (
        n_tok_bad, n_model_bad, n_pos_bad, n_thm_bad, n_cls_bad, n_script_bad))
    bad_by_class = {}
    for kind, _, m in reports:
        c = m.split(" class=")[1].split(" ")[0] if " class=" in m else "?"
        bad_by_class[(kind, c)] = bad_by_class.get((kind, c), 0) + 1
    if bad_by_class:
        print("reports by (kind, case class): %s" % dict(sorted(bad_by_class.items())))
    shown_kinds = {}
    for kind, _, m in sorted(reports, key=lambda x: (x[0], x[1])):
        shown_kinds[kind] = shown_kinds.get(kind, 0) + 1
        if shown_kinds[kind] <= maxrep:
            print(m)
    if missing:
        print("FAIL coverage: missing pairs %s" % missing)
        bad += 1
    print("RESULT %s" % ("FAIL" if bad else "PASS"))
    if not keep:
        for fn in os.listdir(tmp):
            os.remove(os.path.join(tmp, fn))
        os.rmdir(tmp)
    return 1 if bad else 0


def ranges(xs):
    """[0,1,2,5,6] -> '0-2,5-6'"""
    out, j = [], 0
    while j < len(xs):
        k = j
        while k + 1 < len(xs) and xs[k + 1] == xs[k] + 1:
            k += 1
        out.append(str(xs[j]) if k == j else "%d-%d" % (xs[j], xs[k]))
        j = k + 1
    return ",".join(out)


def strlens(cases, classes):
    """byte lengths of the string values of the bytes / strlen cases"""
    def walk(t):
        if t[0] == 'N':
            return
        for a in t[2]:
            if a[0] in ('s', 'e') and ((a[0] == 's' and len(a) > 2) or (a[0] == 'e' and len(a) > 4)):
                yield len(a[1])
            elif a[0] == 't':
                yield from walk(a[1])
            elif a[0] == 'n':
                yield from walk(a[2])
    for (t, _, _), c in zip(cases, classes):
        if c == "strlen":
            yield from walk(t)


def count_args(t, out):
    if t[0] == 'N':
        out["name"] = out.get("name", 0) + 1
        return
    for a in t[2]:
        k = {'t': "type", 'n': "named", 'u': "num", 'm': "neg", 's': "str", 'e': "enum"}[a[0]]
        out[k] = out.get(k, 0) + 1
        if a[0] == 'e' and a[2]:
            out["enum-negative"] = out.get("enum-negative", 0) + 1
        if a[0] in ('s', 'e'):
            b = a[1]
            if b == b"":
                out["str-empty"] = out.get("str-empty", 0) + 1
            if b"'" in b:
                out["str-quote"] = out.get("str-quote", 0) + 1
            if b"\\" in b:
                out["str-backslash"] = out.get("str-backslash", 0) + 1
            if any(c >= 0x80 for c in b):
                out["str-utf8"] = out.get("str-utf8", 0) + 1
                try:
                    b.decode("utf-8")
                except UnicodeDecodeError:
                    out["str-invalid-utf8"] = out.get("str-invalid-utf8", 0) + 1
            if len(b) >= 32:
                out["str-len>=32"] = out.get("str-len>=32", 0) + 1
            if any(c < 0x20 for c in b):
                out["str-control"] = out.get("str-control", 0) + 1
        if a[0] == 't':
            count_args(a[1], out)
        if a[0] == 'n':
            count_args(a[2], out)


if __name__ == "__main__":
    sys.exit(main(sys.argv))
