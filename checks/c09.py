"""C09 — literals keep their value and print in ClickHouse's canonical form.
Theorems: coq/Properties/C09.v — strings: for every byte string v, lexing quote(v) yields STRING v (over the lexer model)
and the printer model renders it as canon_string v (two-level escaping), independent spec; integers: UInt64_/Int64_ ranges,
-0, overflow into the float branch, hex/binary/octal by value in every spelling (either letter case, leading zeros, '_'
separators), for ALL n (from 2^64 on the float64 nearest to n: big.Int.SetString is transcribed); floats: the fixed/exponent layout of FormatFloat equals
an independent canon_float for every digit string and exponent (strconv's shortest digits are a Section-variable oracle);
nesting in arrays/tuples and negation at any depth.
Tie: three-way comparison code / extracted model (lexer model + literal model) / spec on all 1- and 2-byte strings, integer
boundaries, float boundaries and random cases, with strconv's digits recorded from Go (checks/gen_literal_cases.py)."""
import os
import re
import verif

TRUSTED = [
    "Coq 8.16.1 kernel and vm_compute; Print Assumptions of every theorem: closed under the global context",
    "oracle (Section variables, explicit premises of the theorems): strconv.ParseFloat / FormatFloat(f,'e',-1,64) return the shortest round-tripping digits and decimal exponent; the %e/%f digit layout of strconv is transcribed by hand; both are exercised by the correspondence (Go's digits cross-checked against Python's repr)",
    "hand-written models Expr/LiteralModel.v (parseNumber chain incl. strconv.ParseUint/ParseInt and big.Int.SetString(s, 0), unary-minus folding, FormatLiteral, array/tuple printers) and Lexer/LexerModel.v, tied by correspondence; extraction (ExtrOcamlBasic only)",
]


def run(rep):
    st = verif.proof_stage(rep, "C09", needs_translators=["gentables"])
    broken = list(st["broken"])
    broken += verif.build_topic(go_pkgs=("litdump",), drivers=(("literal", "literal_ex"),))
    found = False
    if not any(b["obligation"].startswith("build:") for b in broken):
        count = 6000 if rep.tier == "quick" else 300000
        rc, out = verif.sh(["python3", os.path.join(verif.ROOT, "checks", "gen_literal_cases.py"), str(rep.seed), str(count), "--run"], timeout=3000)
        lines = out.splitlines()
        # findings: code deviates from the spec on a literal the property covers
        keys = [l.split() for l in lines if l.startswith("FINDING-KEY")]
        by_class = {}
        for k in keys:
            if len(k) >= 3:
                by_class.setdefault(k[1], []).append(k[2])
        for cls, srcs in sorted(by_class.items()):
            if cls == "float-text-rejected-by-strconv":
                continue   # decimal texts that overflow float64: outside the property's quantifier (finite float64 values)
            srcs.sort(key=len)
            found = found or (rep.is_known(key=cls) is None)
            rep.violation("input", "literal class %s prints non-canonically, e.g. %s" % (cls, bytes.fromhex(srcs[0]).decode("utf-8", "replace")[:80]),
                          {"class": cls, "input_hex": srcs[0], "count": len(srcs)}, key=cls)
        spec_bad = [l for l in lines if "CODE!=SPEC" in l]
        for l in spec_bad[:5]:
            found = True
            m = re.search(r"src=([0-9a-f]+)", l)
            rep.violation("input", "literal prints non-canonically: " + l[:300], {"detail": l[:3000], "input_hex": m.group(1) if m else ""}, input_hex=m.group(1) if m else l[:64])
        model_bad = [l for l in lines if "CODE!=MODEL" in l]
        if model_bad or (rc not in (0,) and not spec_bad):
            broken.append({"obligation": "correspondence:lexer+parseNumber+FormatLiteral~LiteralModel", "detail": ("\n".join(model_bad[:3]) or out[-1500:])[:3000], "count": len(model_bad)})
        nums = {}
        for l in lines:
            for m in re.finditer(r"\b(cases|with tree|wf)\b[ =:]+([0-9,]+)", l):
                nums.setdefault(m.group(1), int(m.group(2).replace(",", "")))
        rep.coverage.update({
            "evaluations": nums.get("cases", count), "distinct_nontrivial": nums.get("wf", 0),
            "rule": "all 65,792 one- and two-byte strings through quote and quote_raw, each also nested in arrays/tuples; every escape; integer boundaries +-{0,1,2^31,2^32,2^53,2^63,2^64}+-2, powers of ten, random 64-bit and a band to 2^70 in decimal/hex/binary/octal spellings with leading zeros and '_', prefixed literals up to 2^1030 (largest finite float, inf), upper-case prefixes/digits, negated prefixed literals alone and nested; "
                    "float boundaries and random bit patterns in several spellings, negated and in arrays; malformed spellings (code vs model only); distinct_nontrivial = well-formed literal trees on which code = model = spec was checked",
            "samples": [l[:200] for l in lines if l.startswith("   case=")][:4] + [l for l in lines if l.startswith("FINDING class")][:3],
            "summary": [l for l in lines[-12:] if l.strip()][:12], "trusted_base": TRUSTED,
        })
    # the string-literal theorems are stated over Lexer/LexerModel.v / LexerStrings.v: tie that model to the CURRENT lexer.go (a difference is a broken correspondence)
    import lexcommon
    lexcommon.lexer_premise(rep, broken, ())
    # value lists of IN are rendered as one tuple literal: the same elements must get the rendering they get as a tuple literal
    if not any(b["obligation"].startswith("build:") for b in broken):
        import c09_inlist
        verif.build_go(("litdump",))
        mism, summ = c09_inlist.run(rep, 700 if rep.tier == "quick" else 20000)
        rep.coverage["in_value_lists"] = summ
        for (src, t, o, which) in mism[:5]:
            found = True
            sql = "SELECT x IN " + src + (" AS hit" if which == "in-alias" else "")
            rep.violation("input", "a literal in the value list of IN prints differently from the same literal in a tuple: %s gives %s, SELECT %s gives Literal %s" % (sql, o[:120], src, t[:120]),
                          {"sql": sql, "in_rendering": o, "tuple_rendering": t}, input_hex=sql.encode().hex())
    verif.report_broken(rep, broken, found)
    rep.assumptions = ["decimal float texts that overflow float64 (1e999) are outside the property's quantifier (finite float64 values); the code prints them as string literals"]


def replay(rec):
    import subprocess
    p = subprocess.run([os.path.join(verif.BUILD, "litdump")], input=(rec.get("input_hex", "-") + "\n").encode(), stdout=subprocess.PIPE)
    print(p.stdout.decode())
    return 0
