"""C17 — keywords stay usable as names, and the keyword table is consistent.
Theorems: coq/Properties/C17.v (table half, over the token table regenerated from token.go on every run: unique
non-empty upper-case spellings, Lookup round trip and 'from no other string', IsKeyword) and coq/Properties/C17_naming.v
(every keyword in any letter case as column name after a dot, column alias and table alias, over the SELECT-core parser
and printer models, with the per-keyword side condition computed over the regenerated table).
Ties: the token-table translator; exhaustive probes of the real API for every keyword of the current table x three
naming positions x four letter cases; the SELECT-core correspondence."""
import os
import verif

TRUSTED = [
    "Coq 8.16.1 kernel and vm_compute; Print Assumptions of every theorem: closed under the global context",
    "translator/cmd/gentables: token constants and the `tokens` array read from token.go by syntax; model of token.init/Lookup/IsKeyword in Lexer/LexerModel.v (last entry wins, missing entry = empty string)",
    "naming half: hand-written SELECT-core parser/printer model (Select/SelectParseModel.v, SelectPrintModel.v) validated by correspondence",
]


def run(rep):
    st = verif.proof_stage(rep, "C17", needs_translators=["gentables"])
    broken = list(st["broken"])
    broken += verif.build_topic(go_pkgs=("kwnames",))
    found = False
    if not any(b["obligation"].startswith("build:") for b in broken):
        rc, out = verif.sh([os.path.join(verif.BUILD, "kwnames"), "-x"], timeout=900)
        lines = out.splitlines()
        bad = [l for l in lines if l.startswith("BAD")]
        summ = [l for l in lines if l.startswith("SUMMARY")]
        for l in bad[:10]:
            found = True
            p = l.split("\t")
            rep.violation("input", "keyword %s at %s spelled %s: %s" % (p[1], p[2], p[3], " ".join(p[4:])[:300]), {"keyword": p[1], "position": p[2], "spelling": p[3], "detail": p[4][:2000]},
                          input_hex=("%s|%s|%s" % (p[1], p[2], p[3])).encode().hex())
        if rc != 0 or not summ:
            broken.append({"obligation": "harness:kwnames", "detail": out[-500:]})
        nums = dict(x.split("=") for x in summ[0].split("\t")[1:]) if summ else {}
        rep.coverage.update({
            "evaluations": int(nums.get("probes", 0)), "distinct_nontrivial": int(nums.get("probes", 0)) - int(nums.get("keywords", 0)),
            "rule": "exhaustive over the keyword tokens of the current token table: table clauses per keyword; `SELECT t.<kw> FROM t`, `SELECT 1 AS <kw>`, `SELECT 1 FROM t AS <kw>` in upper, lower and two mixed letter cases, "
                    "each must parse without error and show `Identifier t.<sp>` / `Literal UInt64_1 (alias <sp>)` / `TableIdentifier t (alias <sp>)` with the user's spelling; the same three probes inside 11 embedding contexts (subquery, CTE, CREATE VIEW/TABLE ... AS, INSERT SELECT, UNION branch, EXPLAIN, IN subquery, parentheses); "
                    "and the extended product: the name after a dot behind 5 kinds of qualifier (table, db.table, keyword alias, subquery alias) in 3 expression positions; the column alias behind 19 kinds of aliased expression (literals, calls, arithmetic, array/tuple literals, :: and CAST, subquery, CASE, NULL ...) x 10 followers (comma, FROM, WHERE, UNION, ORDER BY, FORMAT, SETTINGS, LIMIT, WITH TOTALS); the table alias behind 4 kinds of table expression x 16 followers (WITH TOTALS, JOIN, SAMPLE, PREWHERE, ARRAY JOIN, FINAL ...): each must parse and show the user's spelling; distinct_nontrivial = naming probes",
            "samples": [l for l in lines[200:204]], "keywords": int(nums.get("keywords", 0)), "exhaustive": True, "trusted_base": TRUSTED,
        })
    import searchcommon
    b2, summ = searchcommon.run_selectcore(rep, 3000 if rep.tier == "quick" else 40000)
    broken += b2
    rep.coverage["selectcore_correspondence"] = summ
    verif.report_broken(rep, broken, found)
    rep.assumptions = []


def replay(rec):
    print(rec)
    return 0
