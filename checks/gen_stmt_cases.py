#!/usr/bin/env python3
"""Case generator for the C04 count-vs-emit correspondence of the statement printers outside the SELECT and
DDL models (statements.go INSERT .. PARALLEL WITH, the inline printers of explain.go, dictionary.go, tables.go):
       real printers (/verif/build/stmtcount)  vs  extracted model (/verif/build/stmtcount_driver).

usage: gen_stmt_cases.py <seed> [--quick]        (cases on stdout)

Case syntax: /verif/harness/cmd/stmtcount/main.go (<kind> TAB <spec>, one digit per field).

Every kind is enumerated EXHAUSTIVELY over the domains below (the full product of the values of every field
the printer reads) in the thorough tier.  The quick tier keeps the full product for every kind with at most
QUICK_MAX combinations and, for the larger ones (DRP, ATT), every combination of the fields that
interact in the tally (QUICK_CORE) with the remaining fields drawn from <seed> through splitmix64 and the case
index, plus a seeded sample of the full product.
"""
import sys
from itertools import product

MASK = (1 << 64) - 1
QUICK_MAX = 60000
QUICK_SAMPLE = 1500


def mix(z):
    z = (z + 0x9E3779B97F4A7C15) & MASK
    z = ((z ^ (z >> 30)) * 0xBF58476D1CE4E5B9) & MASK
    z = ((z ^ (z >> 27)) * 0x94D049BB133111EB) & MASK
    return z ^ (z >> 31)


class Rng:
    def __init__(self, *keys):
        s = 0x9E3779B97F4A7C15
        for k in keys:
            s = mix((s ^ (k & MASK)) & MASK)
        self.s = s

    def next(self):
        self.s = (self.s + 0x9E3779B97F4A7C15) & MASK
        return mix(self.s)

    def pick(self, xs):
        return xs[self.next() % len(xs)]


B = (0, 1)
SHOW_TYPES = ["TABLES", "DATABASES", "PROCESSLIST", "CREATE", "CREATE_DATABASE", "CREATE_DICTIONARY", "CREATE_VIEW", "CREATE_USER",
              "CREATE_ROLE", "CREATE_POLICY", "CREATE_ROW_POLICY", "CREATE_QUOTA", "CREATE_SETTINGS_PROFILE", "COLUMNS", "DICTIONARIES",
              "FUNCTIONS", "SETTINGS", "SETTING", "GRANTS", "ROLES", "USERS", "engines", "X_Y"]
N_SINGLE = 22

# kind -> [(field, domain)]
KINDS = {
    "INS": [("Infile", B), ("Compression", B), ("Function", B), ("Database", B), ("Table", B), ("ColumnExpressions", (0, 1, 2)),
            ("Columns", (0, 1, 2)), ("AllColumns", B), ("PartitionBy", (0, 1, 2)), ("Select", (0, 1, 2, 3, 4)), ("With", (0, 1, 2)),
            ("HasSettings", B)],
    "DRP": [("User", B), ("Function", B), ("Role", B), ("Quota", B), ("Policy", B), ("RowPolicy", B), ("SettingsProfile", B), ("Index", B),
            ("Tables", (0, 1, 2, 3)), ("Database", B), ("Table", B), ("View", B), ("Dictionary", B), ("DropDatabase", B), ("Format", B),
            ("Settings", (0, 1, 2))],
    "UND": [("Database", B), ("Table", B), ("Format", B)],
    "REN": [("RenameDatabase", B), ("Settings", (0, 1, 2)), ("Pairs", (0, 1, 2, 3)), ("FromDatabase1", B), ("ToDatabase1", B),
            ("FromDatabase2", B), ("ToDatabase2", B), ("FromDatabase3", B), ("ToDatabase3", B)],
    "EXC": [("Database1", B), ("Database2", B)],
    "TRU": [("Database", B), ("TruncateDatabase", B), ("Settings", (0, 1, 2))],
    "OPT": [("Database", B), ("Final", B), ("Cleanup", B), ("Dedupe", B), ("Partition", (0, 1, 2, 3)), ("PartitionByID", B),
            ("Settings", (0, 1, 2))],
    "DEL": [("Partition", B), ("Where", B), ("Settings", (0, 1, 2))],
    "CHK": [("Database", B), ("Format", B), ("Settings", (0, 1, 2))],
    "USE": [("-", (0,))],
    "DSC": [("TableExpr", B), ("TableFunction", B), ("Database", B), ("Table", B), ("Format", B), ("Settings", (0, 1, 2))],
    "EXS": [("ExistsType", (0, 1, 2, 3, 4)), ("Database", B), ("Settings", (0, 1, 2))],
    "SHW": [("Database", B), ("From", B), ("Format", B), ("HasSettings", B), ("MultipleUsers", B)],
    "SYS": [("Command", (0, 1, 2)), ("Database", B), ("Table", B), ("DuplicateTableOutput", B), ("Settings", (0, 1, 2))],
    "EXP": [("ExplainType", tuple(range(9))), ("ExplicitType", B), ("HasSettings", B), ("Statement", (0, 1, 2, 3, 4)), ("Format", B),
            ("Settings", B), ("SettingsAfterFormat", B), ("UnionSettings", B), ("UnionSettingsAfterFormat", B),
            ("UnionSettingsBeforeFormat", B), ("Nested", B)],
    "DET": [("Database", B), ("Table", B), ("Dictionary", B)],
    "ATT": [("Database", B), ("Table", B), ("Dictionary", B), ("Columns", (0, 1, 2)), ("ColumnsPrimaryKey", (0, 1, 2, 3)),
            ("HasEmptyColumnsPrimaryKey", B), ("Indexes", (0, 1, 2)), ("Engine", (0, 1, 2, 3, 4)), ("OrderBy", (0, 1, 2)),
            ("PrimaryKey", (0, 1, 2)), ("IsMaterializedView", B), ("PartitionBy", B), ("SelectQuery", B), ("Settings", (0, 1, 2))],
    "BAK": [("Restore", B), ("Target", (0, 1, 2, 3)), ("Format", B)],
    "KIL": [("Where", (0, 1, 2, 3, 4, 5)), ("Sync", B), ("Test", B), ("Format", B), ("Settings", (0, 1, 2))],
    "CIX": [("Type", B), ("ColumnsParenthesized", B), ("Columns", (0, 1, 2, 3)), ("Kind", (0, 3))],
    "ASG": [("Value", B)],
    "UPD": [("Database", B), ("Where", B), ("Assignments", (0, 1, 2, 3))],
    "PAR": [("Statements", (0, 1, 2, 3)), ("Kind", (0, 1, 2, 3))],
    "FMT": [("Which", (0, 1, 2, 3, 4)), ("Format", B), ("Several", B)],
    "RES": [("-", (0,))],
    "WRK": [("Parent", B)],
    "DAT": [("Type", B), ("Default", B), ("Expression", B)],
    "DDF": [("PrimaryKey", (0, 1, 2)), ("Source", (0, 1, 2)), ("Lifetime", B), ("Layout", (0, 1, 2)), ("Range", B), ("Settings", (0, 1, 2))],
    "TEL": [("ArrayJoin", (0, 1, 2)), ("Table", B), ("Join", B)],
    "TEX": [("Table", tuple(range(8))), ("Alias", B), ("Sample", (0, 1, 2))],
    "TJN": [("On", B), ("Using", (0, 1, 2))],
}

# the fields entering the tallies together (quick tier of the big kinds): all their combinations are kept
QUICK_CORE = {
    "INS": ["Infile", "Compression", "Function", "Database", "Table", "ColumnExpressions", "Columns", "AllColumns", "Select", "HasSettings"],
    "DRP": ["Index", "Tables", "Database", "Table", "View", "DropDatabase", "Format", "Settings"],
    "ATT": ["Database", "Table", "Dictionary", "Columns", "ColumnsPrimaryKey", "Indexes", "Engine", "OrderBy", "IsMaterializedView", "SelectQuery"],
    "EXP": ["ExplainType", "HasSettings", "Statement", "Format", "Settings", "SettingsAfterFormat", "UnionSettings", "UnionSettingsAfterFormat"],
}


def size(kind):
    n = 1
    for _, dom in KINDS[kind]:
        n *= len(dom)
    return n


def fmt(kind, values, extra=""):
    return "%s\t%s%s" % (kind, extra, "".join(str(v) for v in values))


def emit_kind(kind, seed, quick, out, extra=""):
    fields = KINDS[kind]
    doms = [d for _, d in fields]
    if not quick or size(kind) <= QUICK_MAX:
        for combo in product(*doms):
            out.append(fmt(kind, combo, extra))
        return
    core = QUICK_CORE[kind]
    idx = [i for i, (f, _) in enumerate(fields) if f in core]
    # the small values of the core fields (0, 1 and the largest) are enough to hit every branch of the tallies
    cdoms = []
    for i in idx:
        d = doms[i]
        cdoms.append(d if len(d) <= 3 else (d[0], d[1], d[-1]))
    for ci, combo in enumerate(product(*cdoms)):
        rng = Rng(seed, 41, sum(ord(c) for c in kind), ci)
        v = [rng.pick(d) for d in doms]
        for i, x in zip(idx, combo):
            v[i] = x
        out.append(fmt(kind, v, extra))
    for si in range(QUICK_SAMPLE):
        rng = Rng(seed, 42, sum(ord(c) for c in kind), si)
        out.append(fmt(kind, [rng.pick(d) for d in doms], extra))


def main():
    args = [a for a in sys.argv[1:] if not a.startswith("--")]
    flags = [a for a in sys.argv[1:] if a.startswith("--")]
    if len(args) != 1:
        sys.stderr.write(__doc__)
        sys.exit(2)
    seed = int(args[0])
    quick = "--quick" in flags
    if "--sizes" in flags:
        for k in KINDS:
            print(k, size(k) * (len(SHOW_TYPES) if k == "SHW" else 1))
        return
    out = []
    for kind in KINDS:
        if kind == "SHW":
            for ty in SHOW_TYPES:
                emit_kind(kind, seed, quick, out, extra=ty + ":")
        else:
            emit_kind(kind, seed, quick, out)
    for k in range(N_SINGLE):
        out.append("ONE\t%02d" % k)
    sys.stdout.write("\n".join(out) + "\n")


if __name__ == "__main__":
    main()
