"""C03 — input accepted without error yields a usable AST.
Theorems: coq/Properties/C03_nil.v — over the regenerated graphs of package parser: every pointer-to-interface conversion
has a certainly non-nil operand (or is reviewed), parseStatement normalises typed nils, and the AST schema (Gen/AstSchema.v)
admits no type on which json.Marshal can fail other than a cycle or a non-finite float; coq/Properties/C03_fragment.v —
for the SELECT core: no error => well-formed statement and the printer model returns non-empty well-formed text.
Ties: translators; SELECT-core correspondence; implementation-side search: on every accepted input (corpus, mutants, short
token sequences) walk the tree by reflection for nil / typed-nil, json.Marshal, Explain and ExplainStatements under recover."""
import os
import searchcommon
import verif

TRUSTED = [
    "Coq 8.16.1 kernel and vm_compute; Print Assumptions of every theorem: closed under the global context",
    "translator/cmd/nilgen (conversion sites, AST schema) — over-approximation argument trusted; encoding/json's failure modes as modelled in Nil/SchemaCheck.v",
    "printers outside the SELECT-core model: search only (partial)",
]


def run(rep):
    st = verif.proof_stage(rep, "C03", needs_translators=["gentables", "nilgen"])
    broken = list(st["broken"])
    broken += verif.build_topic(go_pkgs=("psearch",))
    found = False
    if not any(b["obligation"].startswith("build:") for b in broken):
        tier = rep.tier if not broken else "targeted"
        res = searchcommon.run_search(rep, tier, statuses=("C03",))
        for (stt, hx, detail, tk, steps) in res["hits"][:10]:
            found = True
            rep.violation("input", "accepted input with unusable AST: " + detail[:200], {"input_hex": hx, "detail": detail}, input_hex=hx)
        if res["rc"] != 0:
            broken.append({"obligation": "harness:psearch", "detail": res["err"]})
        rep.coverage.update({
            "evaluations": res["n"], "distinct_nontrivial": res["accepted"],
            "rule": "inputs as for C01 (corpus, mutants, grammar statements, literal substitution, exhaustive short sequences, nesting probes); for every input that Parse accepts with a nil error (nesting <= 1000): no nil statement, reflection walk of all exported fields for typed-nil pointers in interface-typed fields and elements, "
                    "json.Marshal of every statement, Explain of every statement and ExplainStatements non-empty and panic-free; distinct_nontrivial = accepted inputs",
            "samples": res["samples"], "input_distribution": res["dist"], "status_counts": res["counts"], "trusted_base": TRUSTED,
        })
    b2, summ = searchcommon.run_selectcore(rep, 1500 if rep.tier == "quick" else 40000)
    broken += b2
    rep.coverage["selectcore_correspondence"] = summ
    verif.report_broken(rep, broken, found)
    rep.assumptions = ["nesting depth <= 1000 (as in the property)"]


def replay(rec):
    import subprocess
    p = subprocess.run([searchcommon.PSEARCH, "run"], input=(rec["input_hex"] + "\n").encode(), stdout=subprocess.PIPE)
    print(p.stdout.decode())
    return 0
