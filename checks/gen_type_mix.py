#!/usr/bin/env python3
"""gen_type_mix.py <seed> <count>  — type expressions for the robustness searches (C01 / C02 / C03), one hex SQL text per line.

Every type constructor the parser knows (and a few it does not) is given every KIND of argument, valid for it or not: a bare
type, a parameterised type, a named element, a dotted path with a type, `k = v`, SKIP forms, numbers, strings, identifiers,
function-like items, nothing at all — nested to depth 4, written in the three places a type is parsed (x::T, CAST(x AS T), a
column definition) and then damaged by ONE token edit (drop / duplicate / swap / replace) in a part of the cases.  The point is
the combination the corpus never has: constructor A directly inside constructor B followed by a malformed tail.
Statement i is a function of (seed, i)."""
import sys

CONS = ["Array", "Nullable", "LowCardinality", "Tuple", "Map", "Nested", "Variant", "JSON", "Object", "Dynamic", "Enum8", "Enum16", "Enum",
        "FixedString", "Decimal", "Decimal64", "DateTime", "DateTime64", "Time64", "AggregateFunction", "SimpleAggregateFunction",
        "Interval", "QBit", "Custom", "MyType", "Point", "Int8", "String"]
SIMPLE = ["UInt8", "String", "Int64", "Float64", "Date", "UUID", "Bool", "IPv4", "Nothing", "Dynamic", "JSON", "Point", "IntervalDay", "BIGINT", "DOUBLE PRECISION"]
TOKENS = ["(", ")", ",", "=", "-", "'s'", "1", "a", ".", "SKIP", "REGEXP", "String", "Array", "NULL", "::", "AS", "[", "]", "", "", ""]


class Rng:
    def __init__(self, seed):
        self.s = (seed * 0x9E3779B97F4A7C15 + 0x1234567) & 0xFFFFFFFFFFFFFFFF

    def next(self):
        self.s ^= (self.s << 13) & 0xFFFFFFFFFFFFFFFF
        self.s ^= self.s >> 7
        self.s ^= (self.s << 17) & 0xFFFFFFFFFFFFFFFF
        return self.s

    def below(self, n):
        return self.next() % n

    def pick(self, xs):
        return xs[self.below(len(xs))]


def ty(r, d):
    """token list of a type expression"""
    if d >= 4 or r.below(4) == 0:
        return [r.pick(SIMPLE)]
    c = r.pick(CONS)
    n = r.below(4)
    out = [c, "("]
    for i in range(n):
        if i:
            out.append(",")
        out += arg(r, d + 1)
    out.append(")")
    return out


def arg(r, d):
    k = r.below(14)
    if k < 5:
        return ty(r, d)
    if k == 5:
        return [r.pick(["a", "b", "`x y`", "key", "from", "n1"])] + ty(r, d)
    if k == 6:
        return [r.pick(["a", "a1"]), ".", r.pick(["b", "c"])] + ty(r, d)
    if k == 7:
        return [r.pick(["max_dynamic_paths", "max_types", "a", "'k'"]), "=", r.pick(["1", "-1", "'v'", "b"])]
    if k == 8:
        return ["SKIP"] + r.pick([["a"], ["a", ".", "b"], ["REGEXP", "'x.*'"], []])
    if k == 9:
        return [r.pick(["1", "0", "-", "3", "65536", "1.5", "18446744073709551616"])]
    if k == 10:
        return [r.pick(["'UTC'", "'a' = 1", "'it''s'", "''", "'json'"])]
    if k == 11:
        return [r.pick(["sum", "uniq", "quantiles"]), "(", r.pick(["0.5", "x", ""]), ")"]
    if k == 12:
        return []
    return [r.pick(["x", "NULL", "[1]", "(1, 2)", "*", "?"])]


def damage(r, toks):
    toks = list(toks)
    if not toks:
        return toks
    k = r.below(6)
    i = r.below(len(toks))
    if k == 0:
        del toks[i]
    elif k == 1:
        toks.insert(i, toks[i])
    elif k == 2 and len(toks) > 1:
        j = r.below(len(toks))
        toks[i], toks[j] = toks[j], toks[i]
    elif k == 3:
        toks[i] = r.pick(TOKENS)
    elif k == 4:
        del toks[i:]
    else:
        toks.insert(i, r.pick(TOKENS))
    return toks


def render(toks):
    out = ""
    for t in toks:
        if t in (")", ",", ".") or out.endswith("(") or out.endswith(".") or t == "(":
            out += t
        else:
            out += (" " if out else "") + t
    return out


def main():
    seed, count = int(sys.argv[1]), int(sys.argv[2])
    w = sys.stdout
    for i in range(count):
        r = Rng(seed * 1000003 + i)
        toks = ty(r, 0)
        if r.below(3) > 0:
            toks = damage(r, toks)
            if r.below(4) == 0:
                toks = damage(r, toks)
        t = render(toks)
        ctx = r.below(6)
        if ctx == 0:
            s = "SELECT x::" + t
        elif ctx == 1:
            s = "SELECT CAST(x AS " + t + ")"
        elif ctx == 2:
            s = "CREATE TABLE t (c " + t + ") ENGINE = Memory"
        elif ctx == 3:
            s = "SELECT x::" + t + " AS y, 1; SELECT 2"
        elif ctx == 4:
            s = "ALTER TABLE t ADD COLUMN c " + t + " AFTER b"
        else:
            s = "SELECT CAST(x, '" + t.replace("\\", "\\\\").replace("'", "\\'") + "'), [1]::" + t
        w.write(s.encode("utf-8").hex() + "\n")


if __name__ == "__main__":
    main()
