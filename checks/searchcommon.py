"""Implementation-side search shared by C01, C02, C03 (and C04): /verif/build/psearch over corpus statements,
token/byte/structure mutants, exhaustive short token sequences behind fixed prefixes and deep nesting probes."""
import json
import os
import verif

PSEARCH = os.path.join(verif.BUILD, "psearch")


def bounds():
    try:
        r = json.load(open(os.path.join(verif.BUILD, "skelgen_report.json")))
        return int(r["E_main"]), int(r["B"]), r
    except Exception:
        return 42, 305, {}


def run_search(rep, tier, want_explain=False, statuses=("PANIC", "BUDGET", "C03")):
    E, B, _ = bounds()
    quick = tier == "quick"
    plan = [("corpus", ["-n", "0"]), ("mutate", ["-n", "120000" if quick else "6000000", "-seed", str(rep.seed)]),
            ("exhaustive", ["-n", "1" if quick else "2"]), ("nest", ["-n", "20000" if quick else "1000000"])]
    if tier == "targeted":   # an obligation broke: spend about half a minute looking for a concrete input
        plan = [("corpus", ["-n", "0"]), ("mutate", ["-n", "3000000", "-seed", str(rep.seed)]), ("exhaustive", ["-n", "2"]), ("nest", ["-n", "20000"])]
    cases = os.path.join(verif.BUILD, "search_cases_%s.txt" % rep.pid)
    dist = {}
    with open(cases, "w") as f:
        for mode, extra in plan:
            rc, out = verif.sh([PSEARCH, "gen", "-mode", mode] + extra, timeout=1200)
            if rc != 0:
                raise RuntimeError("psearch gen %s: %s" % (mode, out[-300:]))
            f.write(out)
            dist[mode] = out.count("\n")
    outp = cases + ".out"
    cmd = [PSEARCH, "run", "-E", str(E), "-B", str(B)] + (["-explain"] if want_explain else [])
    rc, err = verif.parallel_map_files(cmd, cases, outp, timeout=6000)
    res = {"dist": dist, "n": 0, "counts": {}, "hits": [], "max_ratio": 0.0, "rc": rc, "err": err[-400:], "E": E, "B": B,
           "samples": [], "accepted": 0, "out": outp, "cases": cases, "max_tokens": 0}
    with open(cases) as fc, open(outp) as fo:
        for i, (c, o) in enumerate(zip(fc, fo)):
            p = o.rstrip("\n").split("\t")
            if len(p) < 4:
                continue
            res["n"] += 1
            st = p[0]
            res["counts"][st] = res["counts"].get(st, 0) + 1
            tk, steps = int(p[1]), int(p[2])
            res["max_tokens"] = max(res["max_tokens"], tk)
            ratio = steps / (tk + 16.0)
            if ratio > res["max_ratio"]:
                res["max_ratio"] = ratio
            if st in statuses and len(res["hits"]) < 40:
                res["hits"].append((st, c.strip(), p[3], tk, steps))
            if st == "ok":
                res["accepted"] += 1
            if len(res["samples"]) < 6 and i % 20011 == 13:
                try:
                    res["samples"].append({"input": bytes.fromhex(c.strip() if c.strip() != "-" else "").decode("utf-8", "replace")[:140], "status": st, "tokens": tk, "steps": steps})
                except ValueError:
                    pass
    return res
