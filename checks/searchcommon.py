"""Implementation-side search shared by C01, C02, C03 (and C04): /verif/build/psearch over corpus statements,
token/byte/structure mutants, exhaustive short token sequences behind fixed prefixes and deep nesting probes."""
import json
import os
import verif

PSEARCH = os.path.join(verif.BUILD, "psearch")


def bounds():
    try:
        r = json.load(open(os.path.join(verif.BUILD, "skelgen_report.json")))
        return int(r["E_main"]), int(r["B"]), r
    except Exception:
        return 42, 305, {}


def run_search(rep, tier, want_explain=False, statuses=("PANIC", "BUDGET", "C03")):
    E, B, _ = bounds()
    quick = tier == "quick"
    plan = [("corpus", ["-n", "0"]), ("mutate", ["-n", "120000" if quick else "6000000", "-seed", str(rep.seed)]),
            ("exhaustive", ["-n", "1" if quick else "2"]), ("nest", ["-n", "20000" if quick else "1000000"]),
            ("truncate", ["-n", "1500" if quick else "0"]), ("repeat", ["-n", "60" if quick else "3000", "-seed", str(rep.seed)]),
            ("litsub", ["-n", "30000" if quick else "1500000", "-seed", str(rep.seed + 2)])]
    if tier == "targeted":   # an obligation broke: spend about half a minute looking for a concrete input
        plan = [("corpus", ["-n", "0"]), ("truncate", ["-n", "0"]), ("repeat", ["-n", "1500", "-seed", str(rep.seed)]),
                ("mutate", ["-n", "3000000", "-seed", str(rep.seed)]), ("exhaustive", ["-n", "2"]), ("nest", ["-n", "20000"]),
                ("litsub", ["-n", "400000", "-seed", str(rep.seed + 2)])]
    cases = os.path.join(verif.BUILD, "search_cases_%s.txt" % rep.pid)
    dist = {}
    # second corpus: statements of the verification grammar (checks/gen_sql_grammar.py: valid statements with every clause
    # combination, set operations, :: casts, tails ...), run as they are and as the base of token mutants and truncations
    gram = os.path.join(verif.BUILD, "grammar_corpus_%s.txt" % rep.pid)
    ng = {"quick": 3000, "targeted": 30000}.get(tier, 60000)
    rcg, outg = verif.sh(["python3", os.path.join(verif.ROOT, "checks", "gen_sql_grammar.py"), str(rep.seed), str(ng)], timeout=1200)
    gplan = []
    if rcg == 0 and outg.strip():
        open(gram, "w").write(outg)
        gplan = [("corpus", ["-n", "0", "-corpus", gram]), ("mutate", ["-n", str(ng * 5), "-seed", str(rep.seed + 1), "-corpus", gram]),
                 ("truncate", ["-n", str(ng // 10), "-corpus", gram]), ("litsub", ["-n", str(ng * 3), "-seed", str(rep.seed + 3), "-corpus", gram])]
    with open(cases, "w") as f:
        # the inputs a 90-minute coverage-guided fuzzing run kept (one per newly covered path of lexer / parser / printers):
        # a deterministic regression corpus, see harness/fuzz/fuzz_test.go
        fz = os.path.join(verif.ROOT, "corpus", "fuzz_corpus.hex")
        if os.path.exists(fz):
            data = open(fz).read()
            f.write(data)
            dist["fuzz-corpus"] = data.count("\n")
        for mode, extra in plan + gplan:
            rc, out = verif.sh([PSEARCH, "gen", "-mode", mode] + extra, timeout=1200)
            if rc != 0:
                raise RuntimeError("psearch gen %s: %s" % (mode, out[-300:]))
            f.write(out)
            key = mode if "-corpus" not in extra else "grammar-" + mode
            dist[key] = out.count("\n")
    # type expressions: every constructor with every kind of argument (valid for it or not), nested, in the three places a type is
    # parsed, part of them damaged by one token edit (checks/gen_type_mix.py)
    ntm = {"quick": 40000, "targeted": 300000}.get(tier, 1500000)
    rct, outt = verif.sh(["python3", os.path.join(verif.ROOT, "checks", "gen_type_mix.py"), str(rep.seed), str(ntm)], timeout=1200)
    if rct == 0:
        with open(cases, "a") as f:
            f.write(outt)
        dist["type-mix"] = outt.count("\n")
    outp = cases + ".out"
    cmd = [PSEARCH, "run", "-E", str(E), "-B", str(B)] + (["-explain"] if want_explain else [])
    rc, err = verif.parallel_map_files(cmd, cases, outp, timeout=6000, mem_kb=16000000)
    res = {"dist": dist, "n": 0, "counts": {}, "hits": [], "max_ratio": 0.0, "rc": rc, "err": err[-400:], "E": E, "B": B,
           "samples": [], "accepted": 0, "out": outp, "cases": cases, "max_tokens": 0}
    with open(cases) as fc, open(outp) as fo:
        for i, (c, o) in enumerate(zip(fc, fo)):
            p = o.rstrip("\n").split("\t")
            if len(p) < 4:
                continue
            res["n"] += 1
            st = p[0]
            res["counts"][st] = res["counts"].get(st, 0) + 1
            try:
                tk, steps = int(p[1]), int(p[2])
            except ValueError:
                continue        # the torn last line of a worker that died (reported through rc)
            res["max_tokens"] = max(res["max_tokens"], tk)
            ratio = steps / (tk + 16.0)
            if ratio > res["max_ratio"]:
                res["max_ratio"] = ratio
            if st in statuses and len(res["hits"]) < 40:
                res["hits"].append((st, c.strip(), p[3], tk, steps))
            if st == "ok":
                res["accepted"] += 1
            if len(res["samples"]) < 6 and i % 20011 == 13:
                try:
                    res["samples"].append({"input": bytes.fromhex(c.strip() if c.strip() != "-" else "").decode("utf-8", "replace")[:140], "status": st, "tokens": tk, "steps": steps})
                except ValueError:
                    pass
    return res


def focus_corpus(function_names, path, limit=4000):
    """Targeted search support: statements of the test corpus that mention a keyword occurring in the given parser
    functions or in their direct callers (token.X constants and upper-case string literals). Returns (#statements, keywords)."""
    import glob
    import re
    src = ""
    for f in glob.glob(os.path.join(verif.REPO, "parser", "*.go")):
        if not f.endswith("_test.go"):
            src += open(f, encoding="utf-8", errors="replace").read() + "\n"
    bodies = {}
    for m in re.finditer(r"\nfunc (?:\(p \*Parser\) )?([A-Za-z0-9_]+)\(", src):
        name = m.group(1)
        end = src.find("\nfunc ", m.end())
        bodies[name] = src[m.start():end if end > 0 else len(src)]
    names = set(n.split("@")[0] for n in function_names)
    callers = set(n for n, b in bodies.items() if any(re.search(r"\b%s\(" % re.escape(fn), b) for fn in names) and n not in names)
    kws = set()
    for n in names | callers:
        b = bodies.get(n, "")
        kws.update(re.findall(r"token\.([A-Z][A-Z_]+)", b))
        kws.update(re.findall(r'"([A-Z][A-Z_]{2,})"', b))
    kws -= {"EOF", "IDENT", "LPAREN", "RPAREN", "COMMA", "DOT", "NUMBER", "STRING", "SEMICOLON", "LBRACKET", "RBRACKET", "EQ", "AS", "NOT", "AND", "OR"}
    if not kws:
        return 0, []
    pat = re.compile(r"\b(" + "|".join(sorted(kws)) + r")\b", re.I)
    out, seen = [], set()
    for f in sorted(glob.glob(os.path.join(verif.REPO, "parser", "testdata", "*", "query.sql"))):
        try:
            text = open(f, encoding="utf-8", errors="replace").read()
        except OSError:
            continue
        for piece in text.split(";"):
            st = " ".join(l for l in piece.splitlines() if not l.strip().startswith("--")).strip()
            if 8 < len(st) < 1500 and pat.search(st) and st not in seen:
                seen.add(st)
                out.append(st)
                if len(out) >= limit:
                    break
        if len(out) >= limit:
            break
    with open(path, "w") as fo:
        fo.write("\n".join(out) + "\n")
    return len(out), sorted(kws)


def run_focused(rep, function_names, statuses):
    """truncate + repeat + mutate concentrated on statements that reach the given functions."""
    E, B, _ = bounds()
    corp = os.path.join(verif.BUILD, "focus_corpus_%s.txt" % rep.pid)
    n, kws = focus_corpus(function_names, corp)
    if n == 0:
        return {"hits": [], "n": 0, "keywords": kws}
    cases = os.path.join(verif.BUILD, "focus_cases_%s.txt" % rep.pid)
    with open(cases, "w") as f:
        for mode, extra in (("truncate", ["-n", "0"]), ("repeat", ["-n", "4000", "-seed", str(rep.seed)]), ("mutate", ["-n", "400000", "-seed", str(rep.seed)])):
            rc, out = verif.sh([PSEARCH, "gen", "-mode", mode, "-corpus", corp] + extra, timeout=1200)
            f.write(out)
    outp = cases + ".out"
    verif.parallel_map_files([PSEARCH, "run", "-E", str(E), "-B", str(B)], cases, outp, timeout=3000, mem_kb=16000000)
    hits, total = [], 0
    with open(cases) as fc, open(outp) as fo:
        for c, o in zip(fc, fo):
            p = o.rstrip("\n").split("\t")
            total += 1
            if len(p) >= 4 and p[0] in statuses and len(hits) < 20:
                hits.append((p[0], c.strip(), p[3], int(p[1]), int(p[2])))
    hits.sort(key=lambda h: len(h[1]))
    return {"hits": hits, "n": total, "keywords": kws, "statements": n}


def run_selectcore(rep, count):
    """SELECT-core correspondence (code vs extracted lexer+parser+printer models). Returns (broken_obligations, summary)."""
    import re
    broken = verif.build_topic(go_pkgs=("selectdump",), drivers=(("selectcore", "selectcore_ex"),))
    if broken:
        return broken, {}
    rc, out = verif.sh(["python3", os.path.join(verif.ROOT, "checks", "gen_selectcore_cases.py"), str(rep.seed), str(count), "--run", "--no-build"], timeout=3000)
    summ = {}
    dis = 0
    panics = 0
    for l in out.splitlines():
        if l.startswith("stream="):
            d = dict(x.split("=") for x in l.split())
            summ[d["stream"]] = {k: d[k] for k in ("total", "in_fragment", "hit_rate", "disagree", "code_panics")}
            dis += int(d["disagree"])
            panics += int(d["code_panics"])
    if not summ or rc not in (0, 1):
        broken.append({"obligation": "harness:gen_selectcore_cases", "detail": out[-800:]})
    elif dis or panics:
        first = [l for l in out.splitlines() if "DISAGREE" in l.upper() or "PANIC" in l][:3]
        broken.append({"obligation": "correspondence:SELECT-core parser/printer~SelectParseModel/SelectPrintModel",
                       "detail": "%d disagreements, %d code panics; %s" % (dis, panics, first or out[-600:])})
    return broken, summ


def run_chains(rep, n1=600, n2=2400):
    """Linearity of work AND memory (C02: 'with memory bounded likewise'): flat chains of n1 and n2 = 4*n1 elements of every
    list-like construct; steps per token and bytes allocated by ParseStatements per token must not grow with n.
    Returns (hits, summary); a hit is (kind, input_hex, detail, tokens, value)."""
    E, B, _ = bounds()
    outs = []
    for n in (n1, n2):
        cases = os.path.join(verif.BUILD, "chains_%s_%d.txt" % (rep.pid, n))
        rc, out = verif.sh([PSEARCH, "gen", "-mode", "chains", "-n", str(n)], timeout=600)
        open(cases, "w").write(out)
        outp = cases + ".out"
        verif.parallel_map_files([PSEARCH, "run", "-E", str(E), "-B", str(B), "-mem", "1"], cases, outp, timeout=3000, mem_kb=16000000)
        rows = {}
        with open(cases) as fc, open(outp) as fo:
            for idx, (c, o) in enumerate(zip(fc, fo)):
                p = o.rstrip("\n").split("\t")
                try:
                    tk, steps = int(p[1]), int(p[2])
                except (IndexError, ValueError):
                    continue        # a worker died or printed something else: the other stages report that
                per = 0
                if p[0] == "MEM":
                    try:
                        per = int(p[3].split(" = ")[1].split(" ")[0])
                    except (IndexError, ValueError):
                        per = 0
                rows[idx] = (p[0], c.strip(), tk, steps, per, p[3] if len(p) > 3 else "")
        outs.append(rows)
    hits, worst_mem, worst_steps = [], 0.0, 0.0
    for idx in sorted(set(outs[0]) & set(outs[1])):
        a, b = outs[0][idx], outs[1][idx]
        for r in (a, b):
            if r[0] in ("BUDGET", "SLOW", "PANIC"):
                hits.append((r[0], r[1], r[5], r[2], r[3]))
        if a[0] in ("BUDGET", "PANIC") or b[0] in ("BUDGET", "PANIC") or a[2] < 200 or b[2] < 2 * a[2]:
            continue
        sa, sb = a[3] / (a[2] + 16.0), b[3] / (b[2] + 16.0)
        worst_steps = max(worst_steps, sb / max(sa, 1.0))
        if sb > 2.0 * max(sa, 4.0):
            hits.append(("SLOW", b[1], "steps per token grow with the input: %.1f at %d tokens, %.1f at %d tokens" % (sa, a[2], sb, b[2]), b[2], b[3]))
        if a[4] and b[4]:
            worst_mem = max(worst_mem, b[4] / float(max(a[4], 1)))
            if b[4] > 2.0 * max(a[4], 256):
                hits.append(("MEM", b[1], "bytes allocated by ParseStatements per token grow with the input: %d at %d tokens, %d at %d tokens" % (a[4], a[2], b[4], b[2]), b[2], b[4]))
    # error amplification (k unclosed openers, then one token of 16*k bytes): what Parse allocates must stay within a generous
    # linear bound in input bytes and tokens (observed: about a tenth of it)
    amp_worst = 0.0
    cases = os.path.join(verif.BUILD, "amplify_%s.txt" % rep.pid)
    rc, out = verif.sh([PSEARCH, "gen", "-mode", "amplify", "-n", str(n1)], timeout=600)
    open(cases, "w").write(out)
    verif.parallel_map_files([PSEARCH, "run", "-E", str(E), "-B", str(B), "-mem", "1"], cases, cases + ".out", timeout=3000, mem_kb=16000000)
    with open(cases) as fc, open(cases + ".out") as fo:
        for c, o in zip(fc, fo):
            p = o.rstrip("\n").split("\t")
            try:
                tk = int(p[1])
                alloc = int(p[3].split(" ")[1]) if p[0] == "MEM" else 0
            except (IndexError, ValueError):
                continue
            if p[0] in ("BUDGET", "SLOW", "PANIC"):
                hits.append((p[0], c.strip(), p[3] if len(p) > 3 else "", tk, int(p[2])))
            bound = 40 * (len(c.strip()) // 2) + 2000 * (tk + 16)
            amp_worst = max(amp_worst, alloc / float(bound))
            if alloc > bound:
                hits.append(("MEM", c.strip(), "ParseStatements allocated %d bytes for %d input bytes / %d tokens (bound 40*bytes + 2000*tokens = %d): errors reported while unwinding amplify the input" % (alloc, len(c.strip()) // 2, tk, bound), tk, alloc))
    return hits, {"constructs": len(outs[0]), "sizes": [n1, n2], "amplification_worst_fraction_of_bound": round(amp_worst, 3), "max_growth_of_bytes_per_token": round(worst_mem, 2), "max_growth_of_steps_per_token": round(worst_steps, 2)}


def run_truncations(rep, n=1500):
    """Every token prefix of n corpus statements through Parse under the proved step budget: a parser that does not see a
    sticky EOF at the end of a truncated statement does not terminate. Returns (hits, cases)."""
    E, B, _ = bounds()
    cases = os.path.join(verif.BUILD, "trunc_cases_%s.txt" % rep.pid)
    rc, out = verif.sh([PSEARCH, "gen", "-mode", "truncate", "-n", str(n)], timeout=900)
    # ... and of grammar statements of every kind (utility / DDL statements are rare in the corpus sample)
    gram = os.path.join(verif.BUILD, "grammar_trunc_%s.txt" % rep.pid)
    rcg, outg = verif.sh(["python3", os.path.join(verif.ROOT, "checks", "gen_sql_grammar.py"), str(rep.seed), "400" if n else "20000"], timeout=900)
    if rcg == 0 and outg.strip():
        open(gram, "w").write(outg)
        rc2, out2 = verif.sh([PSEARCH, "gen", "-mode", "truncate", "-n", "0", "-corpus", gram], timeout=900)
        out += out2
    open(cases, "w").write(out)
    outp = cases + ".out"
    verif.parallel_map_files([PSEARCH, "run", "-E", str(E), "-B", str(B)], cases, outp, timeout=3000, mem_kb=16000000)
    hits, total = [], 0
    with open(cases) as fc, open(outp) as fo:
        for c, o in zip(fc, fo):
            total += 1
            p = o.rstrip("\n").split("\t")
            if len(p) >= 4 and p[0] in ("BUDGET", "SLOW") and len(hits) < 10:
                hits.append((p[0], c.strip(), p[3], int(p[1]), int(p[2])))
    hits.sort(key=lambda h: len(h[1]))
    return hits, total
