"""Shared by C14 and C15: inputs for the reader-level differential runs and the bufio model correspondence."""
import os
import random
import verif

CORPUS = os.path.join(verif.ROOT, "corpus", "statements.txt")


def gen_inputs(seed, count, path):
    rnd = random.Random(seed)
    stmts = [l.rstrip("\n") for l in open(CORPUS, encoding="utf-8", errors="surrogateescape") if l.strip()]
    special = [
        "SELECT $tag$ body with ; and 'quotes' $tag$, 2", "SELECT $$ x $$", "SELECT 'é', 'ж', '中', 1", "SELECT 1 -- trailing comment",
        "SELECT /* c ; */ 1; SELECT 2", "SELECT 'unterminated", "SELECT $a$ never closed", "SELECT 1\x00SELECT 2", "", ";", " ",
        "SELECT x'4142', b'0101', 0x1f, 1e5, 1_000, db.03_t.c FROM db.03_t", "SELECT {p:UInt8}, @@v, a->b, a<=>b, a::Int8",
        "SELECT '" + "é" * 3000 + "'", "SELECT $t$" + "x" * 5000 + "$t$", "SELECT $t$" + "y" * 9000 + "$t$, 1", "SELECT " + ", ".join(str(i) for i in range(1500)),
        "SELECT 1 /* " + "c" * 4090 + " */ , 2", "\ufeffSELECT (1", "\ufeffSELECT 1 +", "\ufeff) SELECT 1", "\u00a0SELECT FROM", "\ufeff\nSELECT (", "SELECT " + " " * 4094 + "'é'", "\xef\xbb\xbfSELECT 1", "SELECT \xff 1",
    ]
    # tagged heredocs / long tokens whose end lies 100 .. 9000 bytes after their start (look-ahead windows), and inputs with
    # very many syntax errors (error-list handling)
    for n in (100, 500, 520, 600, 1000, 2000, 3000, 4000, 4080, 4100, 5000, 8000, 8200, 9000):
        special.append("SELECT JSONLength($json$" + "x" * n + "$json$) AS a, 2")
        special.append("SELECT $$" + "é" * (n // 2) + "$$, 1")
    special += ["SELECT (" * 70, "] " * 80 + "SELECT 1", "; ".join("SELECT (%d" % i for i in range(70)), "SELECT " + "(" * 64 + "a" + " OR b)" * 60,
                "SELEC 1; INSRT 2; " * 40 + "SELECT 3"]
    # code the statement LOOP runs between statements (runs of empty statements before, between and after; PARALLEL WITH chains,
    # one top-level statement built from several statement parses), NUL bytes (the lexer's end-of-input value) in every region
    special += ["SELECT 1;;;;", "SELECT 1;;;;;;;;", "SELECT 1 ;;; ", ";;;;;", ";;;;SELECT 1", "SELECT 1;;;; ;;;;SELECT 2;;;;;", "SELECT 1; ; ; ; ; ; SELECT 2 ; ; ; ;",
                "SELECT 1 PARALLEL WITH SELECT 2", "SELECT 1 PARALLEL WITH SELECT 2 PARALLEL WITH DROP TABLE t; SELECT 3", "DROP TABLE a PARALLEL WITH DROP TABLE b;;;;",
                "SELECT 1;\x00", "SELECT 1;\x00 SELECT 2; SELECT 3", "SELECT 1; SELECT 2\x00 FROM t WHERE", "SELECT '\x00' AS a; SELECT 2", "\x00SELECT 1", "SELECT 1 /* \x00 */ ; SELECT 2",
                "SELECT " + " " * 4087 + ";\x00 SELECT 2", "SELECT " + "a" * 4087 + "\x00; SELECT 2"]
    boundary = []
    # a lexically significant fragment straddling the bufio fill boundary (4096 / 8192), inside and outside quoted contexts
    for (op, cl) in (("SELECT 1 /* ", " */ , 2; SELECT 3"), ("SELECT '", "' AS s; SELECT 3"), ("SELECT 1 AS `", "`; SELECT 3"), ("SELECT 1 -- ", "\n, 2; SELECT 3"), ("SELECT ", " , 2; SELECT 3")):
        for frag in ("*/ /* x", "/*/ */", "''", "\\'", "\\\\", "é", "日本", "\r\n", "a;b", "``", "\\`", "1::Int8", "a<=>b", "$$;$$", "x'41'"):
            if (op.endswith("/* ") and frag.startswith("*/")) or (op == "SELECT " and frag in ("''", "\\'", "\\\\", "``", "\\`", "é", "日本", "\r\n", "/*/ */", "*/ /* x")):
                continue
            for at in (4096, 8192):
                for k in range(0, len(frag.encode("utf-8")) + 1):
                    pad = at - len(op.encode("utf-8")) - k
                    boundary.append(op + "a" * pad + frag + " b" + cl)
    rnd.shuffle(boundary)
    special += boundary[:max(count // 3, 40)]
    out = []
    for s in special:
        out.append(s.encode("utf-8", "surrogateescape") if isinstance(s, str) else s)
    while len(out) < count:
        k = rnd.choice([1, 1, 1, 2, 3, 5, 40])
        parts = [rnd.choice(stmts) for _ in range(k)]
        sep = rnd.choice(["; ", ";\n", " ;\n-- c;\n", ";/* ; */"])
        out.append(sep.join(parts).encode("utf-8", "surrogateescape"))
    with open(path, "w") as f:
        for b in out[:count]:
            f.write((b.hex() or "-") + "\n")
    sizes = [len(b) for b in out[:count]]
    return {"inputs": len(sizes), "max_len": max(sizes), "over_4096": sum(1 for s in sizes if s > 4096),
            "over_8192": sum(1 for s in sizes if s > 8192)}


def run_readers(rep, mode, count, maxpoints):
    cases = os.path.join(verif.BUILD, "reader_cases_%s.txt" % rep.pid)
    dist = gen_inputs(rep.seed, count, cases)
    outp = cases + ".out"
    rc, err = verif.parallel_map_files([os.path.join(verif.BUILD, "readers"), "-mode", mode, "-seed", str(rep.seed), "-maxpoints", str(maxpoints)],
                                       cases, outp, timeout=3000, mem_kb=16000000)
    res = {"dist": dist, "inputs": 0, "runs": 0, "violations": [], "rc": rc, "err": err[-500:], "samples": []}
    with open(outp) as f:
        for i, line in enumerate(f):
            p = line.rstrip("\n").split("\t")
            if len(p) < 4:
                continue
            res["inputs"] += 1
            res["runs"] += int(p[1])
            if int(p[2]):
                res["violations"].append((p[0], p[3]))
            if len(res["samples"]) < 5 and i % 53 == 7:
                res["samples"].append({"input": bytes.fromhex(p[0] if p[0] != "-" else "").decode("utf-8", "replace")[:120], "runs": int(p[1])})
    return res


def run_bufio_model(rep, count, stream):
    """bufio.Reader (real) vs Stream/BufioModel.v (extracted) on operation sequences over scripted readers."""
    cases = os.path.join(verif.BUILD, "bufio_cases_%s.txt" % rep.pid)
    rc, out = verif.sh("python3 %s %d %d %s > %s" % (os.path.join(verif.ROOT, "checks", "gen_bufio_cases.py"), rep.seed, count, stream, cases),
                       shell=True, timeout=600)
    if rc != 0:
        raise RuntimeError("gen_bufio_cases: " + out[-400:])
    g, m = cases + ".go", cases + ".ml"
    rc1, e1 = verif.parallel_map_files([os.path.join(verif.BUILD, "bufioops")], cases, g, timeout=3000)
    rc2, e2 = verif.parallel_map_files([os.path.join(verif.BUILD, "bufio_driver")], cases, m, timeout=6000, unlimited_stack=True)
    n, diffs, mism = verif.diff_lines(g, m)
    return {"cases": n, "mismatches": mism, "first": diffs[:3], "rc": (rc1, rc2), "err": (e1 + e2)[-400:]}
