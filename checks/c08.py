"""C08 — operator precedence and associativity follow ClickHouse's operator table.
Theorems: coq/Properties/C08.v over coq/Expr/ExprModel.v (hand-written model of the Pratt parser and the
operator printers) and the independent spec coq/Expr/ExprSpec.v.
Tie: three-way correspondence code / extracted model / extracted spec on all shapes up to k binary operators
plus random deeper expressions and token soups (checks/gen_expr_cases.py)."""
import os
import verif

TRUSTED = [
    "Coq 8.16.1 kernel and vm_compute; Print Assumptions of every theorem: closed under the global context",
    "hand-written model coq/Expr/ExprModel.v of parseExpression/parseBinaryExpression/parseNot/parseUnaryMinus/parseGroupedOrTuple and explainBinaryExpr/collect*Operands/explainUnaryExpr (fragment; everything else is an explicit OutOfFragment), tied to the code by the correspondence run",
    "the progress guard `p.current.Pos == startPos` is modelled as 'same remaining token list' (sound by C13: positions strictly increase)",
    "extraction (ExtrOcamlBasic only), OCaml driver, Go exprdump; tokens come from the real lexer (lexer.Tokenize)",
]


def run(rep):
    st = verif.proof_stage(rep, "C08", needs_translators=["gentables"])
    broken = list(st["broken"])
    broken += verif.build_topic(go_pkgs=("exprdump",), drivers=(("expr", "expr_ex"),))
    found = False
    if not any(b["obligation"].startswith("build:") for b in broken):
        if rep.tier == "quick":
            args = [str(rep.seed), "2000", "--exhaustive", "3", "--soup", "20000", "--run"]
        else:
            args = [str(rep.seed), "20000", "--exhaustive", "4", "--soup", "200000", "--run"]
        keep = os.path.join(verif.BUILD, "c08_keep")
        rc, out, summ, blocks = verif.run_generator_compare(["python3", os.path.join(verif.ROOT, "checks", "gen_expr_cases.py")] + args + ["--keep", keep, "--max-report", "100000"])
        samples = []
        try:
            with open(os.path.join(keep, "texts.hex")) as f:
                for i, line in enumerate(f):
                    if i % 7919 == 11 and len(samples) < 8:
                        samples.append(bytes.fromhex(line.strip()).decode("utf-8", "replace"))
        except OSError:
            pass
        spec_bad = [b for b in blocks if b.startswith("SPEC!=CODE")]
        model_bad = [b for b in blocks if b.startswith("MODEL!=CODE") or b.startswith("MODEL-OOF")]
        other_bad = [b for b in blocks if b.startswith("SPEC-")]
        spec_bad.sort(key=len)
        for b in spec_bad[:5]:
            found = True
            expr = b.splitlines()[0][len("SPEC!=CODE"):].strip()
            rep.violation("input", "EXPLAIN of SELECT <e> differs from the precedence-climb reference tree: " + expr[:120],
                          {"expression": expr, "detail": b[:3000]}, input_hex=expr.encode().hex())
        if model_bad or other_bad or (rc != 0 and not spec_bad):
            first = (model_bad + other_bad + [out[-1500:]])[0]
            broken.append({"obligation": "correspondence:parseExpression~ExprModel", "detail": first[:3000],
                           "count": len(model_bad) + len(other_bad)})
        rep.coverage.update({
            "evaluations": summ.get("texts", 0) + summ.get("trees", 0),
            "distinct_nontrivial": summ.get("wfx", 0),
            "rule": "all expression shapes with up to 3 (quick) / 4 (thorough) binary operators over one representative per precedence class "
                    "x NOT / minus / parenthesis decorations x operator spellings, random deeper expressions, token soups; three-way: "
                    "code (parser.Parse+Explain of SELECT <e>) vs extracted model vs extracted spec; distinct_nontrivial = distinct surface trees "
                    "that are well-formed readings (wfx) and were compared with the reference tree",
            "samples": [b[:300] for b in blocks[:3]] + samples,
            "summary_line": out.strip().splitlines()[-1] if out.strip() else "",
            "exhaustive": True,
            "trusted_base": TRUSTED,
        })
    verif.report_broken(rep, broken, found)
    rep.assumptions = ["ClickHouse's reading of NOT ( as the function not(), and of minus-literal folding, follows the code and its goldens where the property text is silent (DESIGN.md §7)"]


def replay(rec):
    import subprocess
    e = rec.get("expression", "")
    p = subprocess.run([os.path.join(verif.BUILD, "exprdump")], input=(e.encode().hex() + "\n").encode(), stdout=subprocess.PIPE)
    line = p.stdout.decode().strip().split("\t")
    print(e)
    print(bytes.fromhex(line[1]).decode() if len(line) > 1 and line[1] not in ("ERR", "PANIC") else line)
    return 0
