"""C08 — operator precedence and associativity follow ClickHouse's operator table.
Theorems: coq/Properties/C08.v over coq/Expr/ExprModel.v (hand-written model of the Pratt parser and the
operator printers) and the independent spec coq/Expr/ExprSpec.v.
Tie: three-way correspondence code / extracted model / extracted spec on all shapes up to k binary operators
plus random deeper expressions and token soups (checks/gen_expr_cases.py), under `SELECT <e>` AND inside the
embedding contexts of checks/expr_contexts.py (every other statement position where an expression of the
language is parsed or printed: aliases, WITH, WHERE ..., ALTER UPDATE / DELETE, CREATE TABLE keys, column
defaults, constraints, views, subqueries ...): the reference tree of the spec is context-independent, so the
subtree EXPLAIN shows at the hole of a context must be the same tree (harness/cmd/exprdump -contexts)."""
import json
import os
import re
import verif

TRUSTED = [
    "Coq 8.16.1 kernel and vm_compute; Print Assumptions of every theorem: closed under the global context",
    "hand-written model coq/Expr/ExprModel.v of parseExpression/parseBinaryExpression/parseNot/parseUnaryMinus/parseGroupedOrTuple and explainBinaryExpr/collect*Operands/explainUnaryExpr (fragment; everything else is an explicit OutOfFragment), tied to the code by the correspondence run",
    "the progress guard `p.current.Pos == startPos` is modelled as 'same remaining token list' (sound by C13: positions strictly increase)",
    "extraction (ExtrOcamlBasic only), OCaml driver, Go exprdump; tokens come from the real lexer (lexer.Tokenize)",
    "contexts: the table, the restriction rules and the KNOWN_OPEN exclusions of checks/expr_contexts.py (all listed in coverage.contexts); "
    "the model covers the expression only — inside a context the CODE is compared with the SPEC's reference tree directly",
]


def run(rep):
    st = verif.proof_stage(rep, "C08", needs_translators=["gentables"])
    broken = list(st["broken"])
    broken += verif.build_topic(go_pkgs=("exprdump",), drivers=(("expr", "expr_ex"),))
    found = False
    if not any(b["obligation"].startswith("build:") for b in broken):
        if rep.tier == "quick":
            args = [str(rep.seed), "4000", "--exhaustive", "3", "--soup", "20000", "--run", "--contexts", "quick"]
        else:
            args = [str(rep.seed), "20000", "--exhaustive", "4", "--soup", "200000", "--run", "--contexts", "full"]
        keep = os.path.join(verif.BUILD, "c08_keep")
        rc, out, summ, blocks = verif.run_generator_compare(["python3", os.path.join(verif.ROOT, "checks", "gen_expr_cases.py")] + args + ["--keep", keep, "--max-report", "100000"])
        samples = []
        try:
            with open(os.path.join(keep, "texts.hex")) as f:
                for i, line in enumerate(f):
                    if i % 7919 == 11 and len(samples) < 8:
                        samples.append(bytes.fromhex(line.strip()).decode("utf-8", "replace"))
        except OSError:
            pass
        spec_bad = [b for b in blocks if b.startswith("SPEC!=CODE")]
        model_bad = [b for b in blocks if b.startswith("MODEL!=CODE") or b.startswith("MODEL-OOF")]
        other_bad = [b for b in blocks if b.startswith("SPEC-")]
        spec_bad.sort(key=len)
        # at most one report per context first (the shortest), then the rest
        picked, seen_ctx, rest = [], set(), []
        for b in spec_bad:
            m = re.search(r"\[context ([A-Za-z0-9_]+):", b.splitlines()[0])
            c = m.group(1) if m else "SELECT"
            (rest if c in seen_ctx else picked).append(b)
            seen_ctx.add(c)
        for b in (picked + rest)[:8]:
            found = True
            head = b.splitlines()[0][len("SPEC!=CODE"):].strip()
            text = head.split("   [", 1)[0].strip()
            if "[context " in head:
                rep.violation("input", "EXPLAIN of the context statement does not show the precedence-climb reference tree for the embedded expression: " + text[:160],
                              {"statement": text, "context": head.split("   [", 1)[1].rstrip("]")[:400], "detail": b[:4000]},
                              input_hex=text.encode().hex())
            else:
                rep.violation("input", "EXPLAIN of SELECT <e> differs from the precedence-climb reference tree: " + text[:120],
                              {"expression": text, "detail": b[:3000]}, input_hex=text.encode().hex())
        if model_bad or other_bad or (rc != 0 and not spec_bad):
            first = (model_bad + other_bad + [out[-1500:]])[0]
            broken.append({"obligation": "correspondence:parseExpression~ExprModel", "detail": first[:3000],
                           "count": len(model_bad) + len(other_bad)})
        ctx_ev = None
        try:
            ctx_ev = json.load(open(os.path.join(keep, "contexts.json")))
        except (OSError, ValueError):
            pass
        rep.coverage.update({
            "evaluations": summ.get("texts", 0) + summ.get("trees", 0) + summ.get("context_evaluations", 0),
            "context_evaluations": summ.get("context_evaluations", 0),
            "contexts": ctx_ev,
            "distinct_nontrivial": summ.get("wfx", 0),
            "rule": "all expression shapes with up to 3 (quick) / 4 (thorough) binary operators over one representative per precedence class "
                    "x NOT / minus / parenthesis decorations x operator spellings, random deeper expressions, token soups; three-way: "
                    "code (parser.Parse+Explain of SELECT <e>) vs extracted model vs extracted spec; distinct_nontrivial = distinct surface trees "
                    "that are well-formed readings (wfx) and were compared with the reference tree; every such tree with <= 3 operators "
                    "(and every random one) is also evaluated inside the embedding contexts (coverage.contexts: statement, cases fed / equal, "
                    "restriction rules, KNOWN_OPEN exclusions); quick samples the contexts per case (coverage.contexts.sampling), thorough is the full product",
            "samples": [b[:300] for b in blocks[:3]] + samples,
            "summary_line": out.strip().splitlines()[-1] if out.strip() else "",
            "exhaustive": True,
            "trusted_base": TRUSTED,
        })
    # the operators are tokens: tie the lexer model to the CURRENT lexer.go (look-ahead of <=, >=, !=, <>, <=>, || ...)
    import lexcommon
    lexcommon.lexer_premise(rep, broken, ())
    verif.report_broken(rep, broken, found)
    rep.assumptions = ["ClickHouse's reading of NOT ( as the function not(), and of minus-literal folding, follows the code and its goldens where the property text is silent (DESIGN.md §7)"]


def replay(rec):
    import subprocess
    if rec.get("statement"):
        st = rec["statement"]
        p = subprocess.run([os.path.join(verif.BUILD, "exprdump"), "-explain"], input=(st.encode().hex() + "\n").encode(), stdout=subprocess.PIPE)
        r = p.stdout.decode().strip().split("\t")[-1]
        print(st)
        print("parse error: " + bytes.fromhex(r[4:]).decode() if r.startswith("ERR:") else r if r in ("PANIC", "BADHEX") else bytes.fromhex(r).decode())
        print(rec.get("detail", ""))
        return 0
    e = rec.get("expression", "")
    p = subprocess.run([os.path.join(verif.BUILD, "exprdump")], input=(e.encode().hex() + "\n").encode(), stdout=subprocess.PIPE)
    line = p.stdout.decode().strip().split("\t")
    print(e)
    print(bytes.fromhex(line[1]).decode() if len(line) > 1 and line[1] not in ("ERR", "PANIC") else line)
    return 0
