#!/usr/bin/env python3
"""C09 case generator and three-way comparison (code vs extracted model vs extracted spec) for literals.

usage: gen_literal_cases.py <seed> <count> [--run] [--no-exhaustive] [--keep DIR] [--max-report N] [--strict]
                            [--litdump PATH] [--driver PATH]

Without --run: prints one case per line on stdout
    <index> TAB <family> TAB <tree> TAB <hex of an overriding source text, or ->
  <tree> is the literal in the prefix notation read by /verif/build/literal_driver (see /verif/driver/literal/main.ml):
    n<dec> m<dec>(negated) x<dec>(hex spelling) b<dec>(binary spelling) o<dec>(octal spelling)
    r<x|X|b|B|o|O><hex of the digits and '_' after the prefix>(any prefixed spelling: LiteralSpec.CRad)
    f+<hex text> f-<hex text> s<hex value>   A<k> t1..tk   T<k> t1..tk
  The source text of a case is LiteralSpec.src(tree) unless an overriding text is given (leading zeros, `_`
  separators, octal, upper-case prefixes, the raw-UTF-8 quoting of strings, malformed spellings: the tree then
  states the VALUE the text denotes, or is "-" when the case only compares code and model).
  Random case i depends on (<seed>, i) through splitmix64 only; the systematic cases (all 1- and 2-byte strings,
  integer boundaries, float boundaries) do not depend on the seed.  <count> = number of random cases.

With --run: runs
    code  : /verif/build/litdump -floats   `SELECT <src>` through the real parser + Explain, and strconv's answers
    model : /verif/build/literal_driver model   (extracted LexerModel.tokenize + LiteralModel.literal_of_tokens, fed
            with strconv's answers as the oracle)
    spec  : /verif/build/literal_driver canon / quote  (extracted LiteralSpec.canon / wfb, LexerStringsSpec)
  and checks, per case
    (0) strconv's answers agree with Python's own float()/repr() (cross-check of the oracle = trusted base)
    (1) model = code, and the model is never OOF / NOORACLE on a case that has a tree with wfb = true
    (2) wfb(tree) => code = "L" canon(tree)                                      (the theorem's instance)
    (3) not wfb(tree): code vs canon(tree) is classified; a difference is a FINDING (known deviation class:
        float-text-rejected-by-strconv = a float text that strconv rejects (1e999) printed as a string literal);
        anything else that differs and is not structurally non-literal is reported as FINDING class=other.  For every
        case of a FINDING class one machine-readable line `FINDING-KEY <class> <hex source>` is printed besides the
        human-readable ones.  (Binary / octal / underscored literals >= 2^64 were such a class, `bin-ge-2^64`, until
        parseNumber got parseRadixToFloat: they are ordinary well-formed trees now, checked under (1) and (2).)
    (4) quoted identifiers (families ident-bt / ident-dq; they are not literals): the token streams of code
        (`litdump -tokens`) and model (`literal_driver tokens`) are equal and equal to [IDENT <value>] with the value
        the generator built the spelling from (backslash + multi-byte character, invalid bytes, mixed escapes)
  Exit status 1 on a failure of (0)-(2), (4); findings do not change the exit status unless --strict (then 2).
"""
import os
import re
import subprocess
import sys
import tempfile
from decimal import Decimal

MASK = (1 << 64) - 1


class SplitMix:
    def __init__(self, seed):
        self.s = seed & MASK

    def next(self):
        self.s = (self.s + 0x9E3779B97F4A7C15) & MASK
        z = self.s
        z = ((z ^ (z >> 30)) * 0xBF58476D1CE4E5B9) & MASK
        z = ((z ^ (z >> 27)) * 0x94D049BB133111EB) & MASK
        return z ^ (z >> 31)

    def below(self, n):
        return self.next() % n

    def choice(self, xs):
        return xs[self.below(len(xs))]

    def chance(self, num, den):
        return self.below(den) < num


def case_rng(seed, i):
    return SplitMix((seed * 0x9E3779B97F4A7C15 + i * 0xD1B54A32D192ED03 + 0x632BE59BD9B4E019) & MASK)


def hx(b):
    return b.hex() if b else "-"


def unhx(h):
    return b"" if h == "-" else bytes.fromhex(h)


# ---------------------------------------------------------------------------------------------
# trees

def t_str(v):
    return "s" + hx(v)


def t_flt(text, neg=False):
    return "f" + ("-" if neg else "+") + text.encode().hex()


def t_arr(ts):
    return "A%d" % len(ts) + "".join(" " + t for t in ts)


def t_tup(ts):
    return "T%d" % len(ts) + "".join(" " + t for t in ts)


def nestings(t, other="n1"):
    """the tree alone and inside arrays / tuples"""
    return [t, t_arr([t]), t_arr([other, t]), t_arr([t_arr([t]), t_arr([other])]), t_tup([other, t]),
            t_tup([t, t_tup([t, other])]),
            # three and four levels deep (the element helpers recurse through different functions per level)
            t_tup([other, t_tup([other, t_tup([other, t])])]), t_tup([t_tup([t_tup([t, other]), other]), other]),
            t_arr([t_arr([t_arr([other, t])])]), t_tup([other, t_tup([other, t_tup([other, t_tup([t, other])])])])]


# ---------------------------------------------------------------------------------------------
# strings

def rand_string(r):
    kind = r.below(5)
    n = 1 + r.below(300) if r.chance(1, 4) else 1 + r.below(24)
    out = bytearray()
    if kind == 0:                       # uniform bytes
        for _ in range(n):
            out.append(r.below(256))
    elif kind == 1:                     # ASCII-heavy
        for _ in range(n):
            out.append(32 + r.below(95) if r.chance(9, 10) else r.below(256))
    elif kind == 2:                     # escape-heavy
        pool = [0x27, 0x5C, 0x0A, 0x09, 0x0D, 0x00, 0x08, 0x0C, 0x07, 0x0B, 0x1B, 0x22, 0x78, 0x6E, 0x30, 0x7F, 0x60]
        for _ in range(n):
            out.append(r.choice(pool) if r.chance(3, 4) else 32 + r.below(95))
    elif kind == 3:                     # valid UTF-8
        while len(out) < n:
            k = r.below(4)
            if k == 0:
                cp = r.below(0x80)
            elif k == 1:
                cp = 0x80 + r.below(0x800 - 0x80)
            elif k == 2:
                cp = 0x800 + r.below(0x10000 - 0x800)
                if 0xD800 <= cp <= 0xDFFF:
                    cp = 0xFFFD
            else:
                cp = 0x10000 + r.below(0x110000 - 0x10000)
            out += chr(cp).encode("utf-8")
    else:                               # invalid UTF-8: truncated / overlong / surrogate / stray continuation
        frags = [b"\xc3", b"\xe2\x82", b"\xf0\x9f\x98", b"\xc0\xaf", b"\xe0\x80\xaf", b"\xed\xa0\x80", b"\x80",
                 b"\xbf", b"\xff", b"\xfe", b"\xf5\x80\x80\x80", b"\xf4\x90\x80\x80", b"\xc3\xa9", b"a", b"'", b"\\"]
        while len(out) < n:
            out += r.choice(frags)
    return bytes(out)



# ---------------------------------------------------------------------------------------------
# spellings with escapes, built piece by piece together with the value they denote (an independent python
# transcription of the escape rules: named escapes, unknown escapes keep the backslash and the WHOLE character,
# \xHH, doubled quote; an invalid byte after a backslash is read as U+FFFD)

NAMED = {0x6E: 10, 0x74: 9, 0x72: 13, 0x30: 0, 0x61: 7, 0x62: 8, 0x66: 12, 0x76: 11, 0x65: 27, 0x5C: 92, 0x27: 39,
         0x22: 34}
MB_CHARS = [0x80, 0xE9, 0x3A9, 0x7FF, 0x800, 0x20AC, 0x2019, 0x2212, 0xD7FF, 0xE000, 0xFFFD, 0xFFFF, 0x10000, 0x1F600,
            0x10FFFF]
BAD_BYTES = [0x80, 0xBF, 0xC0, 0xC1, 0xC3, 0xE2, 0xF0, 0xF5, 0xFE, 0xFF]
FFFD = b"\xef\xbf\xbd"


def rand_mb(r):
    k = r.below(3)
    if k == 0:
        cp = 0x80 + r.below(0x800 - 0x80)
    elif k == 1:
        cp = 0x800 + r.below(0x10000 - 0x800)
        if 0xD800 <= cp <= 0xDFFF:
            cp = 0x20AC
    else:
        cp = 0x10000 + r.below(0x110000 - 0x10000)
    return chr(cp).encode("utf-8")


def esc_piece(r, quote):
    """(source bytes, value bytes) of one piece of a quoted text; quote = 0x27 (string), 0x60 (back-quoted identifier)"""
    k = r.below(9)
    if k == 0:                                  # raw printable ASCII
        c = 32 + r.below(95)
        if c in (quote, 0x5C):
            c = 0x41
        return bytes([c]), bytes([c])
    if k == 1:                                  # named escape
        c = r.choice(sorted(NAMED))
        return bytes([0x5C, c]), bytes([NAMED[c]])
    if k == 2:                                  # unknown ASCII escape
        c = 1 + r.below(127)
        if c in NAMED or c == 0x78 or (quote == 0x60 and c == 0x60):
            c = 0x7A
        return bytes([0x5C, c]), bytes([0x5C, c])
    if k == 3 or k == 4:                        # backslash + multi-byte character: the whole character is kept
        m = rand_mb(r)
        return b"\\" + m, b"\\" + m
    if k == 5:                                  # raw multi-byte character
        m = rand_mb(r)
        return m, m
    if k == 6:                                  # \xHH
        h = r.below(256)
        return ("\\x%02x" % h).encode(), bytes([h])
    if k == 7:                                  # doubled quote
        return bytes([quote, quote]), bytes([quote])
    b = r.choice(BAD_BYTES)                     # backslash + invalid byte (+ an ASCII letter so that it stays invalid)
    return bytes([0x5C, b, 0x7A]), b"\\" + FFFD + b"z"


def esc_spelling(r, quote, n):
    src, val = bytearray([quote]), bytearray()
    for _ in range(n):
        ps, pv = esc_piece(r, quote)
        src += ps
        val += pv
    src.append(quote)
    return bytes(src), bytes(val)


def dq_spelling(r, n):
    """double-quoted identifier: a backslash is dropped and the character after it kept whole; "" is a quote"""
    src, val = bytearray(b'"'), bytearray()
    for _ in range(n):
        k = r.below(5)
        if k == 0:
            c = 32 + r.below(95)
            if c in (0x22, 0x5C):
                c = 0x41
            src.append(c)
            val.append(c)
        elif k == 1:
            c = 1 + r.below(127)
            src += bytes([0x5C, c])
            val.append(c)
        elif k == 2:
            m = rand_mb(r)
            src += b"\\" + m
            val += m
        elif k == 3:
            m = rand_mb(r)
            src += m
            val += m
        else:
            src += b'""'
            val += b'"'
    src += b'"'
    return bytes(src), bytes(val)


def nest_src(kind, parts):
    o, c = (b"[", b"]") if kind == "A" else (b"(", b")")
    return o + b", ".join(parts) + c


def escape_cases_systematic():
    cases = []
    chars = [chr(cp).encode("utf-8") for cp in MB_CHARS]
    for m in chars:
        for pre, post in [(b"a", b"b"), (b"", b""), (b"\\n", b"\\\\")]:
            pv = {b"a": b"a", b"": b"", b"\\n": b"\n"}[pre]
            qv = {b"b": b"b", b"": b"", b"\\\\": b"\\"}[post]
            src = b"'" + pre + b"\\" + m + post + b"'"
            val = pv + b"\\" + m + qv
            cases.append(("str-uesc", t_str(val), src))
            cases.append(("str-uesc-nest", t_arr([t_str(val), "n1"]), nest_src("A", [src, b"1"])))
            cases.append(("str-uesc-nest", t_tup(["m2", t_str(val)]), nest_src("T", [b"-2", src])))
            cases.append(("str-uesc-nest", t_arr([t_arr([t_str(val)])]), nest_src("A", [nest_src("A", [src])])))
        cases.append(("str-uesc", t_str(b"\\" + m + b"\\" + m), b"'\\" + m + b"\\" + m + b"'"))
        cases.append(("ident-bt", ("tok", b"a\\" + m + b"b"), b"`a\\" + m + b"b`"))
        cases.append(("ident-bt", ("tok", b"\\" + m), b"`\\" + m + b"`"))
        cases.append(("ident-dq", ("tok", b"a" + m + b"b"), b'"a\\' + m + b'b"'))
    for b in BAD_BYTES:
        src = b"'a\\" + bytes([b]) + b"z'"
        val = b"a\\" + FFFD + b"z"
        cases.append(("str-uesc-bad", t_str(val), src))
        cases.append(("str-uesc-bad", t_arr([t_str(val)]), nest_src("A", [src])))
        cases.append(("str-uesc-bad", t_tup(["n1", t_str(val)]), nest_src("T", [b"1", src])))
        cases.append(("ident-bt", ("tok", val), b"`a\\" + bytes([b]) + b"z`"))
        cases.append(("ident-dq", ("tok", b"a" + FFFD + b"z"), b'"a\\' + bytes([b]) + b'z"'))
    return cases


def escape_case_random(r):
    k = r.below(6)
    n = 1 + r.below(12)
    if k <= 2:
        src, val = esc_spelling(r, 0x27, n)
        if k == 0:
            return ("str-mix", t_str(val), src)
        src2, val2 = esc_spelling(r, 0x27, 1 + r.below(6))
        if k == 1:
            return ("str-mix-nest", t_arr([t_str(val), t_str(val2)]), nest_src("A", [src, src2]))
        return ("str-mix-nest", t_tup([t_str(val2), t_tup([t_str(val), "n0"])]),
                nest_src("T", [src2, nest_src("T", [src, b"0"])]))
    if k <= 4:
        src, val = esc_spelling(r, 0x60, n)
        return ("ident-bt", ("tok", val), src)
    src, val = dq_spelling(r, n)
    return ("ident-dq", ("tok", val), src)

# ---------------------------------------------------------------------------------------------
# integers

def underscored(digits, r):
    """insert single underscores between digits (the lexer drops them in decimal numbers)"""
    out = digits[0]
    for c in digits[1:]:
        if r.chance(1, 3):
            out += "_"
        out += c
    return out


RADIX = {"x": 16, "b": 2, "o": 8}


def radix_digits(kind, v):
    return {"x": "%x" % v, "b": bin(v)[2:], "o": "%o" % v}[kind]


def t_rad(letter, digits):
    """CRad tree: the prefix letter (its case = the case of the prefix) and the digit/separator text after it"""
    return "r" + letter + digits.encode().hex()


def grouped(digits, k):
    """'_' between groups of k digits, counted from the right"""
    out = []
    while digits:
        out.append(digits[-k:])
        digits = digits[:-k]
    return "_".join(reversed(out))


def radix_spellings_systematic(kind, v):
    """well-formed spellings of v (LiteralSpec.rad_ok, and lexable: no '_' directly after 0b) as (letter, digits)"""
    d = radix_digits(kind, v)
    up = kind.upper()
    out = [(up, d.upper()), (kind, "00" + d), (kind, grouped(d, 4)), (up, grouped(d.upper(), 3)), (kind, "0_" + d)]
    if kind != "b":
        out.append((kind, "_" + d))
        out.append((up, "_" + grouped(d, 2)))
    if kind == "x":
        out.append((kind, "".join(c.upper() if i % 2 else c for i, c in enumerate(d))))
    return out


def radix_spelling_random(kind, v, r):
    d = radix_digits(kind, v)
    if r.chance(1, 3):
        d = "0" * (1 + r.below(3)) + d
    if kind == "x":
        d = "".join(c.upper() if r.chance(1, 2) else c for c in d)
    out = ""
    for i, c in enumerate(d):
        if (i > 0 or kind != "b") and r.chance(1, 4):
            out += "_"
        out += c
    letter = kind.upper() if r.chance(1, 3) else kind
    return letter, out


def int_cases_systematic():
    cases = []
    bounds = [0, 1, 1 << 31, 1 << 32, 1 << 53, 1 << 63, 1 << 64]
    vals = set()
    for b in bounds:
        for d in range(-2, 3):
            if b + d >= 0:
                vals.add(b + d)
    for k in range(0, 26):
        for d in (-1, 0, 1):
            if 10 ** k + d >= 0:
                vals.add(10 ** k + d)
    vals |= {(1 << 70) - 1, 1 << 70, (1 << 64) + (1 << 11), (1 << 64) + (1 << 11) + 1, 0xFF, 5, 15}
    # far beyond 2^64: the float64 nearest to the integer, up to the largest finite float and beyond (inf)
    huge = {1 << 100, (1 << 200) + 12345, 1 << 1023, (1 << 1024) - (1 << 970), (1 << 1024) - (1 << 970) + (1 << 969),
            1 << 1024, (1 << 1030) + 1}
    for v in sorted(vals | huge):
        # (a decimal integer that rounds to inf is a strconv range error like 1e999: outside the quantifier, not generated)
        for kind in ("xbo" if v in huge else "nmxbo"):
            for t in nestings(kind + str(v), other="n7"):
                cases.append(("int", t, None))
        d = str(v)
        if v not in huge:
            cases.append(("int-lead0", "n%d" % v, ("00" + d).encode()))
            cases.append(("int-lead0", "m%d" % v, ("-0" + d).encode()))
            cases.append(("int-space", "m%d" % v, ("- " + d).encode()))
        # other spellings of hex / binary / octal literals, (a) as a tree that states the VALUE with the text as an override,
        # (b) as the CRad tree of the text itself
        cases.append(("int-octal", "o%d" % v, ("0o%o" % v).encode()))
        cases.append(("int-upper", "x%d" % v, ("0X%X" % v).encode()))
        cases.append(("int-upper", "b%d" % v, ("0B" + bin(v)[2:]).encode()))
        cases.append(("int-upper", "o%d" % v, ("0O%o" % v).encode()))
        for kind in "xbo":
            for j, (letter, digits) in enumerate(radix_spellings_systematic(kind, v)):
                cases.append(("int-radix", kind + str(v), ("0" + letter + digits).encode()))
                t = t_rad(letter, digits)
                for tt in (nestings(t, other="m3") if (j == 2 or v in (1 << 64, (1 << 64) - 1)) else [t]):
                    cases.append(("int-radix", tt, None))
        # negated prefixed literals (the spec has no tree for them: code vs model)
        if v in ((1 << 63), (1 << 63) + 1, (1 << 64) - 1, 1 << 64, (1 << 64) + 1, 1 << 70, 1 << 1024, 0, 1):
            for kind in "xbo":
                sp = "0" + kind + radix_digits(kind, v)
                sp2 = "0" + kind.upper() + grouped(sp[2:], 4)
                for txt in ("-" + sp, "[-" + sp + "]", "(1, -" + sp + ")", "[[-" + sp + "], [2]]", "-" + sp + "::Int8",
                            "[" + sp + ", -" + sp2 + "]", "(-" + sp2 + ", (1, -" + sp + "))"):
                    cases.append(("raw", "-", txt.encode()))
    # spellings the property is silent about: code vs model only
    for s in ["0x", "0b", "0o", "0b2", "0o8", "08", "09", "0x_ff", "0xff_", "0xff__ff", "0b1_", "0b_1", "0o_7",
              "1_", "1__0", "1_a", "1e", "1e+", "0xg", "0x1p4", "0x1.8p1", "0x.8p1", "0x1p-2", "0X1P4", "1.", ".5",
              "1.e3", "1e5", "1E5", "1e+5", "1e-5", "0e0", "00.5", "1_0.5", "1.5_0", "1e1_0", "1..2", "1.a", "1.5.3",
              "0x1fp", "0xep1", "1 2", "1,2", "-", "--1", "- -1", "-+1", "+1", "(1)", "-(1)", "((1,2))", "[1", "1]",
              "(1", "[1,,2]", "[,1]", "(,)", "[-[1]]", "-[1]", "-(1,2)", "[1][1]", "(1,2).1", "1::Int8", "-1::Int8",
              "'a' 'b'", "'a'::String", "[1, NULL]", "[1, x]", "[1, 1+1]", "(1, NULL)", "[true]", "1 -- c",
              "٣", "1٣", "0xffffffffffffffff_f", "0b" + "1" * 65, "-0b" + "1" * 65, "0o" + "7" * 23,
              "0o1" + "7" * 21, "0o2" + "0" * 21, "0x" + "f" * 17, "-0x" + "f" * 17, "[0x" + "f" * 17 + "]",
              "1e999", "-1e999", "[1e999]", "[-1e999]", "[[-1e999]]", "(1, -1e999)", "1e-999", "[[-'a']]", "-'a'",
              "[-'a']", "(1, -'a')", "(1, (2, -'a'))", "[]", "()", "(1,)", "[1,]", "(1,2,)", "(1, ())", "(1, (2,))",
              "[[]]", "[[1],[]]", "[[[1]],[[]]]", "[(1,2)]", "(1,[2])", "[[1,(2,3)]]", "((1,2),(3,4))",
              "0b1" + "0" * 64 + "_", "0b1__" + "0" * 64, "0b_1" + "0" * 64,
              "0B1" + "0" * 64 + "2", "0o2" + "0" * 21 + "8", "0o2" + "0" * 21 + "_", "0o2__" + "0" * 21,
              "0x1" + "0" * 16 + "__0", "0x1" + "0" * 16 + "_", "0X1" + "0" * 16 + "g", "0x1" + "0" * 16 + ".8",
              "0x1" + "0" * 16 + "p1", "0b1" + "0" * 64 + "e5", "0b1" + "0" * 64 + ".5", "0o" + "7" * 30 + "::UInt256",
              "0" + "7" * 25, "000" + str(1 << 64), "0" + str(1 << 64), "-0" + str(1 << 64), "0_" + str(1 << 64),
              "((1,2),[3])", "[[1,2],[3,4]]", "[[[1]]]", "[1, [2]]", "[[1], 2]", "(1, 'a', -2.5, (3, 'b'))"]:
        cases.append(("raw", "-", s.encode()))
    return cases


def int_case_random(r):
    k = r.below(6)
    if k == 0:
        v = r.next()
    elif k == 1:
        v = r.next() >> r.below(64)
    elif k == 2:
        v = (1 << 64) + (r.next() % ((1 << 70) - (1 << 64)))
    elif k == 3:
        v = (1 << 63) + r.below(1 << 20) - (1 << 19)
    elif k == 4:
        v = (1 << 64) + r.below(1 << 20) - (1 << 19)
    else:
        v = r.below(100000)
    kind = r.choice("nnmmxbo")
    if kind in "xbo" and r.chance(1, 20):
        v = (1 << (65 + r.below(1000))) + r.next()          # far beyond 2^64, up to inf
    t = kind + str(v)
    style = r.below(8)
    if kind in "xbo" and style >= 5:                        # a random well-formed spelling, as its own CRad tree
        letter, digits = radix_spelling_random(kind, v, r)
        tr = t_rad(letter, digits)
        if style == 5:
            return ("int-radix", tr, None)
        if style == 6:
            return ("int-radix", r.choice(nestings(tr, other=r.choice(["n0", "m3", "s61", "x255"]))), None)
        return ("int-radix", t, ("0" + letter + digits).encode())
    if style == 0 and kind in "nm" and len(str(v)) > 1:
        s = underscored(str(v), r)
        return ("int-us", t, (("-" if kind == "m" else "") + s).encode())
    if style == 1 and kind in "nm":
        z = "0" * (1 + r.below(4))
        return ("int-lead0", t, (("-" if kind == "m" else "") + z + str(v)).encode())
    if style == 2 and kind == "x" and 0xFF < v:
        h = "%x" % v
        i = 1 + r.below(len(h) - 1)
        return ("int-us", t, ("0x" + h[:i] + "_" + h[i:]).encode())
    if style == 3 and kind == "b" and v > 3:
        h = bin(v)[2:]
        i = 1 + r.below(len(h) - 1)
        return ("int-us", t, ("0b" + h[:i] + "_" + h[i:]).encode())
    if style == 4:
        return ("int", r.choice(nestings(t, other=r.choice(["n0", "m3", "s61"]))), None)
    return ("int", t, None)


# ---------------------------------------------------------------------------------------------
# floats

def float_from_bits(b):
    import struct
    return struct.unpack("<d", struct.pack("<Q", b & MASK))[0]


def float_spellings(f):
    """source spellings of the non-negative finite float f (each denotes SOME float; strconv decides which)"""
    out = [repr(f), "%.17g" % f, "%e" % f, "%.16e" % f, "%g" % f, "%E" % f]
    if f == 0 or 1e-5 <= f < 1e25:
        out += ["%f" % f, "%.3f" % f]
    if f != 0 and f < 1e-5 and f > 1e-30:
        out.append("%.40f" % f)
    res = []
    for s in out:
        if not re.fullmatch(r"[0-9]*\.?[0-9]*([eE][+-]?[0-9]+)?", s) or not re.search(r"[0-9]", s):
            continue
        if "." not in s and "e" not in s and "E" not in s:
            s += ".0"                     # an integer spelling would take the integer path
        if s not in res:
            res.append(s)
    return res


FLOAT_BOUNDARIES = [
    "1e-6", "0.000001", "9.999999999999999e-7", "1.0000000000000002e-6", "1e-7", "0.0000001", "1e21", "1e20",
    "999999999999999900000.0", "999999999999999868928.0", "1000000000000000000000.0", "1.0000000000000001e21",
    "123456789012345678901234.0", "0.1", "0.2", "0.3", "1.5", "0.0", "0.00", "0e0", "1e0", "1.0", "100.0", "1e2",
    "5e-324", "4.9e-324", "2.2250738585072014e-308", "2.225073858507201e-308", "1.7976931348623157e308",
    "1.7976931348623157e+308", "1e308", "1e-308", "1e-323", "9007199254740993.0", "9007199254740992.0",
    "0.30000000000000004", "1e22", "1e23", "8.41e21", "2.5e-5", "0.000025", "12345.678", "1.", ".5",
    "00.5", "1e+21", "1E21", "1e-07", "1e021", "123456789e13", "0.000000999999999999999954", "3.14159",
]


def float_cases_systematic():
    cases = []
    for s in FLOAT_BOUNDARIES:
        for neg in (False, True):
            for t in nestings(t_flt(s, neg), other="n2"):
                cases.append(("float", t, None))
    for s in ["1e999", "1.8e308", "2e308"]:          # strconv range errors: the code prints a string literal
        cases.append(("float-range", t_flt(s), None))
        cases.append(("float-range", t_flt(s, True), None))
    return cases


def float_case_random(r):
    k = r.below(4)
    if k == 0:
        bits = r.next() & ((1 << 63) - 1)
    elif k == 1:                        # moderate exponents
        bits = ((1023 - 80 + r.below(160)) << 52) | (r.next() & ((1 << 52) - 1))
    elif k == 2:                        # near the style thresholds
        base = r.choice([1e-6, 1e21, 1e-7, 1e20, 1.0])
        import struct
        bits = struct.unpack("<Q", struct.pack("<d", base))[0] + r.below(9) - 4
    else:                               # subnormals / tiny / huge
        bits = r.choice([r.below(1 << 52), (0x7FE << 52) | (r.next() & ((1 << 52) - 1)), r.below(1 << 10)])
    f = float_from_bits(bits)
    if f != f or f in (float("inf"), float("-inf")):
        f = 1.5
    sp = r.choice(float_spellings(f))
    t = t_flt(sp, r.chance(1, 3))
    if r.chance(1, 3):
        t = r.choice(nestings(t, other=r.choice(["n1", "m2", "s78"])))
    return ("float", t, None)


# ---------------------------------------------------------------------------------------------

def gen_cases(seed, count, exhaustive=True):
    """list of (family, tree, override-bytes-or-None-or-('raw', value))"""
    cases = []
    if exhaustive:
        for a in range(256):
            v = bytes([a])
            cases.append(("str1", t_str(v), None))
            cases.append(("str1-raw", t_str(v), ("rawquote", v)))
            for t in nestings(t_str(v))[1:]:
                cases.append(("str1-nest", t, None))
        for a in range(256):
            for b in range(256):
                v = bytes([a, b])
                cases.append(("str2", t_str(v), None))
                cases.append(("str2-raw", t_str(v), ("rawquote", v)))
                cases.append(("str2-nest", t_arr([t_str(v), "m1"]) if (a + b) % 2 else t_tup(["n1", t_str(v)]), None))
    fixed = [b"", b"'", b"\\", b"''", b"\\\\", b"it's", b"a\\'b", b"\n", b"\x00", b"\xff", "é".encode(),
             b"q'\\\n\x00\xff\xc3\xa9", b"\\x", b"\\x4", b"\\x41", "日本語".encode(), b"\xf0\x9f\x98\x80",
             b"\xed\xa0\x80", b"\xc0\xaf", b"\xef\xbf\xbd", b"\xe2\x80\x99", b"\xe2\x88\x92", b"--", b"/*", b"$$"]
    for v in fixed:
        for t in nestings(t_str(v)):
            cases.append(("str-fixed", t, None))
        cases.append(("str-fixed-raw", t_str(v), ("rawquote", v)))
    # alternative spellings of string values: code vs model vs the value's canon
    for src, val in [(b"'a''b'", b"a'b"), (b"'\\n\\t\\r\\0\\a\\b\\f\\v\\e\\\\\\'\\\"'", b"\n\t\r\x00\x07\x08\x0c\x0b\x1b\\'\""),
                     (b"'\\z\\%\\_'", b"\\z\\%\\_"), (b"'\\x41\\x6a\\xFF'", b"Aj\xff"), (b"'\\xZZ'", b"\x00"),
                     (b"'\\x4Z'", b"\x40"), (b"''''", b"'"), (b"'\"'", b"\""), (b"'a\nb'", b"a\nb"),
                     (b"'\xc3\xa9'", b"\xc3\xa9"), (b"'\x00'", b"\x00")]:
        cases.append(("str-alt", t_str(val), src))
    # control characters written RAW between the quotes (only ' and \\ escaped): every single one, every pair of them, and
    # each next to a letter -- the value must survive the lexer byte for byte (CR LF, TAB, VT, ESC, DEL ...)
    ctl = [c for c in range(1, 32)] + [127]
    def rawsrc(v):
        return b"'" + v.replace(b"\\", b"\\\\").replace(b"'", b"\\'") + b"'"
    for a in ctl:
        for v in (bytes([a]), b"a" + bytes([a]) + b"b", bytes([a]) + b"x", b"x" + bytes([a])):
            cases.append(("str-rawctl", t_str(v), rawsrc(v)))
        for b in ctl:
            v = b"a" + bytes([a, b]) + b"b"
            cases.append(("str-rawctl2", t_str(v), rawsrc(v)))
    for v in (b"line1\r\nline2", b"\r\n", b"a\r\n\r\nb", b"\n\r", b"tab\there\r\n", b"\r", b"x\r\ny'z\\"):
        for t in nestings(t_str(v)):
            cases.append(("str-rawctl-fixed", t, None))
        cases.append(("str-rawctl-fixed", t_str(v), rawsrc(v)))
    # the decoding table, one escape at a time: '<a>\c<b>' for every ASCII c, and \xHH in both digit cases
    named = {0x6E: 10, 0x74: 9, 0x72: 13, 0x30: 0, 0x61: 7, 0x62: 8, 0x66: 12, 0x76: 11, 0x65: 27, 0x5C: 92, 0x27: 39,
             0x22: 34}
    for c in range(1, 128):
        if c == 0x78:
            continue
        val = bytes([named[c]]) if c in named else bytes([0x5C, c])
        cases.append(("str-escape", t_str(b"a" + val + b"b"), b"'a\\" + bytes([c]) + b"b'"))
    for h in range(256):
        cases.append(("str-escape", t_str(bytes([h])), ("'\\x%02X'" % h).encode()))
        cases.append(("str-escape", t_str(b"a" + bytes([h]) + b"z"), ("'a\\x%02xz'" % h).encode()))
    # a backslash in front of a NON-ASCII character whose code point equals an escape letter modulo 256 (or modulo 128): the
    # decoding table is indexed by the character, not by its low byte -- the character is no escape, backslash and character stay
    for c in b"ntr0abfve\\'\"xNTX":
        for k in (1, 2, 4, 0x1F4, 0x20, 0x100):
            for cp in (c + 256 * k, c + 128 * (2 * k + 1)):
                if 0xD800 <= cp <= 0xDFFF or cp > 0x10FFFF:
                    continue
                ch = chr(cp).encode("utf-8")
                cases.append(("str-escape-nonascii", t_str(b"a\\" + ch + b"b"), b"'a\\" + ch + b"b'"))
    for src in [b"'abc", b"'abc\\", b"'\\x", b"'\\x4", b"'a\\", b"'\xff'", b"'\xc3'", b"'\xed\xa0\x80'", b"'a'''"]:
        cases.append(("raw", "-", src))
    cases += escape_cases_systematic()
    # size cliffs: a literal that reaches past 64 KiB / 256 KiB / 1 MiB of query text (a size limit on the input must not
    # shorten a literal silently), as one long string and as a number placed across the offset behind padding
    for n in (70000, 300000, 1100000):
        cases.append(("str-big", t_str(b"a" * (n - 3) + b"'z\xc3\xa9".decode("unicode_escape").encode("latin-1")), None))
    for k in (16, 18, 20):
        for d in (12, 7, 2):
            cases.append(("int-far", "n1234567890", b" " * ((1 << k) - d) + b"1234567890"))
    if exhaustive:
        cases += int_cases_systematic()
        cases += float_cases_systematic()
    for i in range(count):
        r = case_rng(seed, i)
        fam = r.below(12)
        if fam >= 10:
            cases.append(escape_case_random(r))
        elif fam < 4:
            v = rand_string(r)
            k = r.below(4)
            if k == 0:
                cases.append(("str-rand", t_str(v), None))
            elif k == 1:
                cases.append(("str-rand-raw", t_str(v), ("rawquote", v)))
            else:
                w = rand_string(r) if r.chance(1, 2) else b"x"
                cases.append(("str-rand-nest", r.choice(nestings(t_str(v), other=t_str(w))), None))
        elif fam < 7:
            cases.append(int_case_random(r))
        else:
            cases.append(float_case_random(r))
    return cases


# ---------------------------------------------------------------------------------------------
# running

def run_tool(cmd, lines):
    # the extracted functions are not all tail recursive: megabyte literals need a deep stack
    sh = "ulimit -s unlimited 2>/dev/null; exec " + " ".join("'%s'" % c for c in cmd)
    p = subprocess.run(["/bin/bash", "-c", sh], input=("\n".join(lines) + "\n").encode(), stdout=subprocess.PIPE, stderr=subprocess.PIPE)
    if p.returncode != 0:
        sys.stderr.write("command %r failed: %s\n" % (cmd, p.stderr.decode(errors="replace")[:2000]))
        sys.exit(3)
    out = p.stdout.decode().split("\n")
    if out and out[-1] == "":
        out.pop()
    if len(out) != len(lines):
        sys.stderr.write("command %r: %d lines in, %d lines out\n" % (cmd, len(lines), len(out)))
        sys.exit(3)
    return out


def py_digits(f):
    """(sign, digits, exp10) of a finite Python float in the convention of the oracle"""
    sign = "-" if (f < 0 or (f == 0 and str(f).startswith("-"))) else "+"
    d = Decimal(repr(abs(f)))
    tup = d.as_tuple()
    digs = "".join(map(str, tup.digits)).lstrip("0")
    if digs == "":
        return sign + "0e0"
    e = tup.exponent + len(digs) - 1
    digs = digs.rstrip("0") or "0"
    return "%s%se%d" % (sign, digs, e)


DEC_FLOAT_RE = re.compile(r"[0-9]*\.?[0-9]*([eE][+-]?[0-9]+)?")


def check_oracle(field, problems, src_hex):
    if field == "-":
        return
    for ent in field.split(","):
        hv, pf, iv, nf = ent.split(":")
        text = unhx(hv).decode("latin-1")
        if DEC_FLOAT_RE.fullmatch(text) and re.search(r"[0-9]", text.split("e")[0].split("E")[0]):
            try:
                f = float(text)
            except ValueError:
                f = None
            if f is not None:
                exp = "E" if f in (float("inf"), float("-inf")) else py_digits(f)
                if exp != pf:
                    problems.append("ORACLE pf src=%s text=%r go=%s python=%s" % (src_hex, text, pf, exp))
        if iv != "E":
            n = int(iv)
            try:
                f = float(n)
                exp = py_digits(f)
            except OverflowError:
                exp = "I+"
            if exp != nf:
                problems.append("ORACLE nf src=%s iv=%s go=%s python=%s" % (src_hex, iv, nf, exp))


def tree_class(tree):
    """python classification of the known deviation classes of a tree (for the report only)"""
    words = tree.split(" ")
    cls = set()
    for w in words:
        if w[0] == "f":
            cls.add("float?")
    return cls


def main():
    args = sys.argv[1:]
    if len(args) < 2:
        sys.stderr.write(__doc__)
        sys.exit(2)
    seed, count = int(args[0]), int(args[1])
    opts = args[2:]
    run = "--run" in opts
    strict = "--strict" in opts
    exhaustive = "--no-exhaustive" not in opts

    def opt(name, default):
        return opts[opts.index(name) + 1] if name in opts else default

    litdump = opt("--litdump", "/verif/build/litdump")
    driver = opt("--driver", "/verif/build/literal_driver")
    keep = opt("--keep", None)
    max_report = int(opt("--max-report", "10"))

    all_cases = gen_cases(seed, count, exhaustive)
    tok_cases = [c for c in all_cases if isinstance(c[1], tuple)]      # quoted identifiers: token-level comparison
    cases = [c for c in all_cases if not isinstance(c[1], tuple)]
    if not run:
        out = []
        for j, (fam, (_, val), src) in enumerate(tok_cases):
            out.append("t%d\t%s\ttok:4:%s\t%s" % (j, fam, hx(val), hx(src)))
        for i, (fam, tree, ov) in enumerate(cases):
            if isinstance(ov, tuple):
                ovs = "rawquote:" + hx(ov[1])
            else:
                ovs = hx(ov) if ov is not None else "-"
            out.append("%d\t%s\t%s\t%s" % (i, fam, tree, ovs))
        sys.stdout.write("\n".join(out) + "\n")
        return

    # pass 0: quote_raw spellings
    rawvals = sorted({ov[1] for (_, _, ov) in cases if isinstance(ov, tuple)})
    rawq = {}
    if rawvals:
        for v, line in zip(rawvals, run_tool([driver, "quote"], [hx(v) for v in rawvals])):
            f = line.split("\t")
            rawq[v] = unhx(f[2])
    # pass 1: sources
    tree_idx = [i for i, c in enumerate(cases) if c[1] != "-"]
    spec_src = {}
    for i, line in zip(tree_idx, run_tool([driver, "src"], [cases[i][1] for i in tree_idx])):
        if line == "BAD":
            sys.stderr.write("spec driver rejected tree %r\n" % cases[i][1])
            sys.exit(3)
        spec_src[i] = unhx(line)
    srcs = []
    for i, (fam, tree, ov) in enumerate(cases):
        if isinstance(ov, tuple):
            srcs.append(rawq[ov[1]])
        elif ov is not None:
            srcs.append(ov)
        else:
            srcs.append(spec_src[i])
    # a source text must not contain a newline for the line protocol of SELECT <src> ... it may: hex-encoded. fine.
    # pass 2: code
    code = run_tool([litdump, "-floats"], [hx(s) for s in srcs])
    # pass 3: model
    model = run_tool([driver, "model"], [c.split("\t")[0] + "\t" + c.split("\t")[3] for c in code])
    # pass 4: spec
    canon = {}
    for i, line in zip(tree_idx, run_tool([driver, "canon"], [cases[i][1] + "\t" + code[i].split("\t")[3] for i in tree_idx])):
        canon[i] = line.split("\t")

    if keep:
        os.makedirs(keep, exist_ok=True)
        with open(os.path.join(keep, "cases.txt"), "w") as fh:
            for i, (fam, tree, ov) in enumerate(cases):
                fh.write("%d\t%s\t%s\t%s\n" % (i, fam, tree, hx(srcs[i])))
        with open(os.path.join(keep, "code.txt"), "w") as fh:
            fh.write("\n".join(code) + "\n")
        with open(os.path.join(keep, "model.txt"), "w") as fh:
            fh.write("\n".join(model) + "\n")
        with open(os.path.join(keep, "spec.txt"), "w") as fh:
            for i in tree_idx:
                fh.write("%d\t%s\n" % (i, "\t".join(canon[i])))

    problems = []
    findings = {}
    # pass 5: quoted identifiers, token level: code tokens = model tokens = [IDENT <expected value>]
    if tok_cases:
        tsrc = [hx(c[2]) for c in tok_cases]
        tcode = run_tool([litdump, "-tokens"], tsrc)
        tmodel = run_tool([driver, "tokens"], tsrc)
        for j, (fam, (_, val), src) in enumerate(tok_cases):
            exp = "%s\tT\t4:%s" % (hx(src), hx(val))
            if tcode[j] != tmodel[j]:
                problems.append("CODE!=MODEL(tokens) case=t%d fam=%s src=%s code=%s model=%s" % (
                    j, fam, hx(src), tcode[j].split("\t")[-1], tmodel[j].split("\t")[-1]))
            if tcode[j] != exp:
                problems.append("CODE!=SPEC(tokens) case=t%d fam=%s src=%s code=%s spec=4:%s" % (
                    j, fam, hx(src), tcode[j].split("\t")[-1], hx(val)))
    stats = {"cases": len(cases), "with_tree": len(tree_idx), "wf": 0, "model_oof": 0, "code_L": 0, "code_NOTLIT": 0,
             "code_ERR": 0, "code_PANIC": 0}
    fam_count = {}
    for i, (fam, tree, ov) in enumerate(cases):
        fam_count[fam] = fam_count.get(fam, 0) + 1
        c = code[i].split("\t")
        m = model[i].split("\t")
        sh = hx(srcs[i])
        if len(c) != 4 or len(m) != 3 or c[0] != sh or m[0] != sh:
            problems.append("PROTOCOL case=%d src=%s code=%r model=%r" % (i, sh, code[i], model[i]))
            continue
        stats["code_" + c[1]] = stats.get("code_" + c[1], 0) + 1
        check_oracle(c[3], problems, sh)
        is_oof = m[1].startswith("OOF") or m[1] in ("FUEL", "LEXFUEL", "NOORACLE")
        if is_oof:
            stats["model_oof"] += 1
            if m[1] in ("FUEL", "LEXFUEL", "NOORACLE"):
                problems.append("MODEL-%s case=%d fam=%s src=%s" % (m[1], i, fam, sh))
        elif (c[1], c[2]) != (m[1], m[2]):
            problems.append("CODE!=MODEL case=%d fam=%s src=%s code=%s:%s model=%s:%s" % (i, fam, sh, c[1], c[2], m[1], m[2]))
        if tree != "-":
            sp = canon[i]
            if len(sp) != 3 or sp[1] == "NOORACLE":
                problems.append("SPEC case=%d fam=%s tree=%s spec=%r" % (i, fam, tree, sp))
                continue
            if ov is None and sp[0] != sh:
                problems.append("SPEC-SRC case=%d tree=%s" % (i, tree))
            if sp[2] == "W":
                stats["wf"] += 1
                if is_oof:
                    problems.append("MODEL-OOF-ON-WF case=%d fam=%s tree=%s src=%s model=%s" % (i, fam, tree, sh, m[1]))
                if not (c[1] == "L" and c[2] == sp[1]):
                    problems.append("CODE!=SPEC case=%d fam=%s tree=%s src=%s code=%s:%s spec=%s" % (i, fam, tree, sh, c[1], c[2], sp[1]))
            else:
                if not (c[1] == "L" and c[2] == sp[1]):
                    cls = tree_class(tree) - {"float?"}
                    words = tree.split(" ")
                    if not cls:
                        if any(w[0] == "f" for w in words) and c[1] == "L" and b"\\'" in unhx(c[2]):
                            cls = {"float-text-rejected-by-strconv"}
                        elif c[1] == "NOTLIT":
                            cls = {"not-a-literal-line"}
                        else:
                            cls = {"other"}
                    for k in cls:
                        findings.setdefault(k, []).append((i, tree, sh, c[1], c[2], sp[1]))

    print("cases=%d with_tree=%d wf=%d model_oof=%d code: L=%d NOTLIT=%d ERR=%d PANIC=%d" % (
        stats["cases"], stats["with_tree"], stats["wf"], stats["model_oof"], stats["code_L"], stats["code_NOTLIT"],
        stats["code_ERR"], stats["code_PANIC"]))
    tfam = {}
    for c in tok_cases:
        tfam[c[0]] = tfam.get(c[0], 0) + 1
    print("token-level cases=%d %s" % (len(tok_cases), " ".join("%s=%d" % kv for kv in sorted(tfam.items()))))
    print("families: " + " ".join("%s=%d" % kv for kv in sorted(fam_count.items())))
    for k in sorted(findings):
        lst = findings[k]
        tag = "NOTE" if k == "not-a-literal-line" else "FINDING"
        print("%s class=%s count=%d" % (tag, k, len(lst)))
        for (i, tree, sh, st, ch, sp) in lst[:max_report if tag == "FINDING" else 2]:
            spec_txt = repr(unhx(sp))
            if k == "float-text-rejected-by-strconv":
                spec_txt = "'Float64_<digits>' (strconv.ParseFloat returns a range error: no digits; ClickHouse reads inf)"
            print("   case=%d tree=%s src=%r code=%s %r spec=%s" % (i, tree, unhx(sh), st, unhx(ch), spec_txt))
        if tag == "FINDING":
            for (i, tree, sh, st, ch, sp) in lst:
                print("FINDING-KEY %s %s" % (k, sh))
    if problems:
        print("DISAGREEMENTS: %d" % len(problems))
        for p in problems[:max_report]:
            print("   " + p)
        sys.exit(1)
    print("OK: code = model on every case inside the fragment, code = spec on every well-formed tree")
    real = [k for k in findings if k != "not-a-literal-line"]
    if strict and real:
        sys.exit(2)


if __name__ == "__main__":
    main()
