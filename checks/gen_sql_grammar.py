#!/usr/bin/env python3
"""Grammar-based generator of syntactically VALID ClickHouse statements for the C04 oracle run
       gen_sql_grammar.py | /verif/build/explaindump | /verif/build/tree_driver

usage: gen_sql_grammar.py <seed> <count> [--kinds select,setop,insert,create,alter,utility]
                          [--hex] [--start <index>]

One statement per line (never contains a line break).  With --hex each line is the lowercase hex
of the statement (the input format of explaindump); without it the plain text.
Statement i depends only on (seed, i) through splitmix64, so `--start i` with count 1 replays it.

Kinds (statement i has kind kinds[i % len(kinds)]):
  select   one SELECT with a random subset of all clauses, expressions of every kind the printer
           knows; 1 in 12 is a deep-nesting case (up to 300 levels, never more)
  setop    UNION ALL / DISTINCT / bare, INTERSECT, EXCEPT chains, parenthesised members, WITH on
           the first member (inherited-WITH printers), union-level SETTINGS / FORMAT tails
  insert   INSERT ... SELECT, WITH ... INSERT ... SELECT, INSERT INTO FUNCTION, column lists, tails
  create   CREATE TABLE / VIEW / MATERIALIZED VIEW / DICTIONARY / DATABASE / FUNCTION / USER / ROLE ...
  alter    ALTER TABLE with every command kind the parser knows
  utility  SHOW*, DESCRIBE, EXPLAIN of all kinds, USE, SET, SYSTEM, OPTIMIZE, TRUNCATE, RENAME,
           EXCHANGE, GRANT/REVOKE, KILL, BACKUP/RESTORE, CHECK, ATTACH/DETACH, DROP*, EXISTS,
           UNDROP, transactions
"""
import sys

MASK = (1 << 64) - 1


def mix(z):
    z = (z + 0x9E3779B97F4A7C15) & MASK
    z = ((z ^ (z >> 30)) * 0xBF58476D1CE4E5B9) & MASK
    z = ((z ^ (z >> 27)) * 0x94D049BB133111EB) & MASK
    return z ^ (z >> 31)


class Rng:
    def __init__(self, *keys):
        s = 0x9E3779B97F4A7C15
        for k in keys:
            s = mix((s ^ (k & MASK)) & MASK)
        self.s = s

    def next(self):
        self.s = (self.s + 0x9E3779B97F4A7C15) & MASK
        return mix(self.s)

    def below(self, n):
        return self.next() % n

    def p(self, num, den):
        """true with probability num/den"""
        return self.next() % den < num

    def pick(self, seq):
        return seq[self.next() % len(seq)]

    def sample(self, seq, lo, hi):
        n = lo + self.below(hi - lo + 1)
        return [self.pick(seq) for _ in range(n)]


# ------------------------------------------------------------------------------------------
# names, literals, types

COLS = ["a", "b", "c", "x", "y", "id", "ts", "val", "name", "arr", "tup", "m"]
TABLES = ["t", "t1", "t2", "db.t", "db.events", "system.numbers", "hits"]
FUNCS1 = ["abs", "toString", "length", "toDate", "lower", "isNull", "toUInt8", "negate", "reverse", "empty"]
FUNCS2 = ["plus", "concat", "greatest", "if_null", "ifNull", "pow", "arrayElement", "has", "position", "substring"]
AGGS = ["count", "sum", "min", "max", "avg", "any", "uniq", "groupArray"]
FORMATS = ["Null", "JSON", "TSV", "CSV", "Pretty", "JSONEachRow", "Values", "TabSeparated"]
SETTINGS = ["max_threads", "max_block_size", "allow_experimental_analyzer", "join_use_nulls", "optimize_read_in_order"]


def ident(r):
    x = r.below(20)
    if x == 0:
        return "`" + r.pick(["weird name", "select", "a-b", "x.y", "1col"]) + "`"
    if x == 1:
        return '"' + r.pick(["quoted", "Order", "my col"]) + '"'
    return r.pick(COLS)


def col(r):
    x = r.below(10)
    if x == 0:
        return r.pick(["t", "t1", "t2"]) + "." + r.pick(COLS)
    if x == 1:
        return "db.t." + r.pick(COLS)
    return ident(r)


def string_lit(r):
    return "'" + r.pick(["abc", "", "hello world", "it\\'s", "a\\\\b", "%x%", "2020-01-01", "1", "\\n", "tab\\there",
                         "üñí", "a;b", "--c", "/*d*/"]) + "'"


def number_lit(r):
    return r.pick(["0", "1", "42", "255", "65536", "18446744073709551615", "1.5", "0.1", "1e10", "1.5e-3", "0x1F",
                   "0b101", "-1", "-2.5", "3.", ".5", "1_000", "inf", "nan", "9223372036854775808"])


def literal(r):
    x = r.below(12)
    if x < 5:
        return number_lit(r)
    if x < 8:
        return string_lit(r)
    if x == 8:
        return "NULL"
    if x == 9:
        return r.pick(["true", "false"])
    if x == 10:
        return "[" + ", ".join(r.pick([number_lit, string_lit])(r) for _ in range(r.below(4))) + "]"
    return "(" + ", ".join(literal(r) for _ in range(2 + r.below(2))) + ")"


SIMPLE_TYPES = ["UInt8", "UInt16", "UInt32", "UInt64", "Int8", "Int32", "Int64", "Float32", "Float64", "String",
                "Date", "DateTime", "UUID", "Bool", "IPv4", "Date32", "Int128", "UInt256"]


def data_type(r, depth=0):
    x = r.below(22 if depth < 3 else 8)
    if x < 8:
        return r.pick(SIMPLE_TYPES)
    if x == 8:
        return "Nullable(" + r.pick(SIMPLE_TYPES) + ")"
    if x == 9:
        return "Array(" + data_type(r, depth + 1) + ")"
    if x == 10:
        return "LowCardinality(" + r.pick(["String", "Nullable(String)", "FixedString(4)"]) + ")"
    if x == 11:
        return "FixedString(" + str(1 + r.below(64)) + ")"
    if x == 12:
        return "Decimal(" + str(10 + r.below(20)) + ", " + str(r.below(9)) + ")"
    if x == 13:
        return r.pick(["DateTime('UTC')", "DateTime64(3)", "DateTime64(6, 'Europe/Berlin')"])
    if x == 14:
        return "Tuple(" + ", ".join(data_type(r, depth + 1) for _ in range(1 + r.below(3))) + ")"
    if x == 15:
        return "Tuple(" + ", ".join(r.pick(["a", "b", "k", "v"]) + str(i) + " " + data_type(r, depth + 1)
                                    for i in range(1 + r.below(3))) + ")"
    if x == 16:
        return "Map(" + r.pick(["String", "UInt64", "LowCardinality(String)"]) + ", " + data_type(r, depth + 1) + ")"
    if x == 17:
        return "Enum8('a' = 1, 'b' = 2)"
    if x == 18:
        return r.pick(["Enum('x', 'y')", "Enum16('k' = -5, 'l' = 300)"])
    if x == 19:
        return "Nested(" + ", ".join(r.pick(["n", "k", "v"]) + str(i) + " " + r.pick(SIMPLE_TYPES)
                                     for i in range(1 + r.below(3))) + ")"
    if x == 20:
        return r.pick(["SimpleAggregateFunction(sum, UInt64)", "AggregateFunction(uniq, String)",
                       "AggregateFunction(quantiles(0.5, 0.9), Float64)"])
    return r.pick(["JSON", "Variant(String, UInt64)", "Dynamic", "Object('json')"])


# ------------------------------------------------------------------------------------------
# expressions

BINOPS = ["+", "-", "*", "/", "%", "=", "==", "!=", "<>", "<", "<=", ">", ">=", "AND", "OR", "||", "<=>",
          "DIV", "MOD"]


def expr(r, d=0, subq=True):
    """an expression; d = current depth (bounded), subq = may contain subqueries"""
    if d >= 4:
        return atom(r)
    x = r.below(46)
    e = lambda: expr(r, d + 1, subq)
    if x < 10:
        return atom(r)
    if x < 14:
        return e() + " " + r.pick(BINOPS) + " " + e()
    if x == 14:
        return "(" + e() + ")"
    if x == 15:
        return r.pick(["NOT ", "-", "not "]) + atom(r)
    if x == 16:
        return r.pick(FUNCS1) + "(" + e() + ")"
    if x == 17:
        return r.pick(FUNCS2) + "(" + e() + ", " + e() + ")"
    if x == 18:
        return r.pick(AGGS) + "(" + r.pick(["", "DISTINCT "]) + col(r) + ")"
    if x == 19:
        return r.pick(["quantile(0.5)", "quantiles(0.5, 0.9)", "topK(3)", "groupArray(10)",
                       "sequenceMatch('(?1)(?2)')"]) + "(" + e() + (", " + e() if r.p(1, 3) else "") + ")"
    if x == 20:
        return "count(*)" if r.p(1, 2) else "count()"
    if x == 21:
        return window_func(r, d)
    if x == 22:
        n = 1 + r.below(3)
        s = "CASE " + (e() + " " if r.p(1, 2) else "")
        for _ in range(n):
            s += "WHEN " + e() + " THEN " + e() + " "
        if r.p(2, 3):
            s += "ELSE " + e() + " "
        return s + "END"
    if x == 23:
        return "CAST(" + e() + " AS " + data_type(r) + ")"
    if x == 24:
        return "CAST(" + e() + ", '" + data_type(r).replace("'", "\\'") + "')"
    if x == 25:
        return cast_op(r, d)
    if x == 26:
        return lambda_call(r, d)
    if x == 27:
        return in_expr(r, d, subq)
    if x == 28:
        return e() + r.pick([" BETWEEN ", " NOT BETWEEN "]) + atom(r) + " AND " + atom(r)
    if x == 29:
        return e() + r.pick([" LIKE ", " NOT LIKE ", " ILIKE ", " NOT ILIKE "]) + string_lit(r)
    if x == 30:
        return e() + r.pick([" IS NULL", " IS NOT NULL"])
    if x == 31:
        return "INTERVAL " + r.pick(["1", "5", "'3'", "x"]) + " " + r.pick(["DAY", "HOUR", "MONTH", "SECOND", "WEEK",
                                                                           "YEAR", "MINUTE", "QUARTER"])
    if x == 32:
        return "EXTRACT(" + r.pick(["YEAR", "MONTH", "DAY", "HOUR"]) + " FROM " + e() + ")"
    if x == 33:
        return "[" + ", ".join(e() for _ in range(r.below(4))) + "]"
    if x == 34:
        return "(" + e() + ", " + ", ".join(e() for _ in range(1 + r.below(2))) + ")"
    if x == 35:
        return "tuple(" + ", ".join(e() for _ in range(r.below(3))) + ")"
    if x == 36:
        return "map(" + ", ".join(string_lit(r) + ", " + e() for _ in range(1 + r.below(2))) + ")"
    if x == 37:
        return postfix_base(r) + "[" + e() + "]"
    if x == 38:
        return postfix_base(r) + "." + str(1 + r.below(3))
    if x == 39:
        return e() + " ? " + e() + " : " + e()
    if x == 40 and subq:
        return "(" + select_core(r, d + 2, simple=True) + ")"
    if x == 41 and subq:
        return "EXISTS (" + select_core(r, d + 2, simple=True) + ")"
    if x == 42:
        return r.pick(["if", "multiIf"]) + "(" + e() + ", " + e() + ", " + e() + ")"
    if x == 43:
        return "trim(" + r.pick(["BOTH ", "LEADING ", "TRAILING "]) + string_lit(r) + " FROM " + e() + ")"
    if x == 44:
        return r.pick(["now()", "today()", "rand()", "currentDatabase()", "pi()"])
    return "substring(" + e() + r.pick([" FROM 1 FOR 2", ", 1, 2", " FROM 2"]) + ")"


def atom(r):
    x = r.below(10)
    if x < 5:
        return col(r)
    if x < 9:
        return literal(r)
    return r.pick(["{p:UInt32}", "{name:String}"])


def postfix_base(r):
    return r.pick(["arr", "tup", "m", "x", "(1, 2, 3)", "[1, 2]", "t.arr", "f(x)", "arr[1]", "tup.1"])


def window_func(r, d):
    f = r.pick(["row_number()", "rank()", "sum(x)", "lagInFrame(x, 1)", "count()", "first_value(y)",
                "dense_rank()", "nth_value(x, 2)"])
    if r.p(1, 4):
        return f + " OVER w"
    parts = []
    if r.p(1, 2):
        parts.append("PARTITION BY " + ", ".join(col(r) for _ in range(1 + r.below(2))))
    if r.p(2, 3):
        parts.append("ORDER BY " + col(r) + r.pick(["", " DESC", " ASC"]))
        if r.p(1, 2):
            parts.append(r.pick(["ROWS BETWEEN UNBOUNDED PRECEDING AND CURRENT ROW",
                                 "ROWS BETWEEN 1 PRECEDING AND 1 FOLLOWING",
                                 "RANGE BETWEEN UNBOUNDED PRECEDING AND UNBOUNDED FOLLOWING",
                                 "ROWS 2 PRECEDING", "RANGE CURRENT ROW",
                                 "ROWS BETWEEN CURRENT ROW AND UNBOUNDED FOLLOWING"]))
    return f + " OVER (" + " ".join(parts) + ")"


def cast_op(r, d):
    """the `::` operator, including array / tuple literal operands with non-literal elements"""
    x = r.below(12)
    e = lambda: expr(r, d + 2, False)
    if x == 0:
        return col(r) + "::" + data_type(r)
    if x == 1:
        return number_lit(r).lstrip("-") + "::" + r.pick(["UInt8", "Int64", "Float64", "String", "Decimal(10, 2)"])
    if x == 2:
        return string_lit(r) + "::" + r.pick(["Date", "DateTime", "UUID", "String", "IPv4", "Int32"])
    if x == 3:
        return "[" + ", ".join(number_lit(r) for _ in range(r.below(4))) + "]::Array(" + r.pick(SIMPLE_TYPES) + ")"
    if x == 4:
        return "[" + ", ".join(r.pick(["NULL", "1", "'a'", "true", "[1, 2]", "(1, 'x')", "-3", "1.5"])
                               for _ in range(1 + r.below(3))) + "]::Array(Nullable(String))"
    if x == 5:
        # NON-literal elements
        return "[" + ", ".join(r.pick(["NULL", "1", "x[1]", "t.1", "tup.2", "a::UInt8", "1::Int8::Int16",
                                       "CASE WHEN a THEN 1 ELSE 2 END", "(a ? 1 : 2)", "abs(x)", "x + 1",
                                       "arr[2]", "(SELECT 1)", "-x", "NOT a"])
                               for _ in range(1 + r.below(4))) + "]::Array(Nullable(UInt8))"
    if x == 6:
        return "(" + ", ".join(r.pick(["NULL", "1", "'s'", "x[1]", "t.1", "a::UInt8", "abs(x)", "[1, 2]", "true",
                                       "CASE WHEN a THEN 1 END", "x", "1 + 2"])
                               for _ in range(2 + r.below(3))) + ")::Tuple(" + r.pick(
            ["UInt8, String", "Nullable(UInt8), Nullable(UInt8)", "a UInt8, b String"]) + ")"
    if x == 7:
        return "(" + e() + ")::" + data_type(r)
    if x == 8:
        return r.pick(FUNCS1) + "(" + e() + ")::" + r.pick(SIMPLE_TYPES)
    if x == 9:
        return col(r) + "::" + r.pick(SIMPLE_TYPES) + "::" + r.pick(["String", "Nullable(String)"])
    if x == 10:
        return "arr[1]::" + r.pick(SIMPLE_TYPES)
    return "NULL::Nullable(" + r.pick(SIMPLE_TYPES) + ")"


def lambda_call(r, d):
    e = lambda: expr(r, d + 2, False)
    x = r.below(4)
    if x == 0:
        return "arrayMap(x -> " + e() + ", " + r.pick(["arr", "[1, 2, 3]", "range(10)"]) + ")"
    if x == 1:
        return "arrayFilter((x, y) -> " + e() + ", arr, arr)"
    if x == 2:
        return "arrayMap(lambda(tuple(x), x + 1), arr)"
    return "arrayExists(x -> x " + r.pick(["=", ">", "!="]) + " " + atom(r) + ", arr)"


def in_expr(r, d, subq):
    lhs = expr(r, d + 2, False) if r.p(2, 3) else "(" + col(r) + ", " + col(r) + ")"
    op = r.pick([" IN ", " NOT IN ", " GLOBAL IN ", " GLOBAL NOT IN "])
    x = r.below(7)
    if x == 0:
        rhs = "(" + ", ".join(literal(r) for _ in range(1 + r.below(4))) + ")"
    elif x == 1:
        rhs = "(" + ", ".join("(" + number_lit(r) + ", " + string_lit(r) + ")" for _ in range(1 + r.below(3))) + ")"
    elif x == 2 and subq:
        rhs = "(" + select_core(r, d + 2, simple=True) + ")"
    elif x == 3:
        rhs = r.pick(["t2", "db.t", "arr", "[1, 2, 3]", "tuple(1, 2)"])
    elif x == 4:
        rhs = "(" + expr(r, d + 2, False) + ")"
    elif x == 5:
        rhs = "(" + col(r) + ", " + number_lit(r) + ", " + expr(r, d + 2, False) + ")"
    else:
        rhs = "(1)"
    return lhs + op + rhs


def alias(r):
    return r.pick(["k", "v", "res", "cnt", "x1", "`my alias`", "total"])


def select_item(r, d):
    x = r.below(24)
    if x == 0:
        return "*"
    if x == 1:
        return r.pick(["t", "t1", "db.t"]) + ".*"
    if x == 2:
        return "COLUMNS('" + r.pick(["^a", "x|y", ".*id$"]) + "')" + col_transformers(r)
    if x == 3:
        return "* " + col_transformers(r, force=True).strip()
    if x == 4:
        return "COLUMNS(a, b)" + col_transformers(r)
    e = expr(r, d)
    if r.p(1, 3):
        e += r.pick([" AS ", " "]) + alias(r) if not e.rstrip().endswith(("END", "NULL")) or True else ""
    return e


def col_transformers(r, force=False):
    out = ""
    n = r.below(3) + (1 if force else 0)
    for _ in range(n):
        x = r.below(6)
        if x == 0:
            out += " APPLY(" + r.pick(["sum", "toString", "max"]) + ")"
        elif x == 1:
            out += " APPLY " + r.pick(["sum", "any"])
        elif x == 2:
            out += " EXCEPT (" + ", ".join(r.pick(COLS) for _ in range(1 + r.below(2))) + ")"
        elif x == 3:
            out += " EXCEPT " + r.pick(COLS)
        elif x == 4:
            out += " REPLACE (" + ", ".join(r.pick(["a + 1", "toString(b)", "x * 2"]) + " AS " + r.pick(COLS)
                                            for _ in range(1 + r.below(2))) + ")"
        else:
            out += " APPLY(x -> x + 1)"
    return out


# ------------------------------------------------------------------------------------------
# SELECT

def table_expr(r, d):
    x = r.below(16)
    if x < 7:
        s = r.pick(TABLES)
    elif x < 10 and d < 4:
        s = "(" + select_with_union(r, d + 1, simple=True) + ")"
    elif x == 10:
        s = r.pick(["numbers(10)", "numbers(1, 5)", "remote('127.0.0.1', db.t)", "file('a.csv', 'CSV', 'x UInt8')",
                    "url('http://h/x', JSONEachRow)", "s3('http://b/k', 'CSV')", "generateRandom('a UInt8', 1, 2)",
                    "cluster('c', db, t)", "merge('db', '^t')", "view(SELECT 1)", "values('a UInt8', 1, 2)",
                    "zeros(3)", "mysql('h:3306', 'd', 't', 'u', 'p')"])
    elif x == 11:
        s = "system.one"
    else:
        s = r.pick(TABLES)
    if r.p(1, 4):
        s += r.pick([" AS ", " "]) + r.pick(["u", "v", "tt", "s1", "s2"])
    if x < 7 and r.p(1, 8):
        s += " FINAL"
    if x < 7 and r.p(1, 8):
        s += " SAMPLE " + r.pick(["0.1", "1/10", "1000", "1/10 OFFSET 1/2", "0.5 OFFSET 0.25"])
    return s


JOINS = ["JOIN", "INNER JOIN", "LEFT JOIN", "RIGHT JOIN", "FULL JOIN", "LEFT OUTER JOIN", "FULL OUTER JOIN",
         "CROSS JOIN", "ANY LEFT JOIN", "ALL INNER JOIN", "ASOF LEFT JOIN", "SEMI LEFT JOIN", "ANTI LEFT JOIN",
         "GLOBAL LEFT JOIN", "LEFT ANY JOIN", "LEFT SEMI JOIN", "LEFT ANTI JOIN", "ASOF JOIN", "INNER ANY JOIN",
         "RIGHT SEMI JOIN", "GLOBAL ANY INNER JOIN", "PASTE JOIN"]


def from_clause(r, d):
    s = "FROM " + table_expr(r, d)
    n = r.pick([0, 0, 0, 1, 1, 2, 3])
    for _ in range(n):
        x = r.below(8)
        if x == 0:
            s += ", " + table_expr(r, d)
            continue
        if x == 1:
            s += r.pick([" ARRAY JOIN ", " LEFT ARRAY JOIN "]) + ", ".join(
                r.pick(["arr", "arr AS e", "[1, 2] AS q", "arrayEnumerate(arr) AS i", "m.keys AS k"])
                for _ in range(1 + r.below(2)))
            continue
        j = r.pick(JOINS)
        s += " " + j + " " + table_expr(r, d)
        if "CROSS" in j or "PASTE" in j:
            continue
        if r.p(2, 3):
            s += " ON " + r.pick(["t.a = t2.a", "t1.id = t2.id AND t1.x > 0", "a = b", "t.ts >= t2.ts"])
        else:
            s += " USING " + r.pick(["(a)", "(a, b)", "a", "id, ts"])
    return s


def with_clause(r, d):
    items = []
    for _ in range(1 + r.below(3)):
        x = r.below(6)
        if x == 0 and d < 4:
            items.append(r.pick(["cte", "q1", "sub"]) + " AS (" + select_with_union(r, d + 1, simple=True) + ")")
        elif x == 1 and d < 4:
            items.append("(" + select_core(r, d + 1, simple=True) + ") AS " + r.pick(["s", "mx"]))
        elif x == 2:
            items.append(literal(r) + " AS " + r.pick(["c1", "c2", "w"]))
        else:
            items.append(expr(r, d + 2, False) + " AS " + r.pick(["w1", "w2", "e"]))
    return "WITH " + ", ".join(items)


def order_elem(r, d):
    s = expr(r, d + 2, False) if r.p(1, 3) else col(r)
    s += r.pick(["", "", " ASC", " DESC"])
    if r.p(1, 8):
        s += r.pick([" NULLS FIRST", " NULLS LAST"])
    if r.p(1, 10):
        s += " COLLATE 'en'"
    return s


def order_by(r, d):
    elems = [order_elem(r, d) for _ in range(1 + r.below(3))]
    fill = r.p(1, 4)
    if fill:
        f = " WITH FILL"
        if r.p(1, 2):
            f += " FROM " + r.pick(["1", "toDate('2020-01-01')", "0"])
        if r.p(1, 2):
            f += " TO " + r.pick(["10", "100", "toDate('2021-01-01')"])
        if r.p(1, 2):
            f += " STEP " + r.pick(["1", "2", "INTERVAL 1 DAY"])
        if r.p(1, 6):
            f += " STALENESS " + r.pick(["3", "INTERVAL 2 HOUR"])
        elems[-1] += f
    s = "ORDER BY " + ", ".join(elems)
    if fill and r.p(2, 3):
        s += " " + r.pick(["INTERPOLATE", "INTERPOLATE ()", "INTERPOLATE (a)", "INTERPOLATE (a AS a + 1)",
                           "INTERPOLATE (a, b AS b * 2)", "INTERPOLATE (x AS x + 1, y)"])
    return s


def group_by(r, d):
    x = r.below(14)
    if x == 0:
        return "GROUP BY ALL"
    if x == 1:
        return "GROUP BY GROUPING SETS (" + ", ".join(
            r.pick(["(a)", "(a, b)", "()", "a", "((a, b))", "(a, b, c)", "(toDate(ts))", "(a + 1, b)"])
            for _ in range(1 + r.below(4))) + ")"
    if x == 2:
        return "GROUP BY " + r.pick(["ROLLUP", "CUBE"]) + "(" + ", ".join(col(r) for _ in range(1 + r.below(3))) + ")"
    s = "GROUP BY " + ", ".join(expr(r, d + 2, False) if r.p(1, 3) else col(r) for _ in range(1 + r.below(3)))
    if x == 3:
        s += " WITH ROLLUP"
    elif x == 4:
        s += " WITH CUBE"
    if x in (5, 6):
        s += " WITH TOTALS"
    return s


def limit_clause(r):
    x = r.below(20)
    n = lambda: r.pick(["1", "2", "10", "100", "{lim:UInt64}", "1 + 1", "toUInt8(5)"])
    forms = [
        lambda: "LIMIT " + n(),
        lambda: "LIMIT " + n() + ", " + n(),
        lambda: "LIMIT " + n() + " OFFSET " + n(),
        lambda: "LIMIT " + n() + " BY " + col(r),
        lambda: "LIMIT " + n() + ", " + n() + " BY " + col(r) + ", " + col(r),
        lambda: "LIMIT " + n() + " BY " + col(r) + " LIMIT " + n(),
        lambda: "LIMIT " + n() + " BY " + col(r) + " LIMIT " + n() + ", " + n(),
        lambda: "LIMIT " + n() + " BY " + col(r) + " LIMIT " + n() + " OFFSET " + n(),
        lambda: "LIMIT " + n() + " OFFSET " + n() + " BY " + col(r),
        lambda: "OFFSET " + n(),
        lambda: "OFFSET " + n() + r.pick([" ROW", " ROWS"]),
        lambda: "OFFSET " + n() + " ROWS FETCH " + r.pick(["FIRST", "NEXT"]) + " " + n() + " ROWS ONLY",
        lambda: "LIMIT " + n() + " WITH TIES",
        lambda: "LIMIT " + n() + " BY " + col(r) + " OFFSET " + n(),
        lambda: "OFFSET " + n() + " ROWS FETCH FIRST " + n() + " ROW ONLY",
        lambda: "LIMIT " + n() + ", " + n() + " BY " + col(r) + " LIMIT " + n(),
        lambda: "LIMIT " + n() + " BY " + expr(r, 3, False),
        lambda: "LIMIT " + n() + " BY " + col(r) + ", " + col(r) + ", " + col(r),
        lambda: "LIMIT " + n(),
        lambda: "LIMIT " + n() + " BY " + col(r) + ", " + col(r) + " LIMIT " + n() + " OFFSET " + n(),
    ]
    return forms[x]()


def settings_clause(r):
    return "SETTINGS " + ", ".join(r.pick(SETTINGS) + " = " + r.pick(["1", "0", "100", "'x'", "1.5"])
                                   for _ in range(1 + r.below(2)))


def select_tail(r, outfile=True, s_then_f=True, fmt_ok=True):
    """statement-level tail after a select / union: a mix of SETTINGS, INTO OUTFILE, FORMAT, SETTINGS.
    The flags switch off the forms the parser does not take after a parenthesised last member /
    after an INTERSECT-EXCEPT chain."""
    f = lambda: "FORMAT " + r.pick(FORMATS)
    o = lambda: "INTO OUTFILE " + r.pick(["'f.csv'", "'out.tsv'", "'o.gz'"])
    s = lambda: settings_clause(r)
    forms = [(lambda: "", True)] * 6 + [
        (f, fmt_ok), (s, True), (o, outfile),
        (lambda: s() + " " + f(), s_then_f and fmt_ok),
        (lambda: f() + " " + s(), fmt_ok),
        (lambda: o() + " " + f(), outfile and fmt_ok),
        (lambda: s() + " " + f() + " " + s(), s_then_f and fmt_ok),
        (lambda: o() + " " + f() + " " + s(), outfile and fmt_ok),
        (lambda: s() + " " + o() + " " + f(), outfile and s_then_f and fmt_ok),
        (f, fmt_ok)]
    g, ok = forms[r.below(len(forms))]
    return g() if ok else ""


def select_core(r, d=0, simple=False):
    """SELECT ... without a statement-level tail"""
    p = []
    rich = not simple or r.p(1, 3)
    if rich and r.p(1, 4):
        p.append(with_clause(r, d))
    s = "SELECT"
    x = r.below(12)
    if x == 0:
        s += " DISTINCT"
    elif x == 1 and rich:
        s += " DISTINCT ON (" + ", ".join(col(r) for _ in range(1 + r.below(2))) + ")"
    elif x == 2:
        s += " ALL"
    if rich and r.p(1, 14):
        s += " TOP " + r.pick(["3", "10", "5 WITH TIES"])
    p.append(s)
    p.append(", ".join(select_item(r, d + 1) for _ in range(1 + (r.below(4) if rich else r.below(2)))))
    has_from = r.p(4, 5)
    if has_from:
        p.append(from_clause(r, d + 1) if rich else "FROM " + table_expr(r, d + 1))
        if rich and r.p(1, 8):
            p.append("PREWHERE " + expr(r, d + 2, False))
    elif rich and r.p(1, 10):
        p.append("ARRAY JOIN [1, 2] AS e")
    if r.p(1, 3):
        p.append("WHERE " + expr(r, d + 1))
    if not rich:
        if r.p(1, 5):
            p.append("GROUP BY " + col(r))
        if r.p(1, 5):
            p.append("ORDER BY " + col(r))
        if r.p(1, 5):
            p.append("LIMIT " + str(1 + r.below(9)))
        return " ".join(p)
    if r.p(1, 3):
        p.append(group_by(r, d))
        if r.p(1, 3):
            p.append("HAVING " + expr(r, d + 2, False))
    if r.p(1, 10):
        p.append("WINDOW w AS (" + r.pick(["PARTITION BY a", "ORDER BY ts", "PARTITION BY a ORDER BY b DESC",
                                            "ORDER BY x ROWS BETWEEN 1 PRECEDING AND CURRENT ROW", ""]) + ")"
                 + (", w2 AS (PARTITION BY b)" if r.p(1, 3) else ""))
    if r.p(1, 12):
        p.append("QUALIFY " + expr(r, d + 2, False))
    if r.p(1, 3):
        p.append(order_by(r, d))
    if r.p(2, 5):
        p.append(limit_clause(r))
    return " ".join(x for x in p if x)


def member(r, d, simple=False):
    s = select_core(r, d, simple)
    if r.p(1, 4):
        return "(" + s + ")"
    return s


def select_with_union(r, d=0, simple=False):
    s = select_core(r, d, simple)
    n = r.pick([0, 0, 0, 1, 1, 2])
    for _ in range(n):
        s += " " + r.pick(["UNION ALL", "UNION ALL", "UNION DISTINCT", "UNION"]) + " " + member(r, d, True)
    return s


def deep_case(r):
    """nesting up to 300 levels, never more"""
    x = r.below(8)
    if x == 0:
        n = 100 + r.below(200)      # nested function calls: 130+ for most
        f = r.pick(["abs", "toString", "negate", "identity"])
        return "SELECT " + (f + "(") * n + "1" + ")" * n
    if x == 1:
        n = 20 + r.below(60)        # nested FROM subqueries
        return "SELECT * FROM (" * n + "SELECT 1" + ")" * n
    if x == 2:
        n = 50 + r.below(250)       # deep parenthesised arithmetic
        return "SELECT " + "(" * n + "1" + " + 1)" * n
    if x == 3:
        n = 50 + r.below(150)
        return "SELECT " + "[" * n + "x" + "]" * n
    if x == 4:
        n = 20 + r.below(80)
        return "SELECT " + "CASE WHEN a THEN " * n + "1" + " ELSE 0 END" * n
    if x == 5:
        n = 20 + r.below(100)
        return "SELECT " + "if(a, " * n + "1" + ", 0)" * n
    if x == 6:
        n = 10 + r.below(60)
        return "SELECT a FROM t WHERE a IN (" + "SELECT a FROM t WHERE a IN (" * n + "SELECT 1" + ")" * n + ")"
    n = 30 + r.below(200)
    return "SELECT " + "-(" * n + "x" + ")" * n + ", " + "NOT (" * 40 + "a" + ")" * 40


def gen_select(r):
    if r.p(1, 12):
        return deep_case(r)
    s = select_core(r, 0)
    t = select_tail(r)
    return s + (" " + t if t else "")


def gen_setop(r):
    x = r.below(10)
    first = select_core(r, 1, simple=not r.p(1, 3))
    if r.p(1, 2) and not first.startswith("WITH"):
        first = with_clause(r, 2) + " " + first      # WITH on the first member: inherited-WITH printers
    if r.p(1, 6):
        first = "(" + first + ")"
    s = first
    n = 1 + r.below(4)
    if x < 5:
        ops = ["UNION ALL", "UNION ALL", "UNION DISTINCT", "UNION"]
    elif x < 7:
        ops = ["INTERSECT", "EXCEPT", "INTERSECT DISTINCT", "EXCEPT DISTINCT"]
    else:
        ops = ["UNION ALL", "UNION DISTINCT", "UNION", "INTERSECT", "EXCEPT"]
    setop = False
    last_paren = False
    for _ in range(n):
        m = select_core(r, 1, simple=not r.p(1, 4))
        y = r.below(6)
        last_paren = y < 2
        if y == 0:
            m = "(" + m + ")"
        elif y == 1:
            m = "(" + m + " " + r.pick(["UNION ALL", "UNION DISTINCT"]) + " " + select_core(r, 2, True) + ")"
        op = r.pick(ops)
        setop = setop or op[0] in "IE"
        s += " " + op + " " + m
    t = select_tail(r, outfile=not last_paren, s_then_f=not setop, fmt_ok=not (setop and last_paren))
    return s + (" " + t if t else "")


# ------------------------------------------------------------------------------------------
# main

def main():
    args = sys.argv[1:]
    kinds = None
    as_hex = False
    start = 0
    pos = []
    i = 0
    while i < len(args):
        a = args[i]
        if a == "--hex":
            as_hex = True
        elif a == "--kinds":
            i += 1
            kinds = args[i].split(",")
        elif a.startswith("--kinds="):
            kinds = a[len("--kinds="):].split(",")
        elif a == "--start":
            i += 1
            start = int(args[i])
        else:
            pos.append(a)
        i += 1
    if len(pos) != 2:
        sys.stderr.write(__doc__)
        sys.exit(2)
    seed, count = int(pos[0]), int(pos[1])
    if kinds is None:
        kinds = list(GENERATORS)
    for k in kinds:
        if k not in GENERATORS:
            sys.stderr.write("gen_sql_grammar: unknown kind %r (known: %s)\n" % (k, ",".join(GENERATORS)))
            sys.exit(2)
    out = sys.stdout
    for idx in range(start, start + count):
        k = kinds[idx % len(kinds)]
        r = Rng(seed, idx)
        s = GENERATORS[k](r)
        s = " ".join(s.split())
        out.write((s.encode("utf-8").hex() if as_hex else s) + "\n")


GENERATORS = {"select": gen_select, "setop": gen_setop}

if __name__ == "__main__":
    main()
