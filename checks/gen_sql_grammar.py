#!/usr/bin/env python3
"""Grammar-based generator of syntactically VALID ClickHouse statements for the C04 oracle run
       gen_sql_grammar.py | /verif/build/explaindump | /verif/build/tree_driver

usage: gen_sql_grammar.py <seed> <count> [--kinds select,setop,insert,create,alter,utility]
                          [--hex] [--start <index>] [--gaps]

One statement per line of the output.  With --hex each line is the lowercase hex of the statement
(the input format of explaindump); without it the plain text, which never contains a line feed.
Statement i depends only on (seed, i) (and on the flags) through splitmix64, so `--start i` with
count 1 replays it.

LINE FEEDS inside statements exist only in --hex mode: heredocs have no escapes, so a heredoc whose
body spans several lines (`;` at the end of a line, multi-byte text on the last line, CR LF line ends)
cannot be spelled on one line of text.  In --hex mode the line holds the hex of the real bytes
including 0x0A; in text mode the same production deterministically takes the next one-line heredoc of
its list instead, so text statement i and hex statement i differ only in that literal.

--gaps: about 1 statement in 6 is replaced by a statement of the same kind that additionally uses a
construct of the class "valid ClickHouse that the CURRENT parser of /repo rejects or mis-parses"
(PARSER_GAPS below, keywords as implicit aliases without AS - especially as the last token -,
FROM-first SELECT with LIMIT BY / OFFSET / PREWHERE / UNION, REFRESH EVERY / AFTER in any letter case,
TTL ... GROUP BY ... SET, window frames, statement-start keywords that the parser takes for the
beginning of a NEW statement: see the section "--gaps").  Such statements are NOT filtered here; a
consumer keeps one only if the parser accepts it on its own.  Without the flag nothing of this is
generated and the output does not depend on the section at all.

Kinds (statement i has kind kinds[i % len(kinds)]):
  select   one SELECT with a random subset of all clauses (WITH [RECURSIVE], DISTINCT ON, TOP, FROM with every
           join spelling / table function / kql() / SAMPLE ratio spelling, ARRAY JOIN, PREWHERE, GROUP BY with
           GROUPING SETS / ROLLUP / CUBE / TOTALS, WINDOW with references between windows, QUALIFY, ORDER BY
           with COLLATE / WITH FILL / INTERPOLATE, every LIMIT / OFFSET / FETCH spelling, tails), expressions of
           every kind the printers know; FROM-first spelling; 1 in 12 is a deep-nesting case (up to 300 levels,
           never more)
  setop    UNION ALL / DISTINCT / bare, INTERSECT, EXCEPT chains (also ALL / DISTINCT), parenthesised members, WITH
           on the first member (inherited-WITH printers), UNION after an INTERSECT chain, union-level tails
  insert   INSERT ... SELECT / VALUES / FORMAT with inline data / FROM INFILE, WITH ... INSERT ... SELECT, INSERT INTO
           FUNCTION ... PARTITION BY, column lists (nested names, matchers with transformers), tails
  create   CREATE TABLE / VIEW / MATERIALIZED VIEW / WINDOW VIEW / DICTIONARY / DATABASE / FUNCTION / USER / ROLE /
           POLICY / QUOTA / PROFILE / INDEX / NAMED COLLECTION / RESOURCE / WORKLOAD, ATTACH TABLE / MATERIALIZED VIEW /
           DICTIONARY / DATABASE (column lists with several indexes / constraints / projections, column-level and
           inline PRIMARY KEY incl. the empty one, ORDER BY with ASC / DESC and (), table options in any order,
           SETTINGS before and after COMMENT and a second SETTINGS clause, engines with parameters, CLONE AS,
           tables without ENGINE, REFRESH views, several authentication methods: the shapes the ddlcount
           enumeration of C04 reaches and a valid statement can produce)
  alter    ALTER TABLE with every command kind the parser knows (statistics kinds with arguments, full column
           declarations in ADD / MODIFY COLUMN, nested column names, ADD INDEX ... AFTER, IN PARTITION [ID | ALL],
           RESET SETTING with repeated names, ALTER ... FORMAT / SETTINGS), ALTER USER / ROLE / POLICY / PROFILE /
           NAMED COLLECTION
  utility  SHOW* (with FORMAT / SETTINGS), DESCRIBE, EXPLAIN of all kinds and as a FROM / scalar subquery, USE, SET,
           SYSTEM (SYNC REPLICA modes ...), OPTIMIZE, TRUNCATE, RENAME, EXCHANGE, GRANT / REVOKE, KILL, BACKUP /
           RESTORE, CHECK, ATTACH / DETACH, DROP*, EXISTS, UNDROP, UPDATE / DELETE, transactions, PARALLEL WITH,
           parenthesised statements

About 1 statement in 25 gets a layout decoration that never changes its meaning (block comments between tokens,
a trailing -- / # comment, zero-width separators, leading / trailing semicolons).

The productions were extended from MEASURED coverage of /repo (parser, internal/explain, lexer) by
this grammar: every statement printer, the literal formatters (negative / nested / big / special
float literals, :: casts of them), SAMPLE ratio spellings, special functions (kql, DATE_ADD / DATE_DIFF
families, POSITION(x IN y), quantified comparisons, FILTER / IGNORE NULLS / OVER), column matchers
with transformers, JSON paths, MySQL-style types, Enum / Tuple / DateTime64 spellings with odd
characters, string literals of every lexer form (escapes, doubled quotes, heredocs - also with `;`, a lone `$`,
multi-byte text in the body -, x'..' / b'..', curly quotes), quoted identifiers with escaped quotes
followed by `;`, nested block comments with look-alikes of the closing mark (`tmp/*/2024`), and
AggregateFunction / SimpleAggregateFunction types whose function takes array / tuple / string
parameters (in CAST ... AS, under `::` and as column types).  A small share of the string literals contains a RAW TAB or CR (never a
line feed); every other control character is spelled as an escape.

KNOWN_OPEN: constructs that are valid ClickHouse and accepted by the parser but make a check fail on
the unchanged /repo are reported to the maintainer and switched off here BY NAME until decided, so
that the registered checks stay green; `ko(name)` is the only place that reads the set.
"""
import re
import sys

# construct name -> one-line reason (see DESIGN.md open findings); empty = everything enabled
KNOWN_OPEN = {
    # (the ten constructs reported on 2026-10-01 were genuine defects and are fixed in /repo: see known_findings.json)
}


def ko(name):
    return name in KNOWN_OPEN


def unless(name, *items):
    """the items, unless the construct `name` is switched off in KNOWN_OPEN"""
    return [] if ko(name) else list(items)

# Valid ClickHouse that the parser of /repo REJECTED when this grammar was extended (not generated by the ordinary
# productions: a rejected statement teaches nothing; generated under --gaps, see gap_* below)
PARSER_GAPS = [
    "EXPLAIN CURRENT TRANSACTION", "SYSTEM SYNC REPLICA db.t STRICT", "SYSTEM SYNC DATABASE REPLICA db", "SYSTEM REFRESH VIEW v",
    "SYSTEM SYNC TRANSACTION LOG", "SHOW SETTING max_threads", "SHOW CURRENT ROLES", "SHOW ROW POLICIES", "SHOW TABLES IN db",
    "INSERT INTO FUNCTION f(...) PARTITION BY (a, b) (cols) VALUES ...   -- ClickHouse's order; only (cols) PARTITION BY is taken",
    "INSERT INTO t VALUES (1) (2)   -- rows without commas", "CREATE TABLE ... PRIMARY KEY (a + b) % 10", "x UInt8 EPHEMERAL now()",
    "CREATE TABLE t CLONE AS db.t2", "CREATE TABLE t ENGINE = Memory EMPTY AS SELECT 1", "SOURCE(HTTP(... HEADERS(HEADER(NAME 'a' VALUE 'b'))))",
    "CREATE MATERIALIZED VIEW mv REFRESH EVERY 1 HOUR TO dst EMPTY AS ...", "REFRESH EVERY 1 DAY OFFSET 1 HOUR", "ALTER ... MODIFY COLUMN c TTL expr   -- without a type",
    "ALTER ... CLEAR COLUMN IF EXISTS c", "ALTER ... DROP DETACHED PARTITION ID 'x'", "ALTER ... ADD COLUMN c T FIRST", "ALTER ... ADD INDEX IF NOT EXISTS i ...",
    "ALTER ... REPLACE PARTITION 1 FROM db.t2", "ALTER ... FREEZE WITH NAME 'n'", "ALTER ... DELETE IN PARTITION 1 WHERE ...",
    "WITH 1 AS x SELECT x INTERSECT (SELECT 1) FORMAT Null", "SELECT 1 UNION ALL SELECT 2 INTERSECT (SELECT 2) SETTINGS a = 1", "COLUMNS('a') EXCEPT('pattern')",
    "SELECT ... LIMIT 1 BY format(a) ...   -- FORMAT as the first word of a LIMIT BY element ends the list", "INTO OUTFILE 'f' COMPRESSION 'gzip'",
    "INTERVAL {p:UInt32} DAY", "FROM t FETCH FIRST 1 ROWS ONLY   -- FETCH is taken for the table alias", "DETACH TABLE t PERMANENTLY", "OPTIMIZE TABLE t DEDUPLICATE BY a",
    "BACKUP TABLE t AS t2 TO ...", "TRUNCATE ALL TABLES FROM db", "CHECK TABLE t PARTITION ID 'x'", "SET ROLE r",
    "CREATE DICTIONARY d ON CLUSTER c (...) ...   -- accepted, but cluster and attributes are dropped (CLUSTER is compared as an identifier)",
]

# private-use code points standing for raw control characters inside string literals; they are
# substituted AFTER the whitespace normalisation of main() (which would turn a TAB into a space)
RAW_TAB, RAW_CR = "\ue000", "\ue001"
# a LINE FEED inside a heredoc (heredocs have no escapes): generated ONLY in --hex mode, where a line of the output is the
# hex of the real bytes; in text mode the production takes the next (one-line) construct instead
RAW_LF = "\ue002"
MODE = {"hex": False}

MASK = (1 << 64) - 1


def mix(z):
    z = (z + 0x9E3779B97F4A7C15) & MASK
    z = ((z ^ (z >> 30)) * 0xBF58476D1CE4E5B9) & MASK
    z = ((z ^ (z >> 27)) * 0x94D049BB133111EB) & MASK
    return z ^ (z >> 31)


class Rng:
    def __init__(self, *keys):
        s = 0x9E3779B97F4A7C15
        for k in keys:
            s = mix((s ^ (k & MASK)) & MASK)
        self.s = s

    def next(self):
        self.s = (self.s + 0x9E3779B97F4A7C15) & MASK
        return mix(self.s)

    def below(self, n):
        return self.next() % n

    def p(self, num, den):
        """true with probability num/den"""
        return self.next() % den < num

    def pick(self, seq):
        return seq[self.next() % len(seq)]

    def sample(self, seq, lo, hi):
        n = lo + self.below(hi - lo + 1)
        return [self.pick(seq) for _ in range(n)]


# ------------------------------------------------------------------------------------------
# names, literals, types

COLS = ["a", "b", "c", "x", "y", "id", "ts", "val", "name", "arr", "tup", "m"]
TABLES = ["t", "t1", "t2", "db.t", "db.events", "system.numbers", "hits"]
FUNCS1 = ["abs", "toString", "length", "toDate", "lower", "isNull", "toUInt8", "negate", "reverse", "empty",
          "toTypeName", "hex", "toFloat64", "assumeNotNull", "toYYYYMM", "isNotNull", "notEmpty", "sipHash64"]
FUNCS2 = ["plus", "concat", "greatest", "if_null", "ifNull", "pow", "arrayElement", "has", "position", "substring",
          "intDiv", "modulo", "coalesce", "dateDiff", "arrayConcat", "tupleElement", "startsWith", "least"]
AGGS = ["count", "sum", "min", "max", "avg", "any", "uniq", "groupArray", "argMax", "uniqExact", "anyLast", "sumIf"]
FORMATS = ["Null", "JSON", "TSV", "CSV", "Pretty", "JSONEachRow", "Values", "TabSeparated", "Vertical", "Native",
           "TSVWithNames", "RowBinary", "Parquet", "PrettyCompact", "XML", "LineAsString"]
SETTINGS = ["max_threads", "max_block_size", "allow_experimental_analyzer", "join_use_nulls", "optimize_read_in_order",
            "max_memory_usage", "limit", "offset", "final", "enable_optimize_predicate_expression"]
# keywords of the lexer that ClickHouse (and the parser) take as plain names in a column position
# (not `format`: after a comma the parser reads it as the FORMAT clause)
KW_NAMES = ["key", "index", "sync", "first", "last", "array", "view", "database", "table"]


def ident(r):
    x = r.below(40)
    if x < 2:
        return "`" + r.pick(["weird name", "select", "a-b", "x.y", "1col", "ключ", "a'b", "a\\\\b", "tab\\tname", "a``b",
                             "a\\`b", "日本", "x y z", "from", "{a}", "a\"b", "\\x41bc", "nul\\0x", "\\xffbad", "\\xc3\\x28", "a\\'b", "q\\\"q", "bell\\a", "bs\\b", "ff\\f", "vt\\v", "esc\\e", "\\x4A\\x6b", "un\\known",
                             # escaped quotes with a `;` behind them, still inside the name
                             "a\\`;b", "a``;b", "x;y", "end\\`; DROP", "``;", "100%", "%d items"]) + "`"
    if x < 4:
        return '"' + r.pick(["quoted", "Order", "my col", "q\"\"q", "a\\\"b", "üñí", "a`b", "group",
                             "a\\\";b", "q\"\";q", "semi;colon", "\"\";"]) + '"'
    if x == 4:
        return r.pick(["“curly”", "_1", "x1_", "A", "ID", "Name", "a_1", "_"])
    if x == 5:
        return r.pick(KW_NAMES)
    return r.pick(COLS)


def col(r):
    x = r.below(40)
    if x < 4:
        return r.pick(["t", "t1", "t2"]) + "." + r.pick(COLS)
    if x < 8:
        return "db.t." + r.pick(COLS)
    if x == 8:
        # JSON paths (sub-column, sub-object, typed sub-column, array of objects)
        return r.pick(["json.a.b", "json.^sub", "json.a.:Int64", "json.a.:`Array(JSON)`", "json.arr[].x", "json.a.^b.c",
                       "json.arr[].nested[].v", "json.`a b`.c", "json.a.:String", "j.k.v.w", "json.^`a`.b",
                       "json.arr[].:Int64", "json.a.:'String'", "json.arr[].^sub.x", "json.a[].b[].^c"])
    if x == 9:
        return r.pick(["t.key", "t.index", "tup.first", "db.t.format", "n.a", "nested.x.y"])
    return ident(r)


STR_BODIES = ["abc", "", "hello world", "it\\'s", "a\\\\b", "%x%", "2020-01-01", "1", "\\n", "tab\\there",
              "üñí", "a;b", "--c", "/*d*/",
              # every escape the lexer knows, doubled quotes, CR LF and other control characters (as escapes)
              "line1\\r\\nline2", "nul\\0byte", "bell\\a", "bs\\b", "ff\\f", "vt\\v", "esc\\e[0m", "hex\\x41\\x7a\\x00",
              "it''s", "q\\\"q", "back\\\\\\\\slash", "日本語", "emoji \U0001F600", "a\\tb\\tc", " lead", "trail ",
              "\\q unknown", "{}", "[1,2]", "(a)", "$$", "`bt`", "\"dq\"", "NULL", "-1", "1e5", "\\\\", "\\'", "''",
              "a\\\\\\'b", "x" * 70, "\\r", "\\0", "\\x7f\\xff", "α β γ", "1 day", "0", "a,b", "a|b", "{name:String}",
              "SELECT 1", "\\\\n", "tab\\t", "\\x0b", "\\x4A\\x4b\\xAF", "\\xe2\\x82\\xac", "back\\\\", " nbsp", "it\\'s \\\"q\\\" \\\\ \\n \\t \\0 \\r"]


# heredocs with awkward bodies: `;` (also at the end of a line), a lone `$`, multi-byte text, several lines.
# An entry with RAW_LF is followed by one-line entries: text mode steps forward to the next one-line entry.
HEREDOCS = ["$$a;$$", "$$line1;" + RAW_LF + "line2$$", "$$; DROP TABLE t; --$$", "$doc$SELECT 1;" + RAW_LF + "SELECT 2;" + RAW_LF + "$doc$",
            "$tag$a; b$tag$", "$$a" + RAW_LF + RAW_LF + "b" + RAW_LF + "üñí 日本$$", "$$cost 5$ each; $ 6$$",
            "$q$first;" + RAW_LF + "$ second" + RAW_LF + "last ü$q$", "$tag$5$ and $x$tag$", "$$" + RAW_LF + "$$", "$$üñí; 日本$$",
            "$h$x;" + RAW_CR + RAW_LF + " y;" + RAW_CR + RAW_LF + "$h$", "$_1$;$_1$", "$a$/* not a comment; */ -- nor this" + RAW_LF + "'$a$",
            "$a$/* not a comment; */ -- 'nor' this$a$", "$$;$$"]


def heredoc(r):
    i = r.below(len(HEREDOCS))
    if not MODE["hex"]:
        while RAW_LF in HEREDOCS[i]:
            i = (i + 1) % len(HEREDOCS)
    return HEREDOCS[i]


def string_lit(r):
    x = r.below(60)
    if x == 2:
        return heredoc(r)
    if x == 0:
        # heredocs (no escapes inside), hex / binary strings, curly quotes
        return r.pick(["$$abc$$", "$$it's a \"heredoc\"$$", "$tag$a $$ b$tag$", "$$$$", "$q$\\n is not an escape here$q$",
                       "x'616263'", "X'00ff'", "b'0110000101100010'", "B'01'", "x''", "‘curly’",
                       "‘it’"])
    if x == 1 and r.p(1, 6):
        # the small dedicated share with RAW control characters (TAB / CR never break the line)
        return "'" + r.pick(["raw" + RAW_TAB + "tab", "raw" + RAW_CR + "cr", "cr" + RAW_CR + "\\nlf", RAW_TAB,
                             "a" + RAW_TAB + RAW_TAB + "b" + RAW_CR]) + "'"
    return "'" + r.pick(STR_BODIES) + "'"


BIG = "1" + "0" * 320          # an integer literal beyond the range of a double
NUMBERS = [BIG, "-" + BIG, "0", "1", "42", "255", "65536", "18446744073709551615", "1.5", "0.1", "1e10", "1.5e-3", "0x1F",
           "0b101", "-1", "-2.5", "3.", ".5", "1_000", "inf", "nan", "9223372036854775808",
           # boundaries, big values, special spellings
           "9223372036854775807", "18446744073709551616", "123456789012345678901234567890", "-0", "-0.0", "0.0",
           "-9223372036854775808", "-9223372036854775809", "-18446744073709551615", "-18446744073709551616",
           "1e-7", "1e21", "1E+5", "1e-3", "0.000001", "0.0000001", "100000000000000000000.", "1e400", "-1e-10",
           "0xFFFFFFFFFFFFFFFF", "0xFFFFFFFFFFFFFFFFFF", "0x1.8p3", "0X1P-2", "0b11111111", "0xdeadBEEF", "0x0",
           "-inf", "-nan", "+inf", "+1", "+0.5", "Inf", "NaN", "INF", "NAN", "-Inf", "-NaN", "1_000_000", "1_0.5",
           "007", "00", "1.0", "2.50", "-.5", "1.e3", "1e0", "4294967296", "-128", "127", "0.30000000000000004",
           "3.141592653589793", "1.7976931348623157e308", "5e-324", "-1.5e300", ".5e3", ".25E-2", ".0"]


def number_lit(r):
    return r.pick(NUMBERS)


def unsigned_lit(r):
    s = r.pick(NUMBERS)
    while s[0] in "+-":
        s = s[1:]
    return s


def neg_elem(r):
    """an element of a literal array: negation of something that is not a plain number (negate(NULL) ...)"""
    return r.pick(["-NULL", "-'a'", "-true", "-x", "-(1)", "-inf", "-nan", "- 1", "-0", "-0.0",
                   "-18446744073709551615", "-9223372036854775808", "-1e400", "-123456789012345678901234567890"]
                  + unless("neg-array-in-literal", "-[1]", "-(1, 2)", "-[1, 2]", "-[]"))


def array_lit(r, depth=0):
    """literal arrays of every shape the literal formatter distinguishes (flat, nested, empty, mixed, negated)"""
    x = r.below(14)
    if x == 0:
        return "[]"
    if x == 1:
        return "[" + ", ".join(number_lit(r) for _ in range(1 + r.below(4))) + "]"
    if x == 2:
        return "[" + ", ".join(string_lit(r) for _ in range(1 + r.below(3))) + "]"
    if x == 3:
        return "[" + ", ".join(r.pick(["NULL", "1", "'a'", "true", "false", "-1", "1.5"]) for _ in range(1 + r.below(4))) + "]"
    if x == 4 and depth < 3:
        return "[" + ", ".join(array_lit(r, depth + 1) for _ in range(1 + r.below(3))) + "]"
    if x == 5 and depth < 3:
        return "[" + ", ".join(tuple_lit(r, depth + 1) for _ in range(1 + r.below(3))) + "]"
    if x == 6:
        # a negated non-number next to numbers: stays a Literal only inside a NESTED array
        return "[" + ", ".join(r.pick([number_lit(r), neg_elem(r)]) for _ in range(1 + r.below(3))) + "]"
    if x == 7:
        return "[[" + ", ".join(r.pick([number_lit(r), neg_elem(r), "NULL"]) for _ in range(1 + r.below(3))) + "]]"
    if x == 8:
        return r.pick(["[1,2,3]", "[ 1, 2 ]", "[1 ,2]", "[ ]", "[[1,2],[3]]", "[ [1], [] ]", "[(1)]", "[(1), (2)]",
                       "[[[]]]", "[[], [[]]]", "[NULL]", "[NULL, NULL]", "[[NULL]]", "[true]", "[[true, false], [NULL]]"])
    if x == 9:
        return "[" + ", ".join(r.pick(["-1", "-0", "-1.5", "-inf", "1", "-9223372036854775808", "-18446744073709551615",
                                       "-18446744073709551616", "0", "-0.0"]) for _ in range(1 + r.below(4))) + "]"
    if x == 10:
        return "[" + number_lit(r) + ", " + string_lit(r) + ", NULL]"
    if x == 11 and depth < 2:
        return "[" + array_lit(r, depth + 1) + ", " + neg_elem(r) + "]"
    return "[" + ", ".join(r.pick([number_lit, string_lit])(r) for _ in range(r.below(4))) + "]"


def tuple_lit(r, depth=0):
    x = r.below(12)
    if x == 0:
        return "()" if depth else "tuple()"
    if x == 1:
        return "(" + literal(r, depth + 1) + ",)"
    if x == 2 and depth < 3:
        return "(" + tuple_lit(r, depth + 1) + ", " + literal(r, depth + 1) + ")"
    if x == 3:
        return "(" + ", ".join(r.pick(["-1", "-2.5", "1", "'a'", "NULL", "-0", "-inf", "true"]) for _ in range(2 + r.below(3))) + ")"
    if x == 4:
        return r.pick(["((1), (2))", "((1, 2), (3, 4))", "(1,2)", "( 1 , 2 )", "(1, (2, (3, 4)))", "((), ())",
                       "(NULL, NULL)", "(1, [2, 3])", "([1], [2])", "((1,), 2)", "(-1, -'a')", "(1, -NULL)",
                       "((1, -2), (-3.5, 4))", "((1, -x), 2)"])
    if x == 5 and depth < 3:
        return "(" + array_lit(r, depth + 1) + ", " + literal(r, depth + 1) + ")"
    return "(" + ", ".join(literal(r, depth + 1) for _ in range(2 + r.below(2))) + ")"


def literal(r, depth=0):
    x = r.below(16)
    if x < 6:
        return number_lit(r)
    if x < 10:
        return string_lit(r)
    if x == 10:
        return "NULL"
    if x == 11:
        return r.pick(["true", "false", "TRUE", "False"])
    if x < 14 and depth < 4:
        return array_lit(r, depth)
    if depth < 4:
        return tuple_lit(r, depth)
    return number_lit(r)


SIMPLE_TYPES = ["UInt8", "UInt16", "UInt32", "UInt64", "Int8", "Int32", "Int64", "Float32", "Float64", "String",
                "Date", "DateTime", "UUID", "Bool", "IPv4", "Date32", "Int128", "UInt256", "IPv6", "Int16", "Int256",
                "UInt128", "BFloat16", "Point", "Nothing", "IntervalDay", "Time", "Decimal32(2)", "Decimal64(4)"]

# Enum spellings: many values, negative / implicit numbers, names with quotes, backslashes, control characters (escapes)
ENUMS = ["Enum8('a' = 1, 'b' = 2)", "Enum('x', 'y')", "Enum16('k' = -5, 'l' = 300)",
         "Enum8(" + ", ".join("'v%d' = %d" % (i, i) for i in range(1, 18)) + ")",
         "Enum16(" + ", ".join("'name_%d' = %d" % (i, i * 100 - 800) for i in range(20)) + ")",
         "Enum(" + ", ".join("'%s'" % w for w in ["a", "b", "c", "d", "e", "f", "g", "h", "i", "j", "k", "l", "m", "n", "o", "p", "q"]) + ")",
         "Enum8('it\\'s' = 1, 'back\\\\slash' = 2, 'tab\\t' = 3, 'nl\\n' = 4, 'nul\\0' = 5, 'cr\\r' = 6, '' = 7)",
         "Enum8('a''b' = 1, 'q\\\"' = 2, '\\x01' = 3, 'ü' = 4, ' ' = 5)", "Enum8('a' = -128, 'b' = 127)",
         "Enum16('x' = 1, 'y')", "Enum8('only' = 0)", "Enum('a' = 1, 'b' = 2, 'c' = 3)",
         "Enum8('\\b' = 1, '\\f' = 2, '\\a' = 3, '\\v' = 4, '\\e' = 5)"]
# time zones and other string parameters with odd characters
DT_TYPES = ["DateTime('UTC')", "DateTime64(3)", "DateTime64(6, 'Europe/Berlin')", "DateTime('Etc/GMT+5')",
            "DateTime64(9, 'America/Argentina/Buenos_Aires')", "DateTime64(3, 'Asia/Kolkata')", "DateTime('Etc/GMT-14')",
            "DateTime64(0, 'UTC')", "DateTime('it\\'s/odd')", "DateTime64(3, 'a\\\\b')", "DateTime64(3, 'tab\\tzone')",
            "DateTime64(3, '')", "DateTime('Zone With Space')", "DateTime64(6, 'ü/ñ')", "Time64(3)", "DateTime64(1, 'nl\\nzone')",
            "DateTime64(3, 'cr\\rzone')", "DateTime('q\\\"q')", "DateTime64(3, 'nul\\0')", "DateTime('a''b')"]
# Tuple element names: plain, non-ASCII, names that need back-quotes, names that are type names or keywords
TUPLE_NAMES = ["a", "b", "k", "v", "`a b`", "`ключ`", "`weird-name`", "\"q\"", "date", "string", "key", "`1st`", "`a.b`",
               "`it's`", "naïve", "`select`", "`tab\\tname`", "uuid", "id", "`日本`", "`back\\\\slash`", "`a``b`"]
MYSQL_TYPES = ["INT(11)", "INT(11) UNSIGNED", "INT UNSIGNED", "BIGINT SIGNED", "TINYINT(1)", "SMALLINT UNSIGNED", "MEDIUMINT",
               "INTEGER", "INT1 UNSIGNED", "DOUBLE PRECISION", "CHAR VARYING(10)", "CHARACTER VARYING(5)", "CHAR LARGE OBJECT",
               "CHARACTER LARGE OBJECT", "NCHAR VARYING(3)", "NCHAR LARGE OBJECT", "BINARY VARYING(8)", "BINARY LARGE OBJECT",
               "NATIONAL CHAR(4)", "NATIONAL CHARACTER VARYING(7)", "NATIONAL CHAR VARYING(2)", "NATIONAL CHARACTER LARGE OBJECT",
               "VARCHAR(255)", "TEXT", "BLOB", "FLOAT", "DOUBLE", "BIGINT", "CHAR(3)", "BINARY(4)", "DEC(9, 2)", "NUMERIC(10, 3)",
               "REAL", "BOOLEAN", "TIMESTAMP", "int unsigned", "Int UNSIGNED", "bigint signed", "double precision"]
JSON_TYPES = ["JSON", "Dynamic", "Object('json')", "Variant(String, UInt64)", "JSON(max_dynamic_paths = 8)",
              "JSON(a.b UInt32, SKIP a.c)", "JSON(max_dynamic_types = 4, a String, SKIP REGEXP 'x.*')", "Dynamic(max_types = 3)",
              "JSON(SKIP a, SKIP b.c.d)", "JSON(a.b.c Array(Nullable(String)))", "Variant(Array(UInt8), Tuple(a UInt8, b String), String)",
              "JSON(SKIP REGEXP '^tmp\\\\.', max_dynamic_paths = 0)", "JSON(`a b` UInt8)", "Variant()", "JSON()",
              "JSON(SKIP REGEXP 'it\\'s')", "Object(a UInt8)", "JSON(SKIP REGEXP 'a\\tb')"] + unless("json-skip-regexp-newline", "JSON(SKIP REGEXP 'a\\nb')")
AGG_TYPES = ["SimpleAggregateFunction(sum, UInt64)", "AggregateFunction(uniq, String)",
             "AggregateFunction(quantiles(0.5, 0.9), Float64)", "AggregateFunction(sumMapFiltered([1, 2]), Array(UInt8), Array(UInt8))",
             "AggregateFunction(quantileTiming(0.5), UInt32)", "SimpleAggregateFunction(anyLast, Nullable(String))",
             "AggregateFunction(groupArrayIf, UInt8, UInt8)", "AggregateFunction(argMax, String, DateTime64(3, 'UTC'))",
             "AggregateFunction(topK(10), Tuple(a UInt8, b String))", "AggregateFunction(count)", "AggregateFunction(sequenceMatch('(?1)(?2)'), DateTime, UInt8, UInt8)",
             "AggregateFunction(groupArray(-1), Int8)", "AggregateFunction(quantileExact(0.5), Decimal(9, 2))",
             "AggregateFunction(groupArrayInsertAt(0, 3), Nullable(String), UInt32)", "AggregateFunction(groupConcat(','), String)",
             "AggregateFunction(f(x, 'a', [1, [2]], g(1)), UInt8)", "AggregateFunction(f(-x), UInt8)", "AggregateFunction(1, sumMapFiltered([1, 2]), Array(UInt8))"] \
    + unless("type-func-param-null", "AggregateFunction(groupArrayInsertAt(NULL, 3), Nullable(String), UInt32)", "AggregateFunction(f(NULL), UInt8)") \
    + unless("type-func-param-newline", "AggregateFunction(groupConcat('\\n'), String)", "AggregateFunction(groupConcat('\\r\\n'), String)")


# parameters of the aggregate function named inside AggregateFunction(...) / SimpleAggregateFunction(...): array and tuple
# literals, strings, numbers, in several spacings (a type name is NOT the operand of `::`: the text between its brackets is
# ordinary token layout, which a re-layout may change)
AGG_PARAM_ARRAYS = ["[1, 4, 8]", "[1,4,8]", "[ 1, 4, 8 ]", "[1 ,2]", "[]", "[ ]", "[-1, 2]", "['a', 'b']", "['it\\'s', 'x;y']", "[[1, 2], [3]]", "[(1, 'a'), (2, 'b')]",
                    "[1.5, 2e3]", "[NULL, 1]", "[0x10, 0b11]", "[toUInt8(1)]", "[18446744073709551616]", "['üñí']", "[[]]", "[1,]"]
AGG_PARAM_TUPLES = ["(1, 2)", "(1,2)", "( 1 , 'a' )", "(1, (2, 3))", "('a', [1, 2])", "(1,)", "tuple(1, 2)", "(NULL, -1)", "()"]
AGG_PARAM_STRINGS = ["'forward'", "'head'", "'(?1)(?2)'", "'strict_order'", "','", "'it\\'s'", "'a\\\\b'", "'tab\\t'", "''", "'üñí'", "'x;y'", "'(?1).*(?2)'",
                     "'a''b'", "'nl\\n'", "$$here$$"]
AGG_ARG_TYPES = ["UInt8", "UInt64", "String", "Float64", "DateTime", "Array(UInt8)", "Array(UInt64)", "Nullable(String)", "Date", "Tuple(UInt8, String)",
                 "LowCardinality(String)", "DateTime64(3, 'UTC')", "Map(String, UInt64)", "Decimal(9, 2)", "Array(Array(String))", "Tuple(a UInt8, b String)",
                 "Enum8('a' = 1, 'b' = 2)", "FixedString(4)", "Nullable(UInt8)"]


def agg_param(r):
    x = r.below(8)
    if x < 3:
        return r.pick(AGG_PARAM_ARRAYS)
    if x == 3:
        return r.pick(AGG_PARAM_TUPLES)
    if x < 6:
        return r.pick(AGG_PARAM_STRINGS)
    return r.pick(["0.5", "0.9", "10", "3600", "-1", "1e-3", "0.99", "1", "true", "0x10"])


def agg_type(r):
    """AggregateFunction / SimpleAggregateFunction whose function takes parameters (arrays, tuples, strings, numbers)"""
    x = r.below(16)
    types = lambda lo, hi: ", ".join(r.pick(AGG_ARG_TYPES) for _ in range(lo + r.below(hi - lo + 1)))
    head = r.pick(["AggregateFunction", "AggregateFunction", "AggregateFunction", "aggregatefunction"]) if x != 3 else "SimpleAggregateFunction"
    if x == 0:
        return head + "(sumMapFiltered(" + r.pick(AGG_PARAM_ARRAYS) + "), Array(" + r.pick(["UInt8", "UInt64", "String"]) + "), Array(UInt64))"
    if x == 1:
        return head + "(" + r.pick(["quantiles", "quantilesExact", "quantilesTDigest", "quantilesTiming"]) + "(" \
            + ", ".join(r.pick(["0.5", "0.9", "0.99", "0.25", "1", "0", "0.999", ".5", "5e-1"]) for _ in range(1 + r.below(4))) + "), " + r.pick(["Float64", "UInt32", "Decimal(9, 2)", "DateTime"]) + ")"
    if x == 2:
        return head + "(sequenceNextNode(" + r.pick(["'forward', 'head'", "'backward', 'tail'", "'forward', 'first_match'", "'forward','head'", "'backward' , 'last_match'"]) \
            + "), DateTime, " + r.pick(["String", "Nullable(String)"]) + ", UInt8" + r.pick(["", ", UInt8", ", UInt8, UInt8"]) + ")"
    if x == 3:
        return head + "(" + r.pick(["groupArrayArray(10)", "groupUniqArrayArray(3)", "sumMap", "minMap", "maxMap", "groupArrayArray", "anyLast", "max", "groupBitOr",
                                    "sumWithOverflow", "any_respect_nulls", "groupArrayArray( 10 )"]) + ", " + r.pick(["Array(UInt8)", "Array(String)", "UInt64", "Tuple(Array(UInt8), Array(UInt64))",
                                                                                                            "Nullable(String)", "Map(String, UInt64)"]) + ")"
    if x == 4:
        return head + "(" + r.pick(["sequenceMatch", "sequenceCount"]) + "(" + r.pick(["'(?1)(?2)'", "'(?1).*(?2)'", "'(?1)(?t>=3)(?2)'", "'(?1)(?t<=10;)(?2)'", "$$(?1)(?2)$$"]) + "), DateTime, UInt8, UInt8)"
    if x == 5:
        return head + "(windowFunnel(" + r.pick(["3600", "3600, 'strict_order'", "10, 'strict_deduplication', 'strict_increase'", "{w:UInt64}"]) + "), DateTime, UInt8, UInt8)"
    if x == 6:
        return head + "(" + r.pick(["groupArraySample(3, 42)", "groupArrayInsertAt('x', 5)", "groupArrayInsertAt([1, 2], 3)", "groupArrayInsertAt((1, 'a'), 3)", "groupArrayMovingSum(2)",
                                    "groupArraySorted(5)", "groupArrayLast(3)", "uniqUpTo(4)", "topK(10, 'counts')", "topKWeighted(3, 2, 'counts')", "histogram(5)",
                                    "largestTriangleThreeBuckets(4)", "kolmogorovSmirnovTest('two-sided', 'exact')", "mannWhitneyUTest('greater')", "studentTTest(0.95)",
                                    "exponentialMovingAverage(0.5)", "categoricalInformationValue", "groupConcat(', ', 10)", "groupConcat('; ')", "approx_top_k(3, 100)"]) + ", " + types(1, 2) + ")"
    if x == 7:
        return head + "(" + r.pick(["sumMapFiltered", "sumMapFilteredWithOverflow", "f", "myAgg", "sumMapFiltered"]) + "(" \
            + ", ".join(agg_param(r) for _ in range(1 + r.below(3))) + "), " + types(1, 3) + ")"
    if x == 8:
        # combinators, a version number first, nested function calls among the parameters
        return head + "(" + r.pick(["quantilesIf(0.5, 0.9), Float64, UInt8", "sumMapFilteredArray([1, 2]), Array(Array(UInt8)), Array(Array(UInt8))",
                                    "2, quantiles(0.5, 0.9), Float64", "1, sumMapFiltered([1, 4]), Array(UInt8), Array(UInt64)", "quantileTimingState(0.5), UInt32",
                                    "f(g('a', [1]), (1, 'x')), UInt8", "sumMapFiltered(range(3)), Array(UInt8), Array(UInt8)", "uniqCombined(17), String",
                                    "quantilesExactWeighted(0.5, 0.9), UInt64, UInt32", "topKIf(3), String, UInt8", "groupArrayResample(0, 10, 2)(3), UInt8, UInt8"]) + ")"
    return r.pick(AGG_TYPES)


def named_elem(r, depth):
    n = r.pick(TUPLE_NAMES)
    if n in ("date", "string", "uuid"):
        # a name that is itself a type name is taken for the name only when a known type name follows
        return n + " " + r.pick(["Date", "String", "UUID", "UInt8", "Array(String)", "Nullable(Date)", "DateTime64(3)", "Tuple(a UInt8)"])
    return n + " " + data_type(r, depth + 1)


def data_type(r, depth=0, ddl=False):
    x = r.below(30 if depth < 3 else 8)
    if x == 19 and not ddl:
        x = 9
    if x < 8:
        return r.pick(SIMPLE_TYPES)
    if x == 8:
        return "Nullable(" + r.pick(SIMPLE_TYPES) + ")"
    if x == 9:
        return "Array(" + data_type(r, depth + 1) + ")"
    if x == 10:
        return "LowCardinality(" + r.pick(["String", "Nullable(String)", "FixedString(4)", "UInt8"]) + ")"
    if x == 11:
        return "FixedString(" + str(1 + r.below(64)) + ")"
    if x == 12 and depth > 0:
        return r.pick(["Decimal(" + str(10 + r.below(20)) + ", " + str(r.below(9)) + ")", "Decimal(9)", "Decimal128(10)", "Decimal(10, -2)"])
    if x == 12:
        return r.pick(["Decimal(" + str(10 + r.below(20)) + ", " + str(r.below(9)) + ")", "Decimal(9)", "Decimal128(10)",
                       "Decimal256(20)", "Decimal(76, 38)", "Decimal(10, -2)",
                       # type names the parser does not know, with every kind of literal argument a type may take
                       "Custom(-1, - 1.5, 'a', b, true)", "Custom(1 = 2, a = b, 'k' = -1, 'a' = 'b', a = 'x')", "MyType(-x)", "MyType(NOT y, f(x) = 1, a = f(x))"]
                      + unless("type-literal-param", "Custom([1, 2])", "Custom((1, 'a'), [[1], [2]])", "Custom(NULL)", "Custom(1, NULL, [NULL])"))
    if x == 13:
        return r.pick(DT_TYPES)
    if x == 14:
        return "Tuple(" + ", ".join(data_type(r, depth + 1) for _ in range(1 + r.below(3))) + ")"
    if x == 15 or x == 22:
        return "Tuple(" + ", ".join(named_elem(r, depth) for i in range(1 + r.below(3))) + ")"
    if x == 16:
        return "Map(" + r.pick(["String", "UInt64", "LowCardinality(String)", "Date"]) + ", " + data_type(r, depth + 1) + ")"
    if x == 17 or x == 18 or x == 23:
        return r.pick(ENUMS)
    if x == 19:
        return "Nested(" + ", ".join(r.pick(["n%d", "k%d", "v%d", "`a b%d`", "`ключ%d`", "key%d"]) % i + " " + r.pick(SIMPLE_TYPES)
                                     for i in range(1 + r.below(3))) + ")"
    if x == 20 or x == 28:
        return agg_type(r)
    if x == 21:
        return r.pick(JSON_TYPES)
    if x == 24:
        # the multi-word CHAR / BINARY / NATIONAL spellings are type names only where a type is expected directly
        t = r.pick(MYSQL_TYPES)
        if depth > 0 and t.split("(")[0].split()[0].upper() not in ("INT", "DOUBLE", "FLOAT"):
            t = r.pick(["INT UNSIGNED", "DOUBLE PRECISION", "INT SIGNED", "INT(11)", "INT(11) UNSIGNED"])
        return t
    if x == 25:
        return r.pick(["Tuple()", "Array(Nothing)", "Nullable(Nothing)", "Tuple(Tuple(a UInt8), Tuple(UInt8))", "Array(Array(Array(String)))",
                       "Map(String, Map(String, Array(Tuple(k String, v Nullable(UInt64)))))", "Tuple(date Date, string String, uuid UUID)",
                       "LowCardinality(Nullable(FixedString(16)))", "Nested(a UInt8, b Nested(c String))", "Tuple(a Tuple(b Tuple(c UInt8)))",
                       "Ring", "Polygon", "MultiPolygon", "QBit(Float32, 8)", "Interval", "Tuple(`a` UInt8, `b` String)"])
    if x == 26:
        return "Array(" + r.pick(ENUMS + DT_TYPES) + ")"
    if x == 27:
        return "Nullable(" + r.pick(DT_TYPES + ["Decimal(18, 4)", "FixedString(3)", "Enum8('a' = 1)"]) + ")"
    return r.pick(SIMPLE_TYPES)


def type_string(r):
    """a data type spelled inside a string literal (CAST(x, 'T'), table function structures)"""
    return "'" + data_type(r).replace("\\", "\\\\").replace("'", "\\'") + "'"


# ------------------------------------------------------------------------------------------
# expressions

BINOPS = ["+", "-", "*", "/", "%", "=", "==", "!=", "<>", "<", "<=", ">", ">=", "AND", "OR", "||", "<=>",
          "DIV", "MOD", "and", "or", "div", "mod", "||", "<=>", "DIV", "MOD"]
CMPOPS = ["=", "==", "!=", "<>", "<", "<=", ">", ">="]
UNITS = ["DAY", "HOUR", "MONTH", "SECOND", "WEEK", "YEAR", "MINUTE", "QUARTER", "MILLISECOND", "MICROSECOND", "NANOSECOND",
         "day", "Days", "HOURS", "weeks", "years", "minutes", "seconds", "months", "quarters"]
# units as the DATE_ADD / DATE_DIFF families take them (also SQL abbreviations and ODBC SQL_TSI_* names)
DATE_UNITS = ["DAY", "day", "MONTH", "YEAR", "HOUR", "MINUTE", "SECOND", "WEEK", "QUARTER", "yy", "qq", "mm", "wk", "ww", "dd",
              "hh", "mi", "ss", "SQL_TSI_DAY", "SQL_TSI_MONTH", "sql_tsi_year", "ms", "us", "ns", "days", "years", "w", "d", "h",
              "m", "s", "MILLISECOND", "microseconds"]


def expr(r, d=0, subq=True):
    """an expression; d = current depth (bounded), subq = may contain subqueries"""
    if d >= 4:
        return atom(r)
    x = r.below(78)
    e = lambda: expr(r, d + 1, subq)
    if x < 12:
        return atom(r)
    if x < 17:
        return e() + " " + r.pick(BINOPS) + " " + no_quantifier(e())
    if x == 17:
        return "(" + e() + ")"
    if x == 18:
        a = atom(r)
        op = r.pick(["NOT ", "-", "not ", "+", "- "])
        if op[0] == "-" and a[0] in "[(" and ko("neg-array-in-literal"):
            op = "NOT "
        return op + ("(" + a + ")" if a[0] in "-+" else a)     # never "--": that starts a comment
    if x == 19:
        return r.pick(FUNCS1) + "(" + e() + ")"
    if x == 20:
        return r.pick(FUNCS2) + "(" + e() + ", " + e() + ")"
    if x == 21:
        return r.pick(AGGS) + "(" + r.pick(["", "DISTINCT ", "ALL ", "distinct "]) + col(r) + ")"
    if x == 22:
        return parametric_call(r, d, subq)
    if x == 23:
        return r.pick(["count(*)", "count()", "COUNT(*)", "count(DISTINCT x)", "count(ALL x)", "count(1)"])
    if x == 24:
        return window_func(r, d)
    if x == 25:
        n = 1 + r.below(3)
        s = "CASE " + (e() + " " if r.p(1, 2) else "")
        for _ in range(n):
            s += "WHEN " + e() + " THEN " + e() + " "
        if r.p(2, 3):
            s += "ELSE " + e() + " "
        return s + "END"
    if x == 26:
        a = e()
        if a.rstrip().upper().endswith("END"):
            a = "(" + a + ")"                        # CASE ... END AS <word> would name the CASE
        return "CAST(" + a + " AS " + data_type(r) + ")"
    if x == 27:
        return "CAST(" + e() + ", " + type_string(r) + ")"
    if x == 28 or x == 29:
        return cast_op(r, d)
    if x == 30:
        return lambda_call(r, d)
    if x == 31 or x == 32:
        return in_expr(r, d, subq)
    if x == 33:
        return e() + r.pick([" BETWEEN ", " NOT BETWEEN ", " between "]) + atom(r) + " AND " + atom(r)
    if x == 34:
        return e() + r.pick([" LIKE ", " NOT LIKE ", " ILIKE ", " NOT ILIKE ", " REGEXP ", " NOT REGEXP ", " like "]) + string_lit(r)
    if x == 35:
        return e() + r.pick([" IS NULL", " IS NOT NULL", " is null"])
    if x == 36:
        return interval_expr(r, d)
    if x == 37:
        return extract_expr(r, d, subq)
    if x == 38:
        return "[" + ", ".join(e() for _ in range(r.below(4))) + "]"
    if x == 39:
        return "(" + e() + ", " + ", ".join(e() for _ in range(1 + r.below(2))) + ")"
    if x == 40:
        return "tuple(" + ", ".join(e() for _ in range(r.below(3))) + ")"
    if x == 41:
        return "map(" + ", ".join(string_lit(r) + ", " + e() for _ in range(1 + r.below(2))) + ")"
    if x == 42:
        return postfix_base(r) + "[" + e() + "]"
    if x == 43:
        return postfix_base(r) + "." + r.pick(["1", "2", "3", "1.2", "2.1.1", "name", "key"])
    if x == 44:
        return e() + " ? " + e() + " : " + e()
    if x == 45 and subq:
        return "(" + select_core(r, d + 2, simple=True) + ")"
    if x == 46 and subq:
        return "EXISTS (" + select_core(r, d + 2, simple=True) + ")"
    if x == 47:
        return r.pick(["if", "multiIf", "IF", "If"]) + "(" + e() + ", " + e() + ", " + e() + ")"
    if x == 48:
        return trim_expr(r, d, subq)
    if x == 49:
        return r.pick(["now()", "today()", "rand()", "currentDatabase()", "pi()", "now64(3)", "version()"])
    if x == 50:
        return substring_expr(r, d, subq)
    # --- constructs added from measured coverage -------------------------------------------------
    if x == 51:
        return quantified_cmp(r, d, subq)
    if x == 52:
        # IS [NOT] DISTINCT FROM and <=>, next to || and arithmetic
        return r.pick([lambda: e() + r.pick([" IS DISTINCT FROM ", " IS NOT DISTINCT FROM "]) + atom(r),
                       lambda: atom(r) + " || " + atom(r) + r.pick([" IS DISTINCT FROM ", " IS NOT DISTINCT FROM ", " <=> "]) + atom(r) + " + 1",
                       lambda: atom(r) + " <=> " + atom(r) + " || " + atom(r),
                       lambda: atom(r) + r.pick([" DIV ", " MOD ", " div ", " mod "]) + atom(r) + r.pick([" * ", " + ", " || ", " <=> "]) + atom(r),
                       lambda: atom(r) + " IS NOT DISTINCT FROM " + atom(r) + " IN (1, 2)",
                       lambda: "NOT " + atom(r) + " IS DISTINCT FROM NULL"])()
    if x == 53:
        return agg_filter(r, d, subq)
    if x == 54:
        return date_func(r, d, subq)
    if x == 55:
        return keyword_func(r, d, subq)
    if x == 56:
        return r.pick(["DATE '2020-01-01'", "TIMESTAMP '2020-01-01 00:00:00'", "date '2021-02-03'", "Timestamp '2020-01-01 10:00:00.123'",
                       "TIME '12:00:00'"])
    if x == 57:
        return r.pick(["POSITION(" + string_lit(r) + " IN " + col(r) + ")", "position(" + atom(r) + " IN " + e() + ")",
                       "position(" + col(r) + ", " + string_lit(r) + ")", "POSITION(" + col(r) + " IN " + col(r) + " || 'x')",
                       "position('a' IN (SELECT 'abc'))" if subq else "position('a' IN 'abc')"])
    if x == 58:
        return cast_func(r, d, subq)
    if x == 59:
        return r.pick(["@@version", "@@session.max_threads", "@@global.sql_mode", "@@GLOBAL.time_zone", "@@max_allowed_packet",
                       "@@session.format", "@@SESSION.auto_increment_increment"])
    if x == 60:
        return literal(r)
    if x == 61:
        return tuple_access(r, d)
    if x == 62:
        return r.pick(["+", "-", "- ", "+ "]) + r.pick(["inf", "nan", "INF", "NaN", "Inf", "NAN"])
    if x == 63:
        return nulls_func(r, d)
    if x == 64:
        return r.pick(["dictGet('db.d', 'attr', toUInt64(" + col(r) + "))", "dictGetOrDefault('d', 'a', " + col(r) + ", " + literal(r) + ")",
                       "arrayJoin(" + r.pick(["arr", "[1, 2, 3]", "range(3)"]) + ")", "toDecimal64(" + atom(r) + ", 4)",
                       "reinterpretAsUInt64(" + atom(r) + ")", "JSONExtractString(" + col(r) + ", 'a', 'b')",
                       "toDateTime64(" + atom(r) + ", 3, 'UTC')", "format('{} {}', " + atom(r) + ", " + atom(r) + ")",
                       "multiSearchAny(" + col(r) + ", ['a', 'b'])", "arraySort((x, y) -> y, arr, arr)",
                       "h3ToString(" + atom(r) + ")", "transform(" + col(r) + ", [1, 2], ['a', 'b'], 'c')",
                       "nested.x[1]", "tupleConcat((1, 2), (3,))", "mapKeys(m)", "m['k']", "m[" + string_lit(r) + "]",
                       "arr[-1]", "arr[1][2]", "grouping(a, b)", "toIntervalDay(" + atom(r) + ")", "date_trunc('day', ts)",
                       "toStartOfInterval(ts, INTERVAL 5 MINUTE)", "age('day', ts, now())", "left(name, 2)", "right(name, 1)",
                       "replace(name, 'a', 'b')", "char(65, 66)", "values(1)"])
    if x == 65:
        return e() + " " + r.pick(CMPOPS) + " " + no_quantifier(e())
    if x == 66:
        return e() + r.pick([" AND ", " OR "]) + e() + r.pick([" AND ", " OR "]) + e()
    if x == 67:
        return "(" + e() + r.pick([" AND ", " OR ", " || "]) + e() + ")" + r.pick([" AND ", " OR ", " || "]) + e()
    if x == 68:
        return "NOT (" + e() + ")" + r.pick(["", " + 1", " AND " + atom(r)])
    if x == 69:
        return "-(" + r.pick(["1", "-1", "1.5", "x", "18446744073709551615", "'a'", "NULL"]) + ")"
    if x == 70:
        return r.pick(["- " + unsigned_lit(r), "-" + col(r), "-(" + e() + ")", "+" + unsigned_lit(r), "- - 1", "-+1", "+-1", "NOT NOT a",
                       "NOT -1", "- NOT a", "-a.1", "-arr[1]", "-f(x)", "-x::Int8", "-(x)::Int8", "-1 AND 1", "-1 * -1", "1 - -1"])
    return atom(r)


def no_quantifier(s):
    """right operand of a comparison: `= any(x) OVER ...` would be read as a quantified comparison"""
    return "(" + s + ")" if s[:4].lower() in ("any(", "all(", "any ", "all ") else s


def atom(r):
    x = r.below(12)
    if x < 6:
        return col(r)
    if x < 11:
        return literal(r)
    return r.pick(["{p:UInt32}", "{name:String}", "{a:Array(UInt8)}", "{ts : DateTime64(3, 'UTC')}", "{n: Nullable(String)}",
                   "{id:Identifier}", "{m:Map(String, UInt8)}"])


def postfix_base(r):
    return r.pick(["arr", "tup", "m", "x", "(1, 2, 3)", "[1, 2]", "t.arr", "f(x)", "arr[1]", "tup.1", "(tup)", "(t.tup)",
                   "tuple(1, 'a')", "CAST(x AS Tuple(a UInt8, b String))", "(SELECT (1, 2))", "x::Tuple(a UInt8)", "json.a"])


def tuple_access(r, d):
    return r.pick(["tup.1.2", "(tup).a", "arr[1].name", "f(x).2", "(t).key", "t.tup.1", "tup.1 + tup.2", "(a, b).1", "tuple(1, 2).1",
                   "nested.a[1].2", "(tup).1.b", "(SELECT (1, 2)).1", "tup.a.b.c", "(x AS y).1", "arr[1].1.2", "(tup).`a b`",
                   "tup.18446744073709551616", "tup.0", "(1, (2, 3)).2.1"])


def parametric_call(r, d, subq):
    e = lambda: expr(r, d + 1, subq)
    f = r.pick(["quantile(0.5)", "quantiles(0.5, 0.9)", "topK(3)", "groupArray(10)", "sequenceMatch('(?1)(?2)')",
                "quantileExactWeighted(0.99)", "histogram(5)", "medianGK()", "groupArraySample(3, 42)", "quantilesTDigest(0.1, 0.5, 0.9)",
                "uniqUpTo(4)", "windowFunnel(3600, 'strict_order')", "quantile(-0.5 + 1)", "topK(3, 'counts')", "quantile(x)"])
    s = f + "(" + r.pick(["", "", "DISTINCT ", "ALL "]) + e() + (", " + e() if r.p(1, 3) else "") + ")"
    y = r.below(8)
    if y == 0:
        s += r.pick([" IGNORE NULLS", " RESPECT NULLS"])
    if y <= 1:
        s += " OVER " + r.pick(["()", "w", "(PARTITION BY a)", "(ORDER BY b ROWS 1 PRECEDING)"])
    return s


def agg_filter(r, d, subq):
    """FILTER (WHERE ...) on aggregate calls (the printer appends If and moves the condition into the arguments)"""
    c = lambda: expr(r, d + 2, False)
    f = r.pick([lambda: "count(*)", lambda: "count()", lambda: "uniq(*, " + col(r) + ")", lambda: "sum(" + col(r) + ")",
                lambda: "avg(DISTINCT " + col(r) + ")", lambda: "any(" + col(r) + ")", lambda: "groupArray(" + col(r) + ")",
                lambda: "count(" + col(r) + ", *)", lambda: "argMax(" + col(r) + ", " + col(r) + ")", lambda: "uniq(*)",
                lambda: "COUNT(*)", lambda: "max(" + col(r) + " + 1)", lambda: "format(" + col(r) + ")", lambda: "first(" + col(r) + ")"])()
    s = f + r.pick([" FILTER (WHERE ", " FILTER(WHERE ", " filter (where "]) + c() + ")"
    if r.p(1, 4):
        s += " OVER " + r.pick(["()", "w", "(PARTITION BY a ORDER BY b)"])
    return s


def nulls_func(r, d):
    f = r.pick(["first_value(x)", "last_value(y)", "any(x)", "anyLast(x)", "lagInFrame(x, 1)", "leadInFrame(x)", "nth_value(x, 2)",
                "first_value(" + col(r) + ")", "any(" + col(r) + ")", "last(x)", "first(x)"])
    s = f + r.pick([" IGNORE NULLS", " RESPECT NULLS", " ignore nulls", " RESPECT NULLS IGNORE NULLS"])
    if r.p(1, 2):
        s += " OVER " + r.pick(["()", "w", "(ORDER BY ts)", "(PARTITION BY a ORDER BY ts ROWS BETWEEN UNBOUNDED PRECEDING AND CURRENT ROW)"])
    return s


def quantified_cmp(r, d, subq):
    op = r.pick(CMPOPS)
    q = r.pick(["ANY", "ALL", "any", "all"])
    if subq and r.p(5, 6):
        return atom(r) + " " + op + " " + q + " (" + select_core(r, d + 2, simple=True) + ")"
    return atom(r) + " " + op + " " + q.lower() + "(" + r.pick(["arr", "[1, 2]", "x, y"]) + ")"


def date_func(r, d, subq):
    """DATE_ADD / DATE_SUB / TIMESTAMPADD / DATE_DIFF families (rewritten by the printer)"""
    e = lambda: expr(r, d + 2, False)
    u = lambda: r.pick(DATE_UNITS)
    dt = lambda: r.pick(["ts", "d", "now()", "toDate('2020-01-01')", "today()", col(r)])
    add = r.pick(["DATE_ADD", "DATEADD", "TIMESTAMP_ADD", "TIMESTAMPADD", "date_add", "dateAdd", "timestampAdd",
                  "DATE_SUB", "DATESUB", "TIMESTAMP_SUB", "TIMESTAMPSUB", "date_sub", "dateSub", "timestamp_sub"])
    x = r.below(10)
    if x < 3:
        return add + "(" + u() + ", " + r.pick(["1", "-1", "x", "2 + 1", "{p:UInt32}", "1.5"]) + ", " + dt() + ")"
    if x == 3:
        return add + "(" + dt() + ", INTERVAL " + r.pick(["1", "x", "'2'"]) + " " + r.pick(UNITS) + ")"
    if x == 4:
        return add + "(INTERVAL " + r.pick(["1", "x"]) + " " + r.pick(UNITS) + ", " + dt() + ")"
    if x == 5:
        return add + "(" + dt() + ", toIntervalDay(" + r.pick(["1", "x"]) + "))"
    if x == 6:
        return add + "(toIntervalMonth(2), " + dt() + ")"
    if x == 7:
        return add + "(" + dt() + ", " + e() + ")"          # not an interval: stays an ordinary function
    diff = r.pick(["DATE_DIFF", "DATEDIFF", "dateDiff", "date_diff", "age", "TIMESTAMPDIFF", "timestamp_diff"])
    if x == 8:
        return diff + "(" + r.pick([u(), "'" + u() + "'"]) + ", " + dt() + ", " + dt() + r.pick(["", "", ", 'UTC'", ", 'Europe/Berlin'"]) + ")"
    return diff + "(" + u() + ", " + e() + ", " + dt() + ")"


def keyword_func(r, d, subq):
    """functions whose name is a keyword token of the lexer"""
    e = lambda: expr(r, d + 2, False)
    return r.pick([lambda: "format('{}-{}', " + e() + ", " + e() + ")",
                   lambda: "array(" + ", ".join(e() for _ in range(r.below(4))) + ")",
                   lambda: "ARRAY(1, 2)",
                   lambda: "left(" + e() + ", 2)",
                   lambda: "right(" + e() + ", 1)",
                   lambda: "replace(" + e() + ", 'a', 'b')",
                   lambda: "any(" + r.pick(["", "DISTINCT ", "ALL "]) + e() + ")" + r.pick(["", " OVER ()", " OVER w", " FILTER (WHERE a)", " IGNORE NULLS"]),
                   lambda: "all(" + e() + ")",
                   lambda: "first(" + e() + ")",
                   lambda: "last(" + e() + ")" + r.pick(["", " RESPECT NULLS", " OVER (ORDER BY a)"]),
                   lambda: "values(" + e() + ")",
                   lambda: "key(" + e() + ")",
                   lambda: "index(" + e() + ", 1)",
                   lambda: "view(SELECT 1)" if subq else "view(x)",
                   lambda: "default(" + e() + ")",
                   lambda: "interval(" + e() + ")",
                   lambda: "set(" + e() + ")",
                   lambda: "if(a, b, c)",
                   lambda: "user()",
                   lambda: "database()",
                   lambda: "table(" + e() + ")",
                   lambda: "insert(" + e() + ", 1, 2, 'x')",
                   lambda: "truncate(" + e() + ", 2)",
                   lambda: "show(" + e() + ")",
                   lambda: "system(" + e() + ")"])()


def interval_expr(r, d):
    x = r.below(12)
    if x < 5:
        return "INTERVAL " + r.pick(["1", "5", "'3'", "x", "-1", "1.5", "(x + 1)", "x + 1", "number - 15", "a.b", "(SELECT 1)" if d < 3 else "2"]) + " " + r.pick(UNITS)
    if x == 5:
        return "INTERVAL " + r.pick(["'1 day'", "'2 years'", "'1 DAY 2 HOUR'", "'-1 SECOND 2 MINUTE -3 MONTH 1 YEAR'", "'1 YEAR 2 MONTH 3 DAY'",
                                     "' 1   week '", "'3 ms'", "'1 h 2 m 3 s'", "'10 microseconds'", "'1'", "''", "'1 2 3'", "'day'",
                                     "'1 SQL_TSI_DAY'", "'-5 dd'", "'1 qq 2 yy'"])
    if x == 6:
        return "INTERVAL '2' AS n MINUTE"
    if x == 7:
        return "INTERVAL " + r.pick(["1", "x"]) + " " + r.pick(["W", "D", "H", "M", "S", "MS", "US", "NS", "w", "d", "h", "m", "s", "ms", "us", "ns"])
    if x == 8:
        return "toDate('2020-01-01') + INTERVAL " + r.pick(["1", "x"]) + " " + r.pick(UNITS) + " - INTERVAL '1 hour'"
    if x == 9:
        return "INTERVAL '1 day' - INTERVAL '1 hour'"
    if x == 10:
        return "(INTERVAL 1 DAY, INTERVAL 2 HOUR)"
    return "INTERVAL " + r.pick(["1", "2"]) + " " + r.pick(UNITS) + " + INTERVAL " + r.pick(["'3'", "4"]) + " " + r.pick(UNITS)


def extract_expr(r, d, subq):
    e = lambda: expr(r, d + 1, subq)
    x = r.below(8)
    if x < 5:
        return r.pick(["EXTRACT", "extract", "Extract"]) + "(" + r.pick(["YEAR", "MONTH", "DAY", "HOUR", "MINUTE", "SECOND", "QUARTER", "WEEK", "YYYY",
                                                                          "DAYOFWEEK", "DAYOFYEAR", "TIMEZONE_HOUR", "TIMEZONE_MINUTE", "year", "Day"]) + " FROM " + e() + ")"
    if x == 5:
        return "extract(" + col(r) + ", " + r.pick(["'\\\\d+'", "'(a|b)'", "'^x'"]) + ")"
    if x == 6:
        return "EXTRACT(DAY FROM " + col(r) + " AS dd)"
    return r.pick(["extract(year, ts)", "extract(" + e() + ", 'x')", "extractAll(name, 'a')", "EXTRACT(day)", "extract(toString(x), '\\\\w')", "extract(year, ts, 1)", "extract(day, a, b, c)"])


def trim_expr(r, d, subq):
    e = lambda: expr(r, d + 1, subq)
    x = r.below(8)
    if x < 3:
        return r.pick(["trim(", "TRIM(", "Trim("]) + r.pick(["BOTH ", "LEADING ", "TRAILING ", "both ", "leading "]) + string_lit(r) + " FROM " + e() + ")"
    if x == 3:
        return "trim(" + r.pick(["BOTH ", "LEADING ", "TRAILING "]) + "'' FROM " + e() + ")"       # empty characters: printed as the operand itself
    if x == 4:
        return "trim(" + e() + ")"
    if x == 5:
        return r.pick(["ltrim", "rtrim", "trimLeft", "trimRight", "trimBoth", "LTRIM"]) + "(" + e() + r.pick(["", ", 'x'", ", ''"]) + ")"
    if x == 6:
        return "trim(" + r.pick(["BOTH ", "LEADING ", "TRAILING ", ""]) + "'x' AS chars FROM " + col(r) + " AS s)"
    if r.p(1, 2):
        return r.pick(["trim(BOTH 'x' chars FROM " + col(r) + ")", "trim(LEADING 'x' FROM " + col(r) + " str)", "trim(" + col(r) + " AS s)",
                       "trim(TRAILING 'x' chars FROM " + col(r) + " str)", "trim(BOTH FROM " + col(r) + " AS s)"])
    return "trim(" + r.pick(["BOTH", "LEADING", "TRAILING"]) + " FROM " + e() + ")"


def substring_expr(r, d, subq):
    e = lambda: expr(r, d + 1, subq)
    x = r.below(8)
    if x < 5:
        return r.pick(["substring(", "SUBSTRING(", "Substring("]) + e() + r.pick([" FROM 1 FOR 2", ", 1, 2", " FROM 2", ", 2", " FROM -1", " FROM x FOR y", " FOR 3"]) + ")"
    if x == 5:
        return "substring(" + col(r) + " AS s FROM 1 AS f FOR 2 AS n)"
    if x == 6:
        return "substring(" + col(r) + " s, 1 f, 2 n)"
    return r.pick(["substr(" + e() + ", 1, 2)", "mid(" + e() + ", 1)", "substring(" + col(r) + " s FROM 1 f FOR 2 n)", "SUBSTRING(" + col(r) + " AS s, 1 AS f)",
                   "substring(" + col(r) + ", 1, 2 AS n)", "substring(" + col(r) + ", 1 AS f, 2 AS n)", "substring(" + col(r) + " FROM 1 AS f)"])


def cast_func(r, d, subq):
    """CAST(...) with aliases on the operand and / or on the type string"""
    e = lambda: expr(r, d + 2, False)
    t = lambda: r.pick(["'UInt32'", "'String'", "'Nullable(UInt8)'", "'Array(String)'", type_string(r)])
    return r.pick([lambda: "CAST(" + e() + " AS lhs AS " + data_type(r) + ")",
                   lambda: "CAST(" + col(r) + " lhs AS " + data_type(r) + ")",
                   lambda: "CAST(" + e() + " AS lhs, " + t() + ")",
                   lambda: "CAST(" + e() + " AS lhs, " + t() + " AS rhs)",
                   lambda: "CAST(" + e() + " AS lhs, " + t() + " rhs)",
                   lambda: "CAST(" + col(r) + " lhs, " + t() + ")",
                   lambda: "CAST(" + col(r) + " lhs, " + t() + " AS rhs)",
                   lambda: "CAST(" + col(r) + " lhs, " + t() + " rhs)",
                   lambda: "CAST(" + e() + ", " + t() + " AS rhs)",
                   lambda: "CAST(" + e() + ", " + t() + " rhs)",
                   lambda: "CAST(" + e() + ", if(a, 'UInt8', 'Int8'))",
                   lambda: "CAST(" + e() + ", 'Str' || 'ing')",
                   lambda: "CAST(" + e() + ", concat('Array(', 'UInt8', ')'))",
                   lambda: "cast(" + e() + ", " + t() + ")",
                   lambda: "Cast(" + e() + " as " + data_type(r) + ")",
                   lambda: "CAST(" + e() + " AS lhs, toTypeName(x))",
                   lambda: "CAST(" + col(r) + " lhs, toTypeName(x) AS tn)",
                   lambda: "CAST((" + e() + ") AS " + data_type(r) + ")",
                   lambda: "_CAST(" + e() + ", " + t() + ")",
                   lambda: "CAST(" + e() + " AS " + agg_type(r) + ")",
                   lambda: "CAST(" + col(r) + r.pick([" AS ", " as ", " AS lhs AS "]) + agg_type(r) + ")",
                   lambda: "accurateCastOrNull(" + e() + ", " + t() + ")"])()


def window_func(r, d):
    f = r.pick(["row_number()", "rank()", "sum(x)", "lagInFrame(x, 1)", "count()", "first_value(y)",
                "dense_rank()", "nth_value(x, 2)", "avg(x + 1)", "max(y)", "ntile(4)", "percent_rank()", "count(*)", "uniq(x, y)"])
    x = r.below(12)
    if x < 3:
        return f + " OVER " + r.pick(["w", "w", "w2", "(w)", "(w ORDER BY x)", "(w2 ROWS UNBOUNDED PRECEDING)", "(w PARTITION BY a)", "()"])
    parts = []
    if r.p(1, 2):
        parts.append("PARTITION BY " + ", ".join(r.pick([col(r), "toDate(ts)", "a + 1"]) for _ in range(1 + r.below(2))))
    if r.p(2, 3):
        parts.append("ORDER BY " + col(r) + r.pick(["", " DESC", " ASC", " DESC NULLS LAST", " ASC NULLS FIRST"]) + r.pick(["", "", ", " + col(r) + " DESC"]))
        if r.p(1, 2):
            parts.append(r.pick(["ROWS BETWEEN UNBOUNDED PRECEDING AND CURRENT ROW",
                                 "ROWS BETWEEN 1 PRECEDING AND 1 FOLLOWING",
                                 "RANGE BETWEEN UNBOUNDED PRECEDING AND UNBOUNDED FOLLOWING",
                                 "ROWS 2 PRECEDING", "RANGE CURRENT ROW",
                                 "ROWS BETWEEN CURRENT ROW AND UNBOUNDED FOLLOWING",
                                 "GROUPS BETWEEN 1 PRECEDING AND 1 FOLLOWING", "GROUPS UNBOUNDED PRECEDING", "GROUPS CURRENT ROW",
                                 "ROWS BETWEEN 1 + 1 PRECEDING AND x FOLLOWING", "RANGE BETWEEN INTERVAL 1 DAY PRECEDING AND CURRENT ROW",
                                 "ROWS BETWEEN 3 FOLLOWING AND 5 FOLLOWING", "RANGE 10 PRECEDING", "rows between unbounded preceding and current row",
                                 "ROWS UNBOUNDED PRECEDING", "RANGE BETWEEN 1.5 PRECEDING AND 2.5 FOLLOWING", "ROWS BETWEEN {p:UInt32} PRECEDING AND CURRENT ROW"]))
    elif r.p(1, 4):
        parts.append(r.pick(["ROWS BETWEEN UNBOUNDED PRECEDING AND UNBOUNDED FOLLOWING", "ROWS 1 PRECEDING", "RANGE UNBOUNDED PRECEDING"]))
    return f + " OVER (" + " ".join(parts) + ")"


def cast_op(r, d):
    """the `::` operator, including array / tuple literal operands with non-literal elements"""
    x = r.below(26)
    e = lambda: expr(r, d + 2, False)
    if x >= 24:
        return r.pick([col(r), "(" + e() + ")", "NULL", "state", "f(x)", "arr[1]", "'\\0'"]) + "::" + agg_type(r)
    flt = lambda: r.pick(["Float64", "Float32", "Nullable(Float64)", "BFloat16", "String", "Decimal(10, 2)"])
    if x == 0:
        return col(r) + "::" + data_type(r)
    if x == 1:
        return unsigned_lit(r) + "::" + r.pick(["UInt8", "Int64", "Float64", "String", "Decimal(10, 2)", "UInt256", "Int128"])
    if x == 2:
        return string_lit(r) + "::" + r.pick(["Date", "DateTime", "UUID", "String", "IPv4", "Int32", "DateTime64(3, 'UTC')", "FixedString(3)",
                                              "Enum8('a' = 1)", "JSON", "LowCardinality(String)"])
    if x == 3:
        return "[" + ", ".join(number_lit(r) for _ in range(r.below(4))) + "]::Array(" + r.pick(SIMPLE_TYPES) + ")"
    if x == 4:
        return "[" + ", ".join(r.pick(["NULL", "1", "'a'", "true", "[1, 2]", "(1, 'x')", "-3", "1.5"])
                               for _ in range(1 + r.below(3))) + "]::Array(Nullable(String))"
    if x == 5:
        # NON-literal elements
        return "[" + ", ".join(r.pick(["NULL", "1", "x[1]", "t.1", "tup.2", "a::UInt8", "1::Int8::Int16",
                                       "CASE WHEN a THEN 1 ELSE 2 END", "(a ? 1 : 2)", "abs(x)", "x + 1",
                                       "arr[2]", "(SELECT 1)", "-x", "NOT a", "x -> x", "a IN (1, 2)", "a GLOBAL NOT IN (SELECT 1)",
                                       "-f(x)", "a || b", "INTERVAL 1 DAY", "{p:UInt8}", "a AS b", "*"])
                               for _ in range(1 + r.below(4))) + "]::Array(Nullable(UInt8))"
    if x == 6:
        return "(" + ", ".join(r.pick(["NULL", "1", "'s'", "x[1]", "t.1", "a::UInt8", "abs(x)", "[1, 2]", "true",
                                       "CASE WHEN a THEN 1 END", "x", "1 + 2", "-1", "-x", "(1, 2)", "'it\\'s'", "a IN (1, 2)"])
                               for _ in range(2 + r.below(3))) + ")::Tuple(" + r.pick(
            ["UInt8, String", "Nullable(UInt8), Nullable(UInt8)", "a UInt8, b String", "`a b` Int8, `ключ` String"]) + ")"
    if x == 7:
        return "(" + e() + ")::" + data_type(r)
    if x == 8:
        return r.pick(FUNCS1) + "(" + e() + ")::" + r.pick(SIMPLE_TYPES)
    if x == 9:
        return col(r) + "::" + r.pick(SIMPLE_TYPES) + "::" + r.pick(["String", "Nullable(String)"])
    if x == 10:
        return "arr[1]::" + r.pick(SIMPLE_TYPES)
    if x == 11:
        return "NULL::Nullable(" + r.pick(SIMPLE_TYPES) + ")"
    # --- special floats, negative numbers, booleans under :: ------------------------------------------
    if x == 12:
        return r.pick(["inf", "nan", "INF", "NAN", "Inf", "NaN", "-inf", "-nan", "-INF", "-NaN", "+inf", "+nan", "- inf", "-Inf", "+INF"]) + "::" + flt()
    if x == 13:
        return "-" + r.pick(["1", "0", "128", "1.5", "0.0", "1e3", "1E-2", "9223372036854775808", "9223372036854775809",
                             "170141183460469231731687303715884105728", "0.10", ".5", "1.", "18446744073709551615", "1_000", "0x10", "0b1"]) \
            + "::" + r.pick(["Int8", "Int16", "Int64", "Int128", "Int256", "Float32", "Float64", "Decimal(38, 10)", "String"])
    if x == 14:
        return r.pick(["true", "false", "TRUE", "NULL"]) + "::" + r.pick(["Bool", "UInt8", "Nullable(Bool)", "String"])
    if x == 15:
        # literal arrays / tuples: spacing variants (the printer keeps the source text), strings needing escapes, big integers
        return r.pick(["[1,2,3]::Array(UInt8)", "[1, 2, 3]::Array(UInt8)", "[ 1, 2 ]::Array(UInt8)", "[1 ,2]::Array(Int8)", "[]::Array(UInt8)",
                       "[ ]::Array(String)", "['a','b']::Array(String)", "['it\\'s', 'back\\\\slash', 'tab\\t', '']::Array(String)",
                       "['a\\nb', 'c\\rd', 'nul\\0']::Array(String)", "[123456789012345678901234567890, 1]::Array(UInt256)",
                       "[-123456789012345678901234567890]::Array(Int256)", "[0.0, 1.50, -2.25, 1e3]::Array(Float64)",
                       "[[1, 2], [3]]::Array(Array(UInt8))", "[[1,2],[]]::Array(Array(UInt8))", "[(1, 'a'), (2, 'b')]::Array(Tuple(UInt8, String))",
                       "(1,2)::Tuple(UInt8, UInt8)", "(1, 'a')::Tuple(UInt8, String)", "( 1 , 'a' )::Tuple(a UInt8, b String)",
                       "(1, (2, 3), [4])::Tuple(UInt8, Tuple(UInt8, UInt8), Array(UInt8))", "[true, false]::Array(Bool)", "[NULL]::Array(Nullable(UInt8))",
                       "[NULL, 1]::Array(Nullable(UInt8))", "[[NULL]]::Array(Array(Nullable(String)))", "(NULL, true)::Tuple(Nullable(UInt8), Bool)",
                       "[-1, -2.5, -0]::Array(Float32)", "(-1, -'a')::Tuple(Int8, String)", "[-NULL]::Array(Nullable(Int8))", "[-inf, nan]::Array(Float64)",
                       "['2020-01-01']::Array(Date)", "[1.]::Array(Float32)", "[.5, 1e-3]::Array(Float64)", "[0x10, 0b11]::Array(UInt8)",
                       "['üñí', '日本']::Array(String)", "['a''b']::Array(String)", "[$$here$$]::Array(String)", "[x'41']::Array(String)",
                       "[18446744073709551616]::Array(Float64)", "[-9223372036854775809]::Array(Int128)", "()::Tuple()",
                       "(1,)::Tuple(UInt8)", "[1,]::Array(UInt8)", "[(1,2),(3,4)]::Array(Tuple(UInt8,UInt8))"])
    if x == 16:
        return literal(r) + "::" + data_type(r)
    if x == 17:
        return array_lit(r) + "::Array(" + r.pick(["UInt8", "String", "Nullable(Int64)", "Array(UInt8)", "Float64"]) + ")"
    if x == 18:
        return tuple_lit(r, 1) + "::Tuple(" + r.pick(["UInt8, String", "a Int8, b Int8", "Nullable(String), Float64"]) + ")"
    if x == 19:
        return r.pick(["x::Int8 + 1", "-x::Int8", "(-x)::Int8", "x::Int8::Int16::Int32", "1 + 2::Int8", "(1 + 2)::Int8", "(x::Int8 AS y)", "x::Int8 % 2",
                       "NOT x::UInt8", "x.1::UInt8", "arr[1]::UInt8[2]", "x::Array(UInt8)[1]", "x::Tuple(a UInt8).a", "f(x)::String || 'a'",
                       "1::UInt8 IN (1, 2)", "x::Date BETWEEN '2020-01-01'::Date AND today()", "{p:String}::UInt8", "(SELECT 1)::UInt8",
                       "CASE WHEN a THEN 1 END::UInt8", "x::INT UNSIGNED", "x::DOUBLE PRECISION", "x::Nullable(INT(11))"])
    if x == 20:
        return string_lit(r) + "::" + data_type(r)
    if x == 21:
        return r.pick(["'2020-01-01'::Date + INTERVAL 1 DAY", "'1'::UInt8::String", "''::String", "'a\\'b'::String", "'\\\\'::String",
                       "'nl\\n'::String", "'tab\\t'::FixedString(4)", "'\\0'::String", "'[1, 2]'::Array(UInt8)", "'(1, 2)'::Tuple(UInt8, UInt8)",
                       "'{\"a\": 1}'::JSON", "'{\"a\": 1}'::JSON(a UInt8)", "$$x$$::String", "'a'::Enum8('a' = 1, 'b' = 2)"])
    if x == 22:
        return number_lit(r) + "::" + flt()
    return "(" + e() + ", " + e() + ")::Tuple(" + r.pick(["UInt8, UInt8", "a String, b String"]) + ")"


def lambda_call(r, d):
    e = lambda: expr(r, d + 2, False)
    x = r.below(14)
    if x == 0:
        return "arrayMap(x -> " + e() + ", " + r.pick(["arr", "[1, 2, 3]", "range(10)"]) + ")"
    if x == 1:
        return "arrayFilter((x, y) -> " + e() + ", arr, arr)"
    if x == 2:
        return "arrayMap(lambda(tuple(x), x + 1), arr)"
    if x == 3:
        return "arrayExists(x -> x " + r.pick(["=", ">", "!="]) + " " + atom(r) + ", arr)"
    if x == 4:
        return "arrayMap((x, y) -> x + y, " + r.pick(["a, b", "arr, arr", "[1, 2], [3, 4]"]) + ")"
    if x == 5:
        return "arrayMap(x, y -> x + y, arr, arr)"                                   # parameters without parentheses
    if x == 6:
        return "arrayFold(acc, x -> acc + x, arr, toUInt64(0))"
    if x == 7:
        return "arrayMap((x) -> " + e() + ", arr)"
    if x == 8:
        return "arrayMap(x -> arrayMap(y -> x + y, arr), arr)"
    if x == 9:
        return "arrayMap(() -> 1, arr)"
    if x == 10:
        return "arraySort((x, y, z) -> (x, y), arr, arr, arr)"
    if x == 11:
        return "f(a, (x -> x + 1))"                                                   # parenthesised lambda: not merged with `a`
    if x == 12:
        return "arrayMap((x, y) -> (x, y), arr, arr)"
    return "mapApply((k, v) -> (k, v * 2), m)"


NEG_BRACKET = re.compile(r"-\s*[\[(]")


def in_expr(r, d, subq):
    lhs = expr(r, d + 2, False) if r.p(2, 3) else "(" + col(r) + ", " + col(r) + ")"
    op = r.pick([" IN ", " NOT IN ", " GLOBAL IN ", " GLOBAL NOT IN ", " in ", " global not in "])
    x = r.below(20)
    if x == 0:
        rhs = "(" + ", ".join(literal(r) for _ in range(1 + r.below(4))) + ")"
    elif x == 1:
        rhs = "(" + ", ".join("(" + number_lit(r) + ", " + string_lit(r) + ")" for _ in range(1 + r.below(3))) + ")"
    elif x == 2 and subq:
        rhs = "(" + select_core(r, d + 2, simple=True) + ")"
    elif x == 3:
        rhs = r.pick(["t2", "db.t", "arr", "[1, 2, 3]", "tuple(1, 2)", "[]", "['a', 'b']", "t::String", "{p:Array(UInt8)}", "f(x)", "x.1"])
    elif x == 4:
        rhs = "(" + expr(r, d + 2, False) + ")"
    elif x == 5:
        rhs = "(" + col(r) + ", " + number_lit(r) + ", " + expr(r, d + 2, False) + ")"
    elif x == 6:
        rhs = r.pick(["(1)", "(1,)", "('a',)", "(NULL)", "(NULL, NULL)", "(NULL, 1)", "(1)" if ko("in-empty-list") else "()",
                      "((1, 2))", "((1, 2),)", "(x,)", "((1), (2))"])
    elif x == 7:
        rhs = "(" + ", ".join(number_lit(r) for _ in range(2 + r.below(4))) + ")"
    elif x == 8:
        rhs = "(" + ", ".join(string_lit(r) for _ in range(r.pick([2, 3, 5, 10, 11, 12, 14]))) + ")"   # more than 10 strings: not folded under an alias
    elif x == 9:
        rhs = "(" + ", ".join(r.pick(["true", "false", "NULL"]) for _ in range(2 + r.below(3))) + ")"
    elif x == 10:
        rhs = "(" + ", ".join(tuple_lit(r, 1) for _ in range(2 + r.below(3))) + ")"
    elif x == 11:
        rhs = "(" + ", ".join(r.pick(["-1", "-0", "-1.5", "1", "NULL", "-18446744073709551615", "-9223372036854775808", "-inf", "0.5"])
                              for _ in range(2 + r.below(4))) + ")"
    elif x == 12:
        rhs = "(" + ", ".join(r.pick(["(1, -2)", "(-1.5, 'a')", "((1, 2), 3)", "(NULL, NULL)", "(1, [2])", "(x, 1)", "(-x, 1)", "(1, 2)"])
                              for _ in range(1 + r.below(3))) + ")"
    elif x == 13:
        rhs = "(" + ", ".join(r.pick(["1", "'a'", "true", "NULL", "1.5", "(1, 2)"]) for _ in range(2 + r.below(3))) + ")"   # mixed primitive kinds
    elif x == 14:
        rhs = "(" + ", ".join(array_lit(r, 1) for _ in range(1 + r.below(3))) + ")"
    elif x == 15 and subq:
        rhs = "(" + select_with_union(r, d + 2, simple=True) + ")"
    elif x == 16:
        rhs = r.pick(["((1), (2))", "(((1)), 2)", "(((1), (2)))", "((('a'), (NULL)))", "(((1), 2))", "(((1, 2)))"]
                     + ([] if ko("in-empty-list") else ["(())", "((()))"]))
    else:
        rhs = "(" + ", ".join(literal(r) for _ in range(1 + r.below(3))) + r.pick(["", ","]) + ")"
    if ko("aliased-in-neg-array") and x in (0, 10, 14, 17, 18, 19) and NEG_BRACKET.search(rhs):
        rhs = rhs[:-1].rstrip(", ") + ", x)"        # (a non-literal element: the list is a Function tuple with or without alias)
    return lhs + op + rhs


def alias(r):
    return r.pick(["k", "v", "res", "cnt", "x1", "`my alias`", "total", "`it's`", "\"q\"", "`a\\\\b`", "key", "index", "`ключ`",
                   # printf verbs: a name is data wherever it is printed, never part of a format string
                   "`50%`", "`%s`", "`a%d%v`", "\"100%\""])


NESTED_ARRAY = re.compile(r"\[\s*\[|,\s*\[")


def select_item(r, d):
    x = r.below(36)
    if x == 0:
        return "*"
    if x == 1:
        return r.pick(["t", "t1", "db.t"]) + ".*" + (col_transformers(r, star=True) if r.p(1, 3) else "")
    if x == 2:
        return "COLUMNS('" + r.pick(["^a", "x|y", ".*id$", "it\\'s", "a\\\\d"]) + "')" + col_transformers(r)
    if x == 3:
        return "* " + col_transformers(r, force=True, star=True).strip()
    if x == 4:
        return "COLUMNS(" + r.pick(["a, b", "a", "t.a, t.b", "a, b, c"]) + ")" + col_transformers(r)
    if x == 5:
        # qualified column matchers
        return r.pick(["t", "t1", "db.t"]) + "." + r.pick(["COLUMNS('^a')", "COLUMNS(a, b)", "COLUMNS(id)", "columns('x')"]) + col_transformers(r)
    if x == 6:
        return r.pick(["tuple(1, 'a').*", "tup.*", "CAST(x AS Tuple(a UInt8)).*", "(1, 2).*", "t.tup.*", "f(x).*", "system.*", "system.one.*", "default.t.*"])
    if x == 7:
        return r.pick(["()", "[]", "[[a + b]]", "[[f(x), -y]]", "[[x IN (1, 2)]]", "[[NOT a, a.b]]", "[[1, x]]", "([1, a], 2)", "(1, (2, x))", "[(1, x)]",
                       "[[a GLOBAL NOT IN (SELECT 1)]]", "[[[x]]]", "[[1], [x]]", "[[-x]]", "[[a || b, 'c']]", "[[x -> x]]", "[[CASE WHEN a THEN 1 END]]",
                       "[[x::UInt8]]", "[[arr[1], tup.1]]", "[[1, 2], [3, -4]]", "((1, 2), (3, x))", "[[], [x]]", "[[NULL, x]]", "[[(1, x)]]",
                       "[[a BETWEEN 1 AND 2]]", "[[a IS NULL]]", "[[a LIKE 'x']]", "[[INTERVAL 1 DAY]]", "[[{p:UInt8}]]", "[[(SELECT 1)]]", "[[*]]"]) \
            + " AS " + alias(r)
    e = expr(r, d)
    if r.p(1, 3) and not (ko("aliased-nested-array") and NESTED_ARRAY.search(e)):
        a = alias(r)
        e += (r.pick([" AS ", " as "]) if a in ("key", "index") else r.pick([" AS ", " ", " as "])) + a     # a keyword as alias: after AS
    return e


def col_transformers(r, force=False, star=False):
    out = ""
    n = r.below(3) + (1 if force else 0)
    for _ in range(n):
        x = r.below(16)
        if x == 0:
            out += " APPLY(" + r.pick(["sum", "toString", "max"]) + ")"
        elif x == 1:
            out += " APPLY " + r.pick(["sum", "any"])
        elif x == 2:
            out += " EXCEPT (" + ", ".join(r.pick(COLS) for _ in range(1 + r.below(2))) + ")"
        elif x == 3:
            out += " EXCEPT " + r.pick(COLS)
        elif x == 4:
            out += " REPLACE (" + ", ".join(r.pick(["a + 1", "toString(b)", "x * 2"]) + " AS " + r.pick(COLS)
                                            for _ in range(1 + r.below(2))) + ")"
        elif x == 5:
            out += " APPLY(x -> x + 1)"
        elif x == 6:
            out += " EXCEPT STRICT (" + r.pick(COLS) + ")"
        elif x == 7:
            out += " REPLACE STRICT (" + r.pick(["a + 1", "x * 2"]) + " AS " + r.pick(COLS) + ")"
        elif x == 8 and star:
            out += r.pick([" EXCEPT('^a')", " EXCEPT ('x|y')", " EXCEPT '.*id$'", " EXCEPT STRICT ('z')"])     # a pattern: after `*` only
        elif x == 9:
            out += " APPLY(" + r.pick(["quantiles(0.5, 0.9)", "quantile(0.5)", "topK(3)", "groupArray(2)", "f()"]) + ")"
        elif x == 10:
            out += " APPLY " + r.pick(["quantile(0.5)", "toString"]) 
        elif x == 11 and star:
            out += " REPLACE " + r.pick(["a + 1 AS a", "toString(b) AS b"])
        elif x == 12:
            out += " APPLY(x -> " + r.pick(["toString(x)", "x * 2", "(x, 1)", "if(isNull(x), 0, x)"]) + ")"
        elif x == 13:
            out += " EXCEPT (" + r.pick(["key", "index", "`a b`"]) + ")"
        elif x == 14:
            out += " APPLY x -> x"
        else:
            out += " apply(" + r.pick(["sum", "any"]) + ") except (a)"
    return out


# ------------------------------------------------------------------------------------------
# SELECT

# the parser takes INTO (of INTO OUTFILE) for a table alias when it directly follows a table
# expression without alias / FINAL / SAMPLE; STATE["bare"] tells that the text generated last ends so
STATE = {"bare": False}

TABLE_FUNCS = ["numbers(10)", "numbers(1, 5)", "remote('127.0.0.1', db.t)", "file('a.csv', 'CSV', 'x UInt8')",
               "url('http://h/x', JSONEachRow)", "s3('http://b/k', 'CSV')", "generateRandom('a UInt8', 1, 2)",
               "cluster('c', db, t)", "merge('db', '^t')", "view(SELECT 1)", "values('a UInt8', 1, 2)",
               "zeros(3)", "mysql('h:3306', 'd', 't', 'u', 'p')",
               # arguments of every kind the printers of table functions see
               "mysql('h:3306', 'd', 't', 'u', 'p', SETTINGS connect_timeout = 1, connection_pool_size = 2)",
               "postgresql('h:5432', 'd', 't', 'u', 'p', 'schema')", "s3('http://b/k', 'key', 'secret', 'CSV', 'a UInt8', 'gzip')",
               "s3(named_coll, format = 'CSV', structure = 'a UInt8')", "url('http://h/x', format = 'Parquet')",
               "file('*.csv', 'CSVWithNames', 'a UInt8, b Nullable(String), c Tuple(x UInt8, y String)')",
               "format(JSONEachRow, '{\"a\": 1}')", "format('CSV', '1,2')", "format(JSONEachRow, $${\"a\": [1, 2]}$$)",
               "view(SELECT a, b FROM t WHERE a > 1)", "view(WITH 1 AS x SELECT x)", "view(SELECT 1 UNION ALL SELECT 2)",
               "cluster('c', view(SELECT 1))", "clusterAllReplicas('c', system.one)", "clusterAllReplicas(default, system, one)",
               "remoteSecure('h{1,2}:9440', db.t, 'u', 'p')", "remote('h', numbers(3))", "input('a UInt8, b String')",
               "generateSeries(1, 10, 2)", "null('x UInt8')", "dictionary('db.d')", "dictionary(d)", "loop(t)", "loop(db, t)",
               "mergeTreeIndex(db, t, with_marks = true)", "merge(REGEXP('^db'), '^t')", "merge('^t')", "numbers_mt(10)",
               "zeros_mt(5)", "fuzzJSON('{}', 1)", "executable('s.py', TabSeparated, 'a UInt8', (SELECT 1))",
               "hdfs('hdfs://h/f', 'TSV', 'a UInt8')", "sqlite('f.db', 't')", "odbc('DSN=x', 'd', 't')", "jdbc('u', 's', 't')",
               "azureBlobStorage('c', 'cont', 'blob', 'acc', 'key', 'CSV')", "deltaLake('http://b/k')", "iceberg('http://b/k', 'a', 's')",
               "s3Cluster('c', 'http://b/k', 'CSV')", "urlCluster('c', 'http://h/x', CSV)", "timeSeriesData(db.ts)",
               "values('a UInt8, b String', (1, 'a'), (2, 'b'))", "values((1, 'a'), (2, 'b'))", "values(1, 2, 3)",
               "numbers(toUInt64(1 + 1))", "numbers({n:UInt64})", "generateRandom('a Array(Int8), b Tuple(UInt8, String)')",
               "arrayJoin([1, 2])", "system.numbers", "`my table`", "db.`my table`", "`my db`.t", "\"quoted\".\"t\"",
               "file('a.csv', 'CSV', 'x UInt8', SETTINGS format_csv_delimiter = ';')", "url('http://h/x', CSV, headers('a' = 'b'))"]
KQL = ["kql('Customers | project FirstName, LastName')", "kql('T | project a | filter a == 1')",
       "kql('Customers | project FirstName | filter LastName == \\'Diaz\\'')", "kql($$Customers|project FirstName$$)",
       "kql($$Customers | project Name | filter Name == 'two words'$$)", "kql($$T | filter City != \"New York\" | project City$$)",
       "kql('T')", "kql('T | project a, b, c | filter b >= 10')", "kql('T | filter a < b')", "kql($$ T | PROJECT a | FILTER a > 1 $$)",
       "kql('T | project x | filter x <= \\'it\\\\\\'s\\'')", "kql($$T | filter Name == 'a | b' | project Name$$)",
       "kql('T | take 10')", "kql('T | project a | sort by a')", "kql($$T | project `a b`, c$$)", "kql('my table | project  a ,  b ')",
       "kql('T | filter a == \"x y\"')", "kql('')", "kql('T | filter x')", "kql('T | project a', 1)",
       "kql(concat('T', ' | project a'))"]
SAMPLES = ["0.1", "1/10", "1000", "1/10 OFFSET 1/2", "0.5 OFFSET 0.25",
           "0.0000000000000000001", "0.0000000000000000000000001", "0.1234567890123456789", "0.12345678901234567890123", "1e-3", "1E-3",
           "2e-2", "1e-30", "1.5e-3", "25e-2", "0.10", "0.05", "0.50", ".5", "1 / 3", "3/4", "10000000", "0.1 OFFSET 1/2", "1/2 OFFSET 0.1",
           "0.999999999999999999999", "1e0", "1e3", "100 OFFSET 10", "0.33", "0.3333333", "0.1234567", "0.000001", "0.0000001", "1 OFFSET 0",
           "0.0", "0", "1", "1.0", "1e-1 OFFSET 1e-2", "18446744073709551615", "1/18446744073709551615", "0.5e0", "0.25 OFFSET 0.75",
           "1 / 2 OFFSET 1 / 4", "0.7", "0.125", "0.0625", "0.2 OFFSET .1", "1/1000000", "5e-1", "0.5E-1", "9223372036854775808",
           "0.9223372036854775808", "0.09223372036854775807", "1e-18", "1e-19", "1e-20 OFFSET 1e-19", "0.3 OFFSET 1e-3"]


def table_expr(r, d, first=True):
    x = r.below(22)
    fn = False
    if x < 8:
        s = r.pick(TABLES)
    elif x < 11 and d < 4:
        s = "(" + select_with_union(r, d + 1, simple=True) + ")"
    elif x == 11 or x == 12:
        s = r.pick(TABLE_FUNCS)
        fn = True
    elif x == 13:
        s = "system.one"
    elif x == 14:
        s = r.pick(KQL)
        fn = True
    elif x == 15 and d < 4:
        s = r.pick(["(FROM " + r.pick(TABLES) + " SELECT " + col(r) + ")", "((SELECT 1) UNION ALL SELECT 2)", "((SELECT 1))",
                    "(SELECT 1 UNION ALL (SELECT 2 UNION ALL SELECT 3))", "(WITH 1 AS x SELECT x)",
                    "(SELECT 1 INTERSECT SELECT 1)", "(SELECT * FROM (SELECT * FROM (SELECT 1)))"])
    else:
        s = r.pick(TABLES)
    bare = True
    if r.p(1, 4):
        a = r.pick(["u", "v", "tt", "s1", "s2", "`a b`", "key", "\"q\"", "first"])
        s += (r.pick([" AS ", " as "]) if a in ("key", "first") else r.pick([" AS ", " ", " as "])) + a
        bare = False
    if first and x < 8 and r.p(1, 8):
        s += " FINAL"
        bare = False
    if first and x < 8 and r.p(1, 6):
        s += " SAMPLE " + r.pick(SAMPLES)
        bare = False
    STATE["bare"] = bare
    return s


JOINS = ["JOIN", "INNER JOIN", "LEFT JOIN", "RIGHT JOIN", "FULL JOIN", "LEFT OUTER JOIN", "FULL OUTER JOIN",
         "CROSS JOIN", "ANY LEFT JOIN", "ALL INNER JOIN", "ASOF LEFT JOIN", "SEMI LEFT JOIN", "ANTI LEFT JOIN",
         "GLOBAL LEFT JOIN", "LEFT ANY JOIN", "LEFT SEMI JOIN", "LEFT ANTI JOIN", "ASOF JOIN", "INNER ANY JOIN",
         "RIGHT SEMI JOIN", "GLOBAL ANY INNER JOIN", "PASTE JOIN",
         "RIGHT OUTER JOIN", "INNER ALL JOIN", "LEFT ASOF JOIN", "GLOBAL RIGHT JOIN", "RIGHT ANTI JOIN", "ALL LEFT JOIN",
         "ALL FULL OUTER JOIN", "GLOBAL ALL LEFT OUTER JOIN", "ANY RIGHT JOIN", "SEMI RIGHT JOIN", "ANTI RIGHT JOIN", "ASOF INNER JOIN",
         "GLOBAL ASOF LEFT JOIN", "GLOBAL CROSS JOIN", "LEFT ALL JOIN", "RIGHT ALL JOIN", "FULL ALL JOIN", "RIGHT ANY JOIN",
         "GLOBAL INNER JOIN", "GLOBAL FULL JOIN", "ANY JOIN", "ALL JOIN", "GLOBAL JOIN", "inner join", "left outer join", "Global Any Left Join"]


def from_clause(r, d):
    s = "FROM " + table_expr(r, d)
    n = r.pick([0, 0, 0, 1, 1, 2, 3])
    aj = False
    for _ in range(n):
        x = r.below(8)
        if x == 0 and not aj:
            s += ", " + table_expr(r, d, first=False)
            continue
        if x == 0:
            x = 2
        if x == 1:
            s += r.pick([" ARRAY JOIN ", " LEFT ARRAY JOIN ", " array join "]) + ", ".join(
                r.pick(["arr", "arr AS e", "[1, 2] AS q", "arrayEnumerate(arr) AS i", "m.keys AS k", "nested.x", "nested.x AS nx, nested.y AS ny",
                        "arrayMap(x -> x + 1, arr) AS inc", "t.arr", "splitByChar(',', name) AS part", "range(3) r", "[[1, 2], [3]] AS aa", "mapKeys(m) AS mk"])
                for _ in range(1 + r.below(2)))
            STATE["bare"] = False
            aj = True
            continue
        aj = False
        j = r.pick(JOINS)
        s += " " + j + " " + table_expr(r, d, first=False)
        if "CROSS" in j.upper() or "PASTE" in j.upper():
            continue
        y = r.below(9)
        if y < 5:
            s += " ON " + r.pick(["t.a = t2.a", "t1.id = t2.id AND t1.x > 0", "a = b", "t.ts >= t2.ts", "(t.a, t.b) = (t2.a, t2.b)",
                                  "t.a = t2.a OR t.b = t2.b", "toDate(t.ts) = t2.d AND t.id IN (1, 2)", "t.a <=> t2.a", "1", "t.a = t2.a AND t.ts BETWEEN t2.s AND t2.e",
                                  "t.id = t2.id AND t2.val IS NOT NULL", "lower(t.name) = t2.name", "t.a::String = t2.a"])
        elif y < 8:
            u = r.pick(["(a)", "(a, b)", "a", "id, ts", "(id)", "(`a b`)", "(a, b, c)", "(key)"])
            s += " USING " + u
            aj = u[0] != "("          # (a comma after an unparenthesised USING list continues that list)
        else:
            s += " USING " + r.pick(["()", "(a)", "(*)"])
        STATE["bare"] = False
    return s


def with_clause(r, d, top=False):
    items = []
    for _ in range(1 + r.below(3)):
        x = r.below(12)
        if x == 0 and d < 4:
            items.append(r.pick(["cte", "q1", "sub", "`my cte`", "table", "key"]) + " AS (" + select_with_union(r, d + 1, simple=True) + ")")
        elif x == 1 and d < 4:
            items.append("(" + select_core(r, d + 1, simple=True) + ") AS " + r.pick(["s", "mx"]))
        elif x == 2:
            items.append(literal(r) + " AS " + r.pick(["c1", "c2", "w"]))
        elif x == 3:
            items.append(r.pick(["number AS k", "a AS b", "x AS `y z`", "ts AS key"]))                    # identifier AS identifier
        elif x == 4:
            items.append(r.pick(["x -> x + 1 AS f", "(x, y) -> x + y AS add", "x -> toString(x) AS lambda_1", "() -> 1 AS one",
                                 "x -> (x, x) AS dup", "(x) -> x AS ident"]))
        elif x == 5 and top:
            items.append(r.pick(["1", "'a'", "now()", "[1, 2]", "(1, 2)", "a + 1", "-1", "[1, x]", "(1, x)", "()", "a", "a || b", "-x", "NOT a",
                                 "a ? 1 : 2", "(SELECT 1)", "a AND b", "a OR b OR c", "[[1, 2], [x]]", "-1.5", "f(x)", "x -> x + 1", "a BETWEEN 1 AND 2",
                                 "a LIKE 'x'", "arr[1]", "x::UInt8", "CAST(x AS UInt8)", "INTERVAL 1 DAY", "NULL", "t.a"]))    # the alias is optional
        elif x == 6:
            items.append(r.pick(["-1", "-1.5", "-x", "NOT a", "- 18446744073709551615", "-inf", "-(1)"]) + " AS " + r.pick(["n1", "n2"]))
        elif x == 7:
            items.append(r.pick([array_lit(r), tuple_lit(r, 1)]) + " AS " + r.pick(["lit1", "lit2"]))
        else:
            items.append(expr(r, d + 2, False) + " AS " + r.pick(["w1", "w2", "e"]))
    return "WITH " + ("RECURSIVE " if top and r.p(1, 12) and items[0][0] not in "[(" else "") + ", ".join(items)


def order_elem(r, d):
    s = expr(r, d + 2, False) if r.p(1, 3) else col(r)
    s += r.pick(["", "", " ASC", " DESC", " asc", " desc"])
    if r.p(1, 8):
        s += r.pick([" NULLS FIRST", " NULLS LAST", " nulls first"])
    if r.p(1, 10):
        s += " COLLATE " + r.pick(["'en'", "'en'", "'tr'", "'x\\ny'", "'de_DE'", "'it\\'s'", "en", "'ru-RU-u-kn'", "'back\\\\slash'"])
    return s


def fill_spec(r):
    f = " WITH FILL"
    if r.p(1, 2):
        f += " FROM " + r.pick(["1", "toDate('2020-01-01')", "0", "-10", "toDateTime64('2020-01-01 00:00:00', 3)", "x", "1.5"])
    if r.p(1, 2):
        f += " TO " + r.pick(["10", "100", "toDate('2021-01-01')", "-1", "now()", "y + 1"])
    if r.p(1, 2):
        f += " STEP " + r.pick(["1", "2", "INTERVAL 1 DAY", "-1", "0.5", "INTERVAL 2 WEEK", "toIntervalHour(1)", "INTERVAL -1 MONTH"])
    if r.p(1, 6):
        f += " STALENESS " + r.pick(["3", "INTERVAL 2 HOUR", "-2", "INTERVAL 1 DAY"])
    return f


def order_by(r, d):
    elems = [order_elem(r, d) for _ in range(1 + r.below(3))]
    fill = r.p(1, 4)
    if fill:
        elems[-1] += fill_spec(r)
        if len(elems) > 1 and r.p(1, 4):
            elems[0] += fill_spec(r)
    s = "ORDER BY " + ", ".join(elems)
    if r.p(1, 40):
        s = "ORDER BY ALL" + r.pick(["", " DESC", " ASC NULLS FIRST"])
        fill = False
    if fill and r.p(2, 3):
        s += " " + r.pick(["INTERPOLATE", "INTERPOLATE ()", "INTERPOLATE (a)", "INTERPOLATE (a AS a + 1)",
                           "INTERPOLATE (a, b AS b * 2)", "INTERPOLATE (x AS x + 1, y)", "INTERPOLATE ( )", "interpolate",
                           "INTERPOLATE (key AS key + 1)", "INTERPOLATE (a AS NULL, b AS 'x', c AS [1, -2])", "INTERPOLATE (`a b` AS `a b` || 'x')",
                           "INTERPOLATE (a AS a + 1, b AS b + 1, c, d AS (SELECT 1))", "INTERPOLATE (x AS if(x > 0, x, 0))"])
    return s


def group_by(r, d):
    x = r.below(18)
    if x == 0:
        return "GROUP BY ALL" + r.pick(["", " WITH TOTALS", " WITH ROLLUP"])
    if x == 1:
        return "GROUP BY GROUPING SETS (" + ", ".join(
            r.pick(["(a)", "(a, b)", "()", "a", "((a, b))", "(a, b, c)", "(toDate(ts))", "(a + 1, b)", "(key)", "((a), (b))", "(a, (b, c))", "a + b", "(())", "((a))", "((a, b), c)"])
            for _ in range(1 + r.below(4))) + ")" + r.pick(["", "", " WITH TOTALS"])
    if x == 2:
        return "GROUP BY " + r.pick(["ROLLUP", "CUBE", "rollup", "Cube"]) + "(" + ", ".join(col(r) for _ in range(1 + r.below(3))) + ")" \
            + r.pick(["", "", " WITH TOTALS"])
    s = "GROUP BY " + ", ".join(expr(r, d + 2, False) if r.p(1, 3) else col(r) for _ in range(1 + r.below(3)))
    if x == 3:
        s += " WITH ROLLUP"
    elif x == 4:
        s += " WITH CUBE"
    elif x == 7:
        s += r.pick([" WITH ROLLUP WITH TOTALS", " WITH CUBE WITH TOTALS", " with totals"])
    elif x == 8:
        s = "GROUP BY " + r.pick(["1", "1, 2", "()", "(a, b)", "((a, b), c)", "tuple()", "a, (b)", "[a, b]", "NULL", "'x'"])
    if x in (5, 6):
        s += " WITH TOTALS"
    return s


def lcol(r):
    c = col(r)
    return "ts" if c.lower().startswith("format") else c


def limit_clause(r):
    x = r.below(32)
    col = lcol
    n = lambda: r.pick(["1", "2", "10", "100", "{lim:UInt64}", "1 + 1", "toUInt8(5)", "0", "-1", "0.5", "(SELECT 10)", "18446744073709551615"])
    forms = [
        lambda: "LIMIT " + n(),
        lambda: "LIMIT " + n() + ", " + n(),
        lambda: "LIMIT " + n() + " OFFSET " + n(),
        lambda: "LIMIT " + n() + " BY " + col(r),
        lambda: "LIMIT " + n() + ", " + n() + " BY " + col(r) + ", " + col(r),
        lambda: "LIMIT " + n() + " BY " + col(r) + " LIMIT " + n(),
        lambda: "LIMIT " + n() + " BY " + col(r) + " LIMIT " + n() + ", " + n(),
        lambda: "LIMIT " + n() + " BY " + col(r) + " LIMIT " + n() + " OFFSET " + n(),
        lambda: "LIMIT " + n() + " OFFSET " + n() + " BY " + col(r),
        lambda: "OFFSET " + n(),
        lambda: "OFFSET " + n() + r.pick([" ROW", " ROWS"]),
        lambda: "OFFSET " + n() + " ROWS FETCH " + r.pick(["FIRST", "NEXT"]) + " " + n() + " ROWS ONLY",
        lambda: "LIMIT " + n() + " WITH TIES",
        lambda: "LIMIT " + n() + " BY " + col(r) + " OFFSET " + n(),
        lambda: "OFFSET " + n() + " ROWS FETCH FIRST " + n() + " ROW ONLY",
        lambda: "LIMIT " + n() + ", " + n() + " BY " + col(r) + " LIMIT " + n(),
        lambda: "LIMIT " + n() + " BY (" + expr(r, 3, False) + ")",
        lambda: "LIMIT " + n() + " BY " + col(r) + ", " + col(r) + ", " + col(r),
        lambda: "LIMIT " + n(),
        lambda: "LIMIT " + n() + " BY " + col(r) + ", " + col(r) + " LIMIT " + n() + " OFFSET " + n(),
        # --- further spellings
        lambda: "LIMIT " + n() + ", " + n() + " WITH TIES",
        lambda: "LIMIT " + n() + " OFFSET " + n() + r.pick([" ROW", " ROWS"]),
        lambda: "FETCH FIRST " + n() + " ROWS ONLY",
        lambda: "FETCH NEXT " + n() + " ROW ONLY",
        lambda: "OFFSET " + n() + " ROWS FETCH NEXT " + n() + " ROWS WITH TIES",
        lambda: "FETCH FIRST " + n() + " ROWS WITH TIES",
        lambda: "LIMIT " + n() + " BY " + col(r) + " LIMIT " + n() + " WITH TIES",
        lambda: "LIMIT " + n() + " OFFSET " + n() + " BY " + col(r) + ", " + col(r),
        lambda: "limit " + n() + " by " + col(r) + " limit " + n() + " offset " + n(),
        lambda: "LIMIT " + n() + " BY (" + col(r) + ", " + col(r) + ")",
        lambda: "LIMIT " + n() + " BY toDate(ts), " + col(r),
        lambda: "LIMIT " + n() + " BY " + col(r) + " OFFSET " + n() + r.pick([" ROW", " ROWS"]),
    ]
    return forms[x]()


def setting_value(r):
    return r.pick(["1", "0", "100", "'x'", "1.5", "true", "false", "-1", "'a\\'b'", "NULL", "[1, 2]", "(1, 'a')", "'{}'",
                   "18446744073709551615", "1e3", "'tab\\t'", "inf", "'default'", "{p:UInt64}", "1 + 1", "toUInt8(1)"])


def settings_clause(r):
    return "SETTINGS " + ", ".join(r.pick(SETTINGS) + " = " + setting_value(r) for _ in range(1 + r.below(2)))


def select_tail(r, outfile=True, s_then_f=True, fmt_ok=True):
    """statement-level tail after a select / union: a mix of SETTINGS, INTO OUTFILE, FORMAT, SETTINGS.
    The flags switch off the forms the parser does not take after a parenthesised last member /
    after an INTERSECT-EXCEPT chain."""
    f = lambda: r.pick(["FORMAT ", "FORMAT ", "format "]) + r.pick(FORMATS)
    o = lambda: "INTO OUTFILE " + r.pick(["'f.csv'", "'out.tsv'", "'o.gz'", "'dir/f.csv'", "'a\\tb.tsv'", "'two\\nlines'", "'it\\'s.csv'",
                                          "'back\\\\slash'", "''", "'ü.csv'", "$$heredoc.csv$$"]) + r.pick(["", "", " TRUNCATE"])
    s = lambda: settings_clause(r)
    forms = [(lambda: "", True)] * 6 + [
        (f, fmt_ok), (s, True), (o, outfile),
        (lambda: s() + " " + f(), s_then_f and fmt_ok),
        (lambda: f() + " " + s(), fmt_ok),
        (lambda: o() + " " + f(), outfile and fmt_ok),
        (lambda: s() + " " + f() + " " + s(), s_then_f and fmt_ok),
        (lambda: o() + " " + f() + " " + s(), outfile and fmt_ok),
        (lambda: s() + " " + o() + " " + f(), outfile and s_then_f and fmt_ok),
        (f, fmt_ok)]
    g, ok = forms[r.below(len(forms))]
    return g() if ok else ""


WINDOWS = ["PARTITION BY a", "ORDER BY ts", "PARTITION BY a ORDER BY b DESC", "ORDER BY x ROWS BETWEEN 1 PRECEDING AND CURRENT ROW", "",
           "PARTITION BY a, b ORDER BY c ASC NULLS LAST, d DESC", "ORDER BY x RANGE BETWEEN 1 PRECEDING AND 1 FOLLOWING", "ROWS UNBOUNDED PRECEDING",
           "PARTITION BY toDate(ts) ORDER BY ts GROUPS BETWEEN UNBOUNDED PRECEDING AND CURRENT ROW", "ORDER BY x ROWS 10 PRECEDING",
           "PARTITION BY a ORDER BY b ROWS BETWEEN x + 1 PRECEDING AND 2 * y FOLLOWING", "ORDER BY ts RANGE BETWEEN INTERVAL 1 HOUR PRECEDING AND CURRENT ROW"]


def select_core(r, d=0, simple=False, force_from=False):
    """SELECT ... without a statement-level tail"""
    p = []
    rich = not simple or r.p(1, 3)
    if rich and r.p(1, 4):
        p.append(with_clause(r, d, top=(d == 0)))
    s = "SELECT"
    x = r.below(12)
    items = [select_item(r, d + 1) for _ in range(1 + (r.below(4) if rich else r.below(2)))]
    if x == 0:
        s += " DISTINCT"
    elif x == 1 and rich and items[0][0] not in "[(":
        # (`DISTINCT ON (a) [1]::T`: the re-layout harness of C05 reads `(a) [1]` as an element access and does not freeze the literal)
        s += " DISTINCT ON (" + ", ".join(col(r) for _ in range(1 + r.below(2))) + ")"
    elif x == 2:
        s += " ALL"
    if rich and r.p(1, 14) and items[0][0] not in "[.(":
        # (TOP n is followed by an expression: `TOP 3 [1]` would be an element access)
        s += " TOP " + r.pick(["3", "10", "5 WITH TIES", "1", "100 WITH TIES", "{n:UInt64}", "(1 + 1)"])
    p.append(s)
    has_from = force_from or r.p(4, 5)
    lst = ", ".join(items)
    p.append(lst)
    from_idx = -1
    from_bare = False
    if has_from:
        p.append(from_clause(r, d + 1) if rich else "FROM " + table_expr(r, d + 1))
        if r.p(1, 30) and not lst.rstrip().endswith(("*", ")")) and (not p[-1].startswith("FROM (") or p[-1].startswith(("FROM (SELECT", "FROM (WITH"))):
            p[-2] += ","                             # trailing comma of the select list
        from_idx = len(p)
        from_bare = STATE["bare"]
        if rich and r.p(1, 8):
            p.append("PREWHERE " + expr(r, d + 2, False))
    elif rich and r.p(1, 10):
        p.append(r.pick(["ARRAY JOIN [1, 2] AS e", "LEFT ARRAY JOIN [1, 2] AS e, ['a'] AS f", "ARRAY JOIN arr"]))
    if r.p(1, 3):
        p.append(r.pick(["WHERE ", "WHERE ", "where "]) + expr(r, d + 1))
    if not rich:
        if r.p(1, 5):
            p.append("GROUP BY " + col(r))
        if r.p(1, 5):
            p.append("ORDER BY " + col(r))
        if r.p(1, 5):
            p.append("LIMIT " + str(1 + r.below(9)))
        STATE["bare"] = from_bare and from_idx == len(p)
        return " ".join(p)
    if r.p(1, 3):
        p.append(group_by(r, d))
        if r.p(1, 3):
            p.append("HAVING " + expr(r, d + 2, False))
    elif has_from and r.p(1, 40) and not from_bare:
        # WITH TOTALS without GROUP BY (then only HAVING / SETTINGS can follow)
        p.append("WITH TOTALS" + (" HAVING " + expr(r, d + 2, False) if r.p(1, 2) else ""))
        STATE["bare"] = False
        return " ".join(x for x in p if x)
    has_window = r.p(1, 10)
    has_qualify = r.p(1, 12)
    if has_qualify and not has_window:
        p.append("QUALIFY " + expr(r, d + 2, False))
    if has_window:
        w = "WINDOW w AS (" + r.pick(WINDOWS) + ")"
        y = r.below(6)
        if y == 0:
            w += ", w2 AS (PARTITION BY b)"
        elif y == 1:
            w += ", w2 AS (w ORDER BY x)"                       # a window that refers to another one
        elif y == 2:
            w += ", w2 AS (w), w3 AS (w2 ROWS UNBOUNDED PRECEDING)"
        else:
            w += ", w2 AS (" + r.pick(WINDOWS) + ")"
        p.append(w)
    if has_window and has_qualify:
        # ClickHouse's order is WINDOW, QUALIFY, ORDER BY; the parser takes a QUALIFY that follows
        # WINDOW only at the very end of the SELECT
        p.append("QUALIFY " + expr(r, d + 2, False))
    else:
        if r.p(1, 3):
            p.append(order_by(r, d))
        if r.p(2, 5):
            lc = limit_clause(r)
            if lc.upper().startswith("FETCH") and from_bare and from_idx == len(p):
                lc = "OFFSET 1 ROWS " + lc           # (directly after a table name FETCH would be taken for its alias)
            if lc.upper().startswith("OFFSET") and from_idx == len(p) and " SAMPLE " in p[-1]:
                lc = ""                              # (SAMPLE r OFFSET n: the OFFSET would belong to SAMPLE)
            p.append(lc)
    STATE["bare"] = from_bare and from_idx == len(p)
    return " ".join(x for x in p if x)


def member(r, d, simple=False):
    s = select_core(r, d, simple)
    if r.p(1, 4):
        return "(" + s + ")"
    return s


def select_with_union(r, d=0, simple=False):
    s = select_core(r, d, simple)
    n = r.pick([0, 0, 0, 1, 1, 2])
    for _ in range(n):
        s += " " + r.pick(["UNION ALL", "UNION ALL", "UNION DISTINCT", "UNION", "union all"]) + " " + member(r, d, True)
    return s


def deep_case(r):
    """nesting up to 300 levels, never more"""
    x = r.below(12)
    if x == 0:
        n = 100 + r.below(200)      # nested function calls: 130+ for most
        f = r.pick(["abs", "toString", "negate", "identity"])
        return "SELECT " + (f + "(") * n + "1" + ")" * n
    if x == 1:
        n = 20 + r.below(60)        # nested FROM subqueries
        return "SELECT * FROM (" * n + "SELECT 1" + ")" * n
    if x == 2:
        n = 50 + r.below(250)       # deep parenthesised arithmetic
        return "SELECT " + "(" * n + "1" + " + 1)" * n
    if x == 3:
        n = 50 + r.below(150)
        return "SELECT " + "[" * n + "x" + "]" * n
    if x == 4:
        n = 20 + r.below(80)
        return "SELECT " + "CASE WHEN a THEN " * n + "1" + " ELSE 0 END" * n
    if x == 5:
        n = 20 + r.below(100)
        return "SELECT " + "if(a, " * n + "1" + ", 0)" * n
    if x == 6:
        n = 10 + r.below(60)
        return "SELECT a FROM t WHERE a IN (" + "SELECT a FROM t WHERE a IN (" * n + "SELECT 1" + ")" * n + ")"
    if x == 7:
        n = 30 + r.below(200)
        return "SELECT " + "-(" * n + "x" + ")" * n + ", " + "NOT (" * 40 + "a" + ")" * 40
    if x == 8:
        n = 20 + r.below(150)       # nested literal arrays / tuples (literal formatters recurse)
        return "SELECT " + "[" * n + r.pick(["1", "-1", "NULL", "'a'", "-NULL", ""]) + "]" * n + ", " + "(1, " * (n // 2) + "2" + ")" * (n // 2)
    if x == 9:
        n = 20 + r.below(100)       # nested types
        return "SELECT CAST(x AS " + "Array(" * n + "UInt8" + ")" * n + "), x::" + "Nullable(" * (n // 2) + "Tuple(a UInt8)" + ")" * (n // 2)
    if x == 10:
        n = 20 + r.below(100)       # nested lambdas and casts
        return "SELECT " + "arrayMap(x -> " * n + "x" + ", arr)" * n + ", " + "x" + "::String" * n
    n = 20 + r.below(100)
    return "WITH " + "(SELECT " * n + "1" + ")" * n + " AS s SELECT s"


def top_level_spaces(s):
    """indexes of the spaces of s that lie outside string literals, quoted identifiers, heredocs and {parameters}"""
    out = []
    i, n = 0, len(s)
    while i < n:
        c = s[i]
        if c in "'\"`":
            i += 1
            while i < n:
                if s[i] == "\\":
                    i += 2
                    continue
                if s[i] == c:
                    if i + 1 < n and s[i + 1] == c:
                        i += 2
                        continue
                    break
                i += 1
        elif c == "$":
            j = s.find("$", i + 1)
            if j < 0:
                return []
            tag = s[i:j + 1]
            k = s.find(tag, j + 1)
            if k < 0:
                return []
            i = k + len(tag) - 1
        elif c in "‘“":
            j = s.find("’" if c == "‘" else "”", i + 1)
            if j < 0:
                return []
            i = j
        elif c == "{":
            j = s.find("}", i + 1)
            if j < 0:
                return []
            i = j
        elif c == "/" and s[i + 1:i + 2] == "*":
            # a block comment (they nest)
            depth, i = 1, i + 2
            while i < n and depth:
                if s[i:i + 2] == "/*":
                    depth, i = depth + 1, i + 2
                elif s[i:i + 2] == "*/":
                    depth, i = depth - 1, i + 2
                else:
                    i += 1
            continue
        elif c == " ":
            out.append(i)
        i += 1
    return out


COMMENTS = ["/* c */", "/**/", "/* a /* nested */ b */", "/* -- */", "/* ' */", "/*+ hint */", "/* \" ` */", "/* ; */", "/*\\*/", "/* üñí */",
            # look-alikes of the closing mark: `/*/` opens a level (it never closes one), also at nesting depth 2
            "/* a /* tmp/*/2024 */ b */ c */", "/* /* x/*/y */ */ */", "/*/ x */", "/***/", "/* ** // */", "/*/**/*/", "/* a /* b; */ c; */",
            "/* *\\/ still inside */", "/* /* /*/ 3 */ 2 */ 1 */"]


def decorate(r, s):
    """layout that never changes the meaning: block comments between tokens, a trailing comment or semicolon"""
    x = r.below(8)
    if x < 4:
        sp = top_level_spaces(s)
        if not sp or " FORMAT " in s.upper():
            return s
        for i in sorted(set(r.pick(sp) for _ in range(1 + r.below(2))), reverse=True):
            s = s[:i] + " " + r.pick(COMMENTS) + " " + s[i + 1:]
        return s
    if " FORMAT " in s.upper():
        return s
    if x == 4:
        return s + r.pick([" -- trailing comment", " --", " # hash comment", " -- it's", " /* end */", " #", " --;"])
    if x == 5:
        if s[:5].upper() == "SHOW ":
            return s            # (checks/c04.py recognises the known SHOW finding by the first word of the statement)
        return r.pick(["/* lead */ ", "/**/", "; ", ";; ", ";"]) + s
    if x == 6:
        # the zero-width characters ClickHouse's lexer skips like white space, a TAB, several blanks
        sp = top_level_spaces(s)
        if not sp:
            return s
        i = r.pick(sp)
        return s[:i] + r.pick(["\u200b", "\ufeff", "\u2060", "\u180e", "\u200c", "\u200d", " \u200b ", "   ", " " + RAW_TAB + " "]) + s[i + 1:]
    return s + r.pick([";", " ;", ";;", "; -- done"])


def gen_select(r):
    if r.p(1, 12):
        return deep_case(r)
    if r.p(1, 60):
        return r.pick(["SELECT interval, columns, array FROM t WHERE interval = 1 AND columns != array",
                       "SELECT (explain LIKE '%a%') AS m, explain FROM (EXPLAIN SELECT 1)", "SELECT (EXPLAIN header = 1 SELECT 1)",
                       "SELECT (EXPLAIN AST SELECT 1) AS e", "SELECT (explain) FROM (EXPLAIN SYNTAX SELECT 1)", "SELECT exists, exists + 1 FROM t",
                       "SELECT 1 UNION ALL FROM t SELECT a", "SELECT a FROM t UNION ALL FROM t2 SELECT DISTINCT b WHERE b > 0",
                       "WITH 1 AS n FROM t SELECT n, a", "WITH x -> x + 1 AS f FROM numbers(3) SELECT f(number)",
                       "SELECT * FROM (WITH 1 AS n FROM t SELECT n)", "SELECT interval AS i, columns AS c FROM t ORDER BY interval, columns",
                       "SELECT array[1], array.1 FROM t", "SELECT t.interval, t.columns, t.array, t.exists FROM t",
                       "SELECT 1 AS interval, 2 AS columns, 3 AS array, 4 AS format, 5 AS exists", "SELECT a, FROM (SELECT 1 AS a)", "SELECT a, b, FROM (WITH 1 AS a SELECT a, 2 AS b)",
                       "SELECT COLUMNS('a') REPLACE a + 1 AS a FROM t", "SELECT b, COLUMNS(a, b) REPLACE toString(b) AS b APPLY sum FROM t", "SELECT t.COLUMNS(a) REPLACE a * 2 AS a",
                       "SELECT x IN ('a', 'b', 'c', 'd', 'e', 'f', 'g', 'h', 'i', 'j', 'k', 'l') AS many, y NOT IN ('1', '2', '3', '4', '5', '6', '7', '8', '9', '10', '11') m FROM t",
                       "SELECT x IN ('a', 'b', NULL, 'd', 'e', 'f', 'g', 'h', 'i', 'j', 'k') AS with_null FROM t"])
    if r.p(1, 40):
        # FROM-first spelling
        s = (with_clause(r, 2) + " " if r.p(1, 5) else "") + "FROM " + table_expr(r, 1) + " SELECT "
        q = r.pick(["", "", "DISTINCT ", "DISTINCT ON (a, b) "])
        lst = ", ".join(select_item(r, 2) for _ in range(1 + r.below(3)))
        s += ("DISTINCT " if q.startswith("DISTINCT ON") and lst[0] in "[(" else q) + lst     # (see select_core: DISTINCT ON (a) [1]::T)
        if r.p(1, 2):
            s += " WHERE " + expr(r, 2, False)
        if r.p(1, 2):
            s += " GROUP BY " + ", ".join(col(r) for _ in range(1 + r.below(2)))
            if r.p(1, 2):
                s += " HAVING " + expr(r, 3, False)
        if r.p(1, 2):
            s += " ORDER BY " + order_elem(r, 2)
        if r.p(1, 2):
            s += " LIMIT " + r.pick(["1", "10", "{lim:UInt64}"])
        if r.p(1, 3):
            s += " " + settings_clause(r)
        return s
    s = select_core(r, 0)
    t = select_tail(r, outfile=not STATE["bare"])
    s = s + (" " + t if t else "")
    if r.p(1, 40) and not t.strip().upper().startswith(("FORMAT", "INTO", "SETTINGS")) and " FORMAT " not in t.upper():
        s = "(" + s + ")"            # the whole statement in parentheses
    return s


def gen_setop(r):
    x = r.below(10)
    if x < 5:
        ops = ["UNION ALL", "UNION ALL", "UNION DISTINCT", "UNION"]
    elif x < 7:
        ops = ["INTERSECT", "EXCEPT", "INTERSECT DISTINCT", "EXCEPT DISTINCT", "INTERSECT ALL", "EXCEPT ALL", "intersect", "except all"]
    else:
        ops = ["UNION ALL", "UNION DISTINCT", "UNION", "INTERSECT", "EXCEPT", "INTERSECT ALL", "EXCEPT DISTINCT"]
    maybe_setop = x >= 5
    # (a member ending in `*` / COLUMNS(..) directly before EXCEPT would read as a column transformer)
    first = select_core(r, 1, simple=not r.p(1, 3), force_from=maybe_setop)
    if r.p(1, 2) and not first.startswith("WITH"):
        first = with_clause(r, 2) + " " + first      # WITH on the first member: inherited-WITH printers
    if first.startswith("WITH") and x >= 7:
        # a statement that starts with WITH takes UNION before INTERSECT / EXCEPT only in parentheses
        ops = r.pick([["UNION ALL", "UNION DISTINCT", "UNION"], ["INTERSECT", "EXCEPT", "INTERSECT ALL", "EXCEPT DISTINCT"]])
    first_paren = (not maybe_setop or x < 7) and r.p(1, 6)
    if first_paren:
        first = "(" + first + ")"
    s = first
    n = 1 + r.below(4)
    setop = False
    last_paren = False
    bare = False
    for _ in range(n):
        m = select_core(r, 1, simple=not r.p(1, 4), force_from=maybe_setop)
        bare = STATE["bare"]
        y = r.below(6)
        last_paren = y < 2
        if y == 0:
            m = "(" + m + ")"
        elif y == 1:
            m = "(" + m + " " + r.pick(["UNION ALL", "UNION DISTINCT", "UNION", "UNION ALL"]) + " " + select_core(r, 2, True) \
                + (" " + r.pick(["UNION ALL", "UNION DISTINCT", "UNION"]) + " " + select_core(r, 2, True) if r.p(1, 3) else "") + ")"
        op = r.pick(ops)
        setop = setop or op[0] in "IEie"
        s += " " + op + " " + m
    if first.startswith("WITH") and setop and not last_paren and r.p(1, 3):
        # after an INTERSECT / EXCEPT chain of a statement that starts with WITH: UNION members
        for _ in range(1 + r.below(2)):
            m = select_core(r, 1, simple=True, force_from=True)
            bare = STATE["bare"]
            last_paren = r.p(1, 4)
            s += " " + r.pick(["UNION ALL", "UNION DISTINCT", "UNION"]) + " " + ("(" + m + ")" if last_paren else m)
    if setop and last_paren:
        if first.startswith("WITH") and r.p(1, 2):
            # (a statement that starts with WITH takes SETTINGS at the level of the whole chain)
            # (only SETTINGS: the FORMAT name is taken there only when the first member is a plain SELECT)
            return s + " " + r.pick(["SETTINGS max_threads = 1", "SETTINGS a = 1, b = 'x'", "settings max_threads = 1"])
        return s                # (no tail is taken after a parenthesised last member of an INTERSECT / EXCEPT chain)
    t = select_tail(r, outfile=not last_paren and not bare, s_then_f=not setop,
                    fmt_ok=not (setop and last_paren))
    return s + (" " + t if t else "")


# ------------------------------------------------------------------------------------------
# INSERT

def values_rows(r):
    rows = []
    for _ in range(1 + r.below(3)):
        rows.append("(" + ", ".join(r.pick([literal(r), literal(r), expr(r, 3, False), "DEFAULT", "NULL", "now()", "-1", "[]", "(1, 'a')"])
                                    for _ in range(1 + r.below(4))) + ")")
    return r.pick([", ", ",", " , "]).join(rows)        # (ClickHouse also takes rows without commas; the parser does not)


def gen_insert(r):
    pre = ""
    if r.p(1, 3):
        pre = with_clause(r, 2) + " "            # WITH ... INSERT ... SELECT (inherited-WITH printers)
    x = r.below(10)
    if x == 0:
        tgt = r.pick(["FUNCTION ", "TABLE FUNCTION ", "function "]) + r.pick(
            ["file('a.csv', 'CSV', 'x UInt8')", "remote('h', db.t)", "s3('http://b/k', 'CSV')", "null('a UInt8')",
             "url('http://h/x', JSONEachRow, 'a UInt8')", "mysql('h:3306', 'd', 't', 'u', 'p')", "cluster('c', db.t)",
             "s3('http://b/{_partition_id}', 'CSV', 'a UInt8')", "file('out.parquet')", "remoteSecure('h', 'db', 't')",
             "azureBlobStorage('c', 'cont', 'blob', 'CSV')", "hdfs('hdfs://h/f', 'TSV', 'a UInt8')", "postgresql('h', 'd', 't', 'u', 'p')",
             "s3(named_coll, filename = 'f.csv')", "file('f', 'CSV', 'a UInt8', SETTINGS max_threads = 1)"])
        if r.p(1, 3):
            tgt += " PARTITION BY " + r.pick([col(r), "toYYYYMM(ts)", "(a, b)", "a % 10", "rand() % 4"])
    else:
        tgt = r.pick(["", "", "TABLE ", "table "]) + r.pick(["t", "db.t", "`my table`", "t2", "`my db`.`my table`", "\"t\"", "db.`t-1`",
                                                             "{db:Identifier}.t", "{CLICKHOUSE_DATABASE:Identifier}.{tbl:Identifier}", "system.t",
                                                             "`таблица`", "default.t"])
    cols = ""
    y = r.below(10)
    if " PARTITION BY " in tgt:
        y = 9           # (ClickHouse: PARTITION BY before the column list; the parser: after it — neither order serves both)
    if y < 3:
        cols = " (" + ", ".join(ident(r) for _ in range(1 + r.below(3))) + ")"
    elif y == 3:
        cols = r.pick([" (*)", " (* EXCEPT (a))", " (COLUMNS('a'))", " (* EXCEPT a)", " (* EXCEPT (a, b))", " (COLUMNS('^x') EXCEPT (y))",
                       " (t.*)", " (*, a)", " (* EXCEPT (a), b)", " (COLUMNS(a, b))", " (* REPLACE (a + 1 AS a))", " (* APPLY(toString))"])
    elif y == 4:
        cols = r.pick([" (n.a, n.b)", " (a, nested.x, nested.y)", " (`n.a`, b)", " (ip4Map.value, ip4Map.key)", " (a.b.c)", " (key, value)",
                       " (`a b`, \"c d\")", " ()", " (a,)"])
    s = pre + r.pick(["INSERT INTO ", "INSERT INTO ", "insert into "]) + tgt + cols
    if not pre and r.p(1, 10):
        s += " " + settings_clause(r)
    z = r.below(20)
    if z == 0 and not pre:
        return s + " FORMAT " + r.pick(FORMATS)
    if z == 1 and not pre:
        return s + " FROM INFILE " + r.pick(["'f.csv'", "'dir/*.csv.gz'", "'it\\'s.tsv'", "'{a,b}.csv'", "'tab\\t.csv'", "'back\\\\slash.csv'"] + unless("infile-newline", "'nl\\n.csv'")) \
            + r.pick(["", " COMPRESSION 'gzip'", " COMPRESSION 'zstd'", " COMPRESSION 'none'", " COMPRESSION 'it\\'s'"] + unless("infile-newline", " COMPRESSION 'a\\nb'")) + r.pick([" FORMAT CSV", " FORMAT TSV", ""])
    if z in (2, 3, 4) and not pre:
        # VALUES and inline data (raw text for the parser, never looked at)
        return s + r.pick([" VALUES ", " VALUES ", " values ", " VALUES"]) + (values_rows(r) if r.p(11, 12) else "")
    if z == 5 and not pre:
        return s + " FORMAT " + r.pick(["JSONEachRow {\"a\": 1, \"b\": \"x\"} {\"a\": 2}", "CSV 1,2,\"a b\"", "TSV 1 2", "Values (1, 'a'), (2, 'b')",
                                        "JSONEachRow {\"k\": [1, 2, {\"n\": null}]}", "CSV", "TabSeparated a b c", "JSONCompactEachRow [1, \"a\"]",
                                        "Values (1, 'it''s'), (2, 'q\\'q')", "LineAsString some free text, with 'quotes' and (parens", "RawBLOB xyz",
                                        "CustomSeparated 1|2", "Values", "JSONEachRow"])
    if z < 9:
        body = select_with_union(r, 1, simple=True)
    elif z < 11:
        body = gen_setop(Rng(r.next()))
        while body.startswith("("):
            body = gen_setop(Rng(r.next()))
        return s + " " + body
    else:
        body = select_core(r, 1, simple=not r.p(1, 3))
    t = select_tail(r, outfile=False)
    return s + " " + body + (" " + t if t else "")


# ------------------------------------------------------------------------------------------
# CREATE

def stat_kinds(r):
    """statistics kinds of ALTER ... ADD / MODIFY STATISTICS: plain and with arguments (ParserIdentifierWithOptionalParameters)"""
    return ", ".join(r.pick(["tdigest", "uniq", "minmax", "countmin", "tdigest(5)", "countmin(1, 2)", "uniq(a + 1)",
                             "tdigest('x', 2)", "TDigest", "count_min", "tdigest()"]) for _ in range(1 + r.below(3)))


CODECS = ["ZSTD(3)", "LZ4", "Delta", "DoubleDelta", "NONE", "LZ4HC(9)", "T64", "Gorilla", "Delta(4)", "ZSTD", "Default", "DEFAULT",
          "FPC(12)", "GCD", "AES_128_GCM_SIV", "DEFLATE_QPL", "T64('bit')", "ZSTD(1 + 2)", "LZ4HC()", "Delta(-1)", "ZSTD_QAT(5)"]


def column_name(r):
    x = r.below(12)
    if x == 0:
        return r.pick(["n.a", "n.b", "nested.x.y", "`n.x`", "a.b", "key.value"])       # nested columns
    if x == 1:
        return r.pick(["key", "value", "table", "comment", "ttl", "codec", "settings", "default", "alias", "type"])
    n = ident(r)
    return "idx_col" if n.lower() in ("index", "primary", "constraint", "projection") else n   # (these words start other list elements)


def column_decl(r):
    name = column_name(r)
    y = r.below(30)
    if y == 0:
        # the type is omitted
        return name + " " + r.pick(["DEFAULT", "MATERIALIZED", "ALIAS", "default"]) + " " + expr(r, 3, False) \
            + r.pick(["", "", " COMMENT 'no type'", " CODEC(ZSTD)"])
    s = name + " " + data_type(r, ddl=True)
    if r.p(1, 12):
        return s + " STATISTICS(" + r.pick(["tdigest", "uniq", "tdigest, uniq", "minmax, uniq, countmin", "tdigest(100)", "countmin(1, 2), uniq"]) + ")"
    x = r.below(12)
    if r.p(1, 40):
        s += r.pick([" COLLATE binary", " COLLATE 'utf8_general_ci'", " COLLATE utf8mb4_bin"])
    if x == 0:
        s += r.pick([" NULL", " NOT NULL", " not null"])
    if r.p(1, 4):
        s += " " + r.pick(["DEFAULT", "MATERIALIZED", "ALIAS", "default", "materialized"]) + " " + expr(r, 3, False)
        if r.p(1, 12):
            return s + " PRIMARY KEY"
    elif r.p(1, 20):
        s += " EPHEMERAL" + r.pick(["", "", " 'x'", " 0", " -1", " [1, 2]", " (1 + 1)", " NULL", " (now())"])
    elif r.p(1, 24):
        return s + " PRIMARY KEY"
    if r.p(1, 6):
        s += " CODEC(" + ", ".join(r.pick(CODECS) for _ in range(1 + r.below(2))) + ")"
    if r.p(1, 8):
        s += " TTL " + r.pick(["ts", "d"]) + " + INTERVAL " + str(1 + r.below(9)) + " " + r.pick(["DAY", "MONTH"])
    if r.p(1, 8):
        s += " COMMENT " + string_lit(r)
    if r.p(1, 16):
        s += r.pick([" SETTINGS (max_compress_block_size = 1)", " SETTINGS (min_compress_block_size = 1, max_compress_block_size = 2)"])
    return s


INDEX_TYPES = ["minmax", "set(100)", "bloom_filter(0.01)", "ngrambf_v1(3, 256, 2, 0)", "tokenbf_v1(256, 2, 0)", "bloom_filter", "set(0)",
               "vector_similarity('hnsw', 'L2Distance', 1)", "text(tokenizer = 'default')", "inverted(2)", "full_text", "hypothesis",
               "annoy('cosineDistance', 100)", "usearch()", "MinMax", "set(-1)", "bloom_filter(0.1 + 0.1)", "gin(0)"]
INDEX_EXPRS = ["a", "a + 1", "(a, b)", "lower(name)", "(a)", "toDate(ts)", "a * b + c", "(lower(a), b)", "arr", "m['k']", "cityHash64(a, b)",
               "`a b`", "tup.1", "x::String", "key"]


def index_def(r):
    return "INDEX " + r.pick(["i", "idx1", "j", "`my idx`", "key", "idx_2"]) + " " + r.pick(INDEX_EXPRS) \
        + " TYPE " + r.pick(INDEX_TYPES) + r.pick(["", " GRANULARITY 4", " GRANULARITY 1", " GRANULARITY 100000000"])


PROJ_BODIES = ["a, count() GROUP BY a", "* ORDER BY a", "sum(b)", "a, b ORDER BY b", "a, sum(b) GROUP BY a",
               "a, b ORDER BY a, b", "a, b, c ORDER BY (a, b)", "a AS k, b v ORDER BY k", "toDate(ts) AS d, count() GROUP BY d",
               "a, b GROUP BY a, b ORDER BY a", "count()", "*, a + 1 AS a1 ORDER BY a1", "a, groupArray(b) GROUP BY a", "a ORDER BY -a",
               "a, b, c GROUP BY (a, b), c", "uniq(x), min(ts), max(ts)", "_part_offset ORDER BY a"]


def projection_def(r):
    return "PROJECTION " + r.pick(["p", "proj", "`my p`", "values"]) + " (" + r.pick(["", "", "WITH 1 AS w ", "WITH 1 AS w, toDate(ts) AS d "]) \
        + "SELECT " + r.pick(PROJ_BODIES) + ")"


def columns_def(r, attach=False):
    items = [column_decl(r) for _ in range(1 + r.below(4))]
    if r.p(1, 5):
        for _ in range(r.pick([1, 1, 1, 2, 3])):
            items.append(index_def(r))
    if r.p(1, 8) and not attach:
        for _ in range(r.pick([1, 1, 2])):
            e = expr(r, 3, False)
            if e[0] in "[(" and "::" in e:
                e = "(" + e + ")"         # (ASSUME [1]::T reads like a subscript to the re-layout harness, which then does not freeze the operand)
            items.append("CONSTRAINT " + r.pick(["c1", "chk", "`my c`"]) + r.pick([" CHECK ", " ASSUME ", " check "]) + e)
    if r.p(1, 8) and not attach:
        for _ in range(r.pick([1, 1, 2])):
            items.append(projection_def(r))
    if r.p(1, 12):
        items.append("PRIMARY KEY " + r.pick(["(a)", "(a, b)", "a", "()", "(a, b, c)", "(toDate(ts), a)", "a + 1"]))
    return "(" + ", ".join(items) + ")"


def ttl_list(r):
    elems = []
    for _ in range(1 + r.below(3)):
        e = r.pick(["ts", "d", "toDate(ts)", "toStartOfDay(ts)"]) + " + INTERVAL " + str(1 + r.below(9)) + " " + r.pick(["DAY", "MONTH", "YEAR", "WEEK"])
        if r.p(1, 10):
            e = r.pick(["d + toIntervalMonth(1)", "ts + toIntervalDay(x)", "d", "expire_at", "toDateTime(d) + 3600"])
        x = r.below(12)
        if x == 0:
            e += " DELETE"
        elif x == 1:
            e += " TO DISK 'cold'"
        elif x == 2:
            e += " TO VOLUME 'slow'"
        elif x == 3:
            e += " RECOMPRESS CODEC(" + r.pick(["ZSTD(1)", "LZ4HC(10)", "ZSTD(17), Delta"]) + ")"
        elif x == 4:
            e += " GROUP BY a SET b = max(b)" + r.pick(["", ", c = any(c)", ", c = any(c), d = sum(d)"])
        elif x == 5:
            e += " DELETE WHERE " + expr(r, 3, False)
        elif x == 6:
            e += " WHERE " + expr(r, 3, False)
        elif x == 7:
            e += " GROUP BY a, b SET c = sum(c)"
        elif x == 8:
            e += r.pick([" TO DISK 'it\\'s'", " TO VOLUME 'tab\\t'", " TO DISK ''"])
        elems.append(e)
    return ", ".join(elems)


ENGINES = ["Memory", "MergeTree", "MergeTree()", "ReplacingMergeTree(ver)", "SummingMergeTree",
           "ReplicatedMergeTree('/p/{shard}', '{replica}')", "Log", "TinyLog", "Null",
           "Distributed(c, db, t, rand())", "AggregatingMergeTree", "CollapsingMergeTree(sign)",
           "Buffer(db, t, 16, 10, 100, 10000, 1000000, 10000000, 100000000)", "Kafka", "File(CSV)",
           "URL('http://h/x', CSV)", "Merge(db, '^t')", "Join(ANY, LEFT, a)", "Set", "EmbeddedRocksDB",
           # engines WITH parameters of every expression kind
           "SummingMergeTree(v)", "SummingMergeTree((a, b))", "ReplacingMergeTree(ver, is_deleted)", "VersionedCollapsingMergeTree(sign, ver)",
           "GraphiteMergeTree('graphite_rollup')", "ReplicatedReplacingMergeTree('/clickhouse/tables/{shard}/t', '{replica}', ver)",
           "Distributed('c', currentDatabase(), t, sipHash64(x))", "Distributed(c, '', t)", "Dictionary(db.d)", "Dictionary('d')",
           "MySQL('h:3306', 'd', 't', 'u', 'p')", "PostgreSQL('h:5432', 'd', 't', 'u', 'p', 's')", "S3('http://b/k', 'CSV')",
           "S3('http://b/k', 'key', 'secret', 'Parquet', 'gzip')", "Kafka('h:9092', 't', 'g', 'JSONEachRow')", "RabbitMQ", "StripeLog",
           "MaterializedPostgreSQL('h', 'd', 't', 'u', 'p')", "Join(ALL, INNER, a, b)", "Buffer('', t, 1, 1, 1, 1, 1, 1, 1)",
           "GenerateRandom(1, 2, 3)", "KeeperMap('/path')", "TimeSeries", "MergeTree ()", "Memory()", "SharedMergeTree",
           "Merge(REGEXP('^db'), '^t')", "Executable('s.py', TabSeparated)", "SQLite('f.db', 't')", "Hive('thrift://h', 'd', 't')",
           "ReplacingMergeTree(-ver)", "CoalescingMergeTree", "View", "Iceberg('http://b/k')", "AzureQueue('c', 'cont', 'CSV')",
           "MongoDB('h:27017', 'd', 'c', 'u', 'p')", "Redis('h:6379', 0, 'p')", "ExternalDistributed('MySQL', 'h1|h2', 'd', 't', 'u', 'p')"]
ORDER_KEYS = ["a", "(a, b)", "tuple()", "(a, toDate(ts), b)", "id", "a", "(a, b)", "()", "a DESC",
              "(a, b DESC)", "(a DESC, b DESC)", "a ASC", "toDate(ts)", "(a)",
              "(a, b ASC)", "a % 10", "(toDate(ts), cityHash64(id))", "`a b`", "(key, value)", "a.b", "n.a[1]",
              "(a ASC, b)", "-a", "(a, (b, c))", "xxHash32(a)", "(a || 'x')", "tuple(a, b)", "(a + 1)", "(a DESC)"]


def engine_clause(r, full=True):
    e = r.pick(ENGINES)
    s = r.pick(["ENGINE = ", "ENGINE = ", "ENGINE ", "ENGINE=", "engine = "]) + e
    if "MergeTree" in e and full:
        parts = []
        if r.p(1, 3):
            parts.append("PARTITION BY " + r.pick(["toYYYYMM(ts)", "a", "(a, toDate(ts))", "tuple()", "a % 10", "(toMonday(d), a)", "()", "ignore(a)"]))
        parts.append("ORDER BY " + r.pick(ORDER_KEYS))
        if r.p(1, 5):
            parts.append("PRIMARY KEY " + r.pick(["a", "(a)", "id", "(a, b)", "()", "tuple()", "toDate(ts)", "(a + 1)", "a % 10"]))
        if r.p(1, 8):
            parts.append("SAMPLE BY " + r.pick(["a", "intHash32(id)", "(a)", "cityHash64(id) % 100"]))
        if r.p(1, 5):
            parts.append("TTL " + ttl_list(r))
        if r.p(1, 4):
            parts.append("SETTINGS index_granularity = " + r.pick(["8192", "1024"]) + r.pick(["", ", min_bytes_for_wide_part = 0",
                                                                                             ", storage_policy = 'hot_cold', allow_nullable_key = 1"]))
        if r.p(1, 6):
            # the options may come in any order
            head, tail = parts[:1], parts[1:]
            k = r.below(len(parts))
            parts = parts[k:] + parts[:k]
        s += " " + " ".join(parts)
    elif e == "Kafka":
        s += " SETTINGS kafka_broker_list = 'h:9092', kafka_topic_list = 't', kafka_format = 'JSONEachRow'"
    elif e == "RabbitMQ":
        s += " SETTINGS rabbitmq_host_port = 'h:5672', rabbitmq_exchange_name = 'e', rabbitmq_format = 'JSONEachRow'"
    elif e == "EmbeddedRocksDB" and r.p(1, 2):
        s += " PRIMARY KEY " + r.pick(["a", "(a)", "key"])
    return s


def dict_def(r):
    attrs = [r.pick(["id UInt64", "key String", "k1 UInt64", "`a b` UInt64"])] + [
        r.pick(["v String DEFAULT ''", "w UInt8 EXPRESSION toUInt8(1)", "p UInt64 HIERARCHICAL",
                "q UInt8 DEFAULT 0 INJECTIVE", "n Nullable(String) DEFAULT NULL",
                "o UInt8 IS_OBJECT_ID", "d Date DEFAULT toDate('2020-01-01')", "arr Array(String) DEFAULT []", "f Float64 DEFAULT -1.5",
                "t Tuple(a UInt8, b String) DEFAULT (0, '')", "s String DEFAULT 'it\\'s' EXPRESSION lower(s)", "x UInt8 DEFAULT 1 + 1",
                "h UInt64 DEFAULT 0 HIERARCHICAL INJECTIVE", "e Enum8('a' = 1, 'b' = 2) DEFAULT 'a'", "dt DateTime64(3, 'UTC') DEFAULT now64()",
                "u UUID DEFAULT '00000000-0000-0000-0000-000000000000'", "m Map(String, UInt8)", "lc LowCardinality(String) DEFAULT 'x'",
                "neg Int64 DEFAULT -9223372036854775808", "big UInt64 DEFAULT 18446744073709551615", "z", "b Bool DEFAULT true",
                "`ключ` String DEFAULT 'ü'", "dec Decimal(9, 2) DEFAULT 0", "par UInt64 DEFAULT 0 HIERARCHICAL BIDIRECTIONAL",
                "w2 String EXPRESSION concat(v, 'x') INJECTIVE", "nn String DEFAULT '' IS_OBJECT_ID"]) for _ in range(r.below(4))]
    s = " (" + ", ".join(attrs) + ")"
    clauses = []
    clauses.append("PRIMARY KEY " + r.pick(["id", "id, v", "(id)", "(id, v)", "key", "k1, k2, k3", "`a b`", "(toUInt64(id))"]))
    clauses.append("SOURCE(" + r.pick([
        "CLICKHOUSE(TABLE 't' DB 'db')", "HTTP(URL 'http://x' FORMAT 'TSV')", "NULL()",
        "FILE(PATH '/f.tsv' FORMAT 'TabSeparated')", "MYSQL(PORT 3306 USER 'u' PASSWORD 'p' DB 'd' TABLE 't')",
        "CLICKHOUSE(QUERY 'SELECT 1')", "EXECUTABLE(COMMAND 'cat' FORMAT 'TSV')",
        "CLICKHOUSE(HOST 'localhost' PORT tcpPort() USER 'default' PASSWORD '' DB currentDatabase() TABLE 't')",
        "CLICKHOUSE(HOST 'h' PORT 9000 SECURE 1 TABLE 't' WHERE 'id > 10' INVALIDATE_QUERY 'SELECT max(ts) FROM t')",
        "EXECUTABLE(COMMAND 'c' FORMAT TSV IMPLICIT_KEY true)", "EXECUTABLE_POOL(COMMAND 'c' FORMAT 'TSV' POOL_SIZE 4 SEND_CHUNK_HEADER false)",
        "HTTP(URL 'http://x' FORMAT 'JSONEachRow')",
        "POSTGRESQL(PORT 5432 HOST 'h' USER 'u' PASSWORD 'p' DB 'd' TABLE 't' SCHEMA 's')",
        "MONGODB(HOST 'h' PORT 27017 USER '' PASSWORD '' DB 'd' COLLECTION 'c')", "REDIS(HOST 'h' PORT 6379 STORAGE_TYPE 'simple' DB_INDEX 0)",
        "CLICKHOUSE(TABLE t DB db)", "CLICKHOUSE(QUERY 'SELECT \\'it\\\\\\'s\\'')", "ODBC(DB 'd' TABLE 't' CONNECTION_STRING 'DSN=x')",
        "CLICKHOUSE(NAME named_coll)", "CLICKHOUSE(TABLE 't' UPDATE_FIELD ts UPDATE_LAG 15)", "YAMLRegExpTree(PATH '/r.yaml')",
        "CLICKHOUSE(TABLE 't' PORT -1)", "FILE(PATH './f' FORMAT CSV)", "CLICKHOUSE(TABLE 't' DB 'd' QUERY $$SELECT 1$$)",
        "NULL", "CLICKHOUSE()", "CASSANDRA(HOST 'h' PORT 9042 KEYSPACE 'k' COLUMN_FAMILY 'c' ALLOW_FILTERING 1)"]) + ")")
    clauses.append("LAYOUT(" + r.pick([
        "FLAT()", "HASHED()", "COMPLEX_KEY_HASHED(SHARDS 4)", "RANGE_HASHED()",
        "CACHE(SIZE_IN_CELLS 1000)", "DIRECT()", "IP_TRIE", "HASHED_ARRAY()",
        "SPARSE_HASHED()", "FLAT(INITIAL_ARRAY_SIZE 10 MAX_ARRAY_SIZE 100)",
        "COMPLEX_KEY_CACHE(SIZE_IN_CELLS 10)", "SSD_CACHE(BLOCK_SIZE 4096 FILE_SIZE 16777216 PATH '/ssd' READ_BUFFER_SIZE 1048576)",
        "RANGE_HASHED(RANGE_LOOKUP_STRATEGY 'max')", "HASHED(SHARDS 16 SHARD_LOAD_QUEUE_BACKLOG 10000 MAX_LOAD_FACTOR 0.5)",
        "COMPLEX_KEY_DIRECT()", "IP_TRIE(ACCESS_TO_KEY_FROM_ATTRIBUTES true)", "POLYGON(STORE_POLYGON_KEY_COLUMN 1)", "REGEXP_TREE",
        "COMPLEX_KEY_RANGE_HASHED()", "HASHED", "flat()", "COMPLEX_KEY_SPARSE_HASHED(SHARDS 2)", "CACHE(SIZE_IN_CELLS 1 + 1)"]) + ")")
    clauses.append("LIFETIME(" + r.pick(["0", "300", "MIN 0 MAX 10", "MIN 300 MAX 360", "MAX 10 MIN 0", "MAX 100", "MIN 5", "1 + 1", ""]) + ")")
    if r.p(1, 5):
        clauses.append("RANGE(" + r.pick(["MIN a MAX b", "MIN start_date MAX end_date", "MAX b MIN a", "MIN a", "MIN toDate(a) MAX b"]) + ")")
    if r.p(1, 6):
        clauses.append(r.pick(["SETTINGS(format_csv_allow_single_quotes = 0)", "SETTINGS(max_threads = 1, max_block_size = 10)",
                               "SETTINGS (dictionary_use_async_executor = 1)"]))
    if r.p(1, 6):
        clauses.append("COMMENT " + string_lit(r))
    if r.p(1, 5):
        head, rest = clauses[:1], clauses[1:]
        k = r.below(len(rest))
        clauses = head + rest[k:] + rest[:k]
    if r.p(1, 12):
        clauses = clauses[1:]                 # no PRIMARY KEY
    if r.p(1, 12) and not any(c.startswith("SETTINGS") for c in clauses):
        clauses.append("SETTINGS format_csv_allow_single_quotes = 0, max_threads = 1")     # without parentheses: last
    return s + " " + " ".join(clauses)


USERS = ["u", "u1, u2", "'user@host'", "`my user`", "u@'%'", "u@localhost", "'u'@'192.168.%'", "u@'h', u2", "\"q\"", "`it's`"]
AUTH = ["", " NOT IDENTIFIED", " IDENTIFIED BY 'p'", " IDENTIFIED WITH sha256_password BY 'p'",
        " IDENTIFIED WITH plaintext_password BY 'p'", " IDENTIFIED WITH no_password",
        " IDENTIFIED WITH double_sha1_hash BY 'abcd'", " IDENTIFIED WITH ssh_key BY KEY 'k' TYPE 'ssh-rsa'",
        " IDENTIFIED WITH bcrypt_password BY 'p'", " IDENTIFIED WITH ldap SERVER 's'",
        " IDENTIFIED WITH kerberos REALM 'r'",
        " IDENTIFIED WITH ssh_key BY KEY 'k1' TYPE 'ssh-rsa', KEY 'k2' TYPE 'ssh-ed25519'",
        " IDENTIFIED WITH plaintext_password BY 'a', bcrypt_password BY 'b'",
        " IDENTIFIED WITH sha256_hash BY 'abc' SALT 'def'", " IDENTIFIED WITH kerberos", " IDENTIFIED WITH ssl_certificate CN 'a', 'b'",
        " IDENTIFIED WITH http SERVER 's' SCHEME 'Basic'", " IDENTIFIED BY 'it\\'s'", " IDENTIFIED WITH sha256_password BY 'p' VALID UNTIL '2030-01-01'",
        " IDENTIFIED WITH jwt", " IDENTIFIED BY 'a', BY 'b'", " IDENTIFIED WITH scram_sha256_password BY 'p'", " identified by 'p'",
        " IDENTIFIED WITH ldap SERVER 's', kerberos REALM 'r'"]


def gen_create(r):
    x = r.below(48)
    ine = r.pick(["", "", "IF NOT EXISTS ", "if not exists "])
    oc = r.pick(["", "", "", " ON CLUSTER c", " ON CLUSTER test_cluster", " ON CLUSTER '{cluster}'", " ON CLUSTER `my cluster`", " on cluster c"])
    tname = r.pick(["t", "db.t", "`my table`", "t_new", "{db:Identifier}.t", "`my db`.`my t`", "\"t\"", "db.`1t`", "key", "default.`таблица`"])
    if x < 12:
        head = r.pick(["CREATE TABLE ", "CREATE TABLE ", "CREATE OR REPLACE TABLE ", "CREATE TEMPORARY TABLE ",
                       "ATTACH TABLE ", "REPLACE TABLE ", "create table ", "CREATE OR REPLACE TEMPORARY TABLE "])
        attach = head.startswith("ATTACH")
        if head.upper().startswith(("CREATE OR", "REPLACE")):
            ine = ""
        if attach:
            return gen_attach(r)
        s = head + ine + tname + oc
        if r.p(1, 12):
            s += " UUID '00000000-0000-0000-0000-000000000001'"
        y = r.below(12)
        if y == 0:
            return s + " AS " + r.pick(["t2", "db.t2", "`my table`", "db.`t 2`"]) + r.pick(["", " " + engine_clause(r)])
        if y == 1:
            return s + " AS " + r.pick(["numbers(10)", "remote('h', db.t)", "file('a.csv')", "s3('http://b/k', 'CSV', 'a UInt8')", "mysql('h', 'd', 't', 'u', 'p')",
                                         "url('http://h/x', CSV, 'a UInt8, b String')", "generateRandom()", "values('a UInt8', 1)", "merge(db, '^t')"])
        if y == 2:
            return s + " " + engine_clause(r) + " AS " + select_with_union(r, 1, simple=True)
        if y == 10:
            return head + ine + tname + oc + " CLONE AS " + r.pick(["t2", "src", "`my src`"]) + r.pick(["", " " + engine_clause(r)])
        if y == 11:
            opt = r.pick([" AS SELECT 1", " AS SELECT * FROM t2", " ENGINE = Memory AS (SELECT 1) UNION ALL (SELECT 2)", " AS (SELECT 1)",
                               " ENGINE = Memory AS WITH 1 AS x SELECT x", " ENGINE = Log AS SELECT 1 INTERSECT SELECT 1",
                               " (a UInt8, b UInt8, c UInt8) ENGINE = MergeTree ORDER BY (a + b) * c", " (a UInt8) ENGINE = MergeTree ORDER BY (a) + 1",
                               " (a UInt8, b UInt8) ENGINE = MergeTree ORDER BY (a + b) % 10 PRIMARY KEY a",
                               " (a UInt8, b UInt8) ENGINE = MergeTree ORDER BY (a * 2) + (b * 3) SETTINGS index_granularity = 1",
                               " (a UInt8 PRIMARY KEY)", " (a UInt8, PRIMARY KEY (a))", " (a UInt8, b String, PRIMARY KEY (a, b))", " (a UInt8) ORDER BY a", " (a UInt8) PRIMARY KEY a",
                               " (a UInt8)", " (a UInt8, PRIMARY KEY ())", " (a UInt8) ORDER BY () SETTINGS index_granularity = 1", " (a UInt8) COMMENT 'no engine'",
                               " (a UInt8) PARTITION BY a ORDER BY a", " (a UInt8) ENGINE = Memory FORMAT Null", " (a UInt8) ENGINE = MergeTree ORDER BY a FORMAT JSON",
                               " AS t2 FORMAT Null", " (a UInt8) TTL d + INTERVAL 1 DAY", " (a UInt8) SAMPLE BY a ORDER BY a"])
            if " FORMAT " in opt and not head.upper().startswith("CREATE"):
                opt = opt.split(" FORMAT ")[0]                 # (REPLACE TABLE ... FORMAT is not taken by the parser)
            return s + opt
        s += " " + columns_def(r) + " " + engine_clause(r)
        if y == 3:
            s += " AS " + select_core(r, 1, simple=True) + r.pick(["", "", "", " FORMAT Null"])
        elif r.p(1, 6):
            # COMMENT, then possibly SETTINGS after it (the table's when the engine clause had none, else a second clause)
            s += " COMMENT " + string_lit(r) + r.pick(["", "", " SETTINGS max_threads = 1"])
        elif r.p(1, 12) and " SETTINGS " in s:
            s += " AS SELECT 1 SETTINGS max_threads = 1"
        return s
    if x < 17:
        s = r.pick(["CREATE VIEW ", "CREATE OR REPLACE VIEW ", "CREATE VIEW IF NOT EXISTS ", "create view "]) + r.pick(["v", "db.v", "`my view`"]) + oc
        if r.p(1, 6):
            s += r.pick([" (a UInt8, b String)", " (a Nullable(UInt8) COMMENT 'c')", " (`a b` Tuple(x UInt8))"])
        elif r.p(1, 8) and not oc:
            s += " (a UInt8, b String)" + r.pick([" ON CLUSTER c", " ON CLUSTER '{cluster}'"])          # ON CLUSTER after the column list
        body = r.pick([lambda: select_core(r, 1), lambda: select_with_union(r, 1, simple=True),
                       lambda: "(" + select_core(r, 1, True) + ")", lambda: gen_setop(Rng(r.next())),
                       lambda: select_core(r, 1, simple=True) + r.pick([" FORMAT Null", " FORMAT TSV", " format JSON"])])()
        return s + " AS " + body
    if x < 22:
        s = r.pick(["CREATE MATERIALIZED VIEW ", "CREATE MATERIALIZED VIEW ", "create materialized view "]) + ine + r.pick(["mv", "db.mv", "`my mv`"])
        if r.p(1, 10):
            s += " UUID '00000000-0000-0000-0000-00000000000a'"
        s += oc
        y = r.below(12)
        if y == 0:
            s += " REFRESH " + r.pick(["EVERY 1 HOUR", "AFTER 10 MINUTE", "EVERY 30 MINUTE", "EVERY 1 DAY", "AFTER 5 SECOND", "EVERY 2 WEEK", "every 1 month"]) \
                 + " TO " + r.pick(["dst", "db.dst"]) + r.pick(["", "", " (a UInt8, b String)"])
        elif y == 1:
            s += " REFRESH " + r.pick(["EVERY 1 HOUR", "AFTER 1 YEAR"]) + " APPEND TO " + r.pick(["dst", "db.dst"]) + r.pick(["", " (a UInt8)"]) + r.pick(["", " EMPTY"])
        elif y < 5:
            s += " TO " + r.pick(["dst", "db.dst", "`my dst`", "{db:Identifier}.dst"]) + r.pick(["", " (a UInt8, b String)", " (`k` String, v AggregateFunction(sum, UInt64))"])
        elif y == 5:
            s += r.pick(["", " REFRESH EVERY 1 HOUR"]) + " (a UInt8, b String) " + engine_clause(r) + r.pick(["", " COMMENT 'c'"])
        elif y == 6:
            # column lists of materialized views may carry indexes, projections and a primary key
            s += " (a UInt8, b String, " + r.pick([index_def(r), projection_def(r), "PRIMARY KEY a", index_def(r) + ", PRIMARY KEY (a)"]) + ") " \
                + r.pick([engine_clause(r), engine_clause(r), "TO dst", "TO db.dst"])
        else:
            s += " " + engine_clause(r) + r.pick(["", " POPULATE", " populate"])
        return s + " AS " + select_core(r, 1, simple=not r.p(1, 3), force_from=True) + (r.pick([" FORMAT Null", " FORMAT TSV"]) if r.p(1, 12) else "")
    if x < 24:
        return "CREATE WINDOW VIEW " + ine + r.pick(["wv", "db.wv"]) \
               + r.pick([" TO dst", " TO dst", " INNER ENGINE Memory", " INNER ENGINE MergeTree ORDER BY a",
                         " INNER ENGINE MergeTree ORDER BY (a, b)", " INNER ENGINE MergeTree() ORDER BY toDate(ts)",
                         " TO dst INNER ENGINE Memory", " ENGINE = Memory", " INNER ENGINE AggregatingMergeTree ORDER BY tuple()",
                         " INNER ENGINE = ReplacingMergeTree(v) ORDER BY k", " INNER ENGINE SummingMergeTree((a, b)) PARTITION BY p ORDER BY (k, w)",
                         " TO db.dst (a UInt8)", " INNER ENGINE = Memory ENGINE = Memory", " INNER ENGINE Distributed(c, db, t, rand()) ENGINE = Null",
                         " INNER ENGINE MergeTree PRIMARY KEY a ORDER BY (a, b) SETTINGS index_granularity = 1"]) \
               + " AS SELECT count() FROM t GROUP BY " \
               + r.pick(["tumble", "hop"]) + "(ts, INTERVAL 1 MINUTE" + r.pick(["", ", INTERVAL 5 MINUTE", ", 'UTC'"]) + ")" + r.pick(["", "", "", " FORMAT Null"])
    if x < 27:
        s = r.pick(["CREATE DATABASE ", "CREATE DATABASE ", "create database "]) + ine + r.pick(["db", "`my db`", "d2", "{db:Identifier}", "\"q\"", "`db-1`"])
        y = r.below(8)
        if y == 0:
            s += oc
        elif y == 1:
            s += " ENGINE = " + r.pick(["Atomic", "Memory", "Lazy(10)", "Replicated('/p', 's', 'r')",
                                         "MySQL('h:3306', 'd', 'u', 'p')", "Ordinary", "PostgreSQL('h:5432', 'd', 'u', 'p', 's', 1)", "SQLite('f.db')",
                                         "MaterializedPostgreSQL('h', 'd', 'u', 'p')", "Replicated('/clickhouse/{uuid}', '{shard}', '{replica}')",
                                         "Filesystem('/path')", "S3('http://b', 'k', 's')", "Atomic()", "Backup('db', Disk('d', 'b.zip'))", "DataLakeCatalog('http://c')"])
        elif y == 2:
            s += oc + " ENGINE = Atomic"
        elif y == 3:
            s += " ENGINE = Replicated('/p', 's', 'r') SETTINGS max_broken_tables_ratio = 1, collection_name = 'x'"
        elif y == 4:
            s += " ENGINE = " + r.pick(["Atomic", "Memory"]) + " ORDER BY " + r.pick(["a", "tuple()", "(a, b)"]) + r.pick(["", " SETTINGS a = 1"])
        elif y == 5:
            s += r.pick([" SETTINGS distributed_ddl_task_timeout = 1", " ENGINE = MySQL('h', 'd', 'u', 'p') SETTINGS read_write_timeout = 10, connect_timeout = 1"])
        elif y == 6:
            s += r.pick([" FORMAT Null", " ENGINE = Atomic FORMAT Null", oc + " FORMAT JSON"])
        return s
    if x < 29:
        return r.pick(["CREATE FUNCTION ", "CREATE OR REPLACE FUNCTION ", "CREATE FUNCTION IF NOT EXISTS ", "create function "]) \
            + r.pick(["f", "my_func", "`my f`", "linear_equation"]) + oc + " AS " \
            + r.pick(["x -> ", "(x, y) -> ", "() -> ", "(x) -> ", "(a, b, c) -> ", "x -> y -> ", "(x, y) -> z -> "]) + expr(r, 2, False)
    if x < 32:
        s = r.pick(["CREATE USER ", "CREATE USER ", "CREATE OR REPLACE USER ", "create user "]) + ine + r.pick(USERS) + oc
        s += r.pick(AUTH)
        s += r.pick(["", " HOST LOCAL", " HOST IP '127.0.0.1'", " HOST ANY", " HOST NAME 'h'", " HOST LIKE '%.x'", " HOST REGEXP '.*\\\\.x'",
                     " HOST IP '10.0.0.0/8', '::1'", " HOST NONE", " HOST NAME 'a', LOCAL"])
        s += r.pick(["", " VALID UNTIL '2030-01-01'", " VALID UNTIL 'infinity'"])
        s += r.pick(["", " DEFAULT ROLE r", " DEFAULT ROLE ALL", " DEFAULT ROLE r1, r2", " DEFAULT ROLE ALL EXCEPT r", " DEFAULT ROLE NONE"])
        s += r.pick(["", " DEFAULT DATABASE db", " DEFAULT DATABASE NONE"])
        s += r.pick(["", " GRANTEES ANY EXCEPT u2", " GRANTEES NONE", " GRANTEES u1, r1 EXCEPT u2"])
        s += r.pick(["", " SETTINGS max_memory_usage = 1", " SETTINGS PROFILE 'p'", " SETTINGS max_threads = 4 MIN 1 MAX 8 READONLY, PROFILE 'p'",
                     " SETTINGS a = 1 CONST", " IN local_directory", " SETTINGS readonly = 1 CHANGEABLE_IN_READONLY"])
        return s
    if x < 34:
        return r.pick(["CREATE ROLE ", "CREATE OR REPLACE ROLE ", "create role "]) + ine + r.pick(["r", "r1, r2", "`my role`", "'r'"]) + oc \
            + r.pick(["", " SETTINGS max_threads = 1", " SETTINGS PROFILE 'p'", " IN memory", " SETTINGS a = 1 MIN 0 MAX 2 WRITABLE"])
    if x == 34:
        return r.pick(["CREATE ROW POLICY ", "CREATE POLICY ", "CREATE OR REPLACE ROW POLICY ", "create row policy "]) + ine \
            + r.pick(["p ON ", "p1, p2 ON ", "`my p` ON ", "p ON db.t1, p2 ON "]) + r.pick(["t", "db.t", "db.*", "`my table`", "*"]) \
            + oc + r.pick(["", " FOR SELECT", " FOR ALL"]) + r.pick(["", " AS RESTRICTIVE", " AS PERMISSIVE", " AS restrictive"]) \
            + " USING " + expr(r, 3, False) + r.pick(["", " TO r", " TO ALL", " TO ALL EXCEPT u", " TO u1, r1", " TO CURRENT_USER", " TO NONE"])
    if x == 35:
        return r.pick(["CREATE QUOTA ", "CREATE OR REPLACE QUOTA ", "create quota "]) + ine + r.pick(["q", "`my q`", "q1, q2"]) + oc \
            + r.pick(["", " KEYED BY user_name", " KEYED BY ip_address", " NOT KEYED", " KEYED BY client_key, user_name"]) \
            + " FOR " + r.pick(["", "RANDOMIZED "]) + "INTERVAL " + r.pick(["1 HOUR", "1 DAY", "30 MINUTE", "1 MONTH"]) + r.pick([" MAX ", " MAX ", " NO LIMITS", " TRACKING ONLY"]).rstrip() \
            + r.pick([" queries = 10", " errors = 1, result_rows = 2", " execution_time = 5", " query_selects = 1, query_inserts = 2, read_bytes = 3"]) \
            + r.pick(["", " TO r", " TO ALL", ", FOR INTERVAL 1 DAY MAX queries = 100 TO ALL EXCEPT u"]) if r.p(9, 10) else \
            "CREATE QUOTA " + ine + "q FOR INTERVAL 1 HOUR NO LIMITS"
    if x == 36:
        return r.pick(["CREATE SETTINGS PROFILE ", "CREATE PROFILE ", "CREATE OR REPLACE SETTINGS PROFILE ", "create settings profile "]) + ine \
            + r.pick(["p", "p1, p2", "p1, p2, p3", "`my p`", "'p'"]) + oc + " SETTINGS " \
            + r.pick(["max_threads = 1", "a = 1 MIN 0 MAX 2 READONLY", "INHERIT 'default'",
                      "max_memory_usage = 100 WRITABLE, INHERIT 'default'", "a = 1, b = 'x' CONST, PROFILE 'q'", "max_threads MIN 1 MAX 4",
                      "INHERIT p1, INHERIT p2"]) + r.pick(["", " TO r", " TO ALL EXCEPT u", " TO u1, u2"])
    if x == 37 or x == 40 or x == 41:
        s = r.pick(["CREATE DICTIONARY ", "CREATE OR REPLACE DICTIONARY ", "CREATE DICTIONARY IF NOT EXISTS ", "REPLACE DICTIONARY ", "create dictionary ",
                    "CREATE DICTIONARY "]) + r.pick(["d", "db.d", "`my dict`", "db.`d 1`", "{db:Identifier}.d"]) + (oc if r.p(1, 3) else "")
        if r.p(1, 10):
            s += " UUID '00000000-0000-0000-0000-00000000000d'"
        return s + dict_def(r)
    if x == 38:
        return r.pick(["CREATE INDEX ", "CREATE INDEX IF NOT EXISTS ", "CREATE UNIQUE INDEX ", "create index "]) + r.pick(["i", "`my idx`", "idx_1"]) + " ON " \
            + r.pick(["t", "db.t", "`my table`"]) + r.pick([
                lambda: " (" + r.pick(["a", "a + 1, b", "lower(name)", "a DESC", "a ASC, b DESC", "(a, b)", "a, b, c", "toDate(ts)", "`a b`"]) + ")",
                lambda: " " + r.pick(["a", "date(ts)", "lower(name)", "a + 1", "cityHash64(a, b)", "(a)"])])() \
            + r.pick(["", " TYPE minmax", " TYPE set", " TYPE bloom_filter GRANULARITY 1", " TYPE MinMax GRANULARITY 4", " GRANULARITY 2",
                      " TYPE minmax GRANULARITY 0"])
    if x == 42 or x == 43:
        return gen_attach(r)
    return r.pick(["CREATE NAMED COLLECTION nc AS a = 1, b = 's' NOT OVERRIDABLE",
                   "CREATE NAMED COLLECTION IF NOT EXISTS nc ON CLUSTER c AS k = 'v' OVERRIDABLE",
                   "CREATE RESOURCE res (WRITE DISK d, READ DISK d)", "CREATE RESOURCE res (READ ANY DISK)",
                   "CREATE WORKLOAD w IN all SETTINGS weight = 3", "CREATE WORKLOAD all",
                   "CREATE OR REPLACE WORKLOAD w IN all SETTINGS max_io_requests = 10 FOR res",
                   "CREATE WORKLOAD IF NOT EXISTS w IN all", "CREATE WORKLOAD IF NOT EXISTS all", "CREATE RESOURCE IF NOT EXISTS r (MASTER THREAD, WORKER THREAD)",
                   "CREATE OR REPLACE RESOURCE r ON CLUSTER c (WRITE ANY DISK)", "CREATE NAMED COLLECTION `my nc` AS url = 'http://x', `key` = 1.5, x = NULL",
                   "CREATE NAMED COLLECTION 'nc' AS a = -1", "CREATE WORKLOAD w ON CLUSTER c IN `parent w` SETTINGS priority = -1, max_cpus = 0.5",
                   "CREATE NAMED COLLECTION key AS key = 'key'", "CREATE WORKLOAD production IN all SETTINGS weight = 9 FOR cpu, max_requests = 1 FOR io"])


def gen_attach(r):
    """ATTACH (the statement printer of its own): tables with definitions, views, dictionaries, databases"""
    x = r.below(16)
    ine = r.pick(["", "", "IF NOT EXISTS "])
    if x < 5:
        s = "ATTACH TABLE " + ine + r.pick(["t", "db.t", "`my table`", "t_new"])
        if r.p(1, 4):
            s += " UUID '00000000-0000-0000-0000-000000000001'"
        if r.p(1, 4):
            s += " FROM " + r.pick(["'/p'", "'/var/lib/clickhouse/store/it\\'s'", "'rel/path'"])
        s += " " + columns_def(r, attach=True) + " " + r.pick(["ENGINE = ", "ENGINE "]) + r.pick(ENGINES)
        opts = []
        if r.p(1, 3):
            opts.append("PARTITION BY " + r.pick(["toYYYYMM(ts)", "a", "(a, b)", "tuple()"]))
        if r.p(1, 2):
            opts.append("ORDER BY " + r.pick(["a", "(a, b)", "tuple()", "()", "(a)", "toDate(ts)", "(a, toDate(ts), b)", "a + 1"]))
        if r.p(1, 4):
            opts.append("PRIMARY KEY " + r.pick(["a", "(a)", "(a, b)", "()", "tuple()"]))
        if r.p(1, 4):
            opts.append("SETTINGS index_granularity = 8192" + r.pick(["", ", a = 'x'"]))
        if r.p(1, 6) and opts:
            k = r.below(len(opts))
            opts = opts[k:] + opts[:k]
        return s + (" " + " ".join(opts) if opts else "")
    if x < 9:
        # materialized views: engine with and without parameters, inner UUID, all table options, AS SELECT
        s = "ATTACH MATERIALIZED VIEW " + ine + r.pick(["mv", "db.mv", "`my mv`"])
        if r.p(1, 2):
            s += " UUID '00000000-0000-0000-0000-00000000000a'"
            if r.p(1, 2):
                s += " TO INNER UUID '00000000-0000-0000-0000-00000000000b'"
        if r.p(3, 4):
            s += " " + columns_def(r, attach=True)
        s += " " + r.pick(["ENGINE = ", "ENGINE "]) + r.pick(["SummingMergeTree(v)", "SummingMergeTree", "AggregatingMergeTree()", "MergeTree", "ReplacingMergeTree(ver, d)",
                                                             "SummingMergeTree((a, b))", "ReplicatedSummingMergeTree('/p', 'r', (v, w))", "Memory", "CollapsingMergeTree(sign)",
                                                             "VersionedCollapsingMergeTree(sign, ver)", "MergeTree()", "GraphiteMergeTree('x')"])
        opts = []
        if r.p(1, 2):
            opts.append("PARTITION BY " + r.pick(["toYYYYMM(ts)", "p", "(a, b)"]))
        if r.p(3, 4):
            opts.append("ORDER BY " + r.pick(["k", "(k, w)", "tuple()", "()", "(k)", "toDate(ts)"]))
        if r.p(1, 3):
            opts.append("PRIMARY KEY " + r.pick(["k", "(k)", "(k, w)", "()"]))
        if r.p(1, 3):
            opts.append("SETTINGS index_granularity = 8192")
        if r.p(1, 6) and opts:
            k = r.below(len(opts))
            opts = opts[k:] + opts[:k]
        s += (" " + " ".join(opts) if opts else "")
        return s + " AS " + select_core(r, 1, simple=not r.p(1, 3), force_from=True)
    return r.pick(["ATTACH TABLE t", "ATTACH TABLE db.t", "ATTACH TABLE IF NOT EXISTS t",
                   "ATTACH DATABASE db", "ATTACH DATABASE IF NOT EXISTS `my db`", "ATTACH DICTIONARY d", "ATTACH DICTIONARY db.d", "ATTACH DICTIONARY IF NOT EXISTS db.`my d`",
                   "ATTACH t", "ATTACH db.t", "ATTACH TABLE t UUID '00000000-0000-0000-0000-000000000001'", "ATTACH TABLE t FROM '/p'",
                   "ATTACH TABLE t (a UInt8) ENGINE = Memory", "ATTACH TABLE t (a UInt8, PRIMARY KEY a) ENGINE = MergeTree ORDER BY a",
                   "ATTACH TABLE t (a UInt8, PRIMARY KEY ()) ENGINE = MergeTree ORDER BY ()", "ATTACH TABLE t (a UInt8, b String, PRIMARY KEY (a, b)) ENGINE = MergeTree ORDER BY (a, b)",
                   "ATTACH MATERIALIZED VIEW mv", "ATTACH MATERIALIZED VIEW db.mv UUID '00000000-0000-0000-0000-00000000000a'",
                   "ATTACH MATERIALIZED VIEW mv (k UInt8, v UInt64) ENGINE = SummingMergeTree(v) ORDER BY k AS SELECT k, sum(x) AS v FROM t GROUP BY k",
                   "ATTACH MATERIALIZED VIEW mv ENGINE = SummingMergeTree(v, w) ORDER BY () AS SELECT 1",
                   "ATTACH TABLE `my db`.`my table`", "ATTACH TABLE {db:Identifier}.t"])


# ------------------------------------------------------------------------------------------
# ALTER

def partition_expr(r):
    return r.pick(["202001", "'2020-01-01'", "ID '202001'", "ID 123", "ID 'all'", "(1, 'a')", "tuple()", "ALL",
                   "toYYYYMM(today())", "{p:String}", "1", "(2020, 1)", "tuple(1, 2)", "'a'", "ID '1-2'",
                   "all", "-1", "(-1, 'a')", "ID 'it\\'s'", "ID ''", "(toDate('2020-01-01'), 1)", "'tab\\t'", "1.5", "()", "NULL", "true",
                   "[1, 2]", "(1, (2, 3))", "18446744073709551615", "ID '18446744073709551616'", "toDate('2020-01-01')", "(NULL, 1)", "ID 'tab\\tid'", "ID 'cr\\rid'", "'nl\\nvalue'"]
                  + unless("partition-id-newline", "ID 'nl\\nid'", "ID 'a\\r\\nb'"))


def alter_command(r):
    c = lambda: r.pick(["c", "col", "`a b`", "`n.x`", "x1", "key", "value", "`ключ`", "\"q\""])
    nc = lambda: r.pick(["n.x", "nested.a.b", "NestedColumn.A", "n.key", "c", "`a b`"])        # nested (dotted) column names
    ine = r.pick(["", "", "IF NOT EXISTS "])
    ie = r.pick(["", "", "IF EXISTS "])
    inpart = r.pick(["", "", " IN PARTITION " + r.pick(["1", "202001", "'x'", "(1, 2)", "ALL", "tuple()", "all"])])
    x = r.below(1 << 20)
    forms = [
        lambda: "ADD COLUMN " + ine + c() + " " + data_type(r, ddl=True)
                + r.pick(["", " DEFAULT " + expr(r, 3, False), " MATERIALIZED " + atom(r), " ALIAS a + 1", " CODEC(ZSTD)",
                          " COMMENT 'x'"]) + r.pick(["", "", " AFTER a"]),
        lambda: "DROP COLUMN " + ie + c(),
        lambda: "CLEAR COLUMN " + c() + inpart,
        lambda: "RENAME COLUMN " + ie + c() + " TO " + r.pick(["b2", "`new name`"]),
        lambda: "MODIFY COLUMN " + ie + c() + " " + data_type(r, ddl=True)
                + r.pick(["", " DEFAULT " + atom(r), " CODEC(LZ4)", " COMMENT 'c'"]) + r.pick(["", "", " AFTER b"]),
        lambda: "MODIFY COLUMN " + c() + " REMOVE " + r.pick(["DEFAULT", "TTL", "CODEC", "COMMENT", "MATERIALIZED", "ALIAS"]),
        lambda: "MODIFY COLUMN " + c() + r.pick([" COMMENT 'x'", " CODEC(ZSTD(3))", " DEFAULT 1"]),
        lambda: "MODIFY COLUMN " + c() + " MODIFY SETTING max_compress_block_size = 1",
        lambda: "MODIFY COLUMN " + c() + " RESET SETTING max_compress_block_size",
        lambda: "COMMENT COLUMN " + ie + c() + " " + string_lit(r),
        lambda: "MATERIALIZE COLUMN " + c() + inpart,
        lambda: "MODIFY ORDER BY " + r.pick(["(a, b)", "a", "(a, b, c)"]),
        lambda: "MODIFY SAMPLE BY " + r.pick(["a", "intHash32(id)"]),
        lambda: "REMOVE SAMPLE BY",
        lambda: "MODIFY TTL " + ttl_list(r),
        lambda: "MODIFY TTL d + INTERVAL 1 DAY RECOMPRESS CODEC(" + r.pick(["ZSTD(1)", "LZ4HC(10)", "ZSTD(17), Delta"]) + ")",
        lambda: "REMOVE TTL",
        lambda: "MATERIALIZE TTL",
        lambda: "MODIFY SETTING " + ", ".join(r.pick(SETTINGS) + " = " + r.pick(["1", "'x'", "0"]) for _ in range(1 + r.below(2))),
        lambda: "RESET SETTING " + ", ".join(r.pick(SETTINGS) for _ in range(1 + r.below(2))),
        lambda: "MODIFY COMMENT " + string_lit(r),
        lambda: "MODIFY QUERY " + select_core(r, 2, simple=True),
        lambda: "DROP PARTITION " + partition_expr(r),
        lambda: "DROP PART 'all_1_1_0'",
        lambda: "DROP DETACHED PARTITION " + r.pick(["202001", "tuple()", "ALL"]),
        lambda: "DROP DETACHED PARTITION " + r.pick(["1", "'x'", "(1, 2)"]),
        lambda: "DETACH PARTITION " + partition_expr(r),
        lambda: "DETACH PART 'all_2_2_0'",
        lambda: "ATTACH PARTITION " + partition_expr(r),
        lambda: "ATTACH PART 'all_2_2_0'",
        lambda: "ATTACH PARTITION " + r.pick(["1", "ID '1'", "ALL", "'2020-01-01'", "tuple()"]) + " FROM t2",
        lambda: "REPLACE PARTITION " + r.pick(["1", "ID '1'", "'x'", "tuple()"]) + " FROM t2",
        lambda: "MOVE PARTITION " + r.pick(["1", "ID '1'", "'x'"]) + " TO " + r.pick(["TABLE t2", "TABLE db.t2", "DISK 'd'", "VOLUME 'v'"]),
        lambda: "FREEZE",
        lambda: "FREEZE PARTITION " + partition_expr(r),
        lambda: "FETCH PARTITION " + r.pick(["1", "ID '1'", "'x'"]) + " FROM '/clickhouse/tables/t'",
        lambda: "UPDATE " + ", ".join(r.pick(COLS) + " = " + ("(" + expr(r, 3, False) + ")" if inpart else expr(r, 3, False))
                                      for _ in range(1 + r.below(2)))
                + inpart + " WHERE " + expr(r, 3, False),
        lambda: "DELETE WHERE " + expr(r, 2, True),
        lambda: "ADD INDEX " + r.pick(["i", "idx"]) + " " + r.pick(["a", "(a, b)", "lower(name)", "a + 1"])
                + " TYPE " + r.pick(["minmax", "set(10)", "bloom_filter(0.01)", "ngrambf_v1(3, 256, 2, 0)"])
                + r.pick(["", " GRANULARITY 1", " GRANULARITY 4"]),
        lambda: "DROP INDEX " + ie + "i",
        lambda: "MATERIALIZE INDEX i" + inpart,
        lambda: "CLEAR INDEX i" + inpart,
        lambda: "ADD PROJECTION " + r.pick(["p", "proj"]) + " (SELECT " + r.pick(["a, count() GROUP BY a", "* ORDER BY a",
                                                                                   "a, sum(b) GROUP BY a", "a, b ORDER BY b"]) + ")",
        lambda: "DROP PROJECTION " + ie + "p",
        lambda: "MATERIALIZE PROJECTION p",
        lambda: "CLEAR PROJECTION p",
        lambda: "ADD CONSTRAINT " + r.pick(["c1", "chk"]) + " CHECK " + expr(r, 3, False),
        lambda: "ADD CONSTRAINT c2 ASSUME a > 0",
        lambda: "DROP CONSTRAINT c1",
        lambda: "ADD STATISTICS " + r.pick(["a", "a, b"]) + " TYPE " + r.pick(["tdigest", "uniq", "tdigest, uniq"]),
        lambda: "DROP STATISTICS " + r.pick(["a", "a, b"]),
        lambda: "MODIFY STATISTICS a TYPE uniq",
        lambda: "MATERIALIZE STATISTICS a",
        lambda: "CLEAR STATISTICS a",
        lambda: "APPLY DELETED MASK" + inpart,
        lambda: "DROP PARTITION ID " + r.pick(["123", "'123'", "'all'", "20200101", "'a-b'"]),
        lambda: "DETACH PARTITION ID " + r.pick(["123", "'123'", "7"]),
        lambda: "ATTACH PARTITION ID " + r.pick(["'123'", "42"]),
        lambda: "FREEZE PARTITION ID " + r.pick(["'123'", "99"]),
        lambda: "DROP PARTITION ALL",
        lambda: "DETACH PARTITION ALL",
        lambda: "DROP PARTITION (" + ", ".join(literal(r) for _ in range(1 + r.below(3))) + ")",
        lambda: "MODIFY TTL d + INTERVAL 1 MONTH RECOMPRESS CODEC(ZSTD(3)), d + INTERVAL 1 YEAR DELETE",
        lambda: "MATERIALIZE COLUMN " + c(),
        # statistics kinds with arguments, several columns, IF [NOT] EXISTS
        lambda: "ADD STATISTICS " + ine + r.pick(["a", "a, b", "a, b, c"]) + " TYPE " + stat_kinds(r),
        lambda: "MODIFY STATISTICS " + r.pick(["a", "a, b"]) + " TYPE " + stat_kinds(r),
        lambda: "ADD STATISTICS " + r.pick(["a", "a, b"]) + " TYPE " + r.pick(["tdigest(5)", "countmin(1, 2), uniq", "uniq, tdigest(5)"]),
        lambda: r.pick(["DROP", "CLEAR", "MATERIALIZE"]) + " STATISTICS " + ie + r.pick(["a", "a, b", "a, b, c"]),
        lambda: "MATERIALIZE STATISTICS ALL",
        # full column declarations in ADD / MODIFY COLUMN
        lambda: "ADD COLUMN " + ine + column_decl(r) + r.pick(["", "", " AFTER a", " AFTER `n.x`"]),
        lambda: "MODIFY COLUMN " + ie + column_decl(r) + r.pick(["", "", " AFTER b"]),
        lambda: "MODIFY COLUMN " + c() + " MODIFY SETTING " + r.pick(["a = 1, b = 2", "max_compress_block_size = 1, min_compress_block_size = 2"]),
        lambda: "MODIFY COLUMN " + c() + " RESET SETTING " + r.pick(["a, b", "max_compress_block_size, min_compress_block_size"]),
        lambda: "ADD INDEX " + r.pick(["i", "idx"]) + " " + r.pick(["a", "(a, b)", "lower(name)"]) + " TYPE "
                + r.pick(["minmax", "set(10)", "bloom_filter"]) + r.pick(["", " GRANULARITY 1"]) + " AFTER " + r.pick(["j", "idx0"]),
        lambda: "MATERIALIZE INDEX i IN PARTITION ID " + r.pick(["'1'", "'202001'"]),
        lambda: "UPDATE " + r.pick(COLS) + " = (" + expr(r, 3, False) + ") IN PARTITION ID " + r.pick(["'x'", "'1-2'"])
                + " WHERE " + expr(r, 3, False),
        lambda: "APPLY PATCHES" + inpart,
        lambda: "ADD PROJECTION " + r.pick(["p", "proj"]) + " (" + r.pick(["", "WITH 1 AS w ", "WITH 1 AS w, 2 AS v "]) + "SELECT "
                + r.pick(["a, b ORDER BY a, b", "a, b, c ORDER BY (a, b)", "a ORDER BY a", "a, count() GROUP BY a", "a, b GROUP BY a, b"]) + ")",
        lambda: "MODIFY ORDER BY " + r.pick(["a", "(a)", "(a, b)", "toDate(ts)"]),
        # --- added from measured coverage ------------------------------------------------------------
        lambda: "RESET SETTING " + r.pick(["a, b, a", "a, a", "max_threads, max_threads, max_block_size", "key, index", "a", "a, b, c, d, e"]),
        lambda: "MODIFY SETTING " + r.pick(["a = 1, b = 'x', a = 2", "ttl_only_drop_parts = 1", "storage_policy = 'it\\'s'", "a = -1, b = 1.5, c = NULL",
                                            "index_granularity = 8192, a = [1, 2]", "key = 'value'"]),
        lambda: "DROP COLUMN " + ie + nc(),
        lambda: "RENAME COLUMN " + ie + nc() + " TO " + nc(),
        lambda: "ADD COLUMN " + ine + nc() + " " + data_type(r, ddl=True) + " AFTER " + r.pick(["n.x", "AddedNested1.B", "a", "`a b`"]),
        lambda: "CLEAR COLUMN " + r.pick(["key", "c", "value"]) + " IN PARTITION " + r.pick(["ALL", "tuple()", "'2020-01-01'", "(1, 'a')"]),
        lambda: "COMMENT COLUMN " + ie + r.pick(["key", "`a b`", "c"]) + " " + string_lit(r),
        lambda: "MATERIALIZE COLUMN " + c() + " IN PARTITION ID " + r.pick(["'1'", "'202001'", "'it\\'s'"]),
        lambda: "APPLY DELETED MASK IN PARTITION ID " + r.pick(["'1'", "'all'"]),
        lambda: "MODIFY COLUMN " + ie + c() + r.pick([" String", " Nullable(UInt8)", " DateTime"]) + " TTL " + r.pick(["d + INTERVAL 1 DAY", "ts + toIntervalMonth(1)"]),
        lambda: "MODIFY COLUMN " + ie + c() + r.pick([" REMOVE COMMENT", " REMOVE DEFAULT", " REMOVE TTL", " REMOVE CODEC", " REMOVE ALIAS"]),
        lambda: "MODIFY QUERY " + r.pick([lambda: select_with_union(r, 2, simple=True), lambda: "WITH 1 AS w SELECT w, a FROM t",
                                          lambda: "SELECT a, count() FROM t GROUP BY a", lambda: "SELECT 1 INTERSECT SELECT 1"])(),
        lambda: "MOVE PARTITION " + r.pick(["tuple()", "ID '1'", "ALL", "(1, 'a')", "'2020-01-01'"]) + " TO "
                + r.pick(["TABLE `my db`.`my t`", "TABLE t2", "DISK 'it\\'s'", "VOLUME 'cold'", "DISK ''", "TABLE {db:Identifier}.t2"]),
        lambda: "FETCH PARTITION " + r.pick(["tuple()", "ID 'x'", "ALL", "(1, 2)", "202001"]) + " FROM " + r.pick(["'/clickhouse/tables/01-01/t'", "'it\\'s'", "'zk2:/p'"]),
        lambda: "REPLACE PARTITION " + r.pick(["ID 'x'", "ALL", "(1, 2)", "202001", "tuple()"]) + " FROM " + r.pick(["t2", "src", "`my t`"]),
        lambda: "ATTACH PARTITION " + r.pick(["ID 'x'", "ALL", "(1, 2)", "202001", "tuple()"]) + " FROM " + r.pick(["t2", "key", "`my t`", "table"]),
        lambda: "FREEZE PARTITION " + r.pick(["ALL", "tuple()", "(1, 'a')", "ID 'x'"]),
        lambda: "UPDATE " + r.pick(["key = 1, value = value + 1", "a = 1, b = 2, c = 3", "`a b` = 'x'", "arr = [1]", "a = (SELECT 1)", "a = a IN (1, 2)",
                                     "key = key IN (SELECT 1)", "a = if(b, 1, 2)", "a = -a", "a = NULL", "m = map('k', 1)"]) + " WHERE " + expr(r, 3, True),
        lambda: "DELETE WHERE " + r.pick(["1", "a IN (SELECT a FROM t2)", "key = 'x'", "NOT a", "a BETWEEN 1 AND 2", "_part = 'all_1_1_0'"]),
        lambda: "ADD INDEX " + r.pick(["i", "`my idx`", "idx_2"]) + " " + r.pick(INDEX_EXPRS) + " TYPE " + r.pick(INDEX_TYPES)
                + r.pick(["", " GRANULARITY 1", " GRANULARITY 100"]) + r.pick(["", "", " AFTER j", " AFTER key"]),
        lambda: "ADD INDEX " + r.pick(["i", "idx"]) + " TYPE " + r.pick(["minmax", "set(2)"]),           # no expression
        lambda: "ADD INDEX " + r.pick(["i", "idx"]) + " " + r.pick(INDEX_EXPRS),                           # no type
        lambda: "DROP INDEX " + ie + r.pick(["`my idx`", "key", "i"]),
        lambda: "MATERIALIZE INDEX " + r.pick(["i", "`my idx`"]) + r.pick(["", " IN PARTITION tuple()", " IN PARTITION ALL", " IN PARTITION ID 'x'"]),
        lambda: "CLEAR INDEX " + r.pick(["i", "`my idx`"]) + r.pick(["", " IN PARTITION tuple()", " IN PARTITION ALL", " IN PARTITION (1, 2)"]),
        lambda: "ADD PROJECTION " + r.pick(["values", "`my p`", "p1"]) + " (SELECT " + r.pick(PROJ_BODIES) + ")",
        lambda: r.pick(["MATERIALIZE", "CLEAR", "DROP"]) + " PROJECTION " + r.pick(["p", "`my p`"]),
        lambda: "MATERIALIZE PROJECTION p",
        lambda: "ADD CONSTRAINT " + r.pick(["c1", "`my c`"]) + r.pick([" CHECK ", " ASSUME ", " check "]) + expr(r, 3, True),
        lambda: "DROP CONSTRAINT " + r.pick(["c1", "`my c`"]),
        lambda: "MODIFY ORDER BY " + r.pick(["(a, b + 1)", "tuple()", "()", "(a, b, toDate(ts))", "a + 1", "(a)", "(key, value)", "xxHash32(a)"]),
        lambda: "MODIFY SAMPLE BY " + r.pick(["cityHash64(a)", "(a)", "a % 10"]),
        lambda: "MODIFY TTL " + r.pick(["d + INTERVAL 1 DAY TO DISK 'cold', d + INTERVAL 1 YEAR DELETE WHERE a = 1", "d + INTERVAL 1 MONTH GROUP BY a SET b = max(b), c = sum(c)",
                                        "ts + toIntervalDay(x)", "d + INTERVAL 1 DAY DELETE, d + INTERVAL 2 DAY TO VOLUME 'v', d + INTERVAL 3 DAY RECOMPRESS CODEC(ZSTD(9))",
                                        "d + INTERVAL 1 WEEK WHERE b > 0", "d"]),
        lambda: "DROP PART " + r.pick(["'all_1_1_0'", "'202001_1_1_0'", "'it\\'s'"]),
        lambda: r.pick(["DETACH", "ATTACH"]) + " PART " + r.pick(["'all_2_2_0'", "'202001_2_2_1'"]),
        lambda: "DROP DETACHED PARTITION " + partition_expr(r).replace("ID ", ""),
        lambda: "ADD STATISTICS " + ine + r.pick(["key", "a, key", "`a b`"]) + " TYPE " + stat_kinds(r),
        lambda: "MODIFY STATISTICS " + r.pick(["key", "a, b, c"]) + " TYPE " + stat_kinds(r),
        lambda: "MODIFY COLUMN " + c() + " MODIFY SETTING " + r.pick(["a = 1", "a = 'x', b = -1", "max_compress_block_size = 1048576"]),
        lambda: "MODIFY COLUMN " + c() + " RESET SETTING " + r.pick(["a", "a, b, a", "key, value"]),
    ]
    return forms[x % len(forms)]()


def gen_alter(r):
    x = r.below(24)
    if x == 0:
        return r.pick(["ALTER USER ", "alter user "]) + r.pick(USERS + ["IF EXISTS u"]) + r.pick(
            AUTH[1:] + [" RENAME TO v", " DEFAULT ROLE r", " SETTINGS max_threads = 1", " HOST ANY", " DEFAULT ROLE ALL EXCEPT r",
                        " ADD IDENTIFIED WITH plaintext_password BY 'p'", " ADD IDENTIFIED BY 'a', BY 'b'", " RESET AUTHENTICATION METHODS TO NEW",
                        " DROP ALL PROFILES", " DROP ALL SETTINGS", " ADD PROFILE 'p'", " MODIFY SETTING max_threads = 2 MAX 4", " DROP SETTINGS a, b",
                        " VALID UNTIL '2031-01-01'", " GRANTEES u2", " DEFAULT DATABASE db", " ON CLUSTER c IDENTIFIED BY 'p' HOST LOCAL",
                        " IDENTIFIED WITH ldap SERVER 's' HOST NAME 'h' DEFAULT ROLE r1, r2 SETTINGS PROFILE 'p'", " IDENTIFIED WITH kerberos REALM 'R' SETTINGS a = 1",
                        " NOT IDENTIFIED HOST NONE GRANTEES NONE"])
    if x == 1:
        return r.pick(["ALTER ROLE r RENAME TO r2", "ALTER ROLE r SETTINGS max_threads = 1", "ALTER ROLE IF EXISTS r RENAME TO q",
                       "ALTER ROW POLICY p ON t USING 1", "ALTER POLICY p ON t RENAME TO q",
                       "ALTER POLICY p ON db.t FOR SELECT USING a = 1 TO r",
                       "ALTER SETTINGS PROFILE p SETTINGS max_threads = 1", "ALTER PROFILE p RENAME TO q",
                       "ALTER NAMED COLLECTION nc SET a = 1 DELETE b", "ALTER NAMED COLLECTION nc SET a = 1, b = 'x'",
                       "ALTER NAMED COLLECTION nc DELETE a",
                       "ALTER SETTINGS PROFILE IF EXISTS p1, p2 SETTINGS a = 1 MIN 0 MAX 2", "ALTER PROFILE IF EXISTS p ON CLUSTER c ADD SETTINGS b = 2",
                       "ALTER SETTINGS PROFILE p1, p2, p3 TO ALL EXCEPT u", "ALTER PROFILE `my p` DROP ALL SETTINGS", "ALTER SETTINGS PROFILE 'p' RENAME TO 'q'",
                       "ALTER ROLE r1, r2 ON CLUSTER c SETTINGS PROFILE 'p'", "ALTER ROLE `my role` DROP ALL PROFILES", "ALTER ROW POLICY IF EXISTS p ON db.* AS RESTRICTIVE USING a IN (1, 2) TO ALL",
                       "ALTER ROW POLICY p1 ON t1, p2 ON t2 RENAME TO q", "ALTER POLICY `my p` ON `my t` FOR SELECT USING (SELECT 1) TO NONE",
                       "ALTER NAMED COLLECTION IF EXISTS nc ON CLUSTER c SET a = 1 OVERRIDABLE, b = 'x' NOT OVERRIDABLE DELETE c, d",
                       "ALTER NAMED COLLECTION `my nc` SET `key` = -1.5", "ALTER NAMED COLLECTION 'nc' DELETE a, b", "ALTER NAMED COLLECTION key SET key = NULL"])
    s = r.pick(["ALTER TABLE ", "ALTER TABLE ", "ALTER TABLE ", "ALTER TEMPORARY TABLE ", "alter table "]) \
        + r.pick(["t", "db.t", "`my table`", "{db:Identifier}.t", "`my db`.`my t`", "\"t\"", "key", "default.`таблица`"])
    if s.upper().startswith("ALTER TABLE") and r.p(1, 6):
        s += r.pick([" ON CLUSTER c", " ON CLUSTER '{cluster}'", " ON CLUSTER `my cluster`", " on cluster c"])
    n = r.pick([1, 1, 1, 2, 3])
    cmds = [alter_command(r) for _ in range(n)]
    # commands that end in a comma list (or a SELECT) swallow what follows: at most one, and last
    greedy = lambda c: c.startswith(("MODIFY QUERY", "UPDATE", "DELETE", "MODIFY SETTING", "RESET SETTING",
                                     "MODIFY TTL", "MATERIALIZE TTL", "REMOVE", "ADD CONSTRAINT", "ADD INDEX")) \
        or "STATISTICS" in c or "SETTING" in c or " REMOVE " in c or " TTL " in c
    g = [c for c in cmds if greedy(c)]
    cmds = [c for c in cmds if not greedy(c)] + g[:1]
    if len(cmds) > 1 and r.p(1, 6) and not any(" REMOVE " in c for c in cmds):
        s += " " + ", ".join("(" + c + ")" for c in cmds)
    else:
        s += " " + ", ".join(cmds)
    if r.p(1, 16):
        s += r.pick([" FORMAT Null", " FORMAT JSON", " format Null"])
    if r.p(1, 10):
        s += r.pick([" SETTINGS mutations_sync = 2", " SETTINGS alter_sync = 0, replication_alter_partitions_sync = 2", " SETTINGS a = 'x'"])
    return s


# ------------------------------------------------------------------------------------------
# utility statements

def tbl(r):
    return r.pick(["t", "db.t", "`my table`", "t2", "db.events", "`my db`.`my t`", "system.parts", "key", "\"t\""])


def nested_utility(r):
    """a utility statement as the target of EXPLAIN AST (SHOW statements: only those whose node kind the goldens establish —
    checks/c04.py recognises the known SHOW ROLES / USERS / ... finding by the first word of the whole statement)"""
    s = gen_utility(Rng(r.next()), nested=True)
    if s[:4].upper() == "SHOW":
        s = r.pick(["SHOW TABLES", "SHOW CREATE TABLE t", "SHOW DATABASES", "SHOW TABLES FROM db LIKE 'a%'", "SHOW CREATE DATABASE db", "SHOW COLUMNS FROM t",
                    "SHOW DICTIONARIES", "SHOW CREATE VIEW v", "SHOW CREATE DICTIONARY d", "SHOW SETTINGS LIKE 'max%'", "SHOW FUNCTIONS", "SHOW GRANTS", "SHOW PRIVILEGES"])
    return s


def explain_stmt(r, inner=False):
    """inner: for use as a FROM subquery — a SELECT without tail is explained (the statements whose parser
    skips to the end of the input would swallow the closing parenthesis)"""
    kind = r.pick(["", "", "AST ", "AST ", "AST ", "SYNTAX ", "PLAN ", "PIPELINE ", "ESTIMATE ", "QUERY TREE ", "ast ", "Syntax ", "query tree "])
    opts = ""
    if kind in ("", "PLAN ") and r.p(1, 3):
        opts = r.pick(["header = 1 ", "header = 1, actions = 1 ", "json = 1 ", "indexes = 1 ", "description = 0 ", "optimize = 0 ",
                       "header = 1, indexes = 1, json = 1 ", "sorting = 1 ", "projections = 1 ", "keep_logical_steps = 1 ", "distributed = 1 "])
    elif kind == "PIPELINE " and r.p(1, 3):
        opts = r.pick(["graph = 1 ", "header = 1 ", "compact = 0 ", "graph = 1, compact = 0 "])
    elif kind.upper() == "QUERY TREE " and r.p(1, 3):
        opts = r.pick(["run_passes = 0 ", "dump_ast = 1 ", "dump_passes = 1, passes = 2 ", "dump_tree = 0 "])
    elif kind.upper() == "SYNTAX " and r.p(1, 3):
        opts = r.pick(["oneline = 1 ", "run_query_tree_passes = 1 "])
    elif kind.upper() == "AST " and r.p(1, 8):
        opts = r.pick(["graph = 1 ", "optimize = 1 "])
    x = r.below(20)
    if kind.upper() == "AST " and x < 10 and not inner:
        inner = r.pick([
            lambda: "DESCRIBE TABLE " + r.pick(["numbers(1)", "t", "remote('h', db.t)", "file('a.csv', 'CSV', 'x UInt8')", "(SELECT 1)"]),
            lambda: "BACKUP TABLE " + tbl(r) + " TO " + r.pick(["Disk('backups', '1.zip')", "File('/p')", "S3('u', 'k', 's')"]),
            lambda: "RESTORE TABLE " + tbl(r) + " FROM Disk('backups', '1.zip')",
            lambda: "BACKUP DATABASE db TO Disk('b', 'x')",
            lambda: gen_insert(Rng(r.next())),
            lambda: gen_create(Rng(r.next())),
            lambda: gen_alter(Rng(r.next())),
            lambda: nested_utility(r),
            lambda: r.pick(["SHOW TABLES", "DROP TABLE t", "SYSTEM FLUSH LOGS", "OPTIMIZE TABLE t FINAL", "USE db",
                            "SET a = 1", "TRUNCATE TABLE t", "EXISTS TABLE t", "SHOW CREATE TABLE t",
                            "RENAME TABLE a TO b", "GRANT SELECT ON t TO u", "KILL QUERY WHERE 1",
                            "CHECK TABLE t", "DETACH TABLE t", "EXPLAIN SELECT 1", "EXPLAIN AST SELECT 1"]),
        ])()
        return "EXPLAIN AST " + opts + inner
    if x < 14:
        body = select_core(r, 1, simple=not r.p(1, 3))
    elif x < 17:
        body = select_with_union(r, 1, simple=True)
    elif x == 17:
        body = "(" + select_core(r, 1, True) + ")"
    else:
        body = gen_setop(Rng(r.next())) if not inner else select_with_union(r, 1, simple=True)
        return "EXPLAIN " + kind + opts + body
    t = select_tail(r, outfile=not STATE["bare"] and x < 14) if not inner else ""
    return "EXPLAIN " + kind + opts + body + (" " + t if t else "")


SYSTEM_CMDS = [
    "FLUSH LOGS", "RELOAD DICTIONARIES", "RELOAD DICTIONARY db.d", "DROP DNS CACHE", "DROP MARK CACHE",
    "DROP UNCOMPRESSED CACHE", "STOP MERGES", "STOP MERGES db.t", "START MERGES t", "STOP TTL MERGES",
    "STOP FETCHES t", "STOP REPLICATED SENDS", "SYNC REPLICA db.t", "SYNC REPLICA t STRICT", "RESTART REPLICA t",
    "RESTART REPLICAS", "FLUSH DISTRIBUTED db.t", "STOP DISTRIBUTED SENDS t", "RELOAD CONFIG", "SHUTDOWN", "KILL",
    "FLUSH LOGS ON CLUSTER c", "WAIT LOADING PARTS t", "ENABLE FAILPOINT fp", "SYNC FILE CACHE", "RELOAD FUNCTIONS",
    "DROP QUERY CACHE", "STOP MOVES", "START FETCHES", "START REPLICATION QUEUES t", "DROP COMPILED EXPRESSION CACHE",
    # SYNC REPLICA modes, with and without database / cluster
    "SYNC REPLICA t LIGHTWEIGHT", "SYNC REPLICA t PULL", "SYNC REPLICA db.t",
    "SYNC REPLICA ON CLUSTER c t", "SYNC REPLICA t strict", "SYNC REPLICA `my table` PULL",
    "SYNC REPLICA t",
    "RELOAD DICTIONARY d", "RELOAD DICTIONARY ON CLUSTER c db.d", "RELOAD DICTIONARY `my d`",
    "RELOAD MODEL m", "RELOAD MODELS", "RELOAD EMBEDDED DICTIONARIES", "RELOAD SYMBOLS", "RELOAD ASYNCHRONOUS METRICS",
    "RELOAD USERS", "FLUSH ASYNC INSERT QUEUE", "FLUSH DISTRIBUTED t", "FLUSH DISTRIBUTED ON CLUSTER c db.t", "FLUSH DISTRIBUTED db.t SETTINGS flush_on_detach = 1",
    "DROP FILESYSTEM CACHE", "DROP SCHEMA CACHE", "DROP SCHEMA CACHE FOR S3", "DROP SCHEMA CACHE FOR File", "DROP MMAP CACHE", "DROP S3 CLIENT CACHE",
    "DROP INDEX MARK CACHE", "DROP INDEX UNCOMPRESSED CACHE", "DROP PRIMARY INDEX CACHE", "DROP FORMAT SCHEMA CACHE", "DROP FORMAT SCHEMA CACHE FOR Protobuf",
    "DROP DISTRIBUTED CACHE", "DROP CONNECTIONS CACHE", "DROP PAGE CACHE", "DROP QUERY RESULT CACHE",
    "STOP TTL MERGES t", "START TTL MERGES", "STOP MOVES db.t", "START MOVES t", "STOP FETCHES", "START FETCHES db.t", "STOP REPLICATED SENDS t",
    "START REPLICATED SENDS", "STOP REPLICATION QUEUES", "START REPLICATION QUEUES db.t", "STOP DISTRIBUTED SENDS db.t", "START DISTRIBUTED SENDS t",
    "STOP PULLING REPLICATION LOG t", "START PULLING REPLICATION LOG", "STOP CLEANUP t", "START CLEANUP", "STOP MERGES ON CLUSTER c db.t",
    "STOP LISTEN TCP", "START LISTEN HTTP", "STOP LISTEN MYSQL", "ENABLE FAILPOINT replicated_merge_tree_commit_zk_fail",
    "DISABLE FAILPOINT fp", "DISABLE FAILPOINT dummy_failpoint", "RESTORE REPLICA t", "RESTORE REPLICA db.t",
    "RESTART REPLICA db.t", "LOAD PRIMARY KEY t", "LOAD PRIMARY KEY db.t", "UNLOAD PRIMARY KEY", "UNLOAD PRIMARY KEY t", "JEMALLOC PURGE", "JEMALLOC ENABLE PROFILE",
    "FLUSH LOGS", "DROP DNS CACHE ON CLUSTER c", "SYNC FILESYSTEM CACHE", "STOP THREAD FUZZER",
    "START THREAD FUZZER", "RELOAD CONFIG ON CLUSTER c", "STOP MERGES `my table`", "SUSPEND",
    "FLUSH DISTRIBUTED `my db`.`my t`", "RELOAD DICTIONARY db.d SETTINGS a = 1", "STOP DISTRIBUTED SENDS db.t SETTINGS a = 1", "WAIT LOADING PARTS db.t",
]


def gen_utility(r, nested=False):
    x = r.below(70)
    like = lambda: r.pick(["", "", " LIKE '%x%'", " NOT LIKE 'a'", " ILIKE 'A%'", " NOT ILIKE '%'", " LIKE 'it\\'s'", " like 'a_b'"])
    oc = r.pick(["", "", "", " ON CLUSTER c", " ON CLUSTER '{cluster}'"])
    ie = r.pick(["", "", "IF EXISTS "])
    fmt = lambda: r.pick(["", "", " FORMAT " + r.pick(FORMATS)])
    if x < 8 and not nested:
        return explain_stmt(r)
    if x < 10 and not nested:
        return "SELECT * FROM (" + explain_stmt(r, inner=True) + ")" \
            + r.pick(["", " WHERE explain LIKE '%x%'", " LIMIT 5", " AS e", " e ORDER BY 1"])
    if x == 10:
        # (EXPLAIN CURRENT TRANSACTION is valid ClickHouse, but the parser rejects it: TRANSACTION is a keyword token there)
        return r.pick(["SELECT count() FROM (EXPLAIN PLAN header = 1 SELECT 1)", "SELECT explain FROM (EXPLAIN SYNTAX SELECT 1) AS e",
                       "SELECT * FROM (EXPLAIN AST SELECT 1) WHERE explain != ''", "SELECT (EXPLAIN SELECT 1)", "SELECT ((EXPLAIN SYNTAX SELECT 1)) AS e",
                       "SELECT * FROM (EXPLAIN PIPELINE graph = 1 SELECT sum(x) FROM t GROUP BY a) AS p", "SELECT * FROM (EXPLAIN header = 1, actions = 1 SELECT 1)",
                       "SELECT * FROM (EXPLAIN QUERY TREE run_passes = 0 SELECT 1) e", "SELECT * FROM (EXPLAIN ESTIMATE SELECT * FROM t)", "EXPLAIN AST EXPLAIN SELECT 1",
                       "EXPLAIN SYNTAX EXPLAIN AST SELECT 1", "SELECT * FROM (EXPLAIN json = 1, description = 0 SELECT 1) FORMAT TSVRaw"])
    if x < 18:
        return r.pick([
            lambda: "SHOW TABLES" + r.pick(["", " FROM db", " FROM `my db`"]) + like() + r.pick(["", " LIMIT 3", " LIMIT 1 + 1"]) + fmt(),
            lambda: "SHOW TEMPORARY TABLES" + like(),
            lambda: "SHOW DATABASES" + like() + r.pick(["", " LIMIT 2"]) + fmt(),
            lambda: "SHOW DICTIONARIES" + r.pick(["", " FROM db"]) + like() + fmt(),
            lambda: "SHOW CREATE " + r.pick(["TABLE ", "", "VIEW ", "DICTIONARY ", "TEMPORARY TABLE ", "table "]) + tbl(r) + fmt(),
            lambda: "SHOW CREATE DATABASE " + r.pick(["db", "`my db`"]) + fmt(),
            lambda: "SHOW CREATE " + r.pick(["USER u", "ROLE r", "QUOTA q", "ROW POLICY p ON t", "SETTINGS PROFILE p", "USER u1, u2", "USER u@'%'",
                                             "ROLE r1, r2", "ROLE r1, r2, r3", "QUOTA `my q`", "POLICY p ON db.t", "ROW POLICY p ON t, q ON t2", "PROFILE p",
                                             "PROFILE p1, p2", "SETTINGS PROFILE p1, p2, p3", "USER CURRENT_USER", "ROLE 'r'", "ROLE r@h", "QUOTA CURRENT"]) + fmt(),
            lambda: "SHOW " + r.pick(["", "FULL ", "FULL "]) + r.pick(["COLUMNS", "FIELDS", "columns"]) + " FROM t" \
                    + r.pick(["", " FROM db"]) + like() + r.pick(["", " LIMIT 5"]) + fmt(),
            lambda: "SHOW " + r.pick(["INDEX", "INDEXES", "KEYS", "INDICES", "EXTENDED INDEX", "INDEX"]) + " FROM " \
                    + r.pick(["t", "db.t", "t FROM db", "`my t`"]) + r.pick(["", " WHERE key_name = 'x'"]) + fmt(),
            lambda: "SHOW " + r.pick(["PROCESSLIST", "GRANTS", "GRANTS FOR u", "USERS", "ROLES", "PROFILES", "POLICIES",
                                      "QUOTAS", "QUOTA", "ACCESS", "CLUSTERS", "ENGINES", "FUNCTIONS", "MERGES",
                                      "FUNCTIONS LIKE 'a%'", "GRANTS FOR u1, u2", "GRANTS FOR CURRENT_USER", "GRANTS FOR ALL",
                                      "CLUSTERS LIKE 'c%'", "ENGINES"]) + fmt(),
            lambda: "SHOW " + r.pick(["", "CHANGED "]) + "SETTINGS " + r.pick(["LIKE 'max%'", "ILIKE '%x%'", "LIKE 'it\\'s'"]) + fmt(),
            lambda: "SHOW TABLE " + tbl(r) + fmt(),
            lambda: "SHOW DATABASE " + r.pick(["db", "`my db`"]) + fmt(),
            lambda: "SHOW TABLES FORMAT " + r.pick(FORMATS),
            lambda: "SHOW CREATE TABLE t FORMAT TSVRaw",
            lambda: "SHOW TABLES WHERE " + r.pick(["name = 'a'", "name LIKE 'x%' AND engine = 'Memory'", "1"]) + r.pick(["", " LIMIT 1"]),
            lambda: "SHOW CREATE " + r.pick(["TABLE ", "VIEW ", "DICTIONARY ", "DATABASE ", ""]) + r.pick(["t", "db.t", "`my t`"]) + " FORMAT " + r.pick(FORMATS) + " SETTINGS a = 1",
            lambda: "SHOW CREATE " + r.pick(["TABLE ", "VIEW ", "DICTIONARY "]) + r.pick(["t", "db.t"]) + " SETTINGS show_table_uuid_in_table_create_query_if_not_nil = 1",
            lambda: "SHOW " + r.pick(["TABLES", "DATABASES", "DICTIONARIES"]) + " SETTINGS a = 1",
            lambda: "show tables from db like 'a' limit 1",
        ])()
    if x < 22:
        what = r.pick(["t", "db.t", "TABLE t", "TABLE db.t", "(SELECT 1, 2)", "TABLE (SELECT a FROM t)", "numbers(10)",
                       "TABLE remote('h', db.t)", "TABLE file('a.csv', 'CSV', 'x UInt8')", "TABLE s3('u', 'CSV')",
                       "url('http://h/x', CSV, 'a UInt8')", "TABLE numbers(1, 2)", "TABLE merge('db', '^t')",
                       "`my table`", "system.one", "TABLE `my db`.`my t`", "(SELECT 1 UNION ALL SELECT 2)", "(SELECT * FROM t)",
                       "format(JSONEachRow, '{\"a\": 1}')", "TABLE view(SELECT 1)", "key", "(WITH 1 AS x SELECT x)", "mysql('h', 'd', 't', 'u', 'p', SETTINGS a = 1)",
                       "kql('T | project a')", "TABLE db.key"])
        return r.pick(["DESCRIBE ", "DESC ", "DESCRIBE ", "describe ", "DESC "]) + what + r.pick(
            ["", "", " FORMAT JSON", " SETTINGS describe_compact_output = 1", " FORMAT Null", " FORMAT TSV SETTINGS describe_include_subcolumns = 1", ""])
    if x < 24:
        return r.pick(["USE db", "USE DATABASE db", "USE `my db`", "SET max_threads = 1", "SET a = 1, b = 'x'",
                       "SET param_p = 1", "SET DEFAULT ROLE r TO u", "SET DEFAULT ROLE ALL TO u1, u2",
                       "SET TRANSACTION SNAPSHOT 1", "SET allow_x = true", "SET a = [1, 2]", "SET a = (1, 2)",
                       "SET a = -1", "SET a = 1.5", "SET a = DEFAULT", "SET a = NULL", "SET a = 'x'",
                       "BEGIN TRANSACTION", "COMMIT", "ROLLBACK", "BEGIN", "USE default", "USE database", "USE {db:Identifier}", "USE DATABASE `my db`",
                       "SET param_s = 'it\\'s'", "SET a = 1 + 1", "SET a = -inf", "SET a = 18446744073709551615", "SET a = [[1, -2], [NULL]]", "SET a = ((1, 'x'), NULL)",
                       "SET limit = 10, offset = 5", "SET a", "SET a, b = 1", "SET DEFAULT ROLE NONE TO u", "SET DEFAULT ROLE ALL EXCEPT r TO u",
                       "SET TRANSACTION SNAPSHOT 18446744073709551615", "SET TRANSACTION SNAPSHOT 0", "set max_threads = 1", "begin transaction", "commit", "rollback",
                       "SET a = 'tab\\t', b = 'nl\\n'", "SET a = toUInt8(1)", "SET profile = 'default'", "SET a = true, b = false, c = NULL"])
    if x < 28:
        return r.pick(["SYSTEM ", "SYSTEM ", "system "]) + r.pick(SYSTEM_CMDS)
    if x < 31:
        s = r.pick(["OPTIMIZE TABLE ", "optimize table "]) + tbl(r) + r.pick(["", "", " ON CLUSTER c"])
        s += r.pick(["", "", " PARTITION 1", " PARTITION ID '1'", " PARTITION tuple()", " PARTITION '2020-01-01'", " PARTITION ALL", " PARTITION (1, 'a')",
                     " PARTITION ID 'it\\'s'", " PARTITION toYYYYMM(today())", " PARTITION -1", " PARTITION ID ''", " PARTITION {p:String}"])
        s += r.pick(["", " FINAL", " FINAL DEDUPLICATE", " DEDUPLICATE", " FINAL CLEANUP", " FORCE", " FINAL CLEANUP DEDUPLICATE", " CLEANUP", " final"])
        return s + r.pick(["", "", " SETTINGS optimize_throw_if_noop = 1", " SETTINGS a = 1, b = 'x'"])
    if x < 33:
        return r.pick(["TRUNCATE TABLE " + ie + tbl(r) + oc, "TRUNCATE " + tbl(r), "TRUNCATE TEMPORARY TABLE t",
                       "TRUNCATE DATABASE db", "TRUNCATE TABLE t SETTINGS a = 1", "TRUNCATE DATABASE IF EXISTS `my db`" + oc, "TRUNCATE TABLE db.t" + oc + " SETTINGS a = 1, b = 2",
                       "TRUNCATE DATABASE db SETTINGS a = 1", "truncate table t", "TRUNCATE " + ie + "db.t"])
    if x < 36:
        return r.pick(["RENAME TABLE a TO b", "RENAME TABLE a TO b, c TO d", "RENAME TABLE db.a TO db.b ON CLUSTER c",
                       "RENAME DATABASE a TO b", "RENAME DICTIONARY a TO b", "EXCHANGE TABLES a AND b",
                       "EXCHANGE TABLES db.a AND db.b ON CLUSTER c", "EXCHANGE DICTIONARIES a AND b",
                       "RENAME TABLE `x y` TO `z w`",
                       "RENAME TABLE IF EXISTS a TO b", "RENAME TABLE a TO b SETTINGS a = 1", "RENAME DATABASE a TO b ON CLUSTER c", "RENAME DATABASE a TO b SETTINGS a = 1",
                       "RENAME DICTIONARY db.a TO db.b, c TO d", "RENAME TABLE a TO b, db.c TO db2.d, `e f` TO g ON CLUSTER c SETTINGS a = 1", "RENAME DICTIONARY IF EXISTS a TO b",
                       "EXCHANGE TABLES a AND db.b", "EXCHANGE TABLES `a b` AND `c d`", "EXCHANGE DICTIONARIES db.a AND db.b ON CLUSTER '{cluster}'", "exchange tables a and b",
                       "RENAME TABLE {db:Identifier}.a TO {db:Identifier}.b", "RENAME TABLE key TO value", "EXCHANGE TABLES key AND table", "rename table a to b",
                       "RENAME DATABASE `my db` TO `your db`", "RENAME DATABASE a TO b, c TO d"])
    if x < 40:
        priv = r.pick(["SELECT", "SELECT(a, b), INSERT", "ALL", "ALTER UPDATE, ALTER DELETE", "CREATE TEMPORARY TABLE",
                       "SHOW TABLES, dictGet", "INSERT", "DROP TABLE", "CURRENT GRANTS", "SELECT(`a b`, key)", "ALL PRIVILEGES", "USAGE",
                       "ALTER TABLE, ALTER VIEW", "SYSTEM RELOAD DICTIONARY", "SOURCES", "CREATE USER, ALTER USER, DROP USER", "displaySecretsInShowAndSelect",
                       "KILL QUERY", "INTROSPECTION", "CLUSTER", "OPTIMIZE"])
        on = r.pick(["db.t", "db.*", "*.*", "t", "`my db`.`my t`", "*", "db.t*", "db.`t*`", "{db:Identifier}.*", "system.*"])
        y = r.below(10)
        if y == 0:
            return "GRANT " + r.pick(["r", "r1, r2", "`my role`"]) + " TO " + r.pick(["u", "u1, u2", "CURRENT_USER"]) + r.pick(["", " WITH ADMIN OPTION", " WITH REPLACE OPTION"])
        if y == 1:
            return "REVOKE " + r.pick(["r FROM u", "ADMIN OPTION FOR r FROM u", "GRANT OPTION FOR SELECT ON t FROM u",
                                       "ON CLUSTER c SELECT ON t FROM ALL EXCEPT u", "r1, r2 FROM u1, u2", "ALL ON *.* FROM ALL", "ALL PRIVILEGES ON db.* FROM CURRENT_USER"])
        if y < 6:
            return r.pick(["GRANT ", "grant "]) + r.pick(["", "", "ON CLUSTER c "]) + priv + " ON " + on + " TO " + r.pick(["u", "u, r", "r", "u@'%'", "`my user`", "CURRENT_USER", "ALL EXCEPT u"]) \
                + r.pick(["", "", " WITH GRANT OPTION", " WITH REPLACE OPTION", " WITH GRANT OPTION WITH REPLACE OPTION"])
        if y == 6:
            return "GRANT CURRENT GRANTS" + r.pick(["", "(SELECT ON db.*)", " (ALL ON *.*)"]) + " TO u"
        return "REVOKE " + priv.replace("CURRENT GRANTS", "ALL") + " ON " + on + " FROM " + r.pick(["u", "u1, u2", "ALL", "ALL EXCEPT u"])
    if x < 42:
        return r.pick(["KILL QUERY WHERE query_id = 'x'", "KILL QUERY WHERE 1 ASYNC", "KILL QUERY WHERE 1 TEST",
                       "KILL QUERY WHERE user = 'u' SYNC", "KILL MUTATION WHERE database = 'db' AND table = 't'",
                       "KILL QUERY WHERE query_id IN ('a', 'b') FORMAT Null",
                       "KILL QUERY WHERE " + expr(r, 3, False),
                       "KILL MUTATION WHERE mutation_id = 'm' SYNC", "KILL QUERY WHERE 1 SYNC FORMAT JSON", "KILL QUERY WHERE 1 FORMAT TSV SETTINGS a = 1",
                       "KILL MUTATION WHERE 1 TEST FORMAT Null", "KILL QUERY WHERE 1 SETTINGS a = 1", "KILL QUERY WHERE elapsed > 10 ASYNC SETTINGS a = 1, b = 2", "kill query where 1",
                       "KILL MUTATION WHERE (database, table) IN (('db', 't'))", "KILL QUERY WHERE query_id LIKE 'x%'", "KILL QUERY WHERE 1 SYNC TEST",
                       "KILL QUERY WHERE NOT (user = 'u')", "KILL QUERY WHERE elapsed < 10", "KILL QUERY WHERE elapsed <= 10", "KILL QUERY WHERE elapsed >= 10", "KILL QUERY WHERE a <> b",
                       "KILL QUERY WHERE a == b", "KILL QUERY WHERE user", "KILL QUERY WHERE a AND b OR c", "KILL QUERY WHERE a + 1", "KILL QUERY WHERE a <=> b", "KILL QUERY WHERE startsWith(query, 'x')",
                       "KILL QUERY WHERE query_id NOT IN ('a')", "KILL QUERY WHERE a BETWEEN 1 AND 2", "KILL QUERY WHERE x IS NULL", "KILL QUERY WHERE a || b = 'c'", "KILL MUTATION WHERE a DIV 2", "KILL QUERY WHERE 0"])
    if x < 45:
        dest = r.pick(["Disk('backups', '1.zip')", "File('/p')", "S3('u', 'k', 's')", "Disk('b', 'x')", "Null", "Disk('d', 'it\\'s.zip')",
                       "AzureBlobStorage('c', 'cont', 'p')", "Disk('b', concat('x', '.zip'))", "S3(named_coll, 'f')", "File('f.tar.gz')"])
        return r.pick([
            lambda: "BACKUP TABLE " + tbl(r) + " TO " + dest,
            lambda: "BACKUP DATABASE db TO " + dest,
            lambda: "BACKUP ALL TO " + dest + " SETTINGS async = 1",
            lambda: "BACKUP DICTIONARY d TO " + dest,
            lambda: "BACKUP TABLE t TO " + dest + " SETTINGS base_backup = Disk('b', 'y')",
            lambda: "RESTORE TABLE " + tbl(r) + " FROM " + dest,
            lambda: "RESTORE ALL FROM " + dest + " SETTINGS allow_non_empty_tables = 1",
            lambda: "RESTORE DATABASE db FROM " + dest,
            lambda: "RESTORE DICTIONARY d FROM " + dest,
            lambda: "BACKUP TABLE " + tbl(r) + " TO " + dest + " FORMAT " + r.pick(["Null", "JSON"]),
            lambda: "RESTORE TABLE " + tbl(r) + " FROM " + dest + " FORMAT " + r.pick(["Null", "TSV"]),
            lambda: "BACKUP DATABASE `my db` TO " + dest + " SETTINGS compression_method = 'zstd', password = 'p' FORMAT Null",
            lambda: "RESTORE ALL FROM " + dest + " SETTINGS structure_only = true FORMAT Null",
            lambda: "BACKUP TABLE t",
            lambda: "RESTORE DATABASE db",
            lambda: "backup table t to " + dest,
        ])()
    if x < 47:
        return "CHECK TABLE " + tbl(r) + r.pick(["", " PARTITION 1", " PART 'x'", " FORMAT JSON",
                                                 " SETTINGS check_query_single_value_result = 0", " PARTITION tuple()", " PARTITION '2020-01-01' FORMAT Null",
                                                 " PART 'all_1_1_0' SETTINGS a = 1", " FORMAT TSV SETTINGS a = 1", " PARTITION (1, 'a')", " PARTITION ALL"]) \
            if r.p(9, 10) else r.pick(["CHECK t", "check table t", "CHECK db.t PARTITION 1"])
    if x < 50:
        return r.pick(["DETACH TABLE " + tbl(r), "DETACH DICTIONARY d", "DETACH DICTIONARY db.d", "DETACH DATABASE db", "DETACH TABLE t",
                       "DETACH t", "DETACH db.t", "DETACH DATABASE `my db`", "DETACH DICTIONARY `my d`", "detach table t", "DETACH TABLE key"]) \
            if r.p(1, 2) else gen_attach(r)
    if x < 55:
        return r.pick([
            lambda: "DROP TABLE " + ie + tbl(r) + oc + r.pick(["", " SYNC", " NO DELAY", " sync"]),
            lambda: "DROP TABLE t1, t2",
            lambda: "DROP TEMPORARY TABLE t",
            lambda: "DROP TABLE IF EMPTY t",
            lambda: "DROP VIEW " + ie + r.pick(["v", "db.v"]),
            lambda: "DROP DICTIONARY " + ie + r.pick(["d", "db.d", "`my d`"]) + r.pick(["", " SYNC"]),
            lambda: "DROP DATABASE " + ie + r.pick(["db", "`my db`", "{db:Identifier}"]) + oc + r.pick(["", " SYNC"]),
            lambda: "DROP FUNCTION " + ie + r.pick(["f", "`my f`"]) + oc,
            lambda: "DROP USER " + ie + r.pick(["u", "u1, u2", "u@h", "u@'%'", "u1@h1, u2@'h2'", "`my user`", "u @ localhost"]),
            lambda: "DROP ROLE " + ie + r.pick(["r", "r1, r2"]) + oc,
            lambda: "DROP " + r.pick(["ROW POLICY", "POLICY"]) + " " + ie + r.pick(["p ON ", "p1, p2 ON "]) + r.pick(["t", "db.t", "db.*"]) + oc,
            lambda: "DROP QUOTA " + ie + r.pick(["q", "q1, q2", "`my q`"]) + oc,
            lambda: "DROP " + r.pick(["SETTINGS PROFILE", "PROFILE"]) + " " + ie + r.pick(["p", "p1, p2", "p1, p2, p3"]) + oc,
            lambda: "DROP INDEX " + ie + r.pick(["i", "`my idx`"]) + " ON " + r.pick(["t", "db.t"]),
            lambda: r.pick(["DROP NAMED COLLECTION nc", "DROP RESOURCE res", "DROP WORKLOAD w", "DROP TABLE t SETTINGS a = 1",
                            "DROP NAMED COLLECTION IF EXISTS nc", "DROP NAMED COLLECTION IF EXISTS `my nc` ON CLUSTER c", "DROP RESOURCE IF EXISTS r", "DROP WORKLOAD IF EXISTS `w`",
                            "DROP NAMED COLLECTION 'nc'"]),
            lambda: "DROP TABLE " + ie + r.pick(["t1, db.t2", "t1, t2, t3", "db.t1, db.t2"]) + r.pick(["", " SYNC", oc]),
            lambda: "DROP TABLE " + ie + tbl(r) + r.pick([" FORMAT Null", " SYNC FORMAT Null", " FORMAT Null SYNC", " FORMAT JSON", " NO DELAY SETTINGS a = 1", " SYNC SETTINGS a = 1, b = 2"]),
            lambda: "DROP DATABASE " + ie + "db FORMAT Null",
            lambda: "DROP VIEW " + ie + "db.v" + oc + " SYNC",
            lambda: "DROP TEMPORARY TABLE IF EXISTS t SYNC",
            lambda: "drop table if exists t",
        ])()
    if x < 57:
        return r.pick(["EXISTS t", "EXISTS TABLE db.t", "EXISTS TEMPORARY TABLE t", "EXISTS VIEW v", "EXISTS DICTIONARY d",
                       "EXISTS DATABASE db", "UNDROP TABLE t", "UNDROP TABLE db.t",
                       "EXISTS `my t`", "EXISTS db.t", "EXISTS VIEW db.v", "EXISTS DICTIONARY db.d", "EXISTS DATABASE `my db`", "EXISTS TABLE t SETTINGS a = 1",
                       "EXISTS DATABASE db SETTINGS a = 1", "exists table t", "EXISTS TABLE key",
                       "UNDROP TABLE t ON CLUSTER c", "UNDROP TABLE db.t UUID '00000000-0000-0000-0000-000000000001'", "UNDROP TABLE t FORMAT Null",
                       "UNDROP TABLE db.t ON CLUSTER c UUID '00000000-0000-0000-0000-000000000001' FORMAT JSON", "UNDROP t", "undrop table t"])
    if x < 59:
        return r.pick([
            lambda: "UPDATE " + tbl(r) + " SET " + r.pick(COLS) + " = " + expr(r, 3, False) + " WHERE " + expr(r, 3, False),
            lambda: "DELETE FROM " + tbl(r) + r.pick(["", " ON CLUSTER c"]) + " WHERE " + expr(r, 3, True),
            lambda: "DELETE FROM t IN PARTITION 1 WHERE a",
            lambda: "UPDATE " + tbl(r) + " SET a = 1, b = b + 1, key = 'x' WHERE " + expr(r, 3, True),
            lambda: "DELETE FROM " + tbl(r) + " WHERE " + expr(r, 3, False) + " SETTINGS " + r.pick(["a = 1", "lightweight_deletes_sync = 2, b = 'x'"]),
            lambda: "DELETE FROM db.t ON CLUSTER c IN PARTITION " + r.pick(["tuple()", "'2020-01-01'", "(1, 'a')", "202001"]) + " WHERE a IN (SELECT 1)",
            lambda: "delete from t where 1",
        ])()
    if x < 62:
        # PARALLEL WITH chains
        a = lambda: r.pick(["DROP TABLE IF EXISTS t1", "DROP TABLE t2 SYNC", "CREATE TABLE t3 (a UInt8) ENGINE = Memory", "INSERT INTO t VALUES (1)",
                            "TRUNCATE TABLE t", "DROP DATABASE db", "DROP TABLE db.t", "SELECT 1", "INSERT INTO t SELECT 1", "DROP TEMPORARY TABLE tt",
                            "CREATE TABLE t4 AS t", "ALTER TABLE t DROP COLUMN c", "OPTIMIZE TABLE t FINAL", "RENAME TABLE a TO b", "DROP VIEW v", "SET a = 1"])
        return " PARALLEL WITH ".join(a() for _ in range(2 + r.below(3)))
    if x < 64:
        return "FROM " + tbl(r) + " SELECT " + col(r) + r.pick(["", " WHERE a > 1", " LIMIT 1", " GROUP BY a HAVING count() > 1 ORDER BY a LIMIT 2 SETTINGS max_threads = 1"])
    if x < 66:
        return r.pick(["SHOW PRIVILEGES", "SHOW GRANTS FOR u FORMAT TSV", "SHOW GRANTS FORMAT JSON", "SHOW CREATE QUOTA q FORMAT JSON",
                       "SHOW CREATE ROLE r1, r2 FORMAT TSV", "SHOW CREATE SETTINGS PROFILE p1, p2 FORMAT TSV", "SHOW CREATE PROFILE p FORMAT Null",
                       "SHOW CREATE ROW POLICY p ON t FORMAT JSON", "SHOW CREATE POLICY p ON db.t FORMAT TSV", "SHOW CREATE USER u1, u2 FORMAT JSON", "SHOW CREATE USER u FORMAT Null",
                       "SHOW CREATE QUOTA `my q`", "SHOW GRANTS FOR u1, u2 WITH IMPLICIT FINAL FORMAT TSV", "SHOW CREATE ROLE r@h, r2 FORMAT JSON"])
    return r.pick(["(SELECT 1)", "((SELECT 1))", "(SELECT 1) UNION ALL (SELECT 2)", "(SELECT 1) UNION (SELECT 2) UNION DISTINCT SELECT 3",
                   "(SELECT 1) INTERSECT (SELECT 2)", "(SELECT 1) EXCEPT ALL SELECT 2", "(SELECT 1 UNION ALL SELECT 2) INTERSECT DISTINCT (SELECT 2)",
                   "(SELECT 1) UNION ALL (SELECT 2) FORMAT TSV", "(SELECT 1) UNION ALL (SELECT 2) SETTINGS max_threads = 1 FORMAT TSV",
                   "(SELECT 1) UNION ALL (SELECT 2) FORMAT TSV SETTINGS max_threads = 1", "(SELECT 1) SETTINGS a = 1", "(SELECT 1) FORMAT Null",
                   "(WITH 1 AS x SELECT x)", "(SELECT 1 AS a) UNION ALL SELECT 2 ORDER BY a", "((SELECT 1) UNION ALL (SELECT 2))",
                   "(SELECT 1) INTERSECT SELECT 1 EXCEPT SELECT 2", "(SELECT a FROM t) EXCEPT DISTINCT (SELECT a FROM t2) INTERSECT ALL (SELECT 1)"])


# ------------------------------------------------------------------------------------------
# --gaps: valid ClickHouse that the CURRENT parser of /repo rejects or mis-parses
#
# With --gaps about 1 statement in 6 is REPLACED by a statement of the same kind that is built from the ordinary productions
# and additionally uses one construct of that class (the decision and the statement depend only on (seed, i), through a
# generator of their own: the ordinary statements of a --gaps run are the statements of the run without the flag).
# A consumer keeps a --gaps statement only if the parser accepts it on its own, so a rejected one costs nothing; as soon
# as a parser change starts accepting a form, the form is exercised by every consumer.

# words that are keyword tokens of the lexer (or words the parser compares) and that ClickHouse takes as an alias WITHOUT `AS`
# (none of ClickHouse's restricted alias words: ALL ANY ARRAY FINAL FORMAT FROM ... UNION USING WHERE WINDOW WITH)
GAP_ALIASES = ["top", "first", "last", "key", "comment", "user", "index", "view", "table", "database", "values", "temporary", "partition",
               "ttl", "cluster", "totals", "rollup", "cube", "columns", "engine", "function", "nulls", "ties", "materialized", "populate",
               "alias", "primary", "modify", "add", "column", "constraint", "default", "freeze", "both", "leading", "trailing", "range",
               "rows", "groups", "current", "optimize", "explain", "date", "timestamp", "type", "name", "role", "policy", "set", "show",
               "system", "use", "query", "row", "id", "uuid", "session", "every", "refresh", "next", "to", "if", "distinct", "exists",
               "extract", "substring", "trim", "cast", "total", "TOP", "First", "LAST", "Key", "COMMENT", "User", "sync", "settings",
               # words that start a statement: the parser begins a NEW statement there (`SELECT a show` parses as two statements)
               "truncate", "rename", "describe", "kill", "grant", "revoke", "watch", "check", "attach", "detach", "drop", "alter", "create",
               "insert", "backup", "restore", "undrop", "begin", "commit", "rollback", "show", "use", "system", "exists"]


def kwcase(r, words):
    """the words in a random letter case (per word: upper, lower, capitalised, as given)"""
    return " ".join(r.pick([w.upper(), w.lower(), w.capitalize(), w]) for w in words.split())


def gap_alias_item(r):
    """a select-list element with an implicit keyword alias"""
    x = r.below(14)
    if x == 0:
        e = "count()"
    elif x == 1:
        e = r.pick(AGGS) + "(" + col(r) + ")"
    elif x == 2:
        e = r.pick(FUNCS1) + "(" + expr(r, 3, False) + ")"
    elif x == 3:
        e = "(" + expr(r, 2, False) + ")"
    elif x == 4:
        e = col(r)
    elif x == 5:
        e = literal(r)
    elif x == 6:
        e = window_func(r, 3)
    elif x == 7:
        e = "CASE WHEN " + col(r) + " THEN " + literal(r) + " ELSE " + col(r) + " END"
    elif x == 8:
        e = col(r) + "::" + r.pick(SIMPLE_TYPES)
    elif x == 9:
        e = r.pick(["max(price)", "arr[1]", "tup.1", "a + b", "a * 2", "NOT a", "-x", "a IS NULL", "a BETWEEN 1 AND 2", "x IN (1, 2)", "(SELECT 1)", "[1, 2]", "(1, 2)",
                    "a ? b : c", "x -> x + 1", "{p:UInt8}", "NULL", "INTERVAL 1 DAY", "CAST(x AS UInt8)", "now()", "a LIKE 'x%'", "m['k']", "a || b"])
    elif x == 10:
        e = "count(" + r.pick(["*", "DISTINCT a", "a"]) + ")" + r.pick(["", " FILTER (WHERE a > 0)"])
    else:
        e = expr(r, 3, False)
    return e + " " + r.pick(GAP_ALIASES)


def gap_select_alias(r):
    """a keyword as implicit alias, especially as the LAST token of the statement"""
    ordinary = lambda: expr(r, 3, False) + r.pick(["", "", " AS " + alias(r), " " + r.pick(["k", "v", "res"])])
    x = r.below(10)
    if x == 0:
        return "SELECT count() total, max(price) " + r.pick(GAP_ALIASES)
    if x < 4:
        # the keyword is the last token of the statement
        items = [ordinary() for _ in range(r.below(3))] + [gap_alias_item(r)]
        return "SELECT " + r.pick(["", "", "DISTINCT ", "ALL "]) + ", ".join(items)
    if x < 6:
        items = [r.pick([ordinary, lambda: gap_alias_item(r)])() for _ in range(1 + r.below(3))]
        if r.p(1, 2):
            items[r.below(len(items))] = gap_alias_item(r)
        else:
            items.append(gap_alias_item(r))
        s = "SELECT " + ", ".join(items) + " " + from_clause(r, 2)
        if r.p(1, 2):
            s += " WHERE " + expr(r, 3, False)
        if r.p(1, 3):
            s += " ORDER BY " + order_elem(r, 2)
        if r.p(1, 3):
            s += " " + limit_clause(r)
        return s
    if x == 6:
        # inside a subquery / CTE / scalar subquery: the keyword stands before `)`
        inner = "SELECT " + gap_alias_item(r) + r.pick(["", " FROM " + r.pick(TABLES)])
        return r.pick(["SELECT * FROM (" + inner + ")", "WITH q AS (" + inner + ") SELECT * FROM q", "SELECT (" + inner + ") AS s",
                       "SELECT a FROM t WHERE a IN (" + inner + ")", "WITH (" + inner + ") AS s SELECT s", "SELECT * FROM view(" + inner + ")",
                       "SELECT arrayMap(x -> (" + inner + "), arr)", "EXPLAIN AST " + inner, "CREATE VIEW v AS " + inner, "INSERT INTO t " + inner])
    if x == 7:
        # a keyword as TABLE alias without AS, as the last token or before a clause
        a = r.pick(GAP_ALIASES)
        return "SELECT " + r.pick(["*", a + ".a", "a"]) + " FROM " + r.pick(TABLES + ["(SELECT 1 AS a)", "numbers(3)"]) + " " + a \
            + r.pick(["", "", " WHERE a = 1", " JOIN t2 " + r.pick(GAP_ALIASES) + " ON 1", " ORDER BY a", " FINAL", " ARRAY JOIN arr " + r.pick(GAP_ALIASES)])
    if x == 8:
        # every element of a list with a keyword alias; before FROM / UNION / tails
        s = "SELECT " + ", ".join(gap_alias_item(r) for _ in range(2 + r.below(3)))
        return s + r.pick(["", " FROM t", " UNION ALL SELECT 1 " + r.pick(GAP_ALIASES), " FORMAT Null", " SETTINGS max_threads = 1", " INTO OUTFILE 'f'",
                           " FROM t GROUP BY a WITH TOTALS", ";", " LIMIT 1", " FROM t WHERE a", " -- c", " /* c */"])
    # WITH / ORDER BY / GROUP BY / LIMIT BY / ARRAY JOIN elements with a keyword alias
    return r.pick(["WITH " + gap_alias_item(r) + " SELECT 1", "WITH 1 " + r.pick(GAP_ALIASES) + " SELECT " + gap_alias_item(r),
                   "SELECT a FROM t ARRAY JOIN arr " + r.pick(GAP_ALIASES), "SELECT a FROM t ARRAY JOIN arr AS x, arrayEnumerate(arr) " + r.pick(GAP_ALIASES),
                   "SELECT " + gap_alias_item(r) + ", " + col(r) + " AS x, " + col(r) + " first",
                   "SELECT 1 AS x, " + col(r) + " " + r.pick(["first", "key", "comment", "user", "top"])])


def gap_frame(r):
    """a window frame (every unit, every kind of bound, offsets that are expressions, any letter case)"""
    off = lambda: r.pick(["1", "2", "10", "0", "1.5", "{p:UInt8}", "(1 + 1)", "x", "f(2)", "INTERVAL 1 DAY", "INTERVAL 1 HOUR", "toIntervalDay(1)", "1e3", "0x10",
                          "18446744073709551615", "-1", "'a'", "NULL", "1 + 1", "x * 2", "INTERVAL '1' SECOND"])
    start = lambda: r.pick(["UNBOUNDED PRECEDING", "CURRENT ROW", off() + " PRECEDING", off() + " FOLLOWING", "UNBOUNDED PRECEDING", off() + " PRECEDING"])
    end = lambda: r.pick(["UNBOUNDED FOLLOWING", "CURRENT ROW", off() + " PRECEDING", off() + " FOLLOWING", "UNBOUNDED FOLLOWING", off() + " FOLLOWING"])
    unit = r.pick(["ROWS", "RANGE", "GROUPS"])
    words = (unit + " BETWEEN \x00 AND \x01") if r.p(2, 3) else (unit + " \x00")
    out = []
    for w in words.split():
        if w == "\x00":
            out.append(" ".join(kwcase(r, p) if p.upper() in ("UNBOUNDED", "PRECEDING", "FOLLOWING", "CURRENT", "ROW") else p for p in start().split()))
        elif w == "\x01":
            out.append(" ".join(kwcase(r, p) if p.upper() in ("UNBOUNDED", "PRECEDING", "FOLLOWING", "CURRENT", "ROW") else p for p in end().split()))
        else:
            out.append(kwcase(r, w))
    return " ".join(out)


def gap_window_spec(r, base=""):
    parts = [base] if base else []
    if r.p(1, 2) and not base:
        parts.append(kwcase(r, "PARTITION BY") + " " + ", ".join(r.pick([col(r), "toDate(ts)", "a % 2", "(a, b)"]) for _ in range(1 + r.below(2))))
    if r.p(3, 4):
        parts.append(kwcase(r, "ORDER BY") + " " + ", ".join(col(r) + r.pick(["", " DESC", " ASC NULLS FIRST", " desc nulls last", " COLLATE 'en'"]) for _ in range(1 + r.below(2))))
    parts.append(gap_frame(r))
    return "(" + " ".join(parts) + ")"


def gap_select_window(r):
    f = lambda: r.pick(["sum(x)", "row_number()", "lagInFrame(x, 1, 0)", "leadInFrame(x)", "lag(x)", "lead(x, 1, 0)", "first_value(y)", "last_value(y)", "nth_value(x, 2)",
                        "count()", "avg(x + 1)", "any(x) IGNORE NULLS", "first_value(x) RESPECT NULLS", "sum(x) FILTER (WHERE a)", "quantile(0.5)(x)", "ntile(4)",
                        "uniq(x, y)", "groupArray(2)(x)", "cume_dist()", "exponentialTimeDecayedSum(10)(v, ts)"])
    x = r.below(6)
    if x < 3:
        items = [f() + " " + kwcase(r, "OVER") + " " + gap_window_spec(r) + r.pick(["", "", " AS w1", " " + r.pick(GAP_ALIASES)]) for _ in range(1 + r.below(2))]
        return "SELECT " + ", ".join(items) + r.pick(["", " FROM t", " FROM t WHERE a", " FROM numbers(10) ORDER BY 1"])
    if x == 3:
        return "SELECT " + f() + " OVER w, " + f() + " OVER (w2) FROM t " + kwcase(r, "WINDOW") + " w AS " + gap_window_spec(r) + ", w2 AS " + gap_window_spec(r, "w" if r.p(1, 2) else "")
    if x == 4:
        return "SELECT " + f() + " OVER (w " + gap_frame(r) + ") FROM t WINDOW w AS (PARTITION BY a ORDER BY b)" + r.pick(["", " QUALIFY " + f() + " OVER w > 1", " ORDER BY a", " LIMIT 1"])
    return "SELECT a FROM t QUALIFY " + f() + " OVER " + gap_window_spec(r) + " = 1" + r.pick(["", " ORDER BY " + f() + " OVER " + gap_window_spec(r)])


def gap_from_first_core(r, d=2):
    """FROM-first SELECT with the clauses the FROM-first branch of the parser does not take"""
    s = "FROM " + r.pick([lambda: table_expr(r, d), lambda: from_clause(r, d).split(" ", 1)[1], lambda: r.pick(TABLES)])() \
        + " SELECT " + r.pick(["", "", "DISTINCT ", "ALL "]) + ", ".join(select_item(r, d + 1) for _ in range(1 + r.below(3)))
    opts = []
    if r.p(1, 3):
        opts.append("PREWHERE " + expr(r, 3, False))
    if r.p(1, 3):
        opts.append("WHERE " + expr(r, 3, False))
    if r.p(1, 4):
        opts.append("GROUP BY " + col(r) + r.pick(["", " WITH TOTALS", " WITH ROLLUP"]))
        if r.p(1, 2):
            opts.append("HAVING " + expr(r, 3, False))
    if r.p(1, 8):
        opts.append("WINDOW w AS (ORDER BY a)")
    if r.p(1, 6):
        opts.append("QUALIFY " + r.pick(["row_number() OVER () = 1", "a"]))
    if r.p(1, 3):
        opts.append("ORDER BY " + order_elem(r, d))
    x = r.below(10)
    n, m = r.pick(["1", "10", "{lim:UInt64}", "2"]), r.pick(["1", "5", "0"])
    by = ", ".join(col(r) for _ in range(1 + r.below(2)))
    if x == 0:
        opts.append("LIMIT " + n + " BY " + by)
    elif x == 1:
        opts.append("LIMIT " + n + ", " + m + " BY " + by + r.pick(["", " LIMIT 3"]))
    elif x == 2:
        opts.append("LIMIT " + n + " OFFSET " + m + r.pick(["", " BY " + by]))
    elif x == 3:
        opts.append("OFFSET " + m + r.pick(["", " ROWS", " ROW", " ROWS FETCH NEXT " + n + " ROWS ONLY", " ROW FETCH FIRST " + n + " ROW WITH TIES"]))
    elif x == 4:
        opts.append("LIMIT " + n + ", " + m)
    elif x == 5:
        opts.append("LIMIT " + n + " WITH TIES")
    elif x == 6:
        opts.append(limit_clause(r))
    if not opts:
        opts.append(r.pick(["PREWHERE a", "OFFSET 1", "LIMIT 1 BY a", "LIMIT 1, 2 BY a, b"]))
    return s + " " + " ".join(opts)


def gap_select_from_first(r):
    x = r.below(10)
    s = gap_from_first_core(r)
    if x < 4:
        return (with_clause(r, 2) + " " if r.p(1, 5) else "") + s + r.pick(["", "", " SETTINGS max_threads = 1", " FORMAT " + r.pick(FORMATS), " INTO OUTFILE 'f.tsv'"])
    if x < 7:
        op = r.pick(["UNION ALL", "UNION DISTINCT", "UNION", "INTERSECT", "EXCEPT", "union all"])
        other = r.pick([lambda: select_core(r, 2, simple=True), lambda: gap_from_first_core(r), lambda: "FROM t2 SELECT b", lambda: "(FROM t2 SELECT b)"])
        return r.pick([s + " " + op + " " + other(), other() + " " + op + " " + s, "(" + s + ") " + op + " " + other(), s + " " + op + " " + other() + " " + op + " " + other()])
    if x == 7:
        return r.pick(["SELECT (" + s + ")", "SELECT * FROM (" + s + ")", "SELECT a IN (" + s + ") FROM t", "WITH q AS (" + s + ") SELECT * FROM q", "SELECT * FROM view(" + s + ")"])
    if x == 8:
        return r.pick(["EXPLAIN ", "EXPLAIN AST ", "EXPLAIN SYNTAX ", "EXPLAIN PLAN actions = 1 "]) + s
    return s + r.pick([" FORMAT Null", " FORMAT JSON SETTINGS a = 1", ";", " SETTINGS a = 1 FORMAT TSV"])


def gap_select_misc(r):
    """the remaining SELECT-level entries of PARSER_GAPS and the traps noticed while the grammar was extended"""
    t = r.pick(TABLES)
    c = col(r)
    return r.pick([
        lambda: "SELECT COLUMNS('" + r.pick(["a", "^x", "id$"]) + "') EXCEPT('" + r.pick(["pattern", "^a", "x|y"]) + "')" + r.pick(["", " APPLY(sum)"]) + " FROM " + t,
        lambda: "SELECT " + c + " FROM " + t + " LIMIT " + r.pick(["1", "2, 3"]) + " BY " + r.pick(["format(a)", "a, format(b, c)", "format", "a, format"]) + r.pick(["", " LIMIT 5", " SETTINGS a = 1", " FORMAT TSV"]),
        lambda: "SELECT " + c + r.pick(["", " FROM " + t]) + " INTO OUTFILE " + string_lit(r) + r.pick([" COMPRESSION 'gzip'", " COMPRESSION 'zstd' LEVEL 3", " AND STDOUT", " APPEND", " TRUNCATE",
                                                                                                   " AND STDOUT COMPRESSION 'gzip'", " COMPRESSION 'br' FORMAT CSV"]),
        lambda: "SELECT " + r.pick(["now()", "ts", "d"]) + r.pick([" + ", " - "]) + "INTERVAL " + r.pick(["{p:UInt32}", "{n:Int64}", "{`a b`:UInt8}"]) + " " + r.pick(UNITS),
        lambda: "SELECT " + c + " FROM " + t + " FETCH FIRST " + r.pick(["1", "10"]) + r.pick([" ROWS ONLY", " ROW ONLY", " ROWS WITH TIES"]),
        lambda: "SELECT " + c + " FROM " + t + " ORDER BY " + c + " LIMIT " + r.pick(["10 OFFSET 5", "5, 10"]) + " WITH TIES",
        lambda: "SELECT TOP " + r.pick(["3", "1"]) + " " + r.pick(["[1, 2]", "[a, b]", "(1, 2)", "(a)", "[1, 2][1]", "(a + b) * c"]) + r.pick(["", " FROM " + t]),
        lambda: "SELECT DISTINCT ON (" + c + ") " + r.pick(["[1, 2]", "(1, 2)", "(a)", "[a][1]", "(a + b) * c"]) + r.pick(["", " FROM " + t]),
        lambda: "WITH RECURSIVE " + r.pick(["[1, 2] AS x", "(1, 2) AS x", "(SELECT 1) AS x"]) + " SELECT x",
        lambda: "SELECT " + r.pick(["a, format", "format", "format, a", "a, format, b", "t.format, format"]) + " FROM " + t,
        lambda: "SELECT " + c + " FROM " + r.pick(["{db:Identifier}.t", "{db:Identifier}.{t:Identifier}", "db.{t:Identifier}"]) + r.pick(["", " AS x", " WHERE a"]),
        lambda: "SELECT " + c + " FROM " + t + " SAMPLE " + r.pick(["1/10", "0.1", "1/10 OFFSET 1/2"]) + r.pick([" OFFSET 5", " LIMIT 1 OFFSET 5", " OFFSET 1 ROWS"]),
        lambda: "SELECT " + c + " FROM " + t + " ARRAY JOIN arr, t2" + r.pick(["", " WHERE a"]),
        lambda: "SELECT " + c + " FROM " + t + " JOIN t2 USING a, b" + r.pick([", t3", " JOIN t3 USING c"]),
        lambda: "SELECT * FROM " + r.pick(["(t1 JOIN t2 ON t1.a = t2.a) JOIN t3 ON 1", "t1 JOIN (t2 JOIN t3 ON 1) ON 1", "(t1 CROSS JOIN t2)"]),
        lambda: "SELECT " + r.pick(["$a$b, $a$b", "$x$y AS k, $x$y"]) + " FROM " + t,
        lambda: "SELECT " + r.pick(["* REPLACE a + 1 AS a, b", "COLUMNS('a') REPLACE a + 1 AS a, b", "COLUMNS(a, b) REPLACE (a + 1 AS a), c", "* EXCEPT a, b"]) + " FROM " + t,
        lambda: "SELECT " + c + ", FROM " + r.pick([t, "(" + t + ")", "numbers(3)", t + " AS x", "(t1 JOIN t2 ON 1)"]),
        lambda: "SELECT " + r.pick(["exists(SELECT 1)", "exists((SELECT 1))", "NOT exists(SELECT 1)"]) + r.pick(["", " AS e", " FROM " + t]),
        lambda: "SELECT " + c + " FROM " + t + " " + r.pick(["FETCH", "INTO", "OFFSET"]).lower() + " WHERE " + r.pick(["fetch", "into", "offset"]) + ".a = 1",
        lambda: "SELECT " + r.pick(["x = any(y) OVER ()", "x > all(y) OVER w", "x = any(arr)", "x != all(arr)"]) + " FROM " + t + " WINDOW w AS ()",
        lambda: "SELECT " + c + " FROM " + t + " ORDER BY " + c + " WITH FILL " + r.pick(["STALENESS 1", "FROM 1 TO 10 STEP INTERVAL 1 DAY STALENESS INTERVAL 2 DAY", "TO 10"]) + r.pick(["", " INTERPOLATE", " INTERPOLATE (a)"]),
        lambda: "SELECT " + r.pick(["a NOT ILIKE 'x'", "a REGEXP 'x'", "a NOT REGEXP 'x'", "a IS NOT DISTINCT FROM b", "INTERVAL '1 DAY 2 HOUR'", "INTERVAL 1 DAY + INTERVAL '2' HOUR", "DATE '2020-01-01'",
                                    "TIMESTAMP '2020-01-01 00:00:00'", "a BETWEEN SYMMETRIC 1 AND 2", "a IS TRUE", "a IS NOT FALSE", "a IS UNKNOWN", "x::Tuple(a UInt8).a",
                                    "f(x)(y)(z)", "arr[1][2].1", "t.1.2", "-t.1", "a.b.c.d", "1 IS NULL IS NOT NULL", "x -> y -> x + y", "(x, y) -> (x -> x)(y)",
                                    "lambda(tuple(x), x + 1)", "arrayMap((x) -> x, arr)", "count(*) FILTER (WHERE a) OVER ()", "any(x) RESPECT NULLS", "f(DISTINCT a, b)",
                                    "sum(ALL a)", "quantile(0.5)(DISTINCT x)", "CAST(a, 'UInt8') AS b", "a AS b AS c", "(a AS b) + b", "* APPLY sum AS s", "1 AS `x`, `x`",
                                    "[1, 2] AS arr ARRAY JOIN arr", "a GLOBAL IN t2", "a IN t2", "a IN db.t2", "a NOT IN (SELECT 1) AS b", "(1, 2) IN ((1, 2), (3, 4))",
                                    "1 IN (1)", "1 IN 1", "1 IN [1, 2]", "NULL IN (NULL)", "CASE a WHEN 1 THEN 2 END", "CASE WHEN a THEN 1 END first", "if(a, b, c) user"])
        + r.pick(["", " FROM " + t]),
        lambda: "SELECT " + c + " FROM " + t + " GROUP BY " + r.pick(["ALL", "ALL WITH TOTALS", "a WITH ROLLUP WITH TOTALS", "GROUPING SETS ((a), (b, c), ())", "CUBE(a, b) WITH TOTALS",
                                                                     "a, b WITH CUBE", "ROLLUP(a), b"]) + r.pick(["", " ORDER BY ALL", " ORDER BY ALL DESC NULLS LAST"]),
        lambda: "SELECT " + c + " FROM " + t + " " + r.pick(["NATURAL JOIN t2", "AS x (c1, c2)", "FINAL AS x", "AS x FINAL SAMPLE 0.1", "LEFT ARRAY JOIN arr AS e, arr2 AS f WHERE e",
                                                             "JOIN t2 ON t.a = t2.a AND t.b > t2.b JOIN t3 USING (c) SETTINGS join_algorithm = 'hash'", "SEMI JOIN t2 USING (a)"]),
    ])()


def gap_select(r):
    x = r.below(12)
    if x < 4:
        return gap_select_alias(r)
    if x < 7:
        return gap_select_from_first(r)
    if x < 9:
        return gap_select_window(r)
    return gap_select_misc(r)


def gap_setop(r):
    x = r.below(8)
    m = lambda: select_core(r, 2, simple=True)
    op = lambda: r.pick(["UNION ALL", "UNION DISTINCT", "UNION", "INTERSECT", "EXCEPT", "INTERSECT DISTINCT", "EXCEPT ALL"])
    if x < 2:
        # FROM-first members
        return r.pick([lambda: gap_from_first_core(r) + " " + op() + " " + m(), lambda: m() + " " + op() + " " + gap_from_first_core(r),
                       lambda: "FROM " + r.pick(TABLES) + " SELECT " + col(r) + " " + op() + " FROM " + r.pick(TABLES) + " SELECT " + col(r) + r.pick(["", " ORDER BY 1", " LIMIT 1", " FORMAT Null"]),
                       lambda: "(" + gap_from_first_core(r) + ") " + op() + " (" + gap_from_first_core(r) + ")"])()
    if x < 4:
        # a keyword alias as the last token of a member
        return "SELECT " + gap_alias_item(r) + " " + op() + " SELECT " + gap_alias_item(r) + r.pick(["", " " + op() + " " + m(), " ORDER BY 1", " FORMAT Null", " SETTINGS a = 1"])
    if x == 4:
        return "WITH " + literal(r) + " AS x SELECT x " + r.pick(["INTERSECT", "EXCEPT", "INTERSECT ALL"]) + " (" + m() + ")" + r.pick([" FORMAT Null", " FORMAT JSON SETTINGS a = 1", " INTO OUTFILE 'f'", " SETTINGS a = 1 FORMAT TSV"])
    if x == 5:
        return m() + " UNION ALL " + m() + " " + r.pick(["INTERSECT", "EXCEPT"]) + " (" + m() + ")" + r.pick([" SETTINGS a = 1", " FORMAT Null", " ORDER BY 1", " LIMIT 1"])
    if x == 6:
        return "SELECT " + gap_select_window(r)[7:] + " " + op() + " " + m()
    return "(" + m() + " " + op() + " " + m() + ") " + op() + " " + m() + r.pick([" ORDER BY 1 LIMIT 1", " LIMIT 1 BY a", " OFFSET 1", " LIMIT 1 WITH TIES"])


def gap_insert(r):
    t = r.pick(["t", "db.t", "TABLE t", "`my table`"])
    cols = "(" + ", ".join(r.pick(COLS) for _ in range(1 + r.below(3))) + ")"
    row = lambda: "(" + ", ".join(literal(r) for _ in range(1 + r.below(3))) + ")"
    return r.pick([
        lambda: "INSERT INTO FUNCTION " + r.pick(["file('a_{_partition_id}.csv', 'CSV', 'a UInt8, b UInt8')", "s3('http://b/k_{_partition_id}', 'CSV')"]) + " PARTITION BY " + r.pick(["(a, b)", "a", "a % 10", "toYYYYMM(d)"])
        + " " + cols + " " + r.pick(["VALUES " + row(), "SELECT " + col(r) + " FROM t"]),
        lambda: "INSERT INTO " + t + r.pick(["", " " + cols]) + " VALUES " + " ".join(row() for _ in range(2 + r.below(3))),
        lambda: "INSERT INTO " + t + r.pick(["", " " + cols]) + " VALUES " + row() + r.pick([" , ", ",", " "]) + row() + r.pick(["", ";", " ;"]),
        lambda: "INSERT INTO " + t + r.pick(["", " " + cols]) + " " + gap_from_first_core(r),
        lambda: "INSERT INTO " + t + r.pick(["", " " + cols]) + " FROM " + r.pick(TABLES) + " SELECT " + col(r),
        lambda: "INSERT INTO " + t + r.pick(["", " " + cols]) + " SELECT " + gap_alias_item(r) + r.pick(["", " FROM t2"]),
        lambda: "INSERT INTO " + t + r.pick(["", " " + cols]) + " " + r.pick(["SETTINGS async_insert = 1 ", "settings a = 1, b = 2 "]) + r.pick(["VALUES " + row(), "SELECT 1", "FORMAT JSONEachRow {\"a\": 1}"]),
        lambda: "INSERT INTO " + t + " " + r.pick(["(* EXCEPT a)", "(COLUMNS('a') EXCEPT('x'))", "(*)", "(t.*)"]) + " VALUES " + row(),
        lambda: "INSERT INTO " + t + " " + cols + " FROM INFILE " + string_lit(r) + r.pick([" COMPRESSION 'gzip' SETTINGS a = 1 FORMAT CSV", " SETTINGS a = 1", " FORMAT CSV SETTINGS a = 1"]),
        lambda: "INSERT INTO " + r.pick(["TEMPORARY TABLE t", "{db:Identifier}.t", "{t:Identifier}", "TABLE FUNCTION null('a UInt8')"]) + " VALUES " + row(),
        lambda: "WITH 1 AS x INSERT INTO " + t + " " + r.pick(["VALUES " + row(), "FROM t2 SELECT x"]),
        lambda: "INSERT INTO " + t + " " + r.pick(["WATCH v", "EXPLAIN SELECT 1", "(SELECT 1) UNION ALL (SELECT 2) FORMAT Null", "SELECT 1 FORMAT Null SETTINGS a = 1", "VALUES"]),
    ])()


def gap_refresh(r):
    """REFRESH EVERY n unit [m unit ...] [OFFSET n unit ...] | AFTER n unit ... with every option, in any letter case"""
    unit = lambda: r.pick(["SECOND", "MINUTE", "HOUR", "DAY", "WEEK", "MONTH", "YEAR", "SECONDS", "minutes", "Hours", "days", "weeks", "months", "years"])
    span = lambda: " ".join(str(1 + r.below(59)) + " " + unit() for _ in range(r.pick([1, 1, 1, 2, 3])))
    if r.p(2, 3):
        s = kwcase(r, "REFRESH EVERY") + " " + span()
        if r.p(2, 3):
            s += " " + kwcase(r, "OFFSET") + " " + span()
    else:
        s = kwcase(r, "REFRESH AFTER") + " " + span()
    if r.p(1, 4):
        s += " " + kwcase(r, "RANDOMIZE FOR") + " " + span()
    if r.p(1, 5):
        s += " " + kwcase(r, "DEPENDS ON") + " " + r.pick(["v1", "db.v1", "v1, db.v2", "`my view`"])
    if r.p(1, 6):
        s += " " + kwcase(r, "SETTINGS") + " " + r.pick(["refresh_retries = 2", "refresh_retries = 2, refresh_retry_initial_backoff_ms = 100"])
    if r.p(1, 5):
        s += " " + kwcase(r, "APPEND")
    return s


def gap_ttl_group_by(r):
    """TTL e GROUP BY k[, ...] SET col = agg(col)[, ...] with assignments whose right-hand sides hold operators (AND ...)"""
    keys = r.pick(["a", "a, b", "(a, b)", "toDate(ts)", "a, toStartOfDay(ts)", "k1, k2, k3"])
    asg = lambda: r.pick(["b = max(b)", "c = sum(c)", "d = any(d)", "v = argMax(v, ts)", "x = max(x) AND 1", "f = sum(f) AND g = max(g)", "cnt = count() + 1", "m = sumMap(m)",
                          "q = quantile(0.5)(q)", "s = groupArray(s)[1]", "n = min(n) OR 0", "`a b` = anyLast(`a b`)", "u = uniqExact(u) > 0 AND max(u) < 10", "w = if(max(w) > 0, 1, 0)",
                          "ts = min(ts)", "j = max(j)::UInt8", "t.x = max(t.x)"])
    e = r.pick(["ts", "d", "toDate(ts)"]) + " + " + r.pick(["INTERVAL " + str(1 + r.below(9)) + " " + r.pick(["DAY", "MONTH", "YEAR"]), "toIntervalMonth(1)"])
    s = e + r.pick(["", "", " WHERE " + r.pick(["a = 1", "b > 0 AND c", "a IN (1, 2)"])]) + " " + kwcase(r, "GROUP BY") + " " + keys
    if r.p(5, 6):
        s += " " + kwcase(r, "SET") + " " + ", ".join(asg() for _ in range(1 + r.below(3)))
    return s


def gap_create(r):
    cols = lambda: columns_def(r)
    mt = lambda: "ENGINE = MergeTree ORDER BY " + r.pick(ORDER_KEYS)
    sel = lambda: select_core(r, 2, simple=True)
    x = r.below(16)
    if x < 4:
        # refreshable views
        ref = gap_refresh(r)
        name = r.pick(["mv", "db.mv", "IF NOT EXISTS mv", "mv ON CLUSTER c"])
        return "CREATE MATERIALIZED VIEW " + name + " " + ref + " " + r.pick([
            lambda: "TO " + r.pick(["dst", "db.dst"]) + r.pick(["", " (a UInt8, b String)"]) + r.pick(["", " EMPTY"]),
            lambda: "(a UInt8) " + mt() + r.pick(["", " EMPTY"]),
            lambda: mt() + r.pick(["", " EMPTY", " POPULATE"]),
            lambda: "ENGINE = Memory" + r.pick(["", " EMPTY"]),
            lambda: "TO dst EMPTY DEFINER = u SQL SECURITY DEFINER",
            lambda: "ENGINE = Memory COMMENT 'c'"])() + " AS " + r.pick([sel, lambda: gap_from_first_core(r), lambda: "SELECT " + gap_alias_item(r)])()
    if x < 6:
        ttl = ", ".join(r.pick([lambda: gap_ttl_group_by(r), lambda: ttl_list(r)])() for _ in range(1 + r.below(2)))
        if "GROUP BY" not in ttl.upper():
            ttl = gap_ttl_group_by(r) + ", " + ttl
        return "CREATE TABLE " + r.pick(["t", "db.t", "IF NOT EXISTS t"]) + " " + cols() + " ENGINE = " + r.pick(["MergeTree", "ReplacingMergeTree(ver)", "SummingMergeTree"]) \
            + " ORDER BY " + r.pick(ORDER_KEYS) + " TTL " + ttl + r.pick(["", " SETTINGS index_granularity = 8192", " COMMENT 'c'", " PRIMARY KEY a"])
    if x == 6:
        return "CREATE TABLE t " + cols() + " ENGINE = MergeTree " + r.pick(["PRIMARY KEY (a + b) % 10", "PRIMARY KEY (a) ORDER BY (a, b) % 2", "ORDER BY (a) DESC", "ORDER BY (a + b) * c",
                                                                               "PARTITION BY (a) % 10 ORDER BY a", "ORDER BY a SAMPLE BY (a) % 2", "ORDER BY (a, b) SETTINGS a = 1, SETTINGS b = 2"])
    if x == 7:
        return "CREATE TABLE t (" + column_name(r) + " " + data_type(r, ddl=True) + " EPHEMERAL " + r.pick(["now()", "1 + 1", "toUInt8(1)", "-x", "'a' || 'b'", "CAST(1 AS UInt8)", "[1, 2][1]"]) \
            + r.pick(["", " CODEC(ZSTD)", " COMMENT 'c'"]) + ", b UInt8) " + mt()
    if x == 8:
        return "CREATE TABLE " + r.pick(["t", "db.t"]) + " " + r.pick(["CLONE AS db.t2", "CLONE AS db.t2 ENGINE = MergeTree ORDER BY a", "CLONE AS `my db`.`my table`", "AS db.t2 ENGINE = Memory EMPTY"]) \
            if r.p(1, 2) else "CREATE TABLE t " + r.pick(["ENGINE = Memory EMPTY AS " + sel(), "(a UInt8) ENGINE = Memory EMPTY AS " + sel(), mt() + " EMPTY AS " + sel(),
                                                          "ENGINE = Memory AS " + gap_from_first_core(r), "ENGINE = Memory AS SELECT " + gap_alias_item(r)])
    if x == 9:
        return "CREATE DICTIONARY " + r.pick(["d", "db.d", "d ON CLUSTER c", "IF NOT EXISTS d ON CLUSTER c"]) + " (id UInt64, v String DEFAULT '') PRIMARY KEY id SOURCE(" \
            + r.pick(["HTTP(URL 'http://h/x' FORMAT 'TSV' HEADERS(HEADER(NAME 'a' VALUE 'b')))", "HTTP(URL 'u' FORMAT 'CSV' CREDENTIALS(USER 'u' PASSWORD 'p') HEADERS(HEADER(NAME 'k' VALUE 'v') HEADER(NAME 'k2')))",
                      "CLICKHOUSE(TABLE 't' REPLICA(HOST 'h1' PRIORITY 1) REPLICA(HOST 'h2' PRIORITY 2))", "CLICKHOUSE(TABLE 't' QUERY 'SELECT 1' HEADERS())", "MYSQL(REPLICA(HOST 'h' PRIORITY 1) PORT 3306 TABLE 't')",
                      "CLICKHOUSE(TABLE 't')"]) + ") LAYOUT(" + r.pick(["FLAT()", "HASHED()", "COMPLEX_KEY_HASHED(SHARDS 4)"]) + ") LIFETIME(" + r.pick(["0", "MIN 0 MAX 10", "300"]) + ")"
    if x == 10:
        # FROM-first / keyword aliases inside views
        body = r.pick([lambda: gap_from_first_core(r), lambda: "SELECT " + gap_alias_item(r), lambda: "SELECT " + gap_alias_item(r) + " FROM t", lambda: gap_select_window(r)])()
        return r.pick(["CREATE VIEW v AS ", "CREATE OR REPLACE VIEW db.v AS ", "CREATE MATERIALIZED VIEW mv TO dst AS ", "CREATE MATERIALIZED VIEW mv ENGINE = Memory POPULATE AS ",
                       "CREATE LIVE VIEW lv AS ", "CREATE WINDOW VIEW wv TO dst AS ", "CREATE VIEW v (a UInt8) AS ", "CREATE TABLE t ENGINE = Memory AS "]) + body
    if x == 11:
        # column names / options that are keyword tokens
        return "CREATE TABLE t (" + ", ".join(r.pick(["index", "primary", "constraint", "projection", "top", "first", "last", "user", "comment", "values", "format", "partition", "engine", "settings"])
                                              + " " + r.pick(SIMPLE_TYPES) for _ in range(1 + r.below(3))) + ") " + mt()
    if x == 12:
        return "CREATE " + r.pick(["INDEX i ON t (a) TYPE minmax", "INDEX IF NOT EXISTS i ON db.t (a + 1) TYPE set(10) GRANULARITY 2", "UNIQUE INDEX i ON t (a)", "INDEX i ON t a TYPE minmax",
                                   "INDEX i ON t ((a, b)) TYPE bloom_filter", "INDEX i ON t (a DESC, b ASC) TYPE minmax", "INDEX i ON t (a)"])
    if x == 13:
        return "CREATE TABLE t " + cols() + " " + r.pick(["ENGINE = MergeTree ORDER BY a TTL d + INTERVAL 1 DAY TO DISK 'x' IF EXISTS", "ENGINE = MergeTree ORDER BY a TTL d RECOMPRESS CODEC(ZSTD) WHERE a",
                                                       "ENGINE = MergeTree ORDER BY a TTL d TO VOLUME 'v' IF EXISTS, " + gap_ttl_group_by(r),
                                                       "ENGINE = MergeTree ORDER BY a TTL d SETTINGS a = 1", "ENGINE = MergeTree() PARTITION BY a ORDER BY a TTL d + INTERVAL 1 DAY, d + INTERVAL 2 DAY DELETE"])
    if x == 14:
        return "CREATE " + r.pick(["TEMPORARY TABLE t (a UInt8) ENGINE = Memory", "OR REPLACE TEMPORARY TABLE t (a UInt8)", "TABLE t (a UInt8) ENGINE = Memory AS t2", "TABLE t AS t2 (a UInt8)",
                                   "TABLE t (a UInt8, b ALIAS a + 1, INDEX i a TYPE minmax, PROJECTION p (SELECT a ORDER BY a), CONSTRAINT c CHECK a > 0) ENGINE = Memory COMMENT 'x' SETTINGS a = 1",
                                   "TABLE t (a UInt8 NOT NULL DEFAULT 1 CODEC(ZSTD) TTL d + INTERVAL 1 DAY COMMENT 'c' PRIMARY KEY) ENGINE = MergeTree",
                                   "TABLE t (a UInt8 COMMENT 'c' DEFAULT 1) ENGINE = Memory", "TABLE t (a Nullable(UInt8) NULL, b UInt8 NOT NULL) ENGINE = Memory",
                                   "TABLE t (`a` UInt8) ENGINE = Memory AS SELECT 1 a first", "DATABASE d ENGINE = Replicated('/p', 's', 'r') SETTINGS a = 1 COMMENT 'c'",
                                   "DATABASE d ON CLUSTER c ENGINE = Atomic COMMENT 'c'", "DATABASE IF NOT EXISTS d COMMENT 'c' ENGINE = Atomic"])
    return "CREATE " + r.pick(["USER u IDENTIFIED WITH ssh_key BY KEY 'k' TYPE 'ssh-rsa', KEY 'k2' TYPE 'ssh-ed25519'", "USER u IDENTIFIED WITH http SERVER 's' SCHEME 'basic'",
                               "USER u VALID UNTIL '2030-01-01'", "USER u IDENTIFIED BY 'p' VALID UNTIL 'infinity' HOST LOCAL DEFAULT ROLE r1, r2 SETTINGS a = 1 READONLY, PROFILE 'p'",
                               "USER u IN access_storage", "USER u ON CLUSTER c IDENTIFIED WITH bcrypt_password BY 'p', sha256_password BY 'q'", "USER u GRANTEES ANY EXCEPT u2",
                               "USER u DEFAULT DATABASE db", "ROLE r SETTINGS max_memory_usage = 1 MIN 0 MAX 10 CONST", "ROW POLICY p ON t AS RESTRICTIVE FOR SELECT USING a = 1 TO ALL EXCEPT u",
                               "ROW POLICY p ON db.*, t2 USING 1 TO r", "QUOTA q KEYED BY ip_address FOR RANDOMIZED INTERVAL 1 HOUR MAX queries = 10, errors = 1 TO ALL",
                               "QUOTA q FOR INTERVAL 1 DAY NO LIMITS, FOR INTERVAL 1 HOUR TRACKING ONLY TO u", "SETTINGS PROFILE p SETTINGS a = 1 WRITABLE, INHERIT 'q' TO u",
                               "FUNCTION f AS (x, y) -> x + y", "FUNCTION f ON CLUSTER c AS x -> x first", "FUNCTION f AS () -> (SELECT 1 top)"])


def gap_alter(r):
    t = "ALTER TABLE " + r.pick(["t", "db.t", "t ON CLUSTER c", "`my table`"]) + " "
    x = r.below(14)
    if x < 3:
        s = t + kwcase(r, "MODIFY TTL") + " " + ", ".join(r.pick([lambda: gap_ttl_group_by(r), lambda: gap_ttl_group_by(r), lambda: ttl_list(r)])() for _ in range(1 + r.below(2)))
        if "GROUP BY" not in s.upper():
            s = t + "MODIFY TTL " + gap_ttl_group_by(r)
        return s + r.pick(["", "", ", MODIFY COLUMN c UInt8", ", MATERIALIZE TTL", ", MODIFY SETTING a = 1", " SETTINGS mutations_sync = 2"])
    if x < 5:
        return r.pick(["ALTER TABLE mv ", "ALTER TABLE db.mv ", "ALTER TABLE mv ON CLUSTER c "]) + kwcase(r, "MODIFY") + " " + gap_refresh(r) + r.pick(["", "", " SETTINGS a = 1"])
    return t + r.pick([
        lambda: "MODIFY COLUMN " + col(r) + " TTL " + r.pick(["d + INTERVAL 1 DAY", "ts + toIntervalMonth(1)"]),
        lambda: "MODIFY COLUMN " + col(r) + r.pick([" COMMENT 'c'", " CODEC(ZSTD)", " DEFAULT 1", " REMOVE TTL, MODIFY COLUMN b REMOVE COMMENT", " MODIFY SETTING max_compress_block_size = 1", " RESET SETTING max_compress_block_size"]),
        lambda: "CLEAR COLUMN IF EXISTS " + col(r) + r.pick(["", " IN PARTITION 1", " IN PARTITION ID 'x'"]),
        lambda: "DROP DETACHED PARTITION " + r.pick(["ID 'x'", "ID 'all'", "ALL"]) + r.pick(["", " SETTINGS allow_drop_detached = 1"]),
        lambda: "DROP DETACHED PART 'all_1_1_0'" + r.pick(["", " SETTINGS allow_drop_detached = 1"]),
        lambda: "ADD COLUMN " + r.pick(["", "IF NOT EXISTS "]) + column_decl(r) + " FIRST" + r.pick(["", ", ADD COLUMN z UInt8 AFTER " + col(r)]),
        lambda: "ADD INDEX IF NOT EXISTS " + index_def(r)[6:] + r.pick(["", " FIRST", " AFTER i"]),
        lambda: "ADD PROJECTION IF NOT EXISTS " + projection_def(r)[11:] + r.pick(["", " FIRST", " AFTER p"]),
        lambda: "ADD CONSTRAINT IF NOT EXISTS c CHECK " + expr(r, 3, False),
        lambda: r.pick(["REPLACE", "ATTACH", "MOVE"]) + " PARTITION " + partition_expr(r) + r.pick([" FROM db.t2", " FROM `my db`.t2", " TO TABLE db.t2", " FROM t2"]),
        lambda: "FREEZE " + r.pick(["", "PARTITION " + partition_expr(r) + " "]) + "WITH NAME " + string_lit(r),
        lambda: "UNFREEZE " + r.pick(["", "PARTITION " + partition_expr(r) + " "]) + "WITH NAME 'n'",
        lambda: "DELETE IN PARTITION " + partition_expr(r) + " WHERE " + expr(r, 3, False),
        lambda: "UPDATE " + col(r) + " = " + expr(r, 3, False) + ", " + col(r) + " = DEFAULT WHERE " + expr(r, 3, False),
        lambda: "UPDATE a = 1 WHERE b first" if r.p(1, 2) else "DELETE WHERE " + expr(r, 3, False) + " SETTINGS mutations_sync = 1",
        lambda: "MODIFY QUERY " + r.pick([lambda: gap_from_first_core(r), lambda: "SELECT " + gap_alias_item(r), lambda: gap_select_window(r)])(),
        lambda: "MODIFY ORDER BY " + r.pick(["(a) DESC", "(a + b) * c", "(a, b) % 2"]),
        lambda: "MODIFY SAMPLE BY (a) % 2",
        lambda: "FETCH PARTITION " + partition_expr(r) + " FROM '/p' " + r.pick(["", "SETTINGS a = 1"]),
        lambda: "MOVE PARTITION " + partition_expr(r) + " TO " + r.pick(["SHARD '/p'", "DISK 'd' SETTINGS a = 1", "VOLUME 'v', MOVE PART 'p' TO DISK 'd'"]),
        lambda: "APPLY DELETED MASK" + r.pick(["", " IN PARTITION 1", " IN PARTITION ID 'x'"]),
        lambda: "APPLY PATCHES" + r.pick(["", " IN PARTITION 1"]),
        lambda: "REWRITE PARTS" + r.pick(["", " IN PARTITION 1"]),
        lambda: "ADD STATISTICS IF NOT EXISTS a, b TYPE tdigest, uniq" if r.p(1, 2) else "MATERIALIZE STATISTICS ALL",
        lambda: "MODIFY COMMENT " + string_lit(r) + ", COMMENT COLUMN a 'c'",
        lambda: "MODIFY DEFINER = u" if r.p(1, 2) else "MODIFY SQL SECURITY INVOKER",
        lambda: "RENAME COLUMN IF EXISTS " + col(r) + " TO " + r.pick(GAP_ALIASES),
        lambda: "ATTACH PARTITION ALL FROM t2" if r.p(1, 2) else "DROP PARTITION ALL",
        lambda: "EXCHANGE PARTITION " + partition_expr(r) + " WITH TABLE t2",
        lambda: "FORGET PARTITION " + partition_expr(r),
    ])()


def gap_utility(r):
    t = tbl(r)
    sel = lambda: r.pick([lambda: gap_from_first_core(r), lambda: "SELECT " + gap_alias_item(r), lambda: gap_select_window(r), lambda: gap_select_misc(r)])()
    return r.pick([
        lambda: "EXPLAIN " + r.pick(["CURRENT TRANSACTION", "current transaction", "TABLE OVERRIDE mysql('h', 'd', 't', 'u', 'p') PARTITION BY a", "QUERY TREE dump_ast = 1 " + sel(),
                                     "ESTIMATE " + sel(), "PIPELINE graph = 1, compact = 0 " + sel(), "AST graph = 1 " + sel(), "PLAN json = 1, indexes = 1 " + sel(), "SYNTAX oneline = 1 " + sel(),
                                     "(SELECT 1)", "AST (SELECT 1) UNION ALL (SELECT 2)", sel()]),
        lambda: "SYSTEM " + r.pick(["SYNC REPLICA " + t + r.pick([" STRICT", " LIGHTWEIGHT", " PULL", " LIGHTWEIGHT FROM 'r1', 'r2'", " ON CLUSTER c STRICT"]), "SYNC DATABASE REPLICA db",
                                    "SYNC DATABASE REPLICA ON CLUSTER c db", "REFRESH VIEW v", "REFRESH VIEW db.v", "STOP VIEW v", "START VIEW db.v", "CANCEL VIEW v", "WAIT VIEW v",
                                    "STOP VIEWS", "START VIEWS", "SYNC TRANSACTION LOG", "SYNC FILE CACHE", "SYNC FILESYSTEM CACHE", "DROP REPLICA 'r' FROM TABLE " + t,
                                    "DROP REPLICA 'r' FROM DATABASE db", "DROP REPLICA 'r' FROM ZKPATH '/p'", "DROP DATABASE REPLICA 'r' FROM DATABASE db", "RESTORE REPLICA " + t + " ON CLUSTER c",
                                    "RESTART REPLICA " + t, "RELOAD DICTIONARY db.d", "RELOAD DICTIONARY ON CLUSTER c d", "RELOAD MODEL m", "RELOAD FUNCTION f", "RELOAD FUNCTIONS", "RELOAD USERS",
                                    "RELOAD ASYNCHRONOUS METRICS", "FLUSH LOGS query_log, part_log", "FLUSH DISTRIBUTED " + t + " SETTINGS a = 1", "FLUSH ASYNC INSERT QUEUE", "STOP MERGES ON VOLUME v",
                                    "STOP MERGES " + t, "STOP TTL MERGES", "STOP MOVES " + t, "STOP FETCHES", "STOP REPLICATED SENDS " + t, "STOP REPLICATION QUEUES", "STOP PULLING REPLICATION LOG " + t,
                                    "STOP CLEANUP " + t, "STOP DISTRIBUTED SENDS " + t, "STOP LISTEN TCP", "START LISTEN QUERIES ALL", "STOP LISTEN CUSTOM 'p'", "UNFREEZE WITH NAME 'b'",
                                    "WAIT LOADING PARTS " + t, "ENABLE FAILPOINT fp", "DISABLE FAILPOINT fp", "WAIT FAILPOINT fp", "JEMALLOC PURGE", "JEMALLOC ENABLE PROFILE", "DROP QUERY CACHE TAG 't'",
                                    "DROP FORMAT SCHEMA CACHE FOR Protobuf", "DROP S3 CLIENT CACHE", "DROP SCHEMA CACHE FOR S3", "DROP FILESYSTEM CACHE 'c' KEY k OFFSET 1", "DROP DISTRIBUTED CACHE CONNECTIONS",
                                    "DROP PAGE CACHE", "DROP CONNECTIONS CACHE", "PREWARM MARK CACHE " + t, "PREWARM PRIMARY INDEX CACHE " + t, "LOAD PRIMARY KEY " + t, "UNLOAD PRIMARY KEY",
                                    "REPLICA READY", "REPLICA UNREADY", "STOP REDUCE BLOCKING PARTS " + t, "NOTIFY FAILPOINT fp"]),
        lambda: "SHOW " + r.pick(["SETTING max_threads", "CURRENT ROLES", "ENABLED ROLES", "ROW POLICIES", "ROW POLICIES ON " + t, "POLICIES ON db.*", "TABLES IN db", "FULL TABLES IN db LIKE 'a%' LIMIT 1",
                                  "TEMPORARY TABLES", "TABLES FROM db NOT ILIKE '%a%'", "TABLES WHERE name = 'a'", "CHANGED SETTINGS ILIKE 'max%'", "SETTINGS PROFILES", "PROFILES", "CURRENT QUOTA",
                                  "CREATE USER u", "CREATE USER u1, u2", "CREATE ROLE r", "CREATE ROW POLICY p ON " + t, "CREATE POLICY p ON db.*", "CREATE QUOTA q", "CREATE QUOTA CURRENT",
                                  "CREATE SETTINGS PROFILE p", "CREATE PROFILE p1, p2", "CREATE USERS", "GRANTS FOR u1, u2", "GRANTS FOR CURRENT_USER WITH IMPLICIT FINAL", "GRANTS ON db.t",
                                  "EXTENDED FULL COLUMNS FROM t FROM db LIKE 'a' LIMIT 1", "FIELDS IN t", "INDEXES FROM t IN db", "KEYS FROM " + t + " WHERE 1", "INDEX FROM " + t, "DATABASES NOT LIKE 'a' LIMIT 2",
                                  "DICTIONARIES FROM db LIKE 'a'", "CLUSTER c", "CLUSTER 'c'", "CLUSTERS NOT LIKE 'a' LIMIT 1", "MERGES ILIKE 'a' LIMIT 1", "ENGINES INTO OUTFILE 'f'", "FUNCTIONS ILIKE 'a%'",
                                  "FILESYSTEM CACHES", "AUTHORS", "CREATE TEMPORARY TABLE t", "CREATE " + t + " INTO OUTFILE 'f'", "TABLE " + t, "DATABASE db", "CREATE TABLE " + t + " FORMAT TSVRaw SETTINGS a = 1",
                                  "ACCESS", "PRIVILEGES", "TYPE 'a'", "OBJECT 'x' TYPE y"]),
        lambda: "DETACH " + r.pick(["TABLE " + t + " PERMANENTLY", "TABLE " + t + " ON CLUSTER c PERMANENTLY SYNC", "VIEW v PERMANENTLY", "DICTIONARY d PERMANENTLY", "DATABASE db PERMANENTLY", "TABLE t1, t2"]),
        lambda: "OPTIMIZE TABLE " + t + r.pick([" DEDUPLICATE BY a", " FINAL DEDUPLICATE BY a, b", " DEDUPLICATE BY * EXCEPT (a)", " DEDUPLICATE BY COLUMNS('a')", " PARTITION 1 FINAL DEDUPLICATE BY * EXCEPT a",
                                                " FINAL CLEANUP", " DEDUPLICATE BY a SETTINGS a = 1", " FORCE", " DRY RUN PARTS 'a', 'b'"]),
        lambda: "BACKUP " + r.pick(["TABLE t AS t2", "TABLE db.t AS db2.t2 PARTITIONS 1, 2", "DATABASE db AS db2", "ALL EXCEPT TABLES t, db.t2", "ALL EXCEPT DATABASES a, b", "TEMPORARY TABLE t", "TABLE t, DICTIONARY d",
                                    "DATABASE db EXCEPT TABLES a, b", "VIEW v"]) + " TO " + r.pick(["Disk('d', 'f')", "File('f')", "S3('u', 'k', 's')", "Null"]) + r.pick(["", " SETTINGS async = 1, base_backup = Disk('d', 'b')", " ASYNC"]),
        lambda: "RESTORE " + r.pick(["TABLE t AS t2", "ALL", "DATABASE db AS db2", "TABLE db.t PARTITION 1", "ALL EXCEPT TABLE t"]) + " FROM " + r.pick(["Disk('d', 'f')", "File('f')"]) + r.pick(["", " SETTINGS allow_non_empty_tables = 1", " SYNC"]),
        lambda: "TRUNCATE " + r.pick(["ALL TABLES FROM db", "ALL TABLES FROM IF EXISTS db", "ALL TABLES FROM db LIKE 'a%'", "TABLES FROM db NOT LIKE 'a'", "DATABASE db", "TEMPORARY TABLE t", "TABLE t1, t2", "t SYNC", "TABLE " + t + " SETTINGS a = 1"]),
        lambda: "CHECK " + r.pick(["TABLE " + t + " PARTITION ID 'x'", "TABLE " + t + " PART 'p'", "ALL TABLES", "TABLE " + t + " PARTITION 1 FORMAT JSON SETTINGS check_query_single_value_result = 0", "GRANT SELECT ON t", "GRANT SELECT(a, b) ON db.*"]),
        lambda: "SET " + r.pick(["ROLE r", "ROLE DEFAULT", "ROLE NONE", "ROLE ALL EXCEPT r", "ROLE r1, r2", "DEFAULT ROLE r TO u", "DEFAULT ROLE ALL EXCEPT r1 TO u1, u2", "DEFAULT ROLE NONE TO CURRENT_USER", "TRANSACTION SNAPSHOT 1",
                                 "param_x = 1", "param_s = 'a''b'", "a = 1, b = 'x', c = [1, 2]", "a = (1, 2), b = {'k': 1}", "a = DEFAULT", "a = -1.5e3", "SQL_SELECT_LIMIT = 1", "NAMES 'utf8'", "a = true, b = NULL", "x.y = 1"]),
        lambda: r.pick([
            "USE DATABASE db", "USE `my db`", "DESCRIBE (FROM t SELECT a)", "DESC TABLE t SETTINGS describe_compact_output = 1", "DESCRIBE TABLE (SELECT 1 first)", "DESCRIBE numbers(3) FORMAT Null",
            "EXISTS DATABASE db", "EXISTS VIEW v", "EXISTS DICTIONARY db.d", "EXISTS TEMPORARY TABLE t", "EXISTS t", "DROP TABLE t1, t2", "DROP TABLE IF EXISTS t1, db.t2 SYNC", "DROP TABLE IF EMPTY t",
            "DROP TEMPORARY TABLE t", "DROP VIEW v SYNC", "DROP DICTIONARY IF EXISTS db.d", "DROP DATABASE db NO DELAY", "DROP FUNCTION IF EXISTS f ON CLUSTER c", "DROP INDEX i ON t", "DROP NAMED COLLECTION IF EXISTS n ON CLUSTER c",
            "DROP USER IF EXISTS u1, u2 FROM s", "DROP ROLE r ON CLUSTER c", "DROP ROW POLICY p ON t, p2 ON t2", "DROP POLICY IF EXISTS p ON db.*", "DROP QUOTA q", "DROP SETTINGS PROFILE p", "DROP PROFILE p", "DROP RESOURCE r", "DROP WORKLOAD w",
            "RENAME TABLE a TO b, c TO d ON CLUSTER c", "RENAME DATABASE a TO b", "RENAME DICTIONARY a TO b", "RENAME a TO b", "RENAME TABLE IF EXISTS a TO b", "EXCHANGE TABLES a AND b, c AND d", "WATCH v", "WATCH db.v EVENTS LIMIT 1 FORMAT Null",
            "UNDROP TABLE t UUID '00000000-0000-0000-0000-000000000001' ON CLUSTER c", "MOVE USER u TO s", "MOVE ROLE r1, r2 TO s", "EXECUTE AS u", "EXECUTE AS u SELECT 1", "PARALLEL WITH SELECT 1", "SELECT 1 PARALLEL WITH SELECT 2 first"]),
        lambda: "KILL " + r.pick(["QUERY WHERE query_id = 'x' SYNC FORMAT Null", "MUTATION WHERE database = 'db' AND table = 't' TEST", "QUERY ON CLUSTER c WHERE user = 'u' ASYNC", "TRANSACTION WHERE tid = (1, 1, '0')", "PART_MOVE_TO_SHARD WHERE 1"]),
        lambda: r.pick([
            "GRANT SELECT ON *.* TO u WITH REPLACE OPTION", "GRANT CURRENT GRANTS ON *.* TO u", "GRANT CURRENT GRANTS(SELECT ON db.*) TO u", "GRANT SELECT ON db.prefix* TO u", "GRANT SELECT(a, b), INSERT ON t TO u1, u2 WITH GRANT OPTION",
            "GRANT ON CLUSTER c r1, r2 TO u WITH ADMIN OPTION", "GRANT ALL ON *.* TO CURRENT_USER", "GRANT NAMED COLLECTION ON n TO u", "GRANT CREATE TEMPORARY TABLE, S3 ON *.* TO u", "GRANT SET DEFINER ON u2 TO u", "GRANT TABLE ENGINE ON MergeTree TO u",
            "GRANT SHOW NAMED COLLECTIONS SECRETS ON * TO u", "GRANT dictGet ON db.d TO u", "GRANT SELECT ON TABLE t TO u", "GRANT ALTER UPDATE(a), ALTER DELETE ON db.t TO r",
            "REVOKE ALL PRIVILEGES ON *.* FROM u", "REVOKE GRANT OPTION FOR SELECT ON t FROM u", "REVOKE ADMIN OPTION FOR r FROM u", "REVOKE SELECT ON *.* FROM ALL EXCEPT u", "REVOKE ON CLUSTER c SELECT(a) ON t FROM u1, u2", "REVOKE r1, r2 FROM u"]),
        lambda: r.pick(["BEGIN TRANSACTION", "COMMIT", "ROLLBACK", "BEGIN", "START TRANSACTION", "COMMIT AND CHAIN", "ROLLBACK TO SAVEPOINT s", "SET TRANSACTION SNAPSHOT 3"]),
        lambda: r.pick(["ATTACH TABLE t FROM '/p' (a UInt8) ENGINE = MergeTree ORDER BY a", "ATTACH TABLE t UUID '00000000-0000-0000-0000-000000000001' (a UInt8) ENGINE = Memory", "ATTACH TABLE t AS REPLICATED", "ATTACH TABLE t AS NOT REPLICATED",
                        "ATTACH DATABASE db ENGINE = Atomic", "ATTACH DICTIONARY IF NOT EXISTS d ON CLUSTER c", "ATTACH VIEW v AS SELECT 1 first", "ATTACH TABLE IF NOT EXISTS db.t ON CLUSTER c"]),
        lambda: "(" + sel() + ")" + r.pick(["", " FORMAT Null", " SETTINGS a = 1"]),
    ])()


GAP_GENERATORS = {"select": gap_select, "setop": gap_setop, "insert": gap_insert, "create": gap_create, "alter": gap_alter, "utility": gap_utility}
GAP_TAG = 0x67617073          # key of the generator that decides on, and builds, the --gaps statements


# ------------------------------------------------------------------------------------------
# main

def main():
    args = sys.argv[1:]
    kinds = None
    as_hex = False
    gaps = False
    start = 0
    pos = []
    i = 0
    while i < len(args):
        a = args[i]
        if a == "--hex":
            as_hex = True
        elif a == "--gaps":
            gaps = True
        elif a == "--kinds":
            i += 1
            kinds = args[i].split(",")
        elif a.startswith("--kinds="):
            kinds = a[len("--kinds="):].split(",")
        elif a == "--start":
            i += 1
            start = int(args[i])
        else:
            pos.append(a)
        i += 1
    if len(pos) != 2:
        sys.stderr.write(__doc__)
        sys.exit(2)
    seed, count = int(pos[0]), int(pos[1])
    if kinds is None:
        kinds = list(GENERATORS)
    for k in kinds:
        if k not in GENERATORS:
            sys.stderr.write("gen_sql_grammar: unknown kind %r (known: %s)\n" % (k, ",".join(GENERATORS)))
            sys.exit(2)
    out = sys.stdout
    MODE["hex"] = as_hex
    for idx in range(start, start + count):
        k = kinds[idx % len(kinds)]
        r = Rng(seed, idx)
        s = GENERATORS[k](r)
        if gaps:
            rg = Rng(seed, idx, GAP_TAG)
            if rg.below(6) == 0:
                s = GAP_GENERATORS[k](rg)
        s = " ".join(s.split())
        if r.p(1, 25):
            s = decorate(r, s)
        if RAW_TAB in s or RAW_CR in s or RAW_LF in s:
            s = s.replace(RAW_TAB, "\t").replace(RAW_CR, "\r").replace(RAW_LF, "\n")
        out.write((s.encode("utf-8").hex() if as_hex else s) + "\n")


GENERATORS = {"select": gen_select, "setop": gen_setop, "insert": gen_insert, "create": gen_create, "alter": gen_alter, "utility": gen_utility}

if __name__ == "__main__":
    main()
