#!/usr/bin/env python3
"""Grammar-based generator of syntactically VALID ClickHouse statements for the C04 oracle run
       gen_sql_grammar.py | /verif/build/explaindump | /verif/build/tree_driver

usage: gen_sql_grammar.py <seed> <count> [--kinds select,setop,insert,create,alter,utility]
                          [--hex] [--start <index>]

One statement per line (never contains a line break).  With --hex each line is the lowercase hex
of the statement (the input format of explaindump); without it the plain text.
Statement i depends only on (seed, i) through splitmix64, so `--start i` with count 1 replays it.

Kinds (statement i has kind kinds[i % len(kinds)]):
  select   one SELECT with a random subset of all clauses, expressions of every kind the printer
           knows; 1 in 12 is a deep-nesting case (up to 300 levels, never more)
  setop    UNION ALL / DISTINCT / bare, INTERSECT, EXCEPT chains, parenthesised members, WITH on
           the first member (inherited-WITH printers), union-level SETTINGS / FORMAT tails
  insert   INSERT ... SELECT, WITH ... INSERT ... SELECT, INSERT INTO FUNCTION, column lists, tails
  create   CREATE TABLE / VIEW / MATERIALIZED VIEW / DICTIONARY / DATABASE / FUNCTION / USER / ROLE ...
           (column lists with several indexes / constraints / projections, column-level and inline
           PRIMARY KEY incl. the empty one, ORDER BY with ASC / DESC and (), SETTINGS before and after
           COMMENT and a second SETTINGS clause, window views with INNER ENGINE, several
           authentication methods: the shapes the ddlcount enumeration of C04 reaches and a valid
           statement can produce)
  alter    ALTER TABLE with every command kind the parser knows (statistics kinds with arguments,
           full column declarations in ADD / MODIFY COLUMN, ADD INDEX ... AFTER, IN PARTITION ID,
           ALTER ... FORMAT)
  utility  SHOW*, DESCRIBE, EXPLAIN of all kinds, USE, SET, SYSTEM, OPTIMIZE, TRUNCATE, RENAME,
           EXCHANGE, GRANT/REVOKE, KILL, BACKUP/RESTORE, CHECK, ATTACH/DETACH, DROP*, EXISTS,
           UNDROP, transactions
"""
import sys

MASK = (1 << 64) - 1


def mix(z):
    z = (z + 0x9E3779B97F4A7C15) & MASK
    z = ((z ^ (z >> 30)) * 0xBF58476D1CE4E5B9) & MASK
    z = ((z ^ (z >> 27)) * 0x94D049BB133111EB) & MASK
    return z ^ (z >> 31)


class Rng:
    def __init__(self, *keys):
        s = 0x9E3779B97F4A7C15
        for k in keys:
            s = mix((s ^ (k & MASK)) & MASK)
        self.s = s

    def next(self):
        self.s = (self.s + 0x9E3779B97F4A7C15) & MASK
        return mix(self.s)

    def below(self, n):
        return self.next() % n

    def p(self, num, den):
        """true with probability num/den"""
        return self.next() % den < num

    def pick(self, seq):
        return seq[self.next() % len(seq)]

    def sample(self, seq, lo, hi):
        n = lo + self.below(hi - lo + 1)
        return [self.pick(seq) for _ in range(n)]


# ------------------------------------------------------------------------------------------
# names, literals, types

COLS = ["a", "b", "c", "x", "y", "id", "ts", "val", "name", "arr", "tup", "m"]
TABLES = ["t", "t1", "t2", "db.t", "db.events", "system.numbers", "hits"]
FUNCS1 = ["abs", "toString", "length", "toDate", "lower", "isNull", "toUInt8", "negate", "reverse", "empty"]
FUNCS2 = ["plus", "concat", "greatest", "if_null", "ifNull", "pow", "arrayElement", "has", "position", "substring"]
AGGS = ["count", "sum", "min", "max", "avg", "any", "uniq", "groupArray"]
FORMATS = ["Null", "JSON", "TSV", "CSV", "Pretty", "JSONEachRow", "Values", "TabSeparated"]
SETTINGS = ["max_threads", "max_block_size", "allow_experimental_analyzer", "join_use_nulls", "optimize_read_in_order"]


def ident(r):
    x = r.below(20)
    if x == 0:
        return "`" + r.pick(["weird name", "select", "a-b", "x.y", "1col"]) + "`"
    if x == 1:
        return '"' + r.pick(["quoted", "Order", "my col"]) + '"'
    return r.pick(COLS)


def col(r):
    x = r.below(10)
    if x == 0:
        return r.pick(["t", "t1", "t2"]) + "." + r.pick(COLS)
    if x == 1:
        return "db.t." + r.pick(COLS)
    return ident(r)


def string_lit(r):
    return "'" + r.pick(["abc", "", "hello world", "it\\'s", "a\\\\b", "%x%", "2020-01-01", "1", "\\n", "tab\\there",
                         "üñí", "a;b", "--c", "/*d*/"]) + "'"


def number_lit(r):
    return r.pick(["0", "1", "42", "255", "65536", "18446744073709551615", "1.5", "0.1", "1e10", "1.5e-3", "0x1F",
                   "0b101", "-1", "-2.5", "3.", ".5", "1_000", "inf", "nan", "9223372036854775808"])


def literal(r):
    x = r.below(12)
    if x < 5:
        return number_lit(r)
    if x < 8:
        return string_lit(r)
    if x == 8:
        return "NULL"
    if x == 9:
        return r.pick(["true", "false"])
    if x == 10:
        return "[" + ", ".join(r.pick([number_lit, string_lit])(r) for _ in range(r.below(4))) + "]"
    return "(" + ", ".join(literal(r) for _ in range(2 + r.below(2))) + ")"


SIMPLE_TYPES = ["UInt8", "UInt16", "UInt32", "UInt64", "Int8", "Int32", "Int64", "Float32", "Float64", "String",
                "Date", "DateTime", "UUID", "Bool", "IPv4", "Date32", "Int128", "UInt256"]


def data_type(r, depth=0, ddl=False):
    x = r.below(22 if depth < 3 else 8)
    if x == 19 and not ddl:
        x = 9
    if x < 8:
        return r.pick(SIMPLE_TYPES)
    if x == 8:
        return "Nullable(" + r.pick(SIMPLE_TYPES) + ")"
    if x == 9:
        return "Array(" + data_type(r, depth + 1) + ")"
    if x == 10:
        return "LowCardinality(" + r.pick(["String", "Nullable(String)", "FixedString(4)"]) + ")"
    if x == 11:
        return "FixedString(" + str(1 + r.below(64)) + ")"
    if x == 12:
        return "Decimal(" + str(10 + r.below(20)) + ", " + str(r.below(9)) + ")"
    if x == 13:
        return r.pick(["DateTime('UTC')", "DateTime64(3)", "DateTime64(6, 'Europe/Berlin')"])
    if x == 14:
        return "Tuple(" + ", ".join(data_type(r, depth + 1) for _ in range(1 + r.below(3))) + ")"
    if x == 15:
        return "Tuple(" + ", ".join(r.pick(["a", "b", "k", "v"]) + str(i) + " " + data_type(r, depth + 1)
                                    for i in range(1 + r.below(3))) + ")"
    if x == 16:
        return "Map(" + r.pick(["String", "UInt64", "LowCardinality(String)"]) + ", " + data_type(r, depth + 1) + ")"
    if x == 17:
        return "Enum8('a' = 1, 'b' = 2)"
    if x == 18:
        return r.pick(["Enum('x', 'y')", "Enum16('k' = -5, 'l' = 300)"])
    if x == 19:
        return "Nested(" + ", ".join(r.pick(["n", "k", "v"]) + str(i) + " " + r.pick(SIMPLE_TYPES)
                                     for i in range(1 + r.below(3))) + ")"
    if x == 20:
        return r.pick(["SimpleAggregateFunction(sum, UInt64)", "AggregateFunction(uniq, String)",
                       "AggregateFunction(quantiles(0.5, 0.9), Float64)"])
    return r.pick(["JSON", "Variant(String, UInt64)", "Dynamic", "Object('json')"])


# ------------------------------------------------------------------------------------------
# expressions

BINOPS = ["+", "-", "*", "/", "%", "=", "==", "!=", "<>", "<", "<=", ">", ">=", "AND", "OR", "||", "<=>",
          "DIV", "MOD"]


def expr(r, d=0, subq=True):
    """an expression; d = current depth (bounded), subq = may contain subqueries"""
    if d >= 4:
        return atom(r)
    x = r.below(46)
    e = lambda: expr(r, d + 1, subq)
    if x < 10:
        return atom(r)
    if x < 14:
        return e() + " " + r.pick(BINOPS) + " " + e()
    if x == 14:
        return "(" + e() + ")"
    if x == 15:
        a = atom(r)
        op = r.pick(["NOT ", "-", "not "])
        return op + ("(" + a + ")" if a.startswith("-") else a)     # never "--": that starts a comment
    if x == 16:
        return r.pick(FUNCS1) + "(" + e() + ")"
    if x == 17:
        return r.pick(FUNCS2) + "(" + e() + ", " + e() + ")"
    if x == 18:
        return r.pick(AGGS) + "(" + r.pick(["", "DISTINCT "]) + col(r) + ")"
    if x == 19:
        return r.pick(["quantile(0.5)", "quantiles(0.5, 0.9)", "topK(3)", "groupArray(10)",
                       "sequenceMatch('(?1)(?2)')"]) + "(" + e() + (", " + e() if r.p(1, 3) else "") + ")"
    if x == 20:
        return "count(*)" if r.p(1, 2) else "count()"
    if x == 21:
        return window_func(r, d)
    if x == 22:
        n = 1 + r.below(3)
        s = "CASE " + (e() + " " if r.p(1, 2) else "")
        for _ in range(n):
            s += "WHEN " + e() + " THEN " + e() + " "
        if r.p(2, 3):
            s += "ELSE " + e() + " "
        return s + "END"
    if x == 23:
        return "CAST(" + e() + " AS " + data_type(r) + ")"
    if x == 24:
        return "CAST(" + e() + ", '" + data_type(r).replace("'", "\\'") + "')"
    if x == 25:
        return cast_op(r, d)
    if x == 26:
        return lambda_call(r, d)
    if x == 27:
        return in_expr(r, d, subq)
    if x == 28:
        return e() + r.pick([" BETWEEN ", " NOT BETWEEN "]) + atom(r) + " AND " + atom(r)
    if x == 29:
        return e() + r.pick([" LIKE ", " NOT LIKE ", " ILIKE ", " NOT ILIKE "]) + string_lit(r)
    if x == 30:
        return e() + r.pick([" IS NULL", " IS NOT NULL"])
    if x == 31:
        return "INTERVAL " + r.pick(["1", "5", "'3'", "x"]) + " " + r.pick(["DAY", "HOUR", "MONTH", "SECOND", "WEEK",
                                                                           "YEAR", "MINUTE", "QUARTER"])
    if x == 32:
        return "EXTRACT(" + r.pick(["YEAR", "MONTH", "DAY", "HOUR"]) + " FROM " + e() + ")"
    if x == 33:
        return "[" + ", ".join(e() for _ in range(r.below(4))) + "]"
    if x == 34:
        return "(" + e() + ", " + ", ".join(e() for _ in range(1 + r.below(2))) + ")"
    if x == 35:
        return "tuple(" + ", ".join(e() for _ in range(r.below(3))) + ")"
    if x == 36:
        return "map(" + ", ".join(string_lit(r) + ", " + e() for _ in range(1 + r.below(2))) + ")"
    if x == 37:
        return postfix_base(r) + "[" + e() + "]"
    if x == 38:
        return postfix_base(r) + "." + str(1 + r.below(3))
    if x == 39:
        return e() + " ? " + e() + " : " + e()
    if x == 40 and subq:
        return "(" + select_core(r, d + 2, simple=True) + ")"
    if x == 41 and subq:
        return "EXISTS (" + select_core(r, d + 2, simple=True) + ")"
    if x == 42:
        return r.pick(["if", "multiIf"]) + "(" + e() + ", " + e() + ", " + e() + ")"
    if x == 43:
        return "trim(" + r.pick(["BOTH ", "LEADING ", "TRAILING "]) + string_lit(r) + " FROM " + e() + ")"
    if x == 44:
        return r.pick(["now()", "today()", "rand()", "currentDatabase()", "pi()"])
    return "substring(" + e() + r.pick([" FROM 1 FOR 2", ", 1, 2", " FROM 2"]) + ")"


def atom(r):
    x = r.below(10)
    if x < 5:
        return col(r)
    if x < 9:
        return literal(r)
    return r.pick(["{p:UInt32}", "{name:String}"])


def postfix_base(r):
    return r.pick(["arr", "tup", "m", "x", "(1, 2, 3)", "[1, 2]", "t.arr", "f(x)", "arr[1]", "tup.1"])


def window_func(r, d):
    f = r.pick(["row_number()", "rank()", "sum(x)", "lagInFrame(x, 1)", "count()", "first_value(y)",
                "dense_rank()", "nth_value(x, 2)"])
    if r.p(1, 4):
        return f + " OVER w"
    parts = []
    if r.p(1, 2):
        parts.append("PARTITION BY " + ", ".join(col(r) for _ in range(1 + r.below(2))))
    if r.p(2, 3):
        parts.append("ORDER BY " + col(r) + r.pick(["", " DESC", " ASC"]))
        if r.p(1, 2):
            parts.append(r.pick(["ROWS BETWEEN UNBOUNDED PRECEDING AND CURRENT ROW",
                                 "ROWS BETWEEN 1 PRECEDING AND 1 FOLLOWING",
                                 "RANGE BETWEEN UNBOUNDED PRECEDING AND UNBOUNDED FOLLOWING",
                                 "ROWS 2 PRECEDING", "RANGE CURRENT ROW",
                                 "ROWS BETWEEN CURRENT ROW AND UNBOUNDED FOLLOWING"]))
    return f + " OVER (" + " ".join(parts) + ")"


def cast_op(r, d):
    """the `::` operator, including array / tuple literal operands with non-literal elements"""
    x = r.below(12)
    e = lambda: expr(r, d + 2, False)
    if x == 0:
        return col(r) + "::" + data_type(r)
    if x == 1:
        return number_lit(r).lstrip("-") + "::" + r.pick(["UInt8", "Int64", "Float64", "String", "Decimal(10, 2)"])
    if x == 2:
        return string_lit(r) + "::" + r.pick(["Date", "DateTime", "UUID", "String", "IPv4", "Int32"])
    if x == 3:
        return "[" + ", ".join(number_lit(r) for _ in range(r.below(4))) + "]::Array(" + r.pick(SIMPLE_TYPES) + ")"
    if x == 4:
        return "[" + ", ".join(r.pick(["NULL", "1", "'a'", "true", "[1, 2]", "(1, 'x')", "-3", "1.5"])
                               for _ in range(1 + r.below(3))) + "]::Array(Nullable(String))"
    if x == 5:
        # NON-literal elements
        return "[" + ", ".join(r.pick(["NULL", "1", "x[1]", "t.1", "tup.2", "a::UInt8", "1::Int8::Int16",
                                       "CASE WHEN a THEN 1 ELSE 2 END", "(a ? 1 : 2)", "abs(x)", "x + 1",
                                       "arr[2]", "(SELECT 1)", "-x", "NOT a"])
                               for _ in range(1 + r.below(4))) + "]::Array(Nullable(UInt8))"
    if x == 6:
        return "(" + ", ".join(r.pick(["NULL", "1", "'s'", "x[1]", "t.1", "a::UInt8", "abs(x)", "[1, 2]", "true",
                                       "CASE WHEN a THEN 1 END", "x", "1 + 2"])
                               for _ in range(2 + r.below(3))) + ")::Tuple(" + r.pick(
            ["UInt8, String", "Nullable(UInt8), Nullable(UInt8)", "a UInt8, b String"]) + ")"
    if x == 7:
        return "(" + e() + ")::" + data_type(r)
    if x == 8:
        return r.pick(FUNCS1) + "(" + e() + ")::" + r.pick(SIMPLE_TYPES)
    if x == 9:
        return col(r) + "::" + r.pick(SIMPLE_TYPES) + "::" + r.pick(["String", "Nullable(String)"])
    if x == 10:
        return "arr[1]::" + r.pick(SIMPLE_TYPES)
    return "NULL::Nullable(" + r.pick(SIMPLE_TYPES) + ")"


def lambda_call(r, d):
    e = lambda: expr(r, d + 2, False)
    x = r.below(4)
    if x == 0:
        return "arrayMap(x -> " + e() + ", " + r.pick(["arr", "[1, 2, 3]", "range(10)"]) + ")"
    if x == 1:
        return "arrayFilter((x, y) -> " + e() + ", arr, arr)"
    if x == 2:
        return "arrayMap(lambda(tuple(x), x + 1), arr)"
    return "arrayExists(x -> x " + r.pick(["=", ">", "!="]) + " " + atom(r) + ", arr)"


def in_expr(r, d, subq):
    lhs = expr(r, d + 2, False) if r.p(2, 3) else "(" + col(r) + ", " + col(r) + ")"
    op = r.pick([" IN ", " NOT IN ", " GLOBAL IN ", " GLOBAL NOT IN "])
    x = r.below(7)
    if x == 0:
        rhs = "(" + ", ".join(literal(r) for _ in range(1 + r.below(4))) + ")"
    elif x == 1:
        rhs = "(" + ", ".join("(" + number_lit(r) + ", " + string_lit(r) + ")" for _ in range(1 + r.below(3))) + ")"
    elif x == 2 and subq:
        rhs = "(" + select_core(r, d + 2, simple=True) + ")"
    elif x == 3:
        rhs = r.pick(["t2", "db.t", "arr", "[1, 2, 3]", "tuple(1, 2)"])
    elif x == 4:
        rhs = "(" + expr(r, d + 2, False) + ")"
    elif x == 5:
        rhs = "(" + col(r) + ", " + number_lit(r) + ", " + expr(r, d + 2, False) + ")"
    else:
        rhs = "(1)"
    return lhs + op + rhs


def alias(r):
    return r.pick(["k", "v", "res", "cnt", "x1", "`my alias`", "total"])


def select_item(r, d):
    x = r.below(24)
    if x == 0:
        return "*"
    if x == 1:
        return r.pick(["t", "t1", "db.t"]) + ".*"
    if x == 2:
        return "COLUMNS('" + r.pick(["^a", "x|y", ".*id$"]) + "')" + col_transformers(r)
    if x == 3:
        return "* " + col_transformers(r, force=True).strip()
    if x == 4:
        return "COLUMNS(a, b)" + col_transformers(r)
    e = expr(r, d)
    if r.p(1, 3):
        e += r.pick([" AS ", " "]) + alias(r) if not e.rstrip().endswith(("END", "NULL")) or True else ""
    return e


def col_transformers(r, force=False):
    out = ""
    n = r.below(3) + (1 if force else 0)
    for _ in range(n):
        x = r.below(6)
        if x == 0:
            out += " APPLY(" + r.pick(["sum", "toString", "max"]) + ")"
        elif x == 1:
            out += " APPLY " + r.pick(["sum", "any"])
        elif x == 2:
            out += " EXCEPT (" + ", ".join(r.pick(COLS) for _ in range(1 + r.below(2))) + ")"
        elif x == 3:
            out += " EXCEPT " + r.pick(COLS)
        elif x == 4:
            out += " REPLACE (" + ", ".join(r.pick(["a + 1", "toString(b)", "x * 2"]) + " AS " + r.pick(COLS)
                                            for _ in range(1 + r.below(2))) + ")"
        else:
            out += " APPLY(x -> x + 1)"
    return out


# ------------------------------------------------------------------------------------------
# SELECT

# the parser takes INTO (of INTO OUTFILE) for a table alias when it directly follows a table
# expression without alias / FINAL / SAMPLE; STATE["bare"] tells that the text generated last ends so
STATE = {"bare": False}


def table_expr(r, d, first=True):
    x = r.below(16)
    if x < 7:
        s = r.pick(TABLES)
    elif x < 10 and d < 4:
        s = "(" + select_with_union(r, d + 1, simple=True) + ")"
    elif x == 10:
        s = r.pick(["numbers(10)", "numbers(1, 5)", "remote('127.0.0.1', db.t)", "file('a.csv', 'CSV', 'x UInt8')",
                    "url('http://h/x', JSONEachRow)", "s3('http://b/k', 'CSV')", "generateRandom('a UInt8', 1, 2)",
                    "cluster('c', db, t)", "merge('db', '^t')", "view(SELECT 1)", "values('a UInt8', 1, 2)",
                    "zeros(3)", "mysql('h:3306', 'd', 't', 'u', 'p')"])
    elif x == 11:
        s = "system.one"
    else:
        s = r.pick(TABLES)
    bare = True
    if r.p(1, 4):
        s += r.pick([" AS ", " "]) + r.pick(["u", "v", "tt", "s1", "s2"])
        bare = False
    if first and x < 7 and r.p(1, 8):
        s += " FINAL"
        bare = False
    if first and x < 7 and r.p(1, 8):
        s += " SAMPLE " + r.pick(["0.1", "1/10", "1000", "1/10 OFFSET 1/2", "0.5 OFFSET 0.25"])
        bare = False
    STATE["bare"] = bare
    return s


JOINS = ["JOIN", "INNER JOIN", "LEFT JOIN", "RIGHT JOIN", "FULL JOIN", "LEFT OUTER JOIN", "FULL OUTER JOIN",
         "CROSS JOIN", "ANY LEFT JOIN", "ALL INNER JOIN", "ASOF LEFT JOIN", "SEMI LEFT JOIN", "ANTI LEFT JOIN",
         "GLOBAL LEFT JOIN", "LEFT ANY JOIN", "LEFT SEMI JOIN", "LEFT ANTI JOIN", "ASOF JOIN", "INNER ANY JOIN",
         "RIGHT SEMI JOIN", "GLOBAL ANY INNER JOIN", "PASTE JOIN"]


def from_clause(r, d):
    s = "FROM " + table_expr(r, d)
    n = r.pick([0, 0, 0, 1, 1, 2, 3])
    for _ in range(n):
        x = r.below(8)
        if x == 0:
            s += ", " + table_expr(r, d, first=False)
            continue
        if x == 1:
            s += r.pick([" ARRAY JOIN ", " LEFT ARRAY JOIN "]) + ", ".join(
                r.pick(["arr", "arr AS e", "[1, 2] AS q", "arrayEnumerate(arr) AS i", "m.keys AS k"])
                for _ in range(1 + r.below(2)))
            STATE["bare"] = False
            continue
        j = r.pick(JOINS)
        s += " " + j + " " + table_expr(r, d, first=False)
        if "CROSS" in j or "PASTE" in j:
            continue
        if r.p(2, 3):
            s += " ON " + r.pick(["t.a = t2.a", "t1.id = t2.id AND t1.x > 0", "a = b", "t.ts >= t2.ts"])
        else:
            s += " USING " + r.pick(["(a)", "(a, b)", "a", "id, ts"])
        STATE["bare"] = False
    return s


def with_clause(r, d):
    items = []
    for _ in range(1 + r.below(3)):
        x = r.below(6)
        if x == 0 and d < 4:
            items.append(r.pick(["cte", "q1", "sub"]) + " AS (" + select_with_union(r, d + 1, simple=True) + ")")
        elif x == 1 and d < 4:
            items.append("(" + select_core(r, d + 1, simple=True) + ") AS " + r.pick(["s", "mx"]))
        elif x == 2:
            items.append(literal(r) + " AS " + r.pick(["c1", "c2", "w"]))
        else:
            items.append(expr(r, d + 2, False) + " AS " + r.pick(["w1", "w2", "e"]))
    return "WITH " + ", ".join(items)


def order_elem(r, d):
    s = expr(r, d + 2, False) if r.p(1, 3) else col(r)
    s += r.pick(["", "", " ASC", " DESC"])
    if r.p(1, 8):
        s += r.pick([" NULLS FIRST", " NULLS LAST"])
    if r.p(1, 10):
        s += " COLLATE " + r.pick(["'en'", "'en'", "'tr'", "'x\\ny'"])
    return s


def order_by(r, d):
    elems = [order_elem(r, d) for _ in range(1 + r.below(3))]
    fill = r.p(1, 4)
    if fill:
        f = " WITH FILL"
        if r.p(1, 2):
            f += " FROM " + r.pick(["1", "toDate('2020-01-01')", "0"])
        if r.p(1, 2):
            f += " TO " + r.pick(["10", "100", "toDate('2021-01-01')"])
        if r.p(1, 2):
            f += " STEP " + r.pick(["1", "2", "INTERVAL 1 DAY"])
        if r.p(1, 6):
            f += " STALENESS " + r.pick(["3", "INTERVAL 2 HOUR"])
        elems[-1] += f
    s = "ORDER BY " + ", ".join(elems)
    if fill and r.p(2, 3):
        s += " " + r.pick(["INTERPOLATE", "INTERPOLATE ()", "INTERPOLATE (a)", "INTERPOLATE (a AS a + 1)",
                           "INTERPOLATE (a, b AS b * 2)", "INTERPOLATE (x AS x + 1, y)"])
    return s


def group_by(r, d):
    x = r.below(14)
    if x == 0:
        return "GROUP BY ALL"
    if x == 1:
        return "GROUP BY GROUPING SETS (" + ", ".join(
            r.pick(["(a)", "(a, b)", "()", "a", "((a, b))", "(a, b, c)", "(toDate(ts))", "(a + 1, b)"])
            for _ in range(1 + r.below(4))) + ")"
    if x == 2:
        return "GROUP BY " + r.pick(["ROLLUP", "CUBE"]) + "(" + ", ".join(col(r) for _ in range(1 + r.below(3))) + ")"
    s = "GROUP BY " + ", ".join(expr(r, d + 2, False) if r.p(1, 3) else col(r) for _ in range(1 + r.below(3)))
    if x == 3:
        s += " WITH ROLLUP"
    elif x == 4:
        s += " WITH CUBE"
    if x in (5, 6):
        s += " WITH TOTALS"
    return s


def limit_clause(r):
    x = r.below(20)
    n = lambda: r.pick(["1", "2", "10", "100", "{lim:UInt64}", "1 + 1", "toUInt8(5)"])
    forms = [
        lambda: "LIMIT " + n(),
        lambda: "LIMIT " + n() + ", " + n(),
        lambda: "LIMIT " + n() + " OFFSET " + n(),
        lambda: "LIMIT " + n() + " BY " + col(r),
        lambda: "LIMIT " + n() + ", " + n() + " BY " + col(r) + ", " + col(r),
        lambda: "LIMIT " + n() + " BY " + col(r) + " LIMIT " + n(),
        lambda: "LIMIT " + n() + " BY " + col(r) + " LIMIT " + n() + ", " + n(),
        lambda: "LIMIT " + n() + " BY " + col(r) + " LIMIT " + n() + " OFFSET " + n(),
        lambda: "LIMIT " + n() + " OFFSET " + n() + " BY " + col(r),
        lambda: "OFFSET " + n(),
        lambda: "OFFSET " + n() + r.pick([" ROW", " ROWS"]),
        lambda: "OFFSET " + n() + " ROWS FETCH " + r.pick(["FIRST", "NEXT"]) + " " + n() + " ROWS ONLY",
        lambda: "LIMIT " + n() + " WITH TIES",
        lambda: "LIMIT " + n() + " BY " + col(r) + " OFFSET " + n(),
        lambda: "OFFSET " + n() + " ROWS FETCH FIRST " + n() + " ROW ONLY",
        lambda: "LIMIT " + n() + ", " + n() + " BY " + col(r) + " LIMIT " + n(),
        lambda: "LIMIT " + n() + " BY " + expr(r, 3, False),
        lambda: "LIMIT " + n() + " BY " + col(r) + ", " + col(r) + ", " + col(r),
        lambda: "LIMIT " + n(),
        lambda: "LIMIT " + n() + " BY " + col(r) + ", " + col(r) + " LIMIT " + n() + " OFFSET " + n(),
    ]
    return forms[x]()


def settings_clause(r):
    return "SETTINGS " + ", ".join(r.pick(SETTINGS) + " = " + r.pick(["1", "0", "100", "'x'", "1.5"])
                                   for _ in range(1 + r.below(2)))


def select_tail(r, outfile=True, s_then_f=True, fmt_ok=True):
    """statement-level tail after a select / union: a mix of SETTINGS, INTO OUTFILE, FORMAT, SETTINGS.
    The flags switch off the forms the parser does not take after a parenthesised last member /
    after an INTERSECT-EXCEPT chain."""
    f = lambda: "FORMAT " + r.pick(FORMATS)
    o = lambda: "INTO OUTFILE " + r.pick(["'f.csv'", "'out.tsv'", "'o.gz'", "'dir/f.csv'", "'a\\tb.tsv'", "'two\\nlines'"])
    s = lambda: settings_clause(r)
    forms = [(lambda: "", True)] * 6 + [
        (f, fmt_ok), (s, True), (o, outfile),
        (lambda: s() + " " + f(), s_then_f and fmt_ok),
        (lambda: f() + " " + s(), fmt_ok),
        (lambda: o() + " " + f(), outfile and fmt_ok),
        (lambda: s() + " " + f() + " " + s(), s_then_f and fmt_ok),
        (lambda: o() + " " + f() + " " + s(), outfile and fmt_ok),
        (lambda: s() + " " + o() + " " + f(), outfile and s_then_f and fmt_ok),
        (f, fmt_ok)]
    g, ok = forms[r.below(len(forms))]
    return g() if ok else ""


def select_core(r, d=0, simple=False, force_from=False):
    """SELECT ... without a statement-level tail"""
    p = []
    rich = not simple or r.p(1, 3)
    if rich and r.p(1, 4):
        p.append(with_clause(r, d))
    s = "SELECT"
    x = r.below(12)
    if x == 0:
        s += " DISTINCT"
    elif x == 1 and rich:
        s += " DISTINCT ON (" + ", ".join(col(r) for _ in range(1 + r.below(2))) + ")"
    elif x == 2:
        s += " ALL"
    if rich and r.p(1, 14):
        s += " TOP " + r.pick(["3", "10", "5 WITH TIES"])
    p.append(s)
    p.append(", ".join(select_item(r, d + 1) for _ in range(1 + (r.below(4) if rich else r.below(2)))))
    has_from = force_from or r.p(4, 5)
    from_idx = -1
    from_bare = False
    if has_from:
        p.append(from_clause(r, d + 1) if rich else "FROM " + table_expr(r, d + 1))
        from_idx = len(p)
        from_bare = STATE["bare"]
        if rich and r.p(1, 8):
            p.append("PREWHERE " + expr(r, d + 2, False))
    elif rich and r.p(1, 10):
        p.append("ARRAY JOIN [1, 2] AS e")
    if r.p(1, 3):
        p.append("WHERE " + expr(r, d + 1))
    if not rich:
        if r.p(1, 5):
            p.append("GROUP BY " + col(r))
        if r.p(1, 5):
            p.append("ORDER BY " + col(r))
        if r.p(1, 5):
            p.append("LIMIT " + str(1 + r.below(9)))
        STATE["bare"] = from_bare and from_idx == len(p)
        return " ".join(p)
    if r.p(1, 3):
        p.append(group_by(r, d))
        if r.p(1, 3):
            p.append("HAVING " + expr(r, d + 2, False))
    has_window = r.p(1, 10)
    has_qualify = r.p(1, 12)
    if has_qualify and not has_window:
        p.append("QUALIFY " + expr(r, d + 2, False))
    if has_window:
        p.append("WINDOW w AS (" + r.pick(["PARTITION BY a", "ORDER BY ts", "PARTITION BY a ORDER BY b DESC",
                                            "ORDER BY x ROWS BETWEEN 1 PRECEDING AND CURRENT ROW", ""]) + ")"
                 + (", w2 AS (PARTITION BY b)" if r.p(1, 3) else ""))
    if has_window and has_qualify:
        # ClickHouse's order is WINDOW, QUALIFY, ORDER BY; the parser takes a QUALIFY that follows
        # WINDOW only at the very end of the SELECT
        p.append("QUALIFY " + expr(r, d + 2, False))
    else:
        if r.p(1, 3):
            p.append(order_by(r, d))
        if r.p(2, 5):
            p.append(limit_clause(r))
    STATE["bare"] = from_bare and from_idx == len(p)
    return " ".join(x for x in p if x)


def member(r, d, simple=False):
    s = select_core(r, d, simple)
    if r.p(1, 4):
        return "(" + s + ")"
    return s


def select_with_union(r, d=0, simple=False):
    s = select_core(r, d, simple)
    n = r.pick([0, 0, 0, 1, 1, 2])
    for _ in range(n):
        s += " " + r.pick(["UNION ALL", "UNION ALL", "UNION DISTINCT", "UNION"]) + " " + member(r, d, True)
    return s


def deep_case(r):
    """nesting up to 300 levels, never more"""
    x = r.below(8)
    if x == 0:
        n = 100 + r.below(200)      # nested function calls: 130+ for most
        f = r.pick(["abs", "toString", "negate", "identity"])
        return "SELECT " + (f + "(") * n + "1" + ")" * n
    if x == 1:
        n = 20 + r.below(60)        # nested FROM subqueries
        return "SELECT * FROM (" * n + "SELECT 1" + ")" * n
    if x == 2:
        n = 50 + r.below(250)       # deep parenthesised arithmetic
        return "SELECT " + "(" * n + "1" + " + 1)" * n
    if x == 3:
        n = 50 + r.below(150)
        return "SELECT " + "[" * n + "x" + "]" * n
    if x == 4:
        n = 20 + r.below(80)
        return "SELECT " + "CASE WHEN a THEN " * n + "1" + " ELSE 0 END" * n
    if x == 5:
        n = 20 + r.below(100)
        return "SELECT " + "if(a, " * n + "1" + ", 0)" * n
    if x == 6:
        n = 10 + r.below(60)
        return "SELECT a FROM t WHERE a IN (" + "SELECT a FROM t WHERE a IN (" * n + "SELECT 1" + ")" * n + ")"
    n = 30 + r.below(200)
    return "SELECT " + "-(" * n + "x" + ")" * n + ", " + "NOT (" * 40 + "a" + ")" * 40


def gen_select(r):
    if r.p(1, 12):
        return deep_case(r)
    s = select_core(r, 0)
    t = select_tail(r, outfile=not STATE["bare"])
    return s + (" " + t if t else "")


def gen_setop(r):
    x = r.below(10)
    if x < 5:
        ops = ["UNION ALL", "UNION ALL", "UNION DISTINCT", "UNION"]
    elif x < 7:
        ops = ["INTERSECT", "EXCEPT", "INTERSECT DISTINCT", "EXCEPT DISTINCT"]
    else:
        ops = ["UNION ALL", "UNION DISTINCT", "UNION", "INTERSECT", "EXCEPT"]
    maybe_setop = x >= 5
    # (a member ending in `*` / COLUMNS(..) directly before EXCEPT would read as a column transformer)
    first = select_core(r, 1, simple=not r.p(1, 3), force_from=maybe_setop)
    if r.p(1, 2) and not first.startswith("WITH"):
        first = with_clause(r, 2) + " " + first      # WITH on the first member: inherited-WITH printers
    if first.startswith("WITH") and x >= 7:
        # a statement that starts with WITH takes UNION before INTERSECT / EXCEPT only in parentheses
        ops = r.pick([["UNION ALL", "UNION DISTINCT", "UNION"], ["INTERSECT", "EXCEPT"]])
    first_paren = (not maybe_setop or x < 7) and r.p(1, 6)
    if first_paren:
        first = "(" + first + ")"
    s = first
    n = 1 + r.below(4)
    setop = False
    last_paren = False
    bare = False
    for _ in range(n):
        m = select_core(r, 1, simple=not r.p(1, 4), force_from=maybe_setop)
        bare = STATE["bare"]
        y = r.below(6)
        last_paren = y < 2
        if y == 0:
            m = "(" + m + ")"
        elif y == 1:
            m = "(" + m + " " + r.pick(["UNION ALL", "UNION DISTINCT"]) + " " + select_core(r, 2, True) + ")"
        op = r.pick(ops)
        setop = setop or op[0] in "IE"
        s += " " + op + " " + m
    t = select_tail(r, outfile=not last_paren and not bare, s_then_f=not setop,
                    fmt_ok=not (setop and last_paren))
    return s + (" " + t if t else "")


# ------------------------------------------------------------------------------------------
# INSERT

def gen_insert(r):
    pre = ""
    if r.p(1, 3):
        pre = with_clause(r, 2) + " "            # WITH ... INSERT ... SELECT (inherited-WITH printers)
    x = r.below(10)
    if x == 0:
        tgt = r.pick(["FUNCTION ", "TABLE FUNCTION "]) + r.pick(
            ["file('a.csv', 'CSV', 'x UInt8')", "remote('h', db.t)", "s3('http://b/k', 'CSV')", "null('a UInt8')"])
        if r.p(1, 3):
            tgt += " PARTITION BY " + col(r)
    else:
        tgt = r.pick(["", "", "TABLE "]) + r.pick(["t", "db.t", "`my table`", "t2"])
    cols = ""
    y = r.below(8)
    if y < 3:
        cols = " (" + ", ".join(ident(r) for _ in range(1 + r.below(3))) + ")"
    elif y == 3:
        cols = r.pick([" (*)", " (* EXCEPT (a))", " (COLUMNS('a'))", " (* EXCEPT a)"])
    s = pre + "INSERT INTO " + tgt + cols
    if not pre and r.p(1, 10):
        s += " " + settings_clause(r)
    z = r.below(14)
    if z == 0 and not pre:
        return s + " FORMAT " + r.pick(FORMATS)
    if z == 1 and not pre:
        return s + " FROM INFILE 'f.csv'" + r.pick(["", " COMPRESSION 'gzip'"]) + " FORMAT CSV"
    if z < 5:
        body = select_with_union(r, 1, simple=True)
    elif z < 7:
        body = gen_setop(Rng(r.next()))
        while body.startswith("("):
            body = gen_setop(Rng(r.next()))
        return s + " " + body
    else:
        body = select_core(r, 1, simple=not r.p(1, 3))
    t = select_tail(r, outfile=False)
    return s + " " + body + (" " + t if t else "")


# ------------------------------------------------------------------------------------------
# CREATE

def stat_kinds(r):
    """statistics kinds of ALTER ... ADD / MODIFY STATISTICS: plain and with arguments (ParserIdentifierWithOptionalParameters)"""
    return ", ".join(r.pick(["tdigest", "uniq", "minmax", "countmin", "tdigest(5)", "countmin(1, 2)", "uniq(a + 1)",
                             "tdigest('x', 2)"]) for _ in range(1 + r.below(3)))


def column_decl(r):
    s = ident(r) + " " + data_type(r, ddl=True)
    if r.p(1, 12):
        return s + " STATISTICS(" + r.pick(["tdigest", "uniq", "tdigest, uniq", "minmax, uniq, countmin"]) + ")"
    x = r.below(12)
    if x == 0:
        s += r.pick([" NULL", " NOT NULL"])
    if r.p(1, 4):
        s += " " + r.pick(["DEFAULT", "MATERIALIZED", "ALIAS"]) + " " + expr(r, 3, False)
        if r.p(1, 12):
            return s + " PRIMARY KEY"
    elif r.p(1, 20):
        s += " EPHEMERAL" + r.pick(["", "", " 'x'", " 0"])
    elif r.p(1, 24):
        return s + " PRIMARY KEY"
    if r.p(1, 6):
        s += " CODEC(" + ", ".join(r.pick(["ZSTD(3)", "LZ4", "Delta", "DoubleDelta", "NONE", "LZ4HC(9)", "T64",
                                            "Gorilla", "Delta(4)"]) for _ in range(1 + r.below(2))) + ")"
    if r.p(1, 8):
        s += " TTL " + r.pick(["ts", "d"]) + " + INTERVAL " + str(1 + r.below(9)) + " " + r.pick(["DAY", "MONTH"])
    if r.p(1, 8):
        s += " COMMENT " + string_lit(r)
    if r.p(1, 16):
        s += " SETTINGS (max_compress_block_size = 1)"
    return s


def columns_def(r):
    items = [column_decl(r) for _ in range(1 + r.below(4))]
    if r.p(1, 5):
        for _ in range(r.pick([1, 1, 1, 2, 3])):
            items.append("INDEX " + r.pick(["i", "idx1", "j"]) + " " + r.pick(["a", "a + 1", "(a, b)", "lower(name)"])
                         + " TYPE " + r.pick(["minmax", "set(100)", "bloom_filter(0.01)", "ngrambf_v1(3, 256, 2, 0)",
                                              "tokenbf_v1(256, 2, 0)", "bloom_filter", "set(0)"]) + r.pick(["", " GRANULARITY 4"]))
    if r.p(1, 8):
        for _ in range(r.pick([1, 1, 2])):
            items.append("CONSTRAINT " + r.pick(["c1", "chk"]) + r.pick([" CHECK ", " ASSUME "]) + expr(r, 3, False))
    if r.p(1, 8):
        for _ in range(r.pick([1, 1, 2])):
            items.append("PROJECTION " + r.pick(["p", "proj"]) + " (" + r.pick(["", "", "WITH 1 AS w "]) + "SELECT "
                         + r.pick(["a, count() GROUP BY a", "* ORDER BY a", "sum(b)", "a, b ORDER BY b", "a, sum(b) GROUP BY a",
                                   "a, b ORDER BY a, b", "a, b, c ORDER BY (a, b)"]) + ")")
    if r.p(1, 12):
        items.append("PRIMARY KEY " + r.pick(["(a)", "(a, b)", "a", "()", "(a, b, c)"]))
    return "(" + ", ".join(items) + ")"


def ttl_list(r):
    elems = []
    for _ in range(1 + r.below(3)):
        e = r.pick(["ts", "d", "toDate(ts)"]) + " + INTERVAL " + str(1 + r.below(9)) + " " + r.pick(["DAY", "MONTH", "YEAR"])
        x = r.below(8)
        if x == 0:
            e += " DELETE"
        elif x == 1:
            e += " TO DISK 'cold'"
        elif x == 2:
            e += " TO VOLUME 'slow'"
        elif x == 3:
            e += " RECOMPRESS CODEC(" + r.pick(["ZSTD(1)", "LZ4HC(10)", "ZSTD(17), Delta"]) + ")"
        elif x == 4:
            e += " GROUP BY a SET b = max(b)" + r.pick(["", ", c = any(c)"])
        elif x == 5:
            e += " DELETE WHERE " + expr(r, 3, False)
        elems.append(e)
    return ", ".join(elems)


def engine_clause(r, full=True):
    e = r.pick(["Memory", "MergeTree", "MergeTree()", "ReplacingMergeTree(ver)", "SummingMergeTree",
                "ReplicatedMergeTree('/p/{shard}', '{replica}')", "Log", "TinyLog", "Null",
                "Distributed(c, db, t, rand())", "AggregatingMergeTree", "CollapsingMergeTree(sign)",
                "Buffer(db, t, 16, 10, 100, 10000, 1000000, 10000000, 100000000)", "Kafka", "File(CSV)",
                "URL('http://h/x', CSV)", "Merge(db, '^t')", "Join(ANY, LEFT, a)", "Set", "EmbeddedRocksDB"])
    s = "ENGINE = " + e
    if "MergeTree" in e and full:
        if r.p(1, 3):
            s += " PARTITION BY " + r.pick(["toYYYYMM(ts)", "a", "(a, toDate(ts))", "tuple()"])
        s += " ORDER BY " + r.pick(["a", "(a, b)", "tuple()", "(a, toDate(ts), b)", "id", "a", "(a, b)", "()", "a DESC",
                                    "(a, b DESC)", "(a DESC, b DESC)", "a ASC", "toDate(ts)", "(a)"])
        if r.p(1, 5):
            s += " PRIMARY KEY " + r.pick(["a", "(a)", "id", "(a, b)", "()", "tuple()", "toDate(ts)"])
        if r.p(1, 8):
            s += " SAMPLE BY " + r.pick(["a", "intHash32(id)"])
        if r.p(1, 5):
            s += " TTL " + ttl_list(r)
        if r.p(1, 4):
            s += " SETTINGS index_granularity = " + r.pick(["8192", "1024"]) + r.pick(["", ", min_bytes_for_wide_part = 0"])
    elif e == "Kafka":
        s += " SETTINGS kafka_broker_list = 'h:9092', kafka_topic_list = 't', kafka_format = 'JSONEachRow'"
    return s


def gen_create(r):
    x = r.below(40)
    ine = r.pick(["", "", "IF NOT EXISTS "])
    oc = r.pick(["", "", "", " ON CLUSTER c", " ON CLUSTER test_cluster"])
    tname = r.pick(["t", "db.t", "`my table`", "t_new"])
    if x < 12:
        head = r.pick(["CREATE TABLE ", "CREATE TABLE ", "CREATE OR REPLACE TABLE ", "CREATE TEMPORARY TABLE ",
                       "ATTACH TABLE ", "REPLACE TABLE "])
        if head.startswith(("CREATE OR", "REPLACE")):
            ine = ""
        if head.startswith("ATTACH"):
            oc = ""
        s = head + ine + tname + oc
        if r.p(1, 12):
            s += " UUID '00000000-0000-0000-0000-000000000001'"
        y = r.below(10)
        if head.startswith("ATTACH") and y < 3:
            y = 5
        if y == 0:
            return s + " AS " + r.pick(["t2", "db.t2"]) + r.pick(["", " " + engine_clause(r)])
        if y == 1:
            return s + " AS " + r.pick(["numbers(10)", "remote('h', db.t)", "file('a.csv')"])
        if y == 2:
            return s + " " + engine_clause(r) + " AS " + select_with_union(r, 1, simple=True)
        s += " " + columns_def(r) + " " + engine_clause(r)
        if y == 3:
            s += " AS " + select_core(r, 1, simple=True) + r.pick(["", "", "", " FORMAT Null"])
        elif r.p(1, 6):
            # COMMENT, then possibly SETTINGS after it (the table's when the engine clause had none, else a second clause)
            s += " COMMENT " + string_lit(r) + r.pick(["", "", " SETTINGS max_threads = 1"])
        elif r.p(1, 12) and " SETTINGS " in s:
            s += " AS SELECT 1 SETTINGS max_threads = 1"
        return s
    if x < 17:
        s = r.pick(["CREATE VIEW ", "CREATE OR REPLACE VIEW ", "CREATE VIEW IF NOT EXISTS "]) + r.pick(["v", "db.v"]) + oc
        if r.p(1, 6):
            s += " (a UInt8, b String)"
        body = r.pick([lambda: select_core(r, 1), lambda: select_with_union(r, 1, simple=True),
                       lambda: "(" + select_core(r, 1, True) + ")", lambda: gen_setop(Rng(r.next()))])()
        return s + " AS " + body
    if x < 22:
        s = "CREATE MATERIALIZED VIEW " + ine + r.pick(["mv", "db.mv"]) + oc
        y = r.below(8)
        if y == 0:
            s += " REFRESH " + r.pick(["EVERY 1 HOUR", "AFTER 10 MINUTE", "EVERY 30 MINUTE"]) \
                 + r.pick(["", " APPEND"]) + " TO dst"
        elif y < 4:
            s += " TO " + r.pick(["dst", "db.dst"]) + r.pick(["", " (a UInt8, b String)"])
        elif y == 4:
            s += r.pick(["", " REFRESH EVERY 1 HOUR"]) + " (a UInt8, b String) " + engine_clause(r) + r.pick(["", " COMMENT 'c'"])
        else:
            s += " " + engine_clause(r) + r.pick(["", " POPULATE"])
        return s + " AS " + select_core(r, 1, simple=not r.p(1, 3), force_from=True)
    if x < 24:
        return "CREATE WINDOW VIEW " + ine + "wv" \
               + r.pick([" TO dst", " TO dst", " INNER ENGINE Memory", " INNER ENGINE MergeTree ORDER BY a",
                         " INNER ENGINE MergeTree ORDER BY (a, b)", " INNER ENGINE MergeTree() ORDER BY toDate(ts)",
                         " TO dst INNER ENGINE Memory", " ENGINE = Memory", " INNER ENGINE AggregatingMergeTree ORDER BY tuple()"]) \
               + " AS SELECT count() FROM t GROUP BY " \
               + r.pick(["tumble", "hop"]) + "(ts, INTERVAL 1 MINUTE" + r.pick(["", ", INTERVAL 5 MINUTE"]) + ")"
    if x < 27:
        s = "CREATE DATABASE " + ine + r.pick(["db", "`my db`", "d2"])
        y = r.below(5)
        if y == 0:
            s += oc
        elif y == 1:
            s += " ENGINE = " + r.pick(["Atomic", "Memory", "Lazy(10)", "Replicated('/p', 's', 'r')",
                                         "MySQL('h:3306', 'd', 'u', 'p')", "Ordinary"])
        elif y == 2:
            s += " ENGINE = Atomic"
        return s
    if x < 29:
        return r.pick(["CREATE FUNCTION ", "CREATE OR REPLACE FUNCTION ", "CREATE FUNCTION IF NOT EXISTS "]) \
            + r.pick(["f", "my_func"]) + oc + " AS " + r.pick(["x -> ", "(x, y) -> ", "() -> ", "(x) -> "]) + expr(r, 2, False)
    if x < 32:
        s = "CREATE USER " + ine + r.pick(["u", "u1, u2", "'user@host'", "`my user`"]) + oc
        s += r.pick(["", " NOT IDENTIFIED", " IDENTIFIED BY 'p'", " IDENTIFIED WITH sha256_password BY 'p'",
                     " IDENTIFIED WITH plaintext_password BY 'p'", " IDENTIFIED WITH no_password",
                     " IDENTIFIED WITH double_sha1_hash BY 'abcd'", " IDENTIFIED WITH ssh_key BY KEY 'k' TYPE 'ssh-rsa'",
                     " IDENTIFIED WITH bcrypt_password BY 'p'", " IDENTIFIED WITH ldap SERVER 's'",
                     " IDENTIFIED WITH kerberos REALM 'r'",
                     " IDENTIFIED WITH ssh_key BY KEY 'k1' TYPE 'ssh-rsa', KEY 'k2' TYPE 'ssh-ed25519'",
                     " IDENTIFIED WITH plaintext_password BY 'a', bcrypt_password BY 'b'"])
        s += r.pick(["", " HOST LOCAL", " HOST IP '127.0.0.1'", " HOST ANY", " HOST NAME 'h'", " HOST LIKE '%.x'"])
        s += r.pick(["", " VALID UNTIL '2030-01-01'"])
        s += r.pick(["", " DEFAULT ROLE r", " DEFAULT ROLE ALL", " DEFAULT ROLE r1, r2"])
        s += r.pick(["", " DEFAULT DATABASE db"])
        s += r.pick(["", " GRANTEES ANY EXCEPT u2", " GRANTEES NONE"])
        s += r.pick(["", " SETTINGS max_memory_usage = 1", " SETTINGS PROFILE 'p'"])
        return s
    if x < 34:
        return "CREATE ROLE " + ine + r.pick(["r", "r1, r2"]) + oc + r.pick(["", " SETTINGS max_threads = 1"])
    if x == 34:
        return r.pick(["CREATE ROW POLICY ", "CREATE POLICY "]) + ine + "p ON " + r.pick(["t", "db.t", "db.*"]) \
            + r.pick(["", " FOR SELECT"]) + r.pick(["", " AS RESTRICTIVE", " AS PERMISSIVE"]) \
            + " USING " + expr(r, 3, False) + r.pick(["", " TO r", " TO ALL", " TO ALL EXCEPT u"])
    if x == 35:
        return "CREATE QUOTA " + ine + "q" + r.pick(["", " KEYED BY user_name", " KEYED BY ip_address"]) \
            + " FOR " + r.pick(["", "RANDOMIZED "]) + "INTERVAL 1 " + r.pick(["HOUR", "DAY"]) + " MAX " \
            + r.pick(["queries = 10", "errors = 1, result_rows = 2", "execution_time = 5"]) + r.pick(["", " TO r", " TO ALL"])
    if x == 36:
        return r.pick(["CREATE SETTINGS PROFILE ", "CREATE PROFILE "]) + ine + "p SETTINGS " \
            + r.pick(["max_threads = 1", "a = 1 MIN 0 MAX 2 READONLY", "INHERIT 'default'",
                      "max_memory_usage = 100 WRITABLE, INHERIT 'default'"]) + r.pick(["", " TO r"])
    if x == 37:
        s = r.pick(["CREATE DICTIONARY ", "CREATE OR REPLACE DICTIONARY ", "CREATE DICTIONARY IF NOT EXISTS "]) \
            + r.pick(["d", "db.d"]) + oc
        attrs = ["id UInt64"] + [r.pick(["v String DEFAULT ''", "w UInt8 EXPRESSION toUInt8(1)", "p UInt64 HIERARCHICAL",
                                         "q UInt8 DEFAULT 0 INJECTIVE", "n Nullable(String) DEFAULT NULL",
                                         "o UInt8 IS_OBJECT_ID"]) for _ in range(r.below(4))]
        s += " (" + ", ".join(attrs) + ") PRIMARY KEY " + r.pick(["id", "id, v", "(id)"])
        s += " SOURCE(" + r.pick(["CLICKHOUSE(TABLE 't' DB 'db')", "HTTP(URL 'http://x' FORMAT 'TSV')", "NULL()",
                                   "FILE(PATH '/f.tsv' FORMAT 'TabSeparated')", "MYSQL(PORT 3306 USER 'u' PASSWORD 'p' DB 'd' TABLE 't')",
                                   "CLICKHOUSE(QUERY 'SELECT 1')", "EXECUTABLE(COMMAND 'cat' FORMAT 'TSV')"]) + ")"
        s += " LAYOUT(" + r.pick(["FLAT()", "HASHED()", "COMPLEX_KEY_HASHED(SHARDS 4)", "RANGE_HASHED()",
                                   "CACHE(SIZE_IN_CELLS 1000)", "DIRECT()", "IP_TRIE", "HASHED_ARRAY()",
                                   "SPARSE_HASHED()", "FLAT(INITIAL_ARRAY_SIZE 10 MAX_ARRAY_SIZE 100)"]) + ")"
        s += " LIFETIME(" + r.pick(["0", "300", "MIN 0 MAX 10"]) + ")"
        if r.p(1, 5):
            s += " RANGE(MIN a MAX b)"
        if r.p(1, 6):
            s += " SETTINGS(format_csv_allow_single_quotes = 0)"
        if r.p(1, 6):
            s += " COMMENT " + string_lit(r)
        return s
    if x == 38:
        return r.pick(["CREATE INDEX ", "CREATE INDEX IF NOT EXISTS ", "CREATE UNIQUE INDEX "]) + "i ON " + r.pick(["t", "db.t"]) \
            + " (" + r.pick(["a", "a + 1, b", "lower(name)"]) + ")" + r.pick(["", " TYPE minmax", " TYPE set(100)",
                                                                                 " TYPE bloom_filter GRANULARITY 1"])
    return r.pick(["CREATE NAMED COLLECTION nc AS a = 1, b = 's' NOT OVERRIDABLE",
                   "CREATE NAMED COLLECTION IF NOT EXISTS nc ON CLUSTER c AS k = 'v' OVERRIDABLE",
                   "CREATE RESOURCE res (WRITE DISK d, READ DISK d)", "CREATE RESOURCE res (READ ANY DISK)",
                   "CREATE WORKLOAD w IN all SETTINGS weight = 3", "CREATE WORKLOAD all",
                   "CREATE OR REPLACE WORKLOAD w IN all SETTINGS max_io_requests = 10 FOR res"])


# ------------------------------------------------------------------------------------------
# ALTER

def partition_expr(r):
    return r.pick(["202001", "'2020-01-01'", "ID '202001'", "ID 123", "ID 'all'", "(1, 'a')", "tuple()", "ALL",
                   "toYYYYMM(today())", "{p:String}", "1", "(2020, 1)", "tuple(1, 2)", "'a'", "ID '1-2'"])


def alter_command(r):
    c = lambda: r.pick(["c", "col", "`a b`", "`n.x`", "x1"])
    ine = r.pick(["", "", "IF NOT EXISTS "])
    ie = r.pick(["", "", "IF EXISTS "])
    inpart = r.pick(["", "", " IN PARTITION " + r.pick(["1", "202001", "'x'", "(1, 2)"])])
    x = r.below(960)
    forms = [
        lambda: "ADD COLUMN " + ine + c() + " " + data_type(r, ddl=True)
                + r.pick(["", " DEFAULT " + expr(r, 3, False), " MATERIALIZED " + atom(r), " ALIAS a + 1", " CODEC(ZSTD)",
                          " COMMENT 'x'"]) + r.pick(["", "", " AFTER a"]),
        lambda: "DROP COLUMN " + ie + c(),
        lambda: "CLEAR COLUMN " + ie + c() + inpart,
        lambda: "RENAME COLUMN " + ie + c() + " TO " + r.pick(["b2", "`new name`"]),
        lambda: "MODIFY COLUMN " + ie + c() + " " + data_type(r, ddl=True)
                + r.pick(["", " DEFAULT " + atom(r), " CODEC(LZ4)", " COMMENT 'c'"]) + r.pick(["", "", " AFTER b"]),
        lambda: "MODIFY COLUMN " + c() + " REMOVE " + r.pick(["DEFAULT", "TTL", "CODEC", "COMMENT", "MATERIALIZED", "ALIAS"]),
        lambda: "MODIFY COLUMN " + c() + r.pick([" COMMENT 'x'", " CODEC(ZSTD(3))", " DEFAULT 1"]),
        lambda: "MODIFY COLUMN " + c() + " MODIFY SETTING max_compress_block_size = 1",
        lambda: "MODIFY COLUMN " + c() + " RESET SETTING max_compress_block_size",
        lambda: "COMMENT COLUMN " + ie + c() + " " + string_lit(r),
        lambda: "MATERIALIZE COLUMN " + c() + inpart,
        lambda: "MODIFY ORDER BY " + r.pick(["(a, b)", "a", "(a, b, c)"]),
        lambda: "MODIFY SAMPLE BY " + r.pick(["a", "intHash32(id)"]),
        lambda: "REMOVE SAMPLE BY",
        lambda: "MODIFY TTL " + ttl_list(r),
        lambda: "MODIFY TTL d + INTERVAL 1 DAY RECOMPRESS CODEC(" + r.pick(["ZSTD(1)", "LZ4HC(10)", "ZSTD(17), Delta"]) + ")",
        lambda: "REMOVE TTL",
        lambda: "MATERIALIZE TTL",
        lambda: "MODIFY SETTING " + ", ".join(r.pick(SETTINGS) + " = " + r.pick(["1", "'x'", "0"]) for _ in range(1 + r.below(2))),
        lambda: "RESET SETTING " + ", ".join(r.pick(SETTINGS) for _ in range(1 + r.below(2))),
        lambda: "MODIFY COMMENT " + string_lit(r),
        lambda: "MODIFY QUERY " + select_core(r, 2, simple=True),
        lambda: "DROP PARTITION " + partition_expr(r),
        lambda: "DROP PART 'all_1_1_0'",
        lambda: "DROP DETACHED PARTITION " + r.pick(["202001", "tuple()", "ALL"]),
        lambda: "DROP DETACHED PARTITION " + r.pick(["1", "'x'", "(1, 2)"]),
        lambda: "DETACH PARTITION " + partition_expr(r),
        lambda: "DETACH PART 'all_2_2_0'",
        lambda: "ATTACH PARTITION " + partition_expr(r),
        lambda: "ATTACH PART 'all_2_2_0'",
        lambda: "ATTACH PARTITION " + r.pick(["1", "ID '1'", "ALL", "'2020-01-01'", "tuple()"]) + " FROM t2",
        lambda: "REPLACE PARTITION " + r.pick(["1", "ID '1'", "'x'", "tuple()"]) + " FROM t2",
        lambda: "MOVE PARTITION " + r.pick(["1", "ID '1'", "'x'"]) + " TO " + r.pick(["TABLE t2", "TABLE db.t2", "DISK 'd'", "VOLUME 'v'"]),
        lambda: "FREEZE",
        lambda: "FREEZE PARTITION " + partition_expr(r),
        lambda: "FETCH PARTITION " + r.pick(["1", "ID '1'", "'x'"]) + " FROM '/clickhouse/tables/t'",
        lambda: "UPDATE " + ", ".join(r.pick(COLS) + " = " + expr(r, 3, False) for _ in range(1 + r.below(2)))
                + inpart + " WHERE " + expr(r, 3, False),
        lambda: "DELETE WHERE " + expr(r, 2, True),
        lambda: "ADD INDEX " + r.pick(["i", "idx"]) + " " + r.pick(["a", "(a, b)", "lower(name)", "a + 1"])
                + " TYPE " + r.pick(["minmax", "set(10)", "bloom_filter(0.01)", "ngrambf_v1(3, 256, 2, 0)"])
                + r.pick(["", " GRANULARITY 1", " GRANULARITY 4"]),
        lambda: "DROP INDEX " + ie + "i",
        lambda: "MATERIALIZE INDEX i" + inpart,
        lambda: "CLEAR INDEX i" + inpart,
        lambda: "ADD PROJECTION " + r.pick(["p", "proj"]) + " (SELECT " + r.pick(["a, count() GROUP BY a", "* ORDER BY a",
                                                                                   "a, sum(b) GROUP BY a", "a, b ORDER BY b"]) + ")",
        lambda: "DROP PROJECTION " + ie + "p",
        lambda: "MATERIALIZE PROJECTION p",
        lambda: "CLEAR PROJECTION p",
        lambda: "ADD CONSTRAINT " + r.pick(["c1", "chk"]) + " CHECK " + expr(r, 3, False),
        lambda: "ADD CONSTRAINT c2 ASSUME a > 0",
        lambda: "DROP CONSTRAINT c1",
        lambda: "ADD STATISTICS " + r.pick(["a", "a, b"]) + " TYPE " + r.pick(["tdigest", "uniq", "tdigest, uniq"]),
        lambda: "DROP STATISTICS " + r.pick(["a", "a, b"]),
        lambda: "MODIFY STATISTICS a TYPE uniq",
        lambda: "MATERIALIZE STATISTICS a",
        lambda: "CLEAR STATISTICS a",
        lambda: "APPLY DELETED MASK" + inpart,
        lambda: "DROP PARTITION ID " + r.pick(["123", "'123'", "'all'", "20200101", "'a-b'"]),
        lambda: "DETACH PARTITION ID " + r.pick(["123", "'123'", "7"]),
        lambda: "ATTACH PARTITION ID " + r.pick(["'123'", "42"]),
        lambda: "FREEZE PARTITION ID " + r.pick(["'123'", "99"]),
        lambda: "DROP PARTITION ALL",
        lambda: "DETACH PARTITION ALL",
        lambda: "DROP PARTITION (" + ", ".join(literal(r) for _ in range(1 + r.below(3))) + ")",
        lambda: "MODIFY TTL d + INTERVAL 1 MONTH RECOMPRESS CODEC(ZSTD(3)), d + INTERVAL 1 YEAR DELETE",
        lambda: "MATERIALIZE COLUMN " + c(),
        # statistics kinds with arguments, several columns, IF [NOT] EXISTS
        lambda: "ADD STATISTICS " + ine + r.pick(["a", "a, b", "a, b, c"]) + " TYPE " + stat_kinds(r),
        lambda: "MODIFY STATISTICS " + r.pick(["a", "a, b"]) + " TYPE " + stat_kinds(r),
        lambda: "ADD STATISTICS " + r.pick(["a", "a, b"]) + " TYPE " + r.pick(["tdigest(5)", "countmin(1, 2), uniq", "uniq, tdigest(5)"]),
        lambda: r.pick(["DROP", "CLEAR", "MATERIALIZE"]) + " STATISTICS " + ie + r.pick(["a", "a, b", "a, b, c"]),
        lambda: "MATERIALIZE STATISTICS ALL",
        # full column declarations in ADD / MODIFY COLUMN
        lambda: "ADD COLUMN " + ine + column_decl(r) + r.pick(["", "", " AFTER a", " AFTER `n.x`"]),
        lambda: "MODIFY COLUMN " + ie + column_decl(r) + r.pick(["", "", " AFTER b"]),
        lambda: "MODIFY COLUMN " + c() + " MODIFY SETTING " + r.pick(["a = 1, b = 2", "max_compress_block_size = 1, min_compress_block_size = 2"]),
        lambda: "MODIFY COLUMN " + c() + " RESET SETTING " + r.pick(["a, b", "max_compress_block_size, min_compress_block_size"]),
        lambda: "ADD INDEX " + r.pick(["i", "idx"]) + " " + r.pick(["a", "(a, b)", "lower(name)"]) + " TYPE "
                + r.pick(["minmax", "set(10)", "bloom_filter"]) + r.pick(["", " GRANULARITY 1"]) + " AFTER " + r.pick(["j", "idx0"]),
        lambda: "MATERIALIZE INDEX i IN PARTITION ID " + r.pick(["'1'", "'202001'"]),
        lambda: "UPDATE " + r.pick(COLS) + " = " + expr(r, 3, False) + " IN PARTITION ID " + r.pick(["'x'", "'1-2'"])
                + " WHERE " + expr(r, 3, False),
        lambda: "APPLY PATCHES" + inpart,
        lambda: "ADD PROJECTION " + r.pick(["p", "proj"]) + " (" + r.pick(["", "WITH 1 AS w ", "WITH 1 AS w, 2 AS v "]) + "SELECT "
                + r.pick(["a, b ORDER BY a, b", "a, b, c ORDER BY (a, b)", "a ORDER BY a", "a, count() GROUP BY a", "a, b GROUP BY a, b"]) + ")",
        lambda: "MODIFY ORDER BY " + r.pick(["a", "(a)", "(a, b)", "toDate(ts)"]),
    ]
    return forms[x % len(forms)]()


def gen_alter(r):
    x = r.below(24)
    if x == 0:
        return "ALTER USER " + r.pick(["u", "IF EXISTS u", "u1, u2"]) + r.pick(
            [" IDENTIFIED BY 'p'", " RENAME TO v", " DEFAULT ROLE r", " SETTINGS max_threads = 1", " HOST ANY",
             " IDENTIFIED WITH sha256_password BY 'p'", " DEFAULT ROLE ALL EXCEPT r", " NOT IDENTIFIED"])
    if x == 1:
        return r.pick(["ALTER ROLE r RENAME TO r2", "ALTER ROLE r SETTINGS max_threads = 1", "ALTER ROLE IF EXISTS r RENAME TO q",
                       "ALTER ROW POLICY p ON t USING 1", "ALTER POLICY p ON t RENAME TO q",
                       "ALTER POLICY p ON db.t FOR SELECT USING a = 1 TO r",
                       "ALTER SETTINGS PROFILE p SETTINGS max_threads = 1", "ALTER PROFILE p RENAME TO q",
                       "ALTER NAMED COLLECTION nc SET a = 1 DELETE b", "ALTER NAMED COLLECTION nc SET a = 1, b = 'x'",
                       "ALTER NAMED COLLECTION nc DELETE a"])
    s = r.pick(["ALTER TABLE ", "ALTER TABLE ", "ALTER TABLE ", "ALTER TEMPORARY TABLE "]) + r.pick(["t", "db.t", "`my table`"])
    if s.startswith("ALTER TABLE") and r.p(1, 6):
        s += " ON CLUSTER c"
    n = r.pick([1, 1, 1, 2, 3])
    cmds = [alter_command(r) for _ in range(n)]
    # commands that end in a comma list (or a SELECT) swallow what follows: at most one, and last
    greedy = lambda c: c.startswith(("MODIFY QUERY", "UPDATE", "DELETE", "MODIFY SETTING", "RESET SETTING",
                                     "MODIFY TTL", "MATERIALIZE TTL", "REMOVE")) or "STATISTICS" in c or "SETTING" in c
    g = [c for c in cmds if greedy(c)]
    cmds = [c for c in cmds if not greedy(c)] + g[:1]
    if len(cmds) > 1 and r.p(1, 6):
        s += " " + ", ".join("(" + c + ")" for c in cmds)
    else:
        s += " " + ", ".join(cmds)
    if r.p(1, 16):
        s += " FORMAT Null"
    if r.p(1, 10):
        s += " SETTINGS mutations_sync = 2"
    return s


# ------------------------------------------------------------------------------------------
# utility statements

def tbl(r):
    return r.pick(["t", "db.t", "`my table`", "t2", "db.events"])


def explain_stmt(r):
    kind = r.pick(["", "", "AST ", "AST ", "AST ", "SYNTAX ", "PLAN ", "PIPELINE ", "ESTIMATE ", "QUERY TREE "])
    opts = ""
    if kind in ("", "PLAN ") and r.p(1, 3):
        opts = r.pick(["header = 1 ", "header = 1, actions = 1 ", "json = 1 ", "indexes = 1 ", "description = 0 "])
    elif kind == "PIPELINE " and r.p(1, 3):
        opts = r.pick(["graph = 1 ", "header = 1 ", "compact = 0 "])
    elif kind == "QUERY TREE " and r.p(1, 3):
        opts = r.pick(["run_passes = 0 ", "dump_ast = 1 "])
    x = r.below(20)
    if kind == "AST " and x < 10:
        inner = r.pick([
            lambda: "DESCRIBE TABLE " + r.pick(["numbers(1)", "t", "remote('h', db.t)", "file('a.csv', 'CSV', 'x UInt8')", "(SELECT 1)"]),
            lambda: "BACKUP TABLE " + tbl(r) + " TO " + r.pick(["Disk('backups', '1.zip')", "File('/p')", "S3('u', 'k', 's')"]),
            lambda: "RESTORE TABLE " + tbl(r) + " FROM Disk('backups', '1.zip')",
            lambda: "BACKUP DATABASE db TO Disk('b', 'x')",
            lambda: gen_insert(Rng(r.next())),
            lambda: gen_create(Rng(r.next())),
            lambda: gen_alter(Rng(r.next())),
            lambda: r.pick(["SHOW TABLES", "DROP TABLE t", "SYSTEM FLUSH LOGS", "OPTIMIZE TABLE t FINAL", "USE db",
                            "SET a = 1", "TRUNCATE TABLE t", "EXISTS TABLE t", "SHOW CREATE TABLE t",
                            "RENAME TABLE a TO b", "GRANT SELECT ON t TO u", "KILL QUERY WHERE 1",
                            "CHECK TABLE t", "DETACH TABLE t", "EXPLAIN SELECT 1", "EXPLAIN AST SELECT 1"]),
        ])()
        return "EXPLAIN AST " + inner
    if x < 14:
        body = select_core(r, 1, simple=not r.p(1, 3))
    elif x < 17:
        body = select_with_union(r, 1, simple=True)
    elif x == 17:
        body = "(" + select_core(r, 1, True) + ")"
    else:
        body = gen_setop(Rng(r.next()))
        return "EXPLAIN " + kind + opts + body
    t = select_tail(r, outfile=not STATE["bare"] and x < 14)
    return "EXPLAIN " + kind + opts + body + (" " + t if t else "")


def gen_utility(r):
    x = r.below(60)
    like = lambda: r.pick(["", "", " LIKE '%x%'", " NOT LIKE 'a'", " ILIKE 'A%'"])
    oc = r.pick(["", "", "", " ON CLUSTER c"])
    ie = r.pick(["", "", "IF EXISTS "])
    if x < 10:
        return explain_stmt(r)
    if x < 12:
        return "SELECT * FROM (" + explain_stmt(r).split(" FORMAT ")[0].split(" SETTINGS ")[0].split(" INTO OUTFILE")[0] + ")" \
            + r.pick(["", " WHERE explain LIKE '%x%'", " LIMIT 5"])
    if x < 18:
        return r.pick([
            lambda: "SHOW TABLES" + r.pick(["", " FROM db"]) + like() + r.pick(["", " LIMIT 3"]),
            lambda: "SHOW TEMPORARY TABLES",
            lambda: "SHOW DATABASES" + like(),
            lambda: "SHOW DICTIONARIES" + r.pick(["", " FROM db"]) + like(),
            lambda: "SHOW CREATE " + r.pick(["TABLE ", "", "VIEW ", "DICTIONARY ", "TEMPORARY TABLE "]) + tbl(r),
            lambda: "SHOW CREATE DATABASE db",
            lambda: "SHOW CREATE " + r.pick(["USER u", "ROLE r", "QUOTA q", "ROW POLICY p ON t", "SETTINGS PROFILE p"]),
            lambda: "SHOW " + r.pick(["", "FULL "]) + "COLUMNS FROM t" + r.pick(["", " FROM db"]) + like(),
            lambda: "SHOW " + r.pick(["INDEX", "INDEXES", "KEYS"]) + " FROM " + tbl(r),
            lambda: "SHOW " + r.pick(["PROCESSLIST", "GRANTS", "GRANTS FOR u", "USERS", "ROLES", "PROFILES", "POLICIES",
                                      "QUOTAS", "QUOTA", "ACCESS", "CLUSTERS", "ENGINES", "FUNCTIONS", "MERGES",
                                      "PRIVILEGES", "FUNCTIONS LIKE 'a%'"]),
            lambda: "SHOW " + r.pick(["", "CHANGED "]) + "SETTINGS " + r.pick(["LIKE 'max%'", "ILIKE '%x%'"]),
            lambda: "SHOW TABLE " + tbl(r),
            lambda: "SHOW TABLES FORMAT " + r.pick(FORMATS),
            lambda: "SHOW CREATE TABLE t FORMAT TSVRaw",
            lambda: "SHOW TABLES WHERE name = 'a'",
        ])()
    if x < 22:
        what = r.pick(["t", "db.t", "TABLE t", "TABLE db.t", "(SELECT 1, 2)", "TABLE (SELECT a FROM t)", "numbers(10)",
                       "TABLE remote('h', db.t)", "TABLE file('a.csv', 'CSV', 'x UInt8')", "TABLE s3('u', 'CSV')",
                       "url('http://h/x', CSV, 'a UInt8')", "TABLE numbers(1, 2)", "TABLE merge('db', '^t')"])
        return r.pick(["DESCRIBE ", "DESC ", "DESCRIBE "]) + what + r.pick(
            ["", "", " FORMAT JSON", " SETTINGS describe_compact_output = 1", " FORMAT Null"])
    if x < 24:
        return r.pick(["USE db", "USE DATABASE db", "USE `my db`", "SET max_threads = 1", "SET a = 1, b = 'x'",
                       "SET param_p = 1", "SET DEFAULT ROLE r TO u", "SET DEFAULT ROLE ALL TO u1, u2",
                       "SET TRANSACTION SNAPSHOT 1", "SET allow_x = true", "SET a = [1, 2]", "SET a = (1, 2)",
                       "SET a = -1", "SET a = 1.5", "SET a = DEFAULT", "SET a = NULL", "SET a = {'x': 1}",
                       "BEGIN TRANSACTION", "COMMIT", "ROLLBACK"])
    if x < 28:
        return "SYSTEM " + r.pick([
            "FLUSH LOGS", "RELOAD DICTIONARIES", "RELOAD DICTIONARY db.d", "DROP DNS CACHE", "DROP MARK CACHE",
            "DROP UNCOMPRESSED CACHE", "STOP MERGES", "STOP MERGES db.t", "START MERGES t", "STOP TTL MERGES",
            "STOP FETCHES t", "STOP REPLICATED SENDS", "SYNC REPLICA db.t", "SYNC REPLICA t STRICT", "RESTART REPLICA t",
            "RESTART REPLICAS", "FLUSH DISTRIBUTED db.t", "STOP DISTRIBUTED SENDS t", "RELOAD CONFIG", "SHUTDOWN", "KILL",
            "FLUSH LOGS ON CLUSTER c", "WAIT LOADING PARTS t", "ENABLE FAILPOINT fp", "SYNC FILE CACHE", "RELOAD FUNCTIONS",
            "DROP QUERY CACHE", "STOP MOVES", "START FETCHES", "START REPLICATION QUEUES t", "DROP COMPILED EXPRESSION CACHE"])
    if x < 31:
        s = "OPTIMIZE TABLE " + tbl(r) + r.pick(["", "", " ON CLUSTER c"])
        s += r.pick(["", "", " PARTITION 1", " PARTITION ID '1'", " PARTITION tuple()", " PARTITION '2020-01-01'"])
        s += r.pick(["", " FINAL", " FINAL DEDUPLICATE", " DEDUPLICATE", " FINAL CLEANUP"])
        return s + r.pick(["", "", " SETTINGS optimize_throw_if_noop = 1"])
    if x < 33:
        return r.pick(["TRUNCATE TABLE " + ie + tbl(r) + oc, "TRUNCATE " + tbl(r), "TRUNCATE TEMPORARY TABLE t",
                       "TRUNCATE DATABASE db", "TRUNCATE TABLE t SETTINGS a = 1"])
    if x < 36:
        return r.pick(["RENAME TABLE a TO b", "RENAME TABLE a TO b, c TO d", "RENAME TABLE db.a TO db.b ON CLUSTER c",
                       "RENAME DATABASE a TO b", "RENAME DICTIONARY a TO b", "EXCHANGE TABLES a AND b",
                       "EXCHANGE TABLES db.a AND db.b ON CLUSTER c", "EXCHANGE DICTIONARIES a AND b",
                       "RENAME TABLE `x y` TO `z w`"])
    if x < 40:
        priv = r.pick(["SELECT", "SELECT(a, b), INSERT", "ALL", "ALTER UPDATE, ALTER DELETE", "CREATE TEMPORARY TABLE",
                       "SHOW TABLES, dictGet", "INSERT", "DROP TABLE", "CURRENT GRANTS"])
        on = r.pick(["db.t", "db.*", "*.*", "t"])
        y = r.below(8)
        if y == 0:
            return "GRANT " + r.pick(["r", "r1, r2"]) + " TO " + r.pick(["u", "u1, u2"]) + r.pick(["", " WITH ADMIN OPTION"])
        if y == 1:
            return "REVOKE " + r.pick(["r FROM u", "ADMIN OPTION FOR r FROM u", "GRANT OPTION FOR SELECT ON t FROM u",
                                       "ON CLUSTER c SELECT ON t FROM ALL EXCEPT u"])
        if y < 5:
            return "GRANT " + r.pick(["", "", "ON CLUSTER c "]) + priv + " ON " + on + " TO " + r.pick(["u", "u, r", "r"]) \
                + r.pick(["", "", " WITH GRANT OPTION", " WITH REPLACE OPTION"])
        return "REVOKE " + priv.replace("CURRENT GRANTS", "ALL") + " ON " + on + " FROM " + r.pick(["u", "u1, u2", "ALL"])
    if x < 42:
        return r.pick(["KILL QUERY WHERE query_id = 'x'", "KILL QUERY WHERE 1 ASYNC", "KILL QUERY WHERE 1 TEST",
                       "KILL QUERY WHERE user = 'u' SYNC", "KILL MUTATION WHERE database = 'db' AND table = 't'",
                       "KILL QUERY WHERE query_id IN ('a', 'b') FORMAT Null",
                       "KILL QUERY WHERE " + expr(r, 3, False)])
    if x < 45:
        dest = r.pick(["Disk('backups', '1.zip')", "File('/p')", "S3('u', 'k', 's')", "Disk('b', 'x')"])
        return r.pick([
            lambda: "BACKUP TABLE " + tbl(r) + " TO " + dest,
            lambda: "BACKUP DATABASE db TO " + dest,
            lambda: "BACKUP ALL TO " + dest + " SETTINGS async = 1",
            lambda: "BACKUP DICTIONARY d TO " + dest,
            lambda: "BACKUP TABLE t TO " + dest + " SETTINGS base_backup = Disk('b', 'y')",
            lambda: "RESTORE TABLE " + tbl(r) + " FROM " + dest,
            lambda: "RESTORE ALL FROM " + dest + " SETTINGS allow_non_empty_tables = 1",
            lambda: "RESTORE DATABASE db FROM " + dest,
        ])()
    if x < 47:
        return "CHECK TABLE " + tbl(r) + r.pick(["", " PARTITION 1", " PART 'x'", " FORMAT JSON",
                                                 " SETTINGS check_query_single_value_result = 0"])
    if x < 50:
        return r.pick(["ATTACH TABLE t", "ATTACH TABLE t FROM '/p' (a UInt8) ENGINE = Memory",
                       "ATTACH TABLE t UUID '00000000-0000-0000-0000-000000000001' (a UInt8) ENGINE = Memory",
                       "ATTACH DATABASE db", "ATTACH DICTIONARY d", "DETACH TABLE " + tbl(r), "DETACH DICTIONARY d",
                       "DETACH DATABASE db", "DETACH TABLE IF EXISTS t"])
    if x < 55:
        return r.pick([
            lambda: "DROP TABLE " + ie + tbl(r) + oc + r.pick(["", " SYNC", " NO DELAY"]),
            lambda: "DROP TABLE t1, t2",
            lambda: "DROP TEMPORARY TABLE t",
            lambda: "DROP TABLE IF EMPTY t",
            lambda: "DROP VIEW " + ie + r.pick(["v", "db.v"]),
            lambda: "DROP DICTIONARY " + ie + "d",
            lambda: "DROP DATABASE " + ie + "db" + oc + r.pick(["", " SYNC"]),
            lambda: "DROP FUNCTION " + ie + "f" + oc,
            lambda: "DROP USER " + ie + r.pick(["u", "u1, u2"]),
            lambda: "DROP ROLE " + ie + r.pick(["r", "r1, r2"]) + oc,
            lambda: "DROP " + r.pick(["ROW POLICY", "POLICY"]) + " " + ie + "p ON " + r.pick(["t", "db.t"]),
            lambda: "DROP QUOTA q",
            lambda: "DROP " + r.pick(["SETTINGS PROFILE", "PROFILE"]) + " " + ie + "p",
            lambda: "DROP INDEX " + ie + "i ON " + r.pick(["t", "db.t"]),
            lambda: r.pick(["DROP NAMED COLLECTION nc", "DROP RESOURCE res", "DROP WORKLOAD w", "DROP TABLE t SETTINGS a = 1"]),
        ])()
    if x < 57:
        return r.pick(["EXISTS t", "EXISTS TABLE db.t", "EXISTS TEMPORARY TABLE t", "EXISTS VIEW v", "EXISTS DICTIONARY d",
                       "EXISTS DATABASE db", "UNDROP TABLE t", "UNDROP TABLE db.t"])
    if x < 59:
        return r.pick([
            lambda: "UPDATE " + tbl(r) + " SET " + r.pick(COLS) + " = " + expr(r, 3, False) + " WHERE " + expr(r, 3, False),
            lambda: "DELETE FROM " + tbl(r) + r.pick(["", " ON CLUSTER c"]) + " WHERE " + expr(r, 3, True),
            lambda: "DELETE FROM t IN PARTITION 1 WHERE a",
        ])()
    return "FROM " + tbl(r) + " SELECT " + col(r) + r.pick(["", " WHERE a > 1", " LIMIT 1"])


# ------------------------------------------------------------------------------------------
# main

def main():
    args = sys.argv[1:]
    kinds = None
    as_hex = False
    start = 0
    pos = []
    i = 0
    while i < len(args):
        a = args[i]
        if a == "--hex":
            as_hex = True
        elif a == "--kinds":
            i += 1
            kinds = args[i].split(",")
        elif a.startswith("--kinds="):
            kinds = a[len("--kinds="):].split(",")
        elif a == "--start":
            i += 1
            start = int(args[i])
        else:
            pos.append(a)
        i += 1
    if len(pos) != 2:
        sys.stderr.write(__doc__)
        sys.exit(2)
    seed, count = int(pos[0]), int(pos[1])
    if kinds is None:
        kinds = list(GENERATORS)
    for k in kinds:
        if k not in GENERATORS:
            sys.stderr.write("gen_sql_grammar: unknown kind %r (known: %s)\n" % (k, ",".join(GENERATORS)))
            sys.exit(2)
    out = sys.stdout
    for idx in range(start, start + count):
        k = kinds[idx % len(kinds)]
        r = Rng(seed, idx)
        s = GENERATORS[k](r)
        s = " ".join(s.split())
        out.write((s.encode("utf-8").hex() if as_hex else s) + "\n")


GENERATORS = {"select": gen_select, "setop": gen_setop, "insert": gen_insert, "create": gen_create, "alter": gen_alter, "utility": gen_utility}

if __name__ == "__main__":
    main()
