"""C12 — the lexer is total: it always finishes with exactly one EOF.
Theorems: coq/Properties/C12.v over coq/Lexer/LexerModel.v (hand-written model of lexer.go, whole file).
Tie: correspondence of lexer.Tokenize with the extracted model on exhaustive short strings over a
40-byte alphabet, random strings, corpus files and one large input per scanner."""
import lexcommon
import verif


def run(rep):
    st = verif.proof_stage(rep, "C12", needs_translators=["gentables", "sharedgen"])
    broken = list(st["broken"])
    for what, detail in lexcommon.build_lexer_sides():
        broken.append({"obligation": "build:" + what, "detail": detail})
    found = False
    res = None
    if not any(b["obligation"].startswith("build:go") for b in broken):
        res = lexcommon.run_batch(rep, rep.tier)
        for (i, c, clause) in res["bad"][:10]:
            found = True
            rep.violation("input", "lexer.Tokenize violates C12/C13 clause %s" % clause,
                          {"input_hex": c, "clause": clause, "case": i}, input_hex=c)
        for (i, c, g) in res["panics"][:10]:
            found = True
            rep.violation("input", "lexer.Tokenize panics: %s" % g, {"input_hex": c, "case": i}, input_hex=c)
        for e in res["errors"]:
            broken.append({"obligation": "correspondence-run", "detail": e})
        if res["n_mismatch"]:
            # the model (about which the theorems are proved) no longer describes the code
            i, c, g, m = res["mismatches"][0]
            broken.append({"obligation": "correspondence:lexer.Tokenize~LexerModel.tokenize",
                           "detail": "%d of %d cases differ; first: input %s go=%s model=%s" % (res["n_mismatch"], res["cases"], c[:200], g, m),
                           "input_hex": c})
        rep.coverage.update({
            "evaluations": res["cases"], "distinct_nontrivial": res["nontrivial"],
            "rule": "inputs: all strings up to length 3 (quick) / 4 (thorough) over a 40-byte alphabet of lexically interesting bytes, "
                    "seeded random fragment/byte strings, corpus query.sql files, one 64 KiB (quick) / 1 MiB (thorough) input per scanner; "
                    "distinct = distinct inputs, non-trivial = yields at least one token besides EOF",
            "samples": res["samples"], "input_distribution": res["dist"], "tokens_compared": res["tokens"],
            "model_vs_impl_mismatches": res["n_mismatch"], "impl_clause_failures": len(res["bad"]), "impl_panics": len(res["panics"]),
            "exhaustive": True,
            "trusted_base": TRUSTED,
        })
    # "NextToken called again after EOF keeps returning EOF", seen from the consumer: the parser's token window must stay at
    # EOF too once the input is exhausted -- every token prefix of corpus statements must be parsed within the step bound
    import searchcommon
    b3 = verif.build_topic(go_pkgs=("psearch",))
    broken += b3
    if not b3:
        thits, tn = searchcommon.run_truncations(rep, 1500 if rep.tier == "quick" else 0)
        rep.coverage["truncated_statements_parsed"] = tn
        for (stt, hx, detail, tk, steps) in thits[:5]:
            found = True
            rep.violation("input", "Parse does not terminate on a truncated statement (the token stream past the end of input is not a sticky EOF): %s tokens=%d steps=%d" % (stt, tk, steps),
                          {"input_hex": hx, "tokens": tk, "steps": steps}, input_hex=hx)
    verif.report_broken(rep, broken, found)
    rep.assumptions = ASSUME


TRUSTED = [
    "Coq 8.16.1 kernel and vm_compute (no native_compute); Print Assumptions of every theorem: closed under the global context",
    "hand-written model coq/Lexer/LexerModel.v of /repo/lexer/lexer.go (whole file), tied to the code by the correspondence run (extraction: ExtrOcamlBasic only, no Extract Constant/Inductive of our own; OCaml 4.13.1; 60-line main.ml doing hex I/O)",
    "translator/cmd/gentables (token table from token.go by syntax; Unicode tables from the Go toolchain's unicode package)",
    "Base/Utf8.v transcription of utf8.DecodeRune/AppendRune; Base/Stream.v pure stream standing for bufio.Reader (refinement proved for C14)",
]
ASSUME = ["the installed Go toolchain's unicode tables are the ones the deployed binary uses",
          "bufio.Reader behaves as modelled (validated by the C14 operation-sequence correspondence)"]


def replay(rec):
    import os, subprocess
    verif.build_go(("dch",))
    p = subprocess.run([os.path.join(verif.BUILD, "dch"), "lex", "check"], input=(rec.get("input_hex", "-") + "\n").encode(),
                       stdout=subprocess.PIPE)
    print(p.stdout.decode())
    return 0
