"""Correspondence batch shared by the lexer-level properties (C12, C13): the real lexer.Tokenize and the
extracted Coq model run on the same inputs; the Go side also checks the property clauses directly."""
import os
import verif
from verif import BUILD, sh, log


def build_lexer_sides():
    with verif.Lock():
        g = verif.build_go(("dch",))
        rc, out = verif.build_driver("lexer", "lexer_ex")
    errs = []
    if g["dch"][0] != 0:
        errs.append(("go-harness", g["dch"][1][-1500:]))
    if rc != 0:
        errs.append(("ocaml-driver", out[-1500:]))
    return errs


def gen_cases(tier, seed, path):
    """Writes the case file; returns a description of the input distribution."""
    dch = os.path.join(BUILD, "dch")
    parts = []
    if tier == "quick":
        plan = [("exhaustive", ["-len", "3"]), ("random", ["-n", "6000", "-seed", str(seed)]),
                ("corpus", ["-n", "150", "-seed", str(seed)]), ("big", ["-n", "65536"]), ("boundary", []), ("idents", []), ("lengths", []), ("bodies", []), ("categories", []), ("many", [])]
    else:
        plan = [("exhaustive", ["-len", "4"]), ("random", ["-n", "200000", "-seed", str(seed)]),
                ("corpus", ["-n", "0"]), ("big", ["-n", "1048576"]), ("boundary", []), ("idents", []), ("lengths", []), ("bodies", []), ("categories", []), ("many", [])]
    dist = {}
    with open(path, "w") as f:
        for mode, extra in plan:
            rc, out = sh([dch, "genlex", "-mode", mode] + extra, timeout=600)
            if rc != 0:
                raise RuntimeError("genlex %s failed: %s" % (mode, out[-500:]))
            f.write(out)
            lines = out.count("\n")
            dist[mode] = {"cases": lines, "bytes_hex": len(out)}
    return dist


def run_batch(rep, tier):
    """Returns dict(cases, mismatches=[(idx,input,go,model)], bad=[(idx,input,clause)], panics=[...])."""
    cases = os.path.join(BUILD, "lex_cases_%s.txt" % rep.pid)
    dist = gen_cases(tier, rep.seed, cases)
    go_out = cases + ".go"
    ml_out = cases + ".ml"
    rc1, e1 = verif.parallel_map_files([os.path.join(BUILD, "dch"), "lex", "check"], cases, go_out, timeout=3000)
    rc2, e2 = verif.parallel_map_files([os.path.join(BUILD, "lexer_driver")], cases, ml_out, timeout=6000, unlimited_stack=True)
    res = {"dist": dist, "mismatches": [], "bad": [], "panics": [], "cases": 0, "tokens": 0, "distinct": 0,
           "errors": []}
    if rc1 != 0:
        res["errors"].append("go side rc=%s %s" % (rc1, e1[-300:]))
    if rc2 != 0:
        res["errors"].append("model side rc=%s %s" % (rc2, e2[-300:]))
    seen = set()
    nontrivial = 0
    samples = []
    with open(cases) as fc, open(go_out) as fg, open(ml_out) as fm:
        for i, (c, g, m) in enumerate(verif.itertools_zip3(fc, fg, fm)):
            res["cases"] += 1
            gproj = g.split("\t")[0]
            ntok = gproj.count(" ") + 1
            res["tokens"] += ntok
            if c not in seen:
                seen.add(c)
                if ntok >= 2:   # non-trivial: at least one token besides EOF
                    nontrivial += 1
            if g.startswith("PANIC"):
                res["panics"].append((i, c, g))
            elif "\tBAD:" in g:
                res["bad"].append((i, c, g.split("\tBAD:")[1]))
            if gproj != m:
                if len(res["mismatches"]) < 50:
                    res["mismatches"].append((i, c, gproj[:400], m[:400]))
                else:
                    res["mismatches"].append(None)
            if len(samples) < 6 and i % 9973 == 17:
                samples.append({"input_hex": c[:120], "tokens": gproj[:200]})
    res["distinct"] = len(seen)
    res["nontrivial"] = nontrivial
    res["samples"] = samples
    res["n_mismatch"] = len(res["mismatches"])
    res["mismatches"] = [x for x in res["mismatches"] if x is not None]
    return res


def lexer_premise(rep, broken, want):
    """Lexer half of a parser-level property (C01: no panic; C02: termination): the theorems live in
    Properties/<pid>_lexer.v (built by proof_stage); this re-runs the quick lexer correspondence so that the model they
    are stated over is tied to the CURRENT lexer.go.  `want` selects which implementation-side observations are failing
    inputs of the calling property: "panic" and/or "runaway".  Returns True when a concrete failing input was reported."""
    for what, detail in build_lexer_sides():
        broken.append({"obligation": "build:" + what, "detail": detail})
        if what == "go-harness":
            return False
    res = run_batch(rep, "quick")
    found = False
    hangs = [x for x in res["panics"] if "RUNAWAY" in x[2] or "HANG" in x[2]]
    real_panics = [x for x in res["panics"] if x not in hangs]
    if "panic" in want:
        for (i, c, g) in real_panics[:5]:
            found = True
            rep.violation("input", "lexer.Tokenize panics (Parse runs it on the caller's goroutine): %s" % g[:200], {"input_hex": c, "case": i}, input_hex=c)
    if "runaway" in want:
        for (i, c, clause) in hangs[:5]:
            found = True
            rep.violation("input", "lexer.Tokenize does not reach EOF, so Parse does not terminate: %s" % clause[:200], {"input_hex": c, "case": i, "clause": clause}, input_hex=c)
    for e in res["errors"]:
        broken.append({"obligation": "correspondence-run:lexer", "detail": e})
    if res["n_mismatch"]:
        i, c, g, m = res["mismatches"][0]
        broken.append({"obligation": "correspondence:lexer.Tokenize~LexerModel.tokenize",
                       "detail": "%d of %d cases differ; first: input %s go=%s model=%s" % (res["n_mismatch"], res["cases"], c[:200], g, m),
                       "input_hex": c})
    rep.coverage["lexer_premise"] = {"cases": res["cases"], "tokens_compared": res["tokens"], "model_vs_impl_mismatches": res["n_mismatch"],
                                     "impl_panics": len(res["panics"]), "impl_clause_failures": len(res["bad"]), "input_distribution": res["dist"]}
    return found
