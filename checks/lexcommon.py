"""Correspondence batch shared by the lexer-level properties (C12, C13): the real lexer.Tokenize and the
extracted Coq model run on the same inputs; the Go side also checks the property clauses directly."""
import os
import verif
from verif import BUILD, sh, log


def build_lexer_sides():
    with verif.Lock():
        g = verif.build_go(("dch",))
        rc, out = verif.build_driver("lexer", "lexer_ex")
    errs = []
    if g["dch"][0] != 0:
        errs.append(("go-harness", g["dch"][1][-1500:]))
    if rc != 0:
        errs.append(("ocaml-driver", out[-1500:]))
    return errs


def gen_cases(tier, seed, path):
    """Writes the case file; returns a description of the input distribution."""
    dch = os.path.join(BUILD, "dch")
    parts = []
    if tier == "quick":
        plan = [("exhaustive", ["-len", "3"]), ("random", ["-n", "6000", "-seed", str(seed)]),
                ("corpus", ["-n", "150", "-seed", str(seed)]), ("big", ["-n", "65536"])]
    else:
        plan = [("exhaustive", ["-len", "4"]), ("random", ["-n", "200000", "-seed", str(seed)]),
                ("corpus", ["-n", "0"]), ("big", ["-n", "1048576"])]
    dist = {}
    with open(path, "w") as f:
        for mode, extra in plan:
            rc, out = sh([dch, "genlex", "-mode", mode] + extra, timeout=600)
            if rc != 0:
                raise RuntimeError("genlex %s failed: %s" % (mode, out[-500:]))
            f.write(out)
            lines = out.count("\n")
            dist[mode] = {"cases": lines, "bytes_hex": len(out)}
    return dist


def run_batch(rep, tier):
    """Returns dict(cases, mismatches=[(idx,input,go,model)], bad=[(idx,input,clause)], panics=[...])."""
    cases = os.path.join(BUILD, "lex_cases_%s.txt" % rep.pid)
    dist = gen_cases(tier, rep.seed, cases)
    go_out = cases + ".go"
    ml_out = cases + ".ml"
    rc1, e1 = verif.parallel_map_files([os.path.join(BUILD, "dch"), "lex", "check"], cases, go_out, timeout=3000)
    rc2, e2 = verif.parallel_map_files([os.path.join(BUILD, "lexer_driver")], cases, ml_out, timeout=6000, unlimited_stack=True)
    res = {"dist": dist, "mismatches": [], "bad": [], "panics": [], "cases": 0, "tokens": 0, "distinct": 0,
           "errors": []}
    if rc1 != 0:
        res["errors"].append("go side rc=%s %s" % (rc1, e1[-300:]))
    if rc2 != 0:
        res["errors"].append("model side rc=%s %s" % (rc2, e2[-300:]))
    seen = set()
    nontrivial = 0
    samples = []
    with open(cases) as fc, open(go_out) as fg, open(ml_out) as fm:
        for i, (c, g, m) in enumerate(verif.itertools_zip3(fc, fg, fm)):
            res["cases"] += 1
            gproj = g.split("\t")[0]
            ntok = gproj.count(" ") + 1
            res["tokens"] += ntok
            if c not in seen:
                seen.add(c)
                if ntok >= 2:   # non-trivial: at least one token besides EOF
                    nontrivial += 1
            if g.startswith("PANIC"):
                res["panics"].append((i, c, g))
            elif "\tBAD:" in g:
                res["bad"].append((i, c, g.split("\tBAD:")[1]))
            if gproj != m:
                if len(res["mismatches"]) < 50:
                    res["mismatches"].append((i, c, gproj[:400], m[:400]))
                else:
                    res["mismatches"].append(None)
            if len(samples) < 6 and i % 9973 == 17:
                samples.append({"input_hex": c[:120], "tokens": gproj[:200]})
    res["distinct"] = len(seen)
    res["nontrivial"] = nontrivial
    res["samples"] = samples
    res["n_mismatch"] = len(res["mismatches"])
    res["mismatches"] = [x for x in res["mismatches"] if x is not None]
    return res
