#!/usr/bin/env python3
"""Case generator for the C04 count-vs-emit correspondence of the SELECT printers:
       real printers (/verif/build/selectcount)  vs  extracted model (/verif/build/selectcount_driver).

usage: gen_select_cases.py <seed> <count> [--no-exhaustive]        (cases on stdout)

Harness output per case: <header> TAB <direct children> TAB <md5 of text> TAB <flag>; flag M = the
OCaml driver prints the identical line (compare), flag O = oracle-only (driver prints - - - O):
require header = direct children only.

Case syntax: /verif/harness/cmd/selectcount/main.go  (<kind> TAB <arg> TAB <items>; a select is
25 digits:  0 With 1 DistinctOn 2 Top 3 Columns 4 From 5 ArrayJoin 6 PreWhere 7 Where 8 GroupBy
9 GroupByAll 10 GroupingSets 11 Having 12 Qualify 13 Window 14 OrderBy 15 Interpolate 16 Limit
17 LimitBy 18 LimitByLimit 19 LimitByOffset 20 Offset 21 Settings 22 SettingsAfterFormat
23 IntoOutfile 24 Format).

Blocks, in this order (every random choice derives from <seed> through splitmix64 and the
block / case index, so a line replays alone):

 E1  65536 `S` cases: ALL 2^16 presence combinations of the 16 fields whose presence enters more
     than one condition of the count or the emit code, or both sides differently
         With DistinctOn Top From ArrayJoin GroupBy GroupByAll GroupingSets Interpolate Limit
         LimitBy LimitByLimit LimitByOffset Offset Settings SettingsAfterFormat
     with the other 9 fields and all list lengths (1..3) random per case.
 E2  8192 `U` cases: ALL 2^13 combinations of SettingsBeforeFormat, SettingsAfterFormat,
     len(Settings) in {0,1} and, for each of two member selects, IntoOutfile, Format, Settings,
     SettingsAfterFormat, plus With on the first (WITH inheritance into the second).
 E3  all `I` cases with 1..3 members, each a select or a parenthesised select (q/u), EXCEPT or
     INTERSECT, With present/absent on the first, Columns of every member in {1,2}.
 E4  16384 `N` cases (union nested in INSERT, unionTail{noFormat: true}; with an INSERT-level
     WITH the inherited-WITH union printer): ALL 2^14 combinations of INSERT-level WITH present,
     SettingsBeforeFormat, SettingsAfterFormat, len(Settings) in {0,1}, for each of two members
     IntoOutfile, Format, Settings, SettingsAfterFormat, With on the first member, second
     member a select or a parenthesised select.
 E5  8192 `X` cases (union nested in EXPLAIN; noSettings / noFormatOf / noSettingsOf computed
     from the first SelectQuery member): ALL 2^13 combinations of the three union flags, the
     four fields above for each of two members, With on the first, FIRST member a select or a
     parenthesised select (then the first SelectQuery member is the second one).
 E6  8192 `C` cases (union nested in CREATE VIEW; Format on the CreateQuery or not): ALL 2^13
     combinations of CreateQuery.Format set, the three union flags, the four fields for each of
     two members, With on the first.
 E7  65536 `W` cases: the same 2^16 presence combinations as E1 for a SelectQuery printed by
     explainSelectQueryWithInheritedWith (second member of a union whose first member has WITH),
     and 8192 random `V` cases (the same printer reached through INSERT with WITH).
 E8  39366 cases, kinds `S` and `W`: ALL 3^9 combinations of {nil, present-but-empty (letter e),
     non-empty} for the 9 slice-typed fields With DistinctOn Columns GroupBy Window OrderBy
     Interpolate LimitBy Settings, the other fields random (ArrayJoin with an empty Columns slice
     now and then).  A case containing an `e` is ORACLE-ONLY (flag O in the harness output): the
     Coq model cannot tell nil from empty, so only header = direct children is required of it.
 R   <count> random `S`, <count>/2 random `U`, <count>/4 random `I` and <count>/4 random `N`,
     `X`, `C` cases each over all 25 fields
     (each optional field present with probability 1/2, list lengths 0..3, From in
     {nil, 1..3 tables, non-nil without tables}, Columns 0 with probability 1/16), then further random
     `S` cases until every combination of presence/absence of every 3 of the 25 fields has
     occurred (3-wise coverage; 18400 triples x 8 patterns).
--no-exhaustive drops E1..E8 (quick tier).
"""
import sys
from itertools import combinations

MASK = (1 << 64) - 1


def mix(z):
    z = (z + 0x9E3779B97F4A7C15) & MASK
    z = ((z ^ (z >> 30)) * 0xBF58476D1CE4E5B9) & MASK
    z = ((z ^ (z >> 27)) * 0x94D049BB133111EB) & MASK
    return z ^ (z >> 31)


class Rng:
    def __init__(self, *keys):
        s = 0x9E3779B97F4A7C15
        for k in keys:
            s = mix((s ^ (k & MASK)) & MASK)
        self.s = s

    def next(self):
        self.s = (self.s + 0x9E3779B97F4A7C15) & MASK
        return mix(self.s)

    def below(self, n):
        return self.next() % n

    def bit(self):
        return self.next() & 1

    def pick3(self):
        return ("S", "W", "V")[self.next() % 3]


NF = 25
LISTS = {0, 1, 3, 8, 13, 14, 15, 17, 21}          # digit = length
FROM = 4
E1_FIELDS = [0, 1, 2, 4, 5, 8, 9, 10, 15, 16, 17, 18, 19, 20, 21, 22]


def present_digit(field, rng):
    if field in LISTS:
        return 1 + rng.below(3)
    if field == FROM:
        return 1 + rng.below(3)
    return 1


def random_select(rng, in_model=False):
    d = [0] * NF
    for f in range(NF):
        if f == 3:
            d[f] = 1 + rng.below(3)
            if not in_model and rng.below(16) == 0:
                d[f] = 0
        elif rng.bit():
            d[f] = present_digit(f, rng)
            if f == FROM and not in_model and rng.below(8) == 0:
                d[f] = 9
    if in_model:
        # keep the invariants under which the model prints a tree (the sub-tree is handed on rendered)
        if d[18] == 0:
            d[19] = 0
            if d[17] != 0:
                d[20] = 0
    return d


def fmt(d):
    return "".join(str(x) for x in d)


def emit_e1(seed, out):
    for mask in range(1 << len(E1_FIELDS)):
        rng = Rng(seed, 1, mask)
        d = random_select(rng)
        if d[3] == 0:
            d[3] = 1
        for j, f in enumerate(E1_FIELDS):
            d[f] = present_digit(f, rng) if (mask >> j) & 1 else 0
        out.append("S\t-\t" + fmt(d))


def emit_e2(seed, out):
    for mask in range(1 << 13):
        rng = Rng(seed, 2, mask)
        b, a, n = mask & 1, (mask >> 1) & 1, (mask >> 2) & 1
        items = []
        for k in range(2):
            bits = (mask >> (3 + 4 * k)) & 15
            d = [0] * NF
            d[3] = 1 + rng.below(2)
            d[23] = bits & 1
            d[24] = (bits >> 1) & 1
            d[21] = (bits >> 2) & 1
            d[22] = (bits >> 3) & 1
            if k == 0:
                d[0] = (mask >> 11) & 1
            if k == 1:
                d[0] = (mask >> 12) & 1
            if rng.bit():
                d[7] = 1
            items.append("q" + fmt(d))
        out.append("U\t%d%d%d\t%s" % (b, a, n, ";".join(items)))


def emit_e3(seed, out):
    for n in (1, 2, 3):
        for kinds in range(1 << n):
            for e in (0, 1):
                for w in (0, 1):
                    for cols in range(1 << n):
                        items = []
                        for k in range(n):
                            d = [0] * NF
                            d[3] = 1 + ((cols >> k) & 1)
                            if k == 0:
                                d[0] = w
                            items.append(("u" if (kinds >> k) & 1 else "q") + fmt(d))
                        out.append("I\t%d\t%s" % (e, ";".join(items)))


def two_members(mask, shift, rng):
    """two select specs from 8 bits of mask at shift: outfile, format, settings, saf each"""
    ds = []
    for k in range(2):
        bits = (mask >> (shift + 4 * k)) & 15
        d = [0] * NF
        d[3] = 1 + rng.below(2)
        d[23] = bits & 1
        d[24] = (bits >> 1) & 1
        d[21] = (bits >> 2) & 1
        d[22] = (bits >> 3) & 1
        ds.append(d)
    return ds


def emit_e4(seed, out):
    for mask in range(1 << 14):
        rng = Rng(seed, 7, mask)
        w, b, a, n = mask & 1, (mask >> 1) & 1, (mask >> 2) & 1, (mask >> 3) & 1
        ds = two_members(mask, 4, rng)
        ds[0][0] = (mask >> 12) & 1
        k2 = "u" if (mask >> 13) & 1 else "q"
        out.append("N\t%d%d%d%d\tq%s;%s%s" % (w * (1 + rng.below(2)), b, a, n, fmt(ds[0]), k2, fmt(ds[1])))


def emit_e5(seed, out):
    for mask in range(1 << 13):
        rng = Rng(seed, 8, mask)
        b, a, n = mask & 1, (mask >> 1) & 1, (mask >> 2) & 1
        ds = two_members(mask, 3, rng)
        ds[0][0] = (mask >> 11) & 1
        k1 = "u" if (mask >> 12) & 1 else "q"
        out.append("X\t%d%d%d\t%s%s;q%s" % (b, a, n, k1, fmt(ds[0]), fmt(ds[1])))


def emit_e6(seed, out):
    for mask in range(1 << 13):
        rng = Rng(seed, 9, mask)
        f, b, a, n = mask & 1, (mask >> 1) & 1, (mask >> 2) & 1, (mask >> 3) & 1
        ds = two_members(mask, 4, rng)
        ds[0][0] = (mask >> 12) & 1
        out.append("C\t%d%d%d%d\tq%s;q%s" % (f, b, a, n, fmt(ds[0]), fmt(ds[1])))


def random_items(rng):
    n = 1 + rng.below(3)
    items = []
    for k in range(n):
        if rng.below(4) == 0:
            items.append("u" + fmt(random_select(rng, in_model=True)))
        else:
            items.append("q" + fmt(random_select(rng)))
    return ";".join(items)


SLICE_FIELDS = [0, 1, 3, 8, 13, 14, 15, 17, 21]


def emit_e7(seed, out):
    for mask in range(1 << len(E1_FIELDS)):
        rng = Rng(seed, 13, mask)
        d = random_select(rng)
        if d[3] == 0:
            d[3] = 1
        if d[4] == 9:
            d[4] = 1
        for j, f in enumerate(E1_FIELDS):
            d[f] = present_digit(f, rng) if (mask >> j) & 1 else 0
        out.append("W\t%d\t%s" % (1 + rng.below(2), fmt(d)))
    for i in range(8192):
        rng = Rng(seed, 14, i)
        out.append("V\t%d\t%s" % (1 + rng.below(2), fmt(random_select(rng))))


def emit_e8(seed, out):
    n = len(SLICE_FIELDS)
    for code in range(3 ** n):
        for kind in ("S", "W"):
            rng = Rng(seed, 15, code, ord(kind))
            d = [str(x) for x in random_select(rng, in_model=True)]
            c = code
            for f in SLICE_FIELDS:
                st = c % 3
                c //= 3
                d[f] = "0" if st == 0 else ("e" if st == 1 else str(1 + rng.below(3)))
            if rng.below(6) == 0:
                d[5] = "e"
            spec = "".join(d)
            out.append("%s\t%s\t%s" % (kind, "-" if kind == "S" else str(1 + rng.below(2)), spec))


def emit_random(seed, count, out):
    covered = set()
    triples = list(combinations(range(NF), 3))
    total = len(triples) * 8

    def note(d):
        p = [1 if x else 0 for x in d]
        for (i, j, k) in triples:
            covered.add((i, j, k, p[i], p[j], p[k]))

    for i in range(count):
        d = random_select(Rng(seed, 3, i))
        note(d)
        out.append("S\t-\t" + fmt(d))
    for i in range(count // 2):
        rng = Rng(seed, 4, i)
        n = 1 + rng.below(3)
        items = []
        for k in range(n):
            if rng.below(4) == 0:
                items.append("u" + fmt(random_select(rng, in_model=True)))
            else:
                items.append("q" + fmt(random_select(rng)))
        out.append("U\t%d%d%d\t%s" % (rng.bit(), rng.bit(), rng.below(3), ";".join(items)))
    for i in range(count // 4):
        rng = Rng(seed, 5, i)
        n = 1 + rng.below(3)
        items = []
        for k in range(n):
            if rng.below(3) == 0:
                items.append("u" + fmt(random_select(rng, in_model=True)))
            else:
                items.append("q" + fmt(random_select(rng)))
        out.append("I\t%d\t%s" % (rng.bit(), ";".join(items)))
    for i in range(count // 4):
        rng = Rng(seed, 10, i)
        out.append("N\t%d%d%d%d\t%s" % (rng.below(3), rng.bit(), rng.bit(), rng.below(3), random_items(rng)))
        rng = Rng(seed, 11, i)
        out.append("X\t%d%d%d\t%s" % (rng.bit(), rng.bit(), rng.below(3), random_items(rng)))
        rng = Rng(seed, 12, i)
        out.append("C\t%d%d%d%d\t%s" % (rng.bit(), rng.bit(), rng.bit(), rng.below(3), random_items(rng)))
    for i in range(count // 2):
        rng = Rng(seed, 16, i)
        d = [str(x) for x in random_select(rng)]
        for f in SLICE_FIELDS + [5]:
            if rng.below(5) == 0:
                d[f] = "e"
        k = rng.pick3()
        out.append("%s\t%s\t%s" % (k, "-" if k == "S" else str(1 + rng.below(2)), "".join(d)))
    i = 0
    while len(covered) < total:
        d = random_select(Rng(seed, 6, i))
        # Columns is the one field that is rarely absent: force it when its absence is still needed
        if i % 8 == 0:
            d[3] = 0
        note(d)
        out.append("S\t-\t" + fmt(d))
        i += 1
        if i > 200000:
            sys.stderr.write("gen_select_cases: 3-wise coverage not reached\n")
            sys.exit(2)


def main():
    args = [a for a in sys.argv[1:] if not a.startswith("--")]
    flags = [a for a in sys.argv[1:] if a.startswith("--")]
    if len(args) != 2:
        sys.stderr.write(__doc__)
        sys.exit(2)
    seed, count = int(args[0]), int(args[1])
    out = []
    if "--no-exhaustive" not in flags:
        emit_e1(seed, out)
        emit_e2(seed, out)
        emit_e3(seed, out)
        emit_e4(seed, out)
        emit_e5(seed, out)
        emit_e6(seed, out)
        emit_e7(seed, out)
        emit_e8(seed, out)
    emit_random(seed, count, out)
    sys.stdout.write("\n".join(out) + "\n")


if __name__ == "__main__":
    main()
