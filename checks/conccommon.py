"""Shared by C10 and C11: the generated shared-access inventory and the concurrent / history workloads."""
import json
import os
import re
import verif

WORKLOAD = os.path.join(verif.ROOT, "checks", "conc_workload.sql")


def workload_hex(extra=()):
    path = os.path.join(verif.BUILD, "conc_workload.hex")
    with open(path, "w") as f:
        for l in list(open(WORKLOAD)) + list(extra):
            l = l.rstrip("\n")
            f.write((l.encode().hex() or "-") + "\n")
    return path


def obligations_table():
    """Parses the `Print obligations` block and the key lists from the build of Conc/SharedObligations.v."""
    rc, out = verif.sh(["coqc", "-Q", verif.COQ, "DC", os.path.join(verif.COQ, "Conc", "SharedObligations.v")], cwd=verif.COQ, timeout=600)
    table = dict((k, v == "true") for k, v in re.findall(r'\("([A-Za-z0-9_.]+)",\s*(true|false)\)', out))
    lists = {}
    for name in ("C10_unlisted_keys", "C10_known_site_keys", "C11_unrestored_keys", "C11_map_range_keys", "C10_other_keys", "C10_stale_allowed_keys"):
        m = re.search(name + r"\s*=\s*(\[.*?\])\s*:\s*list string", out, flags=re.S)
        if m:
            lists[name] = re.findall(r'"((?:[^"]|"")*)"', m.group(1))
    return rc, table, lists, out


def run_phase(phase, race, hexpath, extra_args=()):
    binp = os.path.join(verif.BUILD, "conc_race" if race else "conc")
    env = dict(verif.GOENV, GORACE="exitcode=66 halt_on_error=0 atexit_sleep_ms=0")
    cmd = "%s -phase %s %s < %s 2> %s.err" % (binp, phase, " ".join(extra_args), hexpath, hexpath + "." + phase)
    rc, out = verif.sh(cmd, shell=True, env=env, timeout=1800)
    try:
        j = json.loads(out.strip().splitlines()[-1])
    except Exception:
        j = {"error": out[-500:]}
    err = open(hexpath + "." + phase + ".err").read() if os.path.exists(hexpath + "." + phase + ".err") else ""
    races = err.count("WARNING: DATA RACE")
    first_race = ""
    if races:
        i = err.index("WARNING: DATA RACE")
        first_race = err[i:i + 1800]
    return rc, j, races, first_race
