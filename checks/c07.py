"""C07 — a query renders the same wherever it is embedded.
Theorems: coq/Properties/C07.v — `C07_printer`: (i) shift law: every printer function of internal/explain expressible in the
depth-oblivious printer calculus prints at depth d the text of depth 0 shifted by d — instantiated by the inventory of every use
of `depth`/`indent` regenerated from /repo (Gen/DepthUses.v, cmd/depthgen) and checked in the kernel (no other uses, no raw writes,
consistent (indent, depth) pairs, depth tests only at two allow-listed sites in explainExplainQuery); (ii) over the SELECT printer
model a tail-free union prints identically under every union tail (CREATE ... AS / INSERT ... SELECT / EXPLAIN contexts) and each
context contains the embedded rendering as a shifted block; (iii) no hidden state (C10's computed obligation).
PARTIAL: the parser half (an embedded query parses to the same AST as on its own) is covered by the harness only.
Ties: depthgen / sharedgen translators; embed harness: every SELECT/WITH corpus query x 14 embeddings, each explained after random
histories and in fresh processes; composed queries (set operations, nesting, WITH)."""
import os
import re
import verif

TRUSTED = [
    "Coq 8.16.1 kernel and vm_compute; Print Assumptions of every theorem: closed under the global context",
    "translator/cmd/depthgen: claim (D) in Embed/DepthCheck.v — every function of internal/explain whose inventory is clean denotes a trace of the printer calculus — is the trusted soundness claim; Node's type-switch dispatch is a hypothesis (Hdispatch)",
    "SELECT printer model (validated by the C04 selectcount correspondence); parser half: harness only",
]


def run(rep):
    st = verif.proof_stage(rep, "C07", needs_translators=["gentables", "depthgen", "sharedgen"])
    broken = list(st["broken"])
    broken += verif.build_topic(go_pkgs=("embed",))
    found = False
    if not any(b["obligation"].startswith("build:") for b in broken):
        corpus = os.path.join(verif.ROOT, "corpus", "statements.txt")
        sel = os.path.join(verif.BUILD, "embed_in.txt")
        with open(sel, "w", encoding="utf-8", errors="surrogateescape") as f:
            for l in open(corpus, encoding="utf-8", errors="surrogateescape"):
                if re.match(r"(?i)^\s*(select|with)\b", l):
                    f.write(l)
        quick = rep.tier == "quick"
        # plus SELECT / set-operation statements of the verification grammar (FROM-first, WITH forms, every clause subset ...)
        ng = 2500 if quick else 40000
        rcg, outg = verif.sh(["python3", os.path.join(verif.ROOT, "checks", "gen_sql_grammar.py"), str(rep.seed), str(ng), "--kinds", "select,setop", "--gaps", "--hex"], timeout=1200)
        if rcg != 0:
            broken.append({"obligation": "harness:gen_sql_grammar", "detail": outg[-400:]})
        # plus long queries (a select list of several KB, so that a token crosses the lexer's buffer boundary at a position
        # that the embedding prefix shifts) ending in tokens that need look-ahead
        longq = []
        for tail in ("$doc$heredoc body$doc$ AS h", "'it''s' AS s", "x'4142' AS b", "a.b.c AS d", "1e5 AS e", "`q``q` AS q", "{p:UInt8} AS p", "x::Tuple(a UInt8, b String) AS t", "/* c */ 1 AS z"):
            for size in (4000, 4060, 4080, 4090, 4096, 8180):
                cols = []
                n = 0
                while n < size:
                    c = "column_%d" % len(cols)
                    cols.append(c)
                    n += len(c) + 2
                longq.append("SELECT " + ", ".join(cols) + ", " + tail + " FROM t")
        with open(sel, "a", encoding="utf-8", errors="surrogateescape") as f:
            # (the grammar is read in --hex mode: text mode + splitlines() cut statements at a raw line break inside a string
            # literal and the unterminated half was used as a query; the embed input is one query per line, so queries that
            # contain a line break of any kind are left to the other runs)
            for hl in outg.split("\n"):
                try:
                    l = bytes.fromhex(hl.strip()).decode("utf-8", "surrogateescape")
                except ValueError:
                    continue
                if not l or len(l.splitlines()) != 1:
                    continue
                if re.match(r"(?i)^\s*(select|with|from|\()", l) and not re.search(r"(?i)\b(format|settings|into\s+outfile)\b", l):
                    f.write(l + "\n")
            for l in longq:
                f.write(l + "\n")
        runs = [(["-in", sel, "-q", "-fresh", "25" if quick else "50", "-compose", "4000" if quick else "20000", "-seed", str(rep.seed)], 1200)]
        if not quick:
            runs.append((["-corpus", os.path.join(verif.REPO, "parser", "testdata"), "-q", "-compose", "40000", "-seed", str(rep.seed)], 3000))
        totals = {"checked": 0, "embeddings": 0, "inputs": 0}
        samples = []
        for args, tmo in runs:
            rc, out = verif.sh("%s %s 2> %s.err" % (os.path.join(verif.BUILD, "embed"), " ".join(args), sel), shell=True, timeout=tmo)
            err = open(sel + ".err").read() if os.path.exists(sel + ".err") else ""
            m = re.search(r"SUMMARY (.*)", err)
            if m:
                for k, v in re.findall(r"(\w[\w-]*)=(\d+)", m.group(1)):
                    if k in totals:
                        totals[k] += int(v)
                samples.append(m.group(0)[:300])
            else:
                broken.append({"obligation": "harness:embed", "detail": (out + err)[-600:]})
            for line in out.splitlines():
                if line.startswith("BAD"):
                    found = True
                    q = line.split("\t")[-1]
                    rep.violation("input", "embedded rendering differs: " + line[:300], {"detail": line[:3000], "query": q}, input_hex=q.encode("utf-8", "replace").hex()[:2000])
        rep.coverage.update({
            "evaluations": totals["embeddings"], "distinct_nontrivial": totals["checked"],
            "rule": "every SELECT/WITH statement of the corpus and 2.5k (quick) / 40k (thorough) SELECT and set-operation statements of the verification grammar, plus 54 multi-KB queries whose last tokens straddle the lexer buffer boundary, without FORMAT/SETTINGS/INTO OUTFILE tail (+ composed queries: set operations, nesting, WITH) x 14 embeddings (FROM subquery with and without alias, IN, EXISTS, scalar subquery, CTE body, JOIN operand, CREATE VIEW / MATERIALIZED VIEW AS, INSERT SELECT, EXPLAIN / AST / SYNTAX, statement-level parentheses); "
                    "the lines of Explain(q) must occur as one contiguous, uniformly indented whole-subtree block; each embedding explained twice after different random histories of earlier Explain calls and every N-th query re-evaluated in a fresh process; distinct_nontrivial = queries checked",
            "samples": samples or ["-"], "trusted_base": TRUSTED,
        })
    # rendering must not depend on where the query stands in the input: the lexer is a function of the bytes (tie the lexer
    # model, over which that is proved, to the CURRENT lexer.go)
    import lexcommon
    lexcommon.lexer_premise(rep, broken, ())
    # C07_fragment_* are stated over Select/SelectParseModel.v + SelectPrintModel.v: tie them to the CURRENT parser and printer
    import searchcommon
    b2, summ = searchcommon.run_selectcore(rep, 1500 if rep.tier == "quick" else 20000)
    broken += b2
    rep.coverage["selectcore_correspondence"] = summ
    verif.report_broken(rep, broken, found)
    rep.assumptions = ["contexts embed at depth >= 1; identifiers without line breaks"]


def replay(rec):
    print(rec.get("detail", rec))
    return 0
