#!/usr/bin/env python3
"""Case generator for the C04 count-vs-emit correspondence of the DDL printers (Column, Index,
explainCreateQuery, explainAlterQuery, countAlterCommandChildren / explainAlterCommand):
       real printers (/verif/build/ddlcount)  vs  extracted model (/verif/build/ddlcount_driver).

usage: gen_ddl_cases.py <seed> <count> [--quick]        (cases on stdout)

Case syntax: /verif/harness/cmd/ddlcount/main.go (<kind> TAB <spec>).  Every random choice derives
from <seed> through splitmix64 and the block / case index, so a line replays alone.

Blocks (both tiers unless said otherwise):
 C1  COL: ALL 7680 combinations of the 9 column fields (Type, Statistics 0..3, Default,
     DefaultKind "" / DEFAULT / EPHEMERAL, TTL, Codec nil / 1..3 / empty, Settings 0..3, Comment,
     PrimaryKey).
 I1  IDX: all 12 combinations (Expression nil / identifier / call / tuple, Type nil / plain / with argument).
 A1  ALT: for EVERY AlterCommandType constant (45) and two other strings ("" and OTHER_X): all
     combinations of the fields that the tally or the emission of that type reads (table
     ALTER_FIELDS below: presence of every string / pointer / interface field, list lengths
     0..3, Partition nil / ALL / literal / other x PartitionIsID x IsPart, Constraint nil / with /
     without expression, TTL nil / Elements 0..3 x Expression x Expressions 0..2, Column nil / 3
     columns, IndexDef nil / 4 definitions, Projection nil / 5 projections, statistics kinds
     without and with arguments), the fields the type does not read random.
 A2  ALT: <count>/8 (quick) or <count> (thorough) random commands per type over ALL 26 fields and the
     sub-values.
 Q1  ALQ: all 48 combinations of Database, Format, len(Settings) 0..2, 0..3 commands.
 R1  CRE special variants: all combinations of CreateFunction, FunctionBody, CreateUser, AlterUser,
     HasAuthenticationData, AuthenticationValues 0..2, SSHKeyCount 0..2, CreateDictionary,
     DictionaryAttrs 0..2, DictionaryDef, Database, Comment (13824; quick: every 2nd).
 R2  CRE main tally: all combinations of Database, CreateDatabase, Table / View / neither, a column
     list or none, Engine, OrderBy, WindowView, InnerEngine, Materialized, To, Settings, Comment,
     SettingsBeforeComment, QuerySettings, HasRefresh, AsSelect nil / plain / with FORMAT,
     AsTableFunction, Format (589824; thorough only).  Quick: the 6144 combinations of Materialized,
     WindowView, AsSelect, To, InnerEngine, Engine, OrderBy, Settings, Comment,
     SettingsBeforeComment, Format, QuerySettings with the other fields random.
 R3  CRE "Storage definition": Engine (5 forms) x PartitionBy (3) x SampleBy x Settings x Materialized;
     OrderBy length 0..3 x kind of the first (5) x modifiers x WindowView x InnerEngine (3) x Engine;
     PrimaryKey length 0..3 x kind (5) x Engine; TTL nil / Elements 0..3 x Expression x Expressions 0..2.
 R4  CRE "Columns definition": 0..3 columns with every PrimaryKey flag pattern x Indexes 0..3 x
     Projections 0..3 x Constraints 0..3 x ColumnsPrimaryKey 0..3 x HasEmptyColumnsPrimaryKey (7680).
 R5  CRE: <count> (quick) or 20 x <count> (thorough) random queries over all 41 fields and random column /
     index / projection lists.
"""
import sys
from itertools import product

MASK = (1 << 64) - 1


def mix(z):
    z = (z + 0x9E3779B97F4A7C15) & MASK
    z = ((z ^ (z >> 30)) * 0xBF58476D1CE4E5B9) & MASK
    z = ((z ^ (z >> 27)) * 0x94D049BB133111EB) & MASK
    return z ^ (z >> 31)


class Rng:
    def __init__(self, *keys):
        s = 0x9E3779B97F4A7C15
        for k in keys:
            s = mix((s ^ (k & MASK)) & MASK)
        self.s = s

    def next(self):
        self.s = (self.s + 0x9E3779B97F4A7C15) & MASK
        return mix(self.s)

    def below(self, n):
        return self.next() % n

    def bit(self):
        return self.next() & 1

    def pick(self, xs):
        return xs[self.next() % len(xs)]


# ---------------------------------------------------------------------------------------------
# columns, indexes, projections
# ---------------------------------------------------------------------------------------------

COL_DOMAINS = [(0, 1), (0, 1, 2, 3), (0, 1), (0, 1, 2), (0, 1), (0, 1, 2, 3, 9), (0, 1, 2, 3), (0, 1), (0, 1)]
IDX_SPECS = ["%d%d" % (e, t) for e in range(4) for t in range(3)]
PRJ_SPECS = ["n", "0000", "1111", "0102", "2013", "3321", "0001", "1000"]


def all_columns():
    for v in product(*COL_DOMAINS):
        yield "".join(str(x) for x in v)


def random_column(rng, pk=None):
    v = [rng.pick(dom) for dom in COL_DOMAINS]
    if pk is not None:
        v[8] = pk
    return "".join(str(x) for x in v)


# ---------------------------------------------------------------------------------------------
# ALTER commands
# ---------------------------------------------------------------------------------------------

ALT_NAMES = ["ColumnName", "AfterColumn", "NewName", "Index", "AfterIndex", "Constraint", "ConstraintName",
             "Partition", "PartitionIsID", "IsPart", "FromTable", "TTL", "TTLElements", "TTLExpression",
             "TTLExpressions", "Settings", "Where", "Assignments", "ProjectionName", "StatisticsColumns",
             "StatisticsTypes", "Comment", "OrderByExpr", "SampleByExpr", "ResetSettings", "Query"]
ALT_DOMAIN = {"Constraint": (0, 1, 2), "Partition": (0, 1, 2, 3), "TTLElements": (0, 1, 2, 3), "TTLExpressions": (0, 1, 2),
              "Settings": (0, 1, 2), "Assignments": (0, 1, 2, 3), "StatisticsColumns": (0, 1, 2, 3),
              "StatisticsTypes": (0, 1, 2, 3, 4, 5, 6), "OrderByExpr": (0, 1, 2, 3), "ResetSettings": (0, 1, 2)}
SUB_DOMAIN = {"Column": ("-", "100000000", "131219111", "000000000"), "IndexDef": ("-", "00", "10", "01", "21"),
              "Projection": ("-", "n", "0000", "1111", "0102", "2013")}
PART = ["Partition", "PartitionIsID", "IsPart"]
TTL = ["TTL", "TTLElements", "TTLExpression", "TTLExpressions"]
STATS = ["StatisticsColumns", "StatisticsTypes"]

# the fields the tally or the emission of a type reads (incl. the ones only ONE side reads)
ALTER_FIELDS = {
    "ADD_COLUMN": ["Column", "AfterColumn", "Settings", "ResetSettings"],
    "MODIFY_COLUMN": ["Column", "AfterColumn", "Settings", "ResetSettings"],
    "DROP_COLUMN": ["ColumnName"],
    "RENAME_COLUMN": ["ColumnName", "NewName"],
    "CLEAR_COLUMN": ["ColumnName"] + PART,
    "MATERIALIZE_COLUMN": ["ColumnName"] + PART,
    "COMMENT_COLUMN": ["ColumnName", "Comment"],
    "ADD_INDEX": ["IndexDef", "Index", "AfterIndex"],
    "DROP_INDEX": ["Index"] + PART,
    "CLEAR_INDEX": ["Index"] + PART,
    "MATERIALIZE_INDEX": ["Index"] + PART,
    "ADD_CONSTRAINT": ["Constraint", "ConstraintName"],
    "DROP_CONSTRAINT": ["ConstraintName"],
    "MODIFY_TTL": TTL,
    "MATERIALIZE_TTL": PART,
    "REMOVE_TTL": PART,
    "MODIFY_SETTING": ["Settings"],
    "RESET_SETTING": ["ResetSettings"],
    "DROP_PARTITION": PART + ["FromTable"],
    "DROP_DETACHED_PARTITION": PART + ["FromTable"],
    "DETACH_PARTITION": PART + ["FromTable"],
    "ATTACH_PARTITION": PART + ["FromTable"],
    "REPLACE_PARTITION": PART + ["FromTable"],
    "FETCH_PARTITION": PART + ["FromTable"],
    "MOVE_PARTITION": PART + ["FromTable"],
    "FREEZE_PARTITION": PART + ["FromTable"],
    "FREEZE": ["Partition"],
    "APPLY_PATCHES": PART + ["FromTable"],
    "APPLY_DELETED_MASK": PART + ["FromTable"],
    "DELETE_WHERE": ["Where"],
    "UPDATE": PART + ["Where", "Assignments"],
    "ADD_PROJECTION": ["Projection"],
    "DROP_PROJECTION": ["ProjectionName"],
    "MATERIALIZE_PROJECTION": ["ProjectionName"],
    "CLEAR_PROJECTION": ["ProjectionName"],
    "ADD_STATISTICS": STATS,
    "MODIFY_STATISTICS": STATS,
    "DROP_STATISTICS": STATS,
    "CLEAR_STATISTICS": STATS,
    "MATERIALIZE_STATISTICS": STATS,
    "MODIFY_COMMENT": ["Comment"],
    "MODIFY_ORDER_BY": ["OrderByExpr"],
    "MODIFY_SAMPLE_BY": ["SampleByExpr"],
    "MODIFY_QUERY": ["Query"],
    "REMOVE_SAMPLE_BY": PART,
    "": PART,
    "OTHER_X": PART,
}
assert len(ALTER_FIELDS) == 47


def domain(field):
    if field in SUB_DOMAIN:
        return SUB_DOMAIN[field]
    return ALT_DOMAIN.get(field, (0, 1))


def random_alter_values(rng):
    v = {f: rng.pick(domain(f)) for f in ALT_NAMES}
    for f in SUB_DOMAIN:
        v[f] = rng.pick(SUB_DOMAIN[f]) if rng.below(3) else "-"
    if v["Column"] != "-" and rng.bit():
        v["Column"] = random_column(rng)
    return v


def fmt_alter(ty, v):
    return "ALT\t%s:%s:%s:%s:%s" % (ty, "".join(str(v[f]) for f in ALT_NAMES), v["Column"], v["IndexDef"], v["Projection"])


def emit_alter(seed, count, quick, out):
    for ti, ty in enumerate(ALTER_FIELDS):
        fields = ALTER_FIELDS[ty]
        for ci, combo in enumerate(product(*[domain(f) for f in fields])):
            rng = Rng(seed, 21, ti, ci)
            v = random_alter_values(rng)
            for f in SUB_DOMAIN:
                if f not in fields:
                    v[f] = "-" if rng.bit() else v[f]
            for f, x in zip(fields, combo):
                v[f] = x
            out.append(fmt_alter(ty, v))
        for i in range(count // 8 if quick else count):
            rng = Rng(seed, 22, ti, i)
            out.append(fmt_alter(ty, random_alter_values(rng)))


# ---------------------------------------------------------------------------------------------
# CREATE
# ---------------------------------------------------------------------------------------------

CRE_NAMES = ["CreateFunction", "FunctionBody", "CreateUser", "AlterUser", "HasAuthenticationData", "AuthenticationValues",
             "SSHKeyCount", "CreateDictionary", "DictionaryAttrs", "DictionaryDef", "CreateDatabase", "Database", "Table", "View",
             "ColumnsPrimaryKey", "HasEmptyColumnsPrimaryKey", "Engine", "InnerEngine", "OrderBy", "OrderByKind",
             "OrderByHasModifiers", "PartitionBy", "PrimaryKey", "PrimaryKeyKind", "SampleBy", "TTL", "TTLElements",
             "TTLExpression", "TTLExpressions", "Settings", "QuerySettings", "SettingsBeforeComment", "Comment", "HasRefresh",
             "Materialized", "WindowView", "To", "AsSelect", "AsTableFunction", "Format", "Constraints"]
assert len(CRE_NAMES) == 41
CRE_DOMAIN = {"AuthenticationValues": (0, 1, 2), "SSHKeyCount": (0, 1, 2), "DictionaryAttrs": (0, 1, 2),
              "ColumnsPrimaryKey": (0, 1, 2, 3), "Engine": (0, 1, 2, 3, 4), "InnerEngine": (0, 1, 2, 3, 4), "OrderBy": (0, 1, 2, 3),
              "OrderByKind": (0, 1, 2, 3, 4), "PartitionBy": (0, 1, 2), "PrimaryKey": (0, 1, 2, 3), "PrimaryKeyKind": (0, 1, 2, 3, 4),
              "TTLElements": (0, 1, 2, 3), "TTLExpressions": (0, 1, 2), "Settings": (0, 1, 2), "QuerySettings": (0, 1, 2),
              "AsSelect": (0, 1, 2), "Constraints": (0, 1, 2, 3)}
SPECIAL = ["CreateFunction", "CreateUser", "AlterUser", "CreateDictionary"]


def cre_domain(f):
    return CRE_DOMAIN.get(f, (0, 1))


def random_lists(rng, max_cols=3):
    cols = [random_column(rng) for _ in range(rng.below(max_cols + 1))]
    idxs = [rng.pick(IDX_SPECS) for _ in range(rng.below(3))]
    prjs = [rng.pick(PRJ_SPECS) for _ in range(rng.below(3))]
    return cols, idxs, prjs


def random_create_values(rng, general=True):
    v = {f: rng.pick(cre_domain(f)) for f in CRE_NAMES}
    if general:
        for f in SPECIAL:
            v[f] = 0
    else:
        for f in SPECIAL:                      # mostly general, now and then a special variant
            v[f] = 1 if rng.below(12) == 0 else 0
    # presence of the rarer things with probability 1/3 so that small trees occur too
    for f in ("Engine", "InnerEngine", "TTL", "AsSelect", "AsTableFunction", "HasRefresh", "WindowView", "Materialized"):
        if rng.below(3) == 0:
            v[f] = 0
    return v


def fmt_create(v, cols, idxs, prjs):
    def lst(xs):
        return ",".join(xs) if xs else "-"
    return "CRE\t%s:%s:%s:%s" % ("".join(str(v[f]) for f in CRE_NAMES), lst(cols), lst(idxs), lst(prjs))


def emit_create(seed, count, quick, out):
    # R1 special variants
    fields = ["CreateFunction", "FunctionBody", "CreateUser", "AlterUser", "HasAuthenticationData", "AuthenticationValues",
              "SSHKeyCount", "CreateDictionary", "DictionaryAttrs", "DictionaryDef", "Database", "Comment"]
    for ci, combo in enumerate(product(*[cre_domain(f) for f in fields])):
        if quick and ci % 2 != 0:
            continue
        rng = Rng(seed, 31, ci)
        v = random_create_values(rng)
        v["Table"] = 1
        for f, x in zip(fields, combo):
            v[f] = x
        out.append(fmt_create(v, *random_lists(rng, 1)))
    # R2 main tally
    if quick:
        fields = ["Materialized", "WindowView", "AsSelect", "To", "InnerEngine", "Engine", "OrderBy", "Settings", "Comment",
                  "SettingsBeforeComment", "Format", "QuerySettings"]
        doms = [(0, 1), (0, 1), (0, 1, 2), (0, 1), (0, 1), (0, 1), (0, 1), (0, 1), (0, 1), (0, 1), (0, 1), (0, 1)]
        for ci, combo in enumerate(product(*doms)):
            rng = Rng(seed, 32, ci)
            v = random_create_values(rng)
            for f, x in zip(fields, combo):
                v[f] = x
            out.append(fmt_create(v, *random_lists(rng, 1)))
    else:
        fields = ["Database", "CreateDatabase", "Materialized", "WindowView", "AsSelect", "To", "InnerEngine", "Engine", "OrderBy",
                  "Settings", "Comment", "SettingsBeforeComment", "Format", "QuerySettings", "HasRefresh", "AsTableFunction"]
        doms = [(0, 1)] * 4 + [(0, 1, 2)] + [(0, 1)] * 11
        ci = 0
        for name_kind in (0, 1, 2):               # Table / View / neither
            for has_cols in (0, 1):
                for combo in product(*doms):
                    rng = Rng(seed, 33, ci)
                    ci += 1
                    v = {f: 0 for f in CRE_NAMES}
                    v["Table"], v["View"] = (1, 0) if name_kind == 0 else ((0, 1) if name_kind == 1 else (0, 0))
                    for f, x in zip(fields, combo):
                        v[f] = x
                    out.append(fmt_create(v, ["100000000"] if has_cols else [], [], []))
    # R3 storage definition
    ci = 0
    for combo in product((0, 1, 2, 3, 4), (0, 1, 2), (0, 1), (0, 1), (0, 1)):
        rng = Rng(seed, 34, ci)
        ci += 1
        v = random_create_values(rng)
        v["Engine"], v["PartitionBy"], v["SampleBy"], v["Settings"], v["Materialized"] = combo
        out.append(fmt_create(v, *random_lists(rng, 1)))
    for combo in product((0, 1, 2, 3), (0, 1, 2, 3, 4), (0, 1), (0, 1), (0, 1, 3), (0, 1)):
        rng = Rng(seed, 35, ci)
        ci += 1
        v = random_create_values(rng)
        v["OrderBy"], v["OrderByKind"], v["OrderByHasModifiers"], v["WindowView"], v["InnerEngine"], v["Engine"] = combo
        out.append(fmt_create(v, *random_lists(rng, 1)))
    for combo in product((0, 1, 2, 3), (0, 1, 2, 3, 4), (0, 1)):
        rng = Rng(seed, 36, ci)
        ci += 1
        v = random_create_values(rng)
        v["PrimaryKey"], v["PrimaryKeyKind"], v["Engine"] = combo
        out.append(fmt_create(v, *random_lists(rng, 1)))
    for combo in product((0, 1), (0, 1, 2, 3), (0, 1), (0, 1, 2)):
        rng = Rng(seed, 37, ci)
        ci += 1
        v = random_create_values(rng)
        v["TTL"], v["TTLElements"], v["TTLExpression"], v["TTLExpressions"] = combo
        out.append(fmt_create(v, *random_lists(rng, 1)))
    # R4 columns definition
    ci = 0
    for ncols in (0, 1, 2, 3):
        for pkmask in range(1 << ncols):
            for combo in product((0, 1, 2, 3), (0, 1, 2, 3), (0, 1, 2, 3), (0, 1, 2, 3), (0, 1)):
                ci += 1
                rng = Rng(seed, 38, ci)
                v = random_create_values(rng)
                nidx, nprj, v["Constraints"], v["ColumnsPrimaryKey"], v["HasEmptyColumnsPrimaryKey"] = combo
                cols = [random_column(rng, pk=(pkmask >> j) & 1) for j in range(ncols)]
                idxs = [rng.pick(IDX_SPECS) for _ in range(nidx)]
                prjs = [rng.pick(PRJ_SPECS) for _ in range(nprj)]
                out.append(fmt_create(v, cols, idxs, prjs))
    # R5 random
    for i in range(count if quick else 20 * count):
        rng = Rng(seed, 39, i)
        v = random_create_values(rng, general=False)
        out.append(fmt_create(v, *random_lists(rng)))


def main():
    args = [a for a in sys.argv[1:] if not a.startswith("--")]
    flags = [a for a in sys.argv[1:] if a.startswith("--")]
    if len(args) != 2:
        sys.stderr.write(__doc__)
        sys.exit(2)
    seed, count = int(args[0]), int(args[1])
    quick = "--quick" in flags
    out = []
    for c in all_columns():
        out.append("COL\t" + c)
    for i in IDX_SPECS:
        out.append("IDX\t" + i)
    emit_alter(seed, count, quick, out)
    for combo in product((0, 1), (0, 1), (0, 1, 2), (0, 1, 2, 3)):
        out.append("ALQ\t%d%d%d%d" % combo)
    emit_create(seed, count, quick, out)
    sys.stdout.write("\n".join(out) + "\n")


if __name__ == "__main__":
    main()
