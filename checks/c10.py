"""C10 — Parse and Explain are safe to call concurrently.
Theorems: coq/Properties/C10.v — an interleaving theorem (Conc/Interleave.v: threads whose shared write set is
empty are race free and each observes what it observes alone, for every schedule) instantiated by the inventory of
writes to package-level variables and through AST arguments that /verif/translator/cmd/sharedgen regenerates from
/repo on every run (Gen/SharedAccess.v); the per-run obligation `check_shared inventory [] = true` is computed in the kernel.
Ties: the translator (go/types over the five packages); race-detector runs of N goroutines on distinct trees and on
one shared tree with result comparison against the sequential baseline."""
import os
import conccommon
import verif

TRUSTED = [
    "Coq 8.16.1 kernel and vm_compute; Print Assumptions of every theorem: closed under the global context",
    "translator/cmd/sharedgen (go/types): its soundness claim — every store the library can perform after init into memory another concurrent call can reach is a listed site — is argued in coq/Conc/SharedCheck.v and is trusted; `conforms` (the Go calls are instances of the abstract action programs over the inventory) is a hypothesis of the theorem",
    "the Go memory model for data-race-free programs; stdlib functions called by the printer do not modify their arguments; clients do not write token.Keywords",
]


def run(rep):
    st = verif.proof_stage(rep, "C10", needs_translators=["sharedgen"], extra_targets=["Conc/SharedObligations.vo"])
    broken = list(st["broken"])
    with verif.Lock():
        g = verif.build_go(("conc",), race=True)
    if g["conc"][0] != 0:
        broken.append({"obligation": "build:go-conc-race", "detail": g["conc"][1][-1500:]})
    rc, table, lists, raw = conccommon.obligations_table()
    found = False
    # known sites (open findings) are reported one by one; unlisted sites are what breaks the obligation
    for k in lists.get("C10_known_site_keys", []):
        rep.violation("obligation", "shared write at known site " + k, {"site": k}, key=k)
    unlisted = lists.get("C10_unlisted_keys", []) + lists.get("C10_other_keys", [])
    report = {}
    try:
        import json
        report = json.load(open(os.path.join(verif.BUILD, "sharedgen_report.json")))
    except Exception:
        pass
    if not any(b["obligation"].startswith("build:") for b in broken):
        hexp = conccommon.workload_hex()
        n = "16" if rep.tier == "quick" else "32"
        rounds = "20" if rep.tier == "quick" else "80"
        total_calls = 0
        for phase, what in (("B", "distinct trees"), ("C", "one shared tree")):
            prc, j, races, first = conccommon.run_phase(phase, True, hexp, ["-n", n, "-rounds", rounds])
            total_calls += j.get("calls", 0)
            mism = j.get("mismatch_count", 0)
            if races or mism:
                found = True
                stmts = list(j.get("mismatches_by_statement", {}).keys())[:5]
                rep.violation("schedule", "concurrent Explain/Parse on %s: %d data race report(s), %d result mismatch(es)" % (what, races, mism),
                              {"phase": phase, "workload": conccommon.WORKLOAD, "race_report": first, "mismatching_statements": stmts,
                               "mismatches": j.get("mismatches", [])[:3], "goroutines": n, "rounds": rounds},
                              key="race:" + phase + ":" + (first.split("\n")[2].strip() if first.count("\n") > 2 else ""))
            if "error" in j:
                broken.append({"obligation": "harness:conc-" + phase, "detail": str(j["error"])})
        rep.coverage.update({
            "evaluations": total_calls, "distinct_nontrivial": sum(1 for l in open(conccommon.WORKLOAD) if l.strip()),
            "rule": "workload of ~280 statements reaching every formerly inventoried write site (INSERT ... SELECT ... FORMAT, WITH ... INSERT, EXPLAIN ... FORMAT/SETTINGS, CREATE VIEW ... AS SELECT ... FORMAT, ordinary statements); "
                    "phase B: N goroutines x R rounds on freshly parsed trees, phase C: all goroutines share one tree per statement; go build -race; every result compared with the sequential baseline",
            "samples": [l.strip() for l in open(conccommon.WORKLOAD).readlines()[:4]],
            "inventory": {k: (len(v) if isinstance(v, list) else v) for k, v in report.items() if k != "stats"},
            "obligation_table": table, "trusted_base": TRUSTED,
        })
    if unlisted or (table and not table.get("C10.check_shared", False)):
        sites = [s for s in (report.get("var_writes", []) + report.get("tree_writes", [])) if isinstance(s, dict)]
        broken.append({"obligation": "C10.check_shared (shared write outside the known findings)", "detail": "unlisted sites: %s" % unlisted[:10],
                       "sites": sites[:10]})
    verif.report_broken(rep, broken, found)
    rep.assumptions = ["schedules: the theorem covers all interleavings of the abstract action programs; the race-detector runs sample real schedules"]


def replay(rec):
    print(rec.get("race_report", "") or rec)
    return 0
