"""Shared by C16 (cancellation) and C06 (statement independence): script generation and the cancel harness."""
import os
import verif

CORPUS = os.path.join(verif.ROOT, "corpus", "statements.txt")


def run_cancel(rep, count, mode_args, with_invalid):
    """Generates `count` scripts and runs /verif/build/cancel on them. Returns dict."""
    cases = os.path.join(verif.BUILD, "script_cases_%s.txt" % rep.pid)
    gen = ["python3", os.path.join(verif.ROOT, "checks", "gen_script_cases.py"), str(rep.seed), str(count), CORPUS]
    if with_invalid:
        gen.append("--with-invalid")
    rc, out = verif.sh(" ".join(gen) + " > " + cases, shell=True, timeout=600)
    if rc != 0:
        raise RuntimeError("gen_script_cases failed: " + out[-500:])
    if not mode_args:
        # C16 only: statement boundaries that are not semicolons (the parser accepts `SELECT 1 SELECT 2 DROP TABLE a`), and
        # PARALLEL WITH chains (one top-level statement built from several statement parses)
        import random
        rnd = random.Random(rep.seed)
        stmts = [l.strip() for l in open(CORPUS, encoding="utf-8", errors="surrogateescape") if 8 < len(l) < 200 and l[:1].isalpha()]
        extra = []
        for i in range(max(40, count // 8)):
            k = rnd.choice([2, 3, 4, 5, 6])
            parts = [rnd.choice(stmts) for _ in range(k)]
            sep = rnd.choice([" ", "\n", "\n\n", " /* c */ ", "\t"])
            extra.append(sep.join(parts))
        for i in range(max(20, count // 20)):
            k = rnd.choice([2, 3, 4])
            chain = " PARALLEL WITH ".join(rnd.choice(["SELECT %d" % j, "DROP TABLE t%d" % j, "SELECT %d FROM t" % j]) for j in range(k))
            tail = rnd.choice(["", "; SELECT 9", "; " + rnd.choice(stmts)])
            head = rnd.choice(["", "SELECT 0; "])
            extra.append(head + chain + tail)
        with open(cases, "a") as f:
            for e in extra:
                f.write(e.encode("utf-8", "surrogateescape").hex() + "\n")
    if mode_args == ["-semis"]:
        # C06: a few very long scripts (hundreds of KiB): a statement must be parsed the same at any distance from the start
        import random
        rnd = random.Random(rep.seed + 1)
        stmts = [l.strip() for l in open(CORPUS, encoding="utf-8", errors="surrogateescape") if 30 < len(l) < 160 and l[:6].lower() == "select" and ";" not in l and "--" not in l]
        with open(cases, "a") as f:
            for n in ([5000] if count <= 5000 else [5000, 9000, 12000]):
                parts = [rnd.choice(stmts) for _ in range(n)]
                script = ";\n".join(parts)
                f.write("\t".join(x.encode("utf-8", "surrogateescape").hex() for x in [script] + parts) + "\n")
    outp = cases + ".out"
    rc, err = verif.parallel_map_files([os.path.join(verif.BUILD, "cancel")] + mode_args, cases, outp, timeout=3000)
    res = {"scripts": 0, "runs": 0, "violations": [], "rc": rc, "err": err[-500:], "samples": [], "multi": 0}
    with open(outp) as f:
        for i, line in enumerate(f):
            parts = line.rstrip("\n").split("\t")
            if len(parts) < 5:
                continue
            res["scripts"] += 1
            try:
                nb = int(parts[1]); runs = int(parts[2]); viol = int(parts[3])
            except ValueError:
                continue
            res["runs"] += runs
            if nb >= 2:
                res["multi"] += 1
            if viol:
                res["violations"].append((parts[0], parts[4]))
            if len(res["samples"]) < 5 and i % 97 == 3:
                try:
                    res["samples"].append({"script": bytes.fromhex(parts[0]).decode("utf-8", "replace")[:160], "statements": nb, "runs": runs})
                except ValueError:
                    pass
    return res
