"""Shared by C16 (cancellation) and C06 (statement independence): script generation and the cancel harness."""
import os
import verif

CORPUS = os.path.join(verif.ROOT, "corpus", "statements.txt")


def run_cancel(rep, count, mode_args, with_invalid):
    """Generates `count` scripts and runs /verif/build/cancel on them. Returns dict."""
    cases = os.path.join(verif.BUILD, "script_cases_%s.txt" % rep.pid)
    gen = ["python3", os.path.join(verif.ROOT, "checks", "gen_script_cases.py"), str(rep.seed), str(count), CORPUS]
    if with_invalid:
        gen.append("--with-invalid")
    rc, out = verif.sh(" ".join(gen) + " > " + cases, shell=True, timeout=600)
    if rc != 0:
        raise RuntimeError("gen_script_cases failed: " + out[-500:])
    outp = cases + ".out"
    rc, err = verif.parallel_map_files([os.path.join(verif.BUILD, "cancel")] + mode_args, cases, outp, timeout=3000)
    res = {"scripts": 0, "runs": 0, "violations": [], "rc": rc, "err": err[-500:], "samples": [], "multi": 0}
    with open(outp) as f:
        for i, line in enumerate(f):
            parts = line.rstrip("\n").split("\t")
            if len(parts) < 5:
                continue
            res["scripts"] += 1
            try:
                nb = int(parts[1]); runs = int(parts[2]); viol = int(parts[3])
            except ValueError:
                continue
            res["runs"] += runs
            if nb >= 2:
                res["multi"] += 1
            if viol:
                res["violations"].append((parts[0], parts[4]))
            if len(res["samples"]) < 5 and i % 97 == 3:
                try:
                    res["samples"].append({"script": bytes.fromhex(parts[0]).decode("utf-8", "replace")[:160], "statements": nb, "runs": runs})
                except ValueError:
                    pass
    return res
