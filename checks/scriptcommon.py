"""Shared by C16 (cancellation) and C06 (statement independence): script generation and the cancel harness."""
import os
import verif

CORPUS = os.path.join(verif.ROOT, "corpus", "statements.txt")


def run_cancel(rep, count, mode_args, with_invalid):
    """Generates `count` scripts and runs /verif/build/cancel on them. Returns dict."""
    cases = os.path.join(verif.BUILD, "script_cases_%s.txt" % rep.pid)
    gen = ["python3", os.path.join(verif.ROOT, "checks", "gen_script_cases.py"), str(rep.seed), str(count), CORPUS]
    if with_invalid:
        gen.append("--with-invalid")
    rc, out = verif.sh(" ".join(gen) + " > " + cases, shell=True, timeout=600)
    if rc != 0:
        raise RuntimeError("gen_script_cases failed: " + out[-500:])
    if not mode_args:
        # C16 only: statement boundaries that are not semicolons (the parser accepts `SELECT 1 SELECT 2 DROP TABLE a`), and
        # PARALLEL WITH chains (one top-level statement built from several statement parses)
        import random
        rnd = random.Random(rep.seed)
        stmts = [l.strip() for l in open(CORPUS, encoding="utf-8", errors="surrogateescape") if 8 < len(l) < 200 and l[:1].isalpha()]
        extra = []
        for i in range(max(40, count // 8)):
            k = rnd.choice([2, 3, 4, 5, 6])
            parts = [rnd.choice(stmts) for _ in range(k)]
            sep = rnd.choice([" ", "\n", "\n\n", " /* c */ ", "\t"])
            extra.append(sep.join(parts))
        for i in range(max(20, count // 20)):
            k = rnd.choice([2, 3, 4])
            chain = " PARALLEL WITH ".join(rnd.choice(["SELECT %d" % j, "DROP TABLE t%d" % j, "SELECT %d FROM t" % j]) for j in range(k))
            tail = rnd.choice(["", "; SELECT 9", "; " + rnd.choice(stmts)])
            head = rnd.choice(["", "SELECT 0; "])
            extra.append(head + chain + tail)
        # very long single statements between short ones (long IN / VALUES / select lists, UNION chains, nested calls):
        # a cancellation that lands inside them must not produce a shortened statement
        big = ["SELECT x IN (" + ", ".join(str(i) for i in range(3000)) + ")", "SELECT " + ", ".join("c%d" % i for i in range(2500)) + " FROM t",
               " UNION ALL ".join("SELECT %d" % i for i in range(400)), "INSERT INTO t VALUES " + ", ".join("(%d, 'a')" % i for i in range(1500)),
               "SELECT " + " + ".join(str(i) for i in range(2000)), "SELECT " + "f(" * 300 + "1" + ")" * 300,
               "SELECT [" + ", ".join("'s%d'" % i for i in range(2000)) + "]", "CREATE TABLE t (" + ", ".join("c%d UInt8" % i for i in range(1200)) + ") ENGINE = Memory"]
        for b in big:
            extra.append("SELECT 1; " + b + "; SELECT 2")
        with open(cases, "a") as f:
            for e in extra:
                f.write(e.encode("utf-8", "surrogateescape").hex() + "\n")
    if mode_args == ["-semis"]:
        # C06: a few very long scripts (hundreds of KiB): a statement must be parsed the same at any distance from the start
        import random
        rnd = random.Random(rep.seed + 1)
        stmts = [l.strip() for l in open(CORPUS, encoding="utf-8", errors="surrogateescape") if 30 < len(l) < 160 and l[:6].lower() == "select" and ";" not in l and "--" not in l and "$" not in l]
        # (no '$': `SELECT 1 AS $alias$name$` alone has an identifier with dollar signs, but two copies of it within the lexer's
        # 8 KiB look-ahead pair up as ONE dollar-quoted string `$alias$ ... $alias$` across the statements between them -- the
        # joined text is then not the sequence of the same statements, exactly as with INSERT ... FORMAT payloads)
        with open(cases, "a") as f:
            # (sizes chosen to pass 1 MiB in the quick tier and 4 MiB / 16 MiB in the thorough one: a size limit on the input
            # must not drop the tail of a script silently)
            for n in ([5000, 14000] if count <= 5000 else [5000, 14000, 60000, 200000]):
                parts = [rnd.choice(stmts) for _ in range(n)]
                script = ";\n".join(parts)
                f.write("\t".join(x.encode("utf-8", "surrogateescape").hex() for x in [script] + parts) + "\n")
    if mode_args == ["-semis"]:
        # C06: statements of the verification grammar (with --gaps: also valid ClickHouse forms the current parser may reject;
        # only statements that parse on their own WITHOUT error are used) before and after another statement, and in pairs:
        # end of input and ';' must be the same statement boundary for every statement kind
        import random
        import re
        import searchcommon
        rnd = random.Random(rep.seed + 2)
        ng = 4000 if count <= 5000 else 60000
        gcmd = ["python3", os.path.join(verif.ROOT, "checks", "gen_sql_grammar.py"), str(rep.seed), str(ng)]
        # --hex: one statement per line whatever bytes it contains (text mode + splitlines() cut statements at a raw CR, TAB-LF or
        # other line break inside a string literal, and the unterminated first half was then used as a "statement")
        rcg, outg = verif.sh(gcmd + ["--gaps", "--hex"], timeout=1200)
        if rcg != 0:
            rcg, outg = verif.sh(gcmd + ["--hex"], timeout=1200)
        cand = []
        for hl in outg.split("\n"):
            hl = hl.strip()
            if not hl:
                continue
            try:
                l = bytes.fromhex(hl).decode("utf-8", "surrogateescape")
            except ValueError:
                continue
            if l.strip() and ";" not in l and not re.search(r"(?is)\binsert\b.*\b(format|values)\b", l):
                cand.append(l)
        # ... and every statement of the corpus : each statement KIND of the
        # corpus is followed by another statement at least once, whatever the random scripts above happened to pick
        corp = [l.rstrip("\n") for l in open(CORPUS, encoding="utf-8", errors="surrogateescape")]
        step = 1
        cand += [l for l in corp[rep.seed % step::step] if l.strip() and ";" not in l and "--" not in l and "#" not in l and "/*" not in l
                 and not re.search(r"(?i)\binsert\b.*\b(format|values)\b", l)]
        gfile = os.path.join(verif.BUILD, "script_grammar_%s.txt" % rep.pid)
        with open(gfile, "w") as f:
            for l in cand:
                f.write(l.encode("utf-8", "surrogateescape").hex() + "\n")
        verif.build_go(("psearch",))
        verif.parallel_map_files([searchcommon.PSEARCH, "run"], gfile, gfile + ".out", timeout=3000)
        okst = []
        with open(gfile) as fc, open(gfile + ".out") as fo:
            for c, o in zip(fc, fo):
                if o.startswith("ok\t"):
                    okst.append(c.strip())
        one = "SELECT 1".encode().hex()
        sep = ["\n; ", "\n;", "\n;\n", "\n ;\n-- c\n"]     # a statement may end in a line comment: the separator starts on a new line
        with open(cases, "a") as f:
            for i, h in enumerate(okst):
                sp = sep[i % len(sep)].encode().hex()
                f.write(h + sp + one + "\t" + h + "\t" + one + "\n")
                f.write(one + sp + h + "\t" + one + "\t" + h + "\n")
                if i % 3 == 0 and len(okst) > 1:
                    h2 = okst[rnd.randrange(len(okst))]
                    f.write(h + sp + h2 + "\t" + h + "\t" + h2 + "\n")
        # resynchronisation after an error: a statement that FAILS (cut off before its end, or not a statement at all) followed
        # by ';' must leave nothing behind either -- the statements after it come out as they do alone.  The 48 broken prefixes
        # were vetted on the unchanged tree (each ends where the statement loop resumes at the ';'; `SELECT {p:UInt8`, whose
        # unterminated parameter swallows the ';' lexically, is not among them)
        broken_prefixes = ["SELECT (1", "SELECT 1 +", "SELEC 1", "SELECT x BETWEEN 1", "INSERT INTO", "SELECT a FROM", "FROM t", "SELECT a, b FROM t WHERE",
                           "SELECT [1, 2", "SELECT 'a' ||", "CREATE TABLE t (a UInt8", "ALTER TABLE t ADD COLUMN", "SELECT f(1, 2", "SELECT CASE WHEN 1 THEN 2",
                           "SELECT 1 IN (1, 2", "foo bar", "SELECT * FROM t ORDER BY", "SELECT x ? 1", "SELECT CAST(1 AS", "DROP TABLE", "SELECT 1 LIMIT",
                           "WITH x AS (SELECT 1", "SELECT a.b.", "SELECT 1 1", "SELECT DISTINCT ON", "SELECT 1 UNION", "EXPLAIN AST", "SELECT -", "SELECT NOT",
                           "SELECT (SELECT (SELECT 1", ")", "]", "SELECT 1)", "1", "SELECT 1 FORMAT", "SELECT 1 SETTINGS", "SELECT 1 INTO OUTFILE", "GRANT", "SET",
                           "USE", "SELECT t.", "SELECT 1 AS", "SELECT * EXCEPT", "SELECT x IS", "SELECT x NOT", "SELECT x LIKE", "SELECT x::", "SELECT INTERVAL 1"]
        after = ["SELECT 1", "SELECT a OR b AND c", "SELECT 1 AS limit, t.order FROM t AS format", "SELECT a, b FROM t WHERE a = 1 ORDER BY b LIMIT 3",
                 "SELECT (1, 2), [3]", "(SELECT 1)", "SELECT x BETWEEN 1 AND 2", "INSERT INTO t SELECT 1", "CREATE TABLE t (a UInt8) ENGINE = Memory",
                 "SELECT count(*) FROM (SELECT 1 UNION ALL SELECT 2)", "DROP TABLE t", "WITH 1 AS x SELECT x", "SELECT -5 BETWEEN -7 AND 3", "SELECT a[1], t.1, x.y.z"]
        after_h = [a.encode().hex() for a in after] + okst[::max(1, len(okst) // (150 if count <= 5000 else 3000))]
        n_after = 0
        with open(cases, "a") as f:
            for pi, bp in enumerate(broken_prefixes):
                bh = bp.encode().hex()
                for ai, ah in enumerate(after_h):
                    sp = sep[(pi + ai) % len(sep)].encode().hex()
                    f.write(bh + sp + ah + "\t" + bh + "\t" + ah + "\n")
                    n_after += 1
                # two broken statements in a row, then the valid ones
                bh2 = broken_prefixes[(pi * 7 + 3) % len(broken_prefixes)].encode().hex()
                for ah in after_h[:14]:
                    f.write(bh + "0a3b" + bh2 + "0a3b20" + ah + "\t" + bh + "\t" + bh2 + "\t" + ah + "\n")
                    n_after += 1
        rep.coverage["grammar_boundary_probes"] = {"grammar_statements": len(cand), "accepted_alone": len(okst), "after_error_scripts": n_after}
    outp = cases + ".out"
    rc, err = verif.parallel_map_files([os.path.join(verif.BUILD, "cancel")] + mode_args, cases, outp, timeout=3000)
    res = {"scripts": 0, "runs": 0, "violations": [], "rc": rc, "err": err[-500:], "samples": [], "multi": 0}
    with open(outp) as f:
        for i, line in enumerate(f):
            parts = line.rstrip("\n").split("\t")
            if len(parts) < 5:
                continue
            res["scripts"] += 1
            try:
                nb = int(parts[1]); runs = int(parts[2]); viol = int(parts[3])
            except ValueError:
                continue
            res["runs"] += runs
            if nb >= 2:
                res["multi"] += 1
            if viol:
                res["violations"].append((parts[0], parts[4]))
            if len(res["samples"]) < 5 and i % 97 == 3:
                try:
                    res["samples"].append({"script": bytes.fromhex(parts[0]).decode("utf-8", "replace")[:160], "statements": nb, "runs": runs})
                except ValueError:
                    pass
    return res
