"""C04 — EXPLAIN output is a well-formed ClickHouse-style tree.
Theorems: coq/Properties/C04_tree.v — a verified decision procedure for "the text is one rooted tree in EXPLAIN AST
layout, every (children N) equals the number of nodes beneath, no Go formatting artefact, every first word is a node kind
ClickHouse prints" (sound and complete w.r.t. rendering of rose trees); coq/Properties/C04_select.v — count = emitted
children for the SelectQuery / SelectWithUnionQuery / intersect printers (model of internal/explain/select.go with the
count code and the emit code kept separate as in Go), for every field combination and every union tail;
coq/Properties/C04_ddl.v — the same for the DDL printers Column, Index, explainCreateQuery (main tally, "Columns definition",
"Storage definition", CREATE FUNCTION / USER / DICTIONARY variants), explainAlterQuery and countAlterCommandChildren vs
explainAlterCommand (model Ddl/DdlExplainModel.v): equivalences header = emitted children <-> stated field condition, with
refutation lemmas where the Go code does not have the property;
coq/Properties/C04_stmt.v — the same for the remaining statement printers (INSERT, DROP, UNDROP, RENAME, EXCHANGE, TRUNCATE, OPTIMIZE,
DELETE, CHECK, USE, DESCRIBE, EXISTS, SHOW, SYSTEM, EXPLAIN, DETACH, ATTACH, BACKUP, RESTORE, KILL, CREATE INDEX, UPDATE, PARALLEL WITH,
the statements Node prints inline), dictionary.go and tables.go (model Stmt/StmtExplainModel.v).
Ties: Go selectcount / ddlcount / stmtcount vs extracted models on exhaustive field combinations (built directly as ast values); the EXTRACTED
verified checker run on the real EXPLAIN text of every corpus statement, of mutants accepted by the parser, and of
generated statements; node kinds regenerated from the ClickHouse goldens."""
import os
import searchcommon
import verif

TRUSTED = [
    "Coq 8.16.1 kernel and vm_compute; Print Assumptions of every theorem: closed under the global context",
    "Select/SelectExplainModel.v: hand transcription of countSelectQueryChildren / explainSelectQuery (+ inherited WITH), countSelectUnionChildrenTail / explainUnionTail and both union printers, explainSelectIntersectExceptQuery, tied to the code by the selectcount correspondence (header count, direct children and md5 of the text)",
    "Ddl/DdlExplainModel.v: hand transcription of Column, Index, explainCreateQuery (all variants and sub-tallies), explainAlterQuery, countAlterCommandChildren / explainAlterCommand, explainProjection, explainStatisticsCommand, tied to the code by the ddlcount correspondence (header count, direct children, md5 of the text, whole-subtree tree check); callees (Node on expressions / types / statements, explainFunctionCall, dictionary attribute / definition printers) are assumed to print one rooted tree",
    "Stmt/StmtExplainModel.v: hand transcription of the statement printers of statements.go outside CREATE / ALTER (explainInsertQuery ... explainParallelWithQuery), of the statements Node prints inline in explain.go, of dictionary.go and of tables.go, tied to the code by the stmtcount correspondence (header count, direct children, md5 of the text, whole-subtree tree check; exhaustive over the field domains of checks/gen_stmt_cases.py); the unions under INSERT / EXPLAIN are the SELECT model's; other callees (Node on expressions / types / table identifiers / nested statements, explainFunctionCall(WithAlias), formatSampleRatio's text) are assumed to print one rooted tree / one line; explainTablesInSelectQuery is modelled and proved but cannot be reached through parser.Explain (no correspondence for it)",
    "ExprEx/ExprExplainModel.v: hand transcription of the expression printers of expressions.go and functions.go and of the expression cases of Node (every printer, its ...WithAlias twin and the copies inside explainAliasedExpr / explainWithElement separately; the helper predicates containsOnly..., the IN-list classification loop with its break, handleSpecialFunction), tied to the code by the exprcount correspondence on ASTs built directly from terms (header count, direct children, md5 of the text with every 'Literal <text>' line rewritten to 'Literal _', whole-subtree tree check); opaque and trusted: label texts (format.go: FormatLiteral, NormalizeFunctionName, OperatorToFunction, normalizeIntervalUnit, escaping of names and aliases), what parseKQL / parseMultiIntervalString / ParseFloat return for a string (an input of the model; the driver's table for the nine strings of the harness), statements and data types beneath expressions (one abstract tree each), typed-nil pointers; explainWindowSpec is modelled and proved but unreachable (windowSpecHasContent returns false), so it has no correspondence",
    "Expr/LiteralModel.v and Expr/TypeModel.v (the models of C09 / C18: escapeStringLiteral, FormatLiteral, FormatFloat, formatArrayLiteral / formatTupleLiteral / formatExprAsString, explainLiteral; parseDataType, FormatDataType, escapeStringForTypeParam, needsBacktickQuoting, the type line of explainCastExprWithAlias): C04_lines proves over them that a literal line and a type line contain no line break (types: exactly when no raw name does); tied to format.go by the model-vs-code halves of the C09 / C18 correspondence runs, repeated here",
    "printers outside the models (data types beneath expressions / columns: explainDataType / NameTypePair / ObjectTypeArgument; names and aliases, which are copied unescaped): only the verified oracle applied to real output (search, not proof) — the C04 claim is partial there",
    "translator/cmd/genkinds: node-kind vocabulary = first words of node lines of all explain*.txt goldens; extraction (ExtrOcamlBasic only) + OCaml glue",
]


def run(rep):
    st = verif.proof_stage(rep, "C04", needs_translators=["gentables", "genkinds"])
    broken = list(st["broken"])
    broken += verif.build_topic(go_pkgs=("psearch", "selectcount", "ddlcount", "stmtcount", "exprcount", "explaindump"), drivers=(("tree", "tree_ex"), ("selectcount", "selectcount_ex"), ("ddlcount", "ddlcount_ex"), ("stmtcount", "stmtcount_ex"), ("exprcount", "exprcount_ex")))
    found = False
    if not any(b["obligation"].startswith("build:") for b in broken):
        quick = rep.tier == "quick"
        # (1) model vs code on field combinations
        cases = os.path.join(verif.BUILD, "select_cases.txt")
        rc, out = verif.sh("python3 %s %d %d %s > %s" % (os.path.join(verif.ROOT, "checks", "gen_select_cases.py"), rep.seed, 300 if quick else 4000,
                                                        "--no-exhaustive" if quick else "", cases), shell=True, timeout=900)
        g, m = cases + ".go", cases + ".ml"
        verif.parallel_map_files([os.path.join(verif.BUILD, "selectcount")], cases, g, timeout=3000)
        verif.parallel_map_files([os.path.join(verif.BUILD, "selectcount_driver")], cases, m, timeout=3000, unlimited_stack=True)
        n_sel = mism = bad_hdr = 0
        first_diff = []

        def absent(ch):
            return ch in "0e"

        def inv_limit_violated(spec):
            # positions (0-based) 17 LimitBy, 18 LimitByLimit, 19 LimitByOffset, 20 Offset of the 25-char select spec
            if len(spec) < 21:
                return False
            lb, lbl, lbo, off = spec[17], spec[18], spec[19], spec[20]
            return (absent(lbl) and not absent(lbo)) or (absent(lbl) and not absent(lb) and not absent(off))

        with open(cases) as fc, open(g) as fg, open(m) as fm:
            for c, o, mo in verif.itertools_zip3(fc, fg, fm):
                n_sel += 1
                p = o.split("\t")
                flag = p[-1] if p else ""
                if flag == "M" and o != mo:
                    mism += 1
                    if len(first_diff) < 3:
                        first_diff.append((c[:80], o[:80], mo[:80]))
                if len(p) >= 2 and p[0].isdigit() and p[1].isdigit() and p[0] != p[1]:
                    kind = c[:1]
                    spec = c.split()[-1] if c.split() else ""
                    if kind in "SWV" and inv_limit_violated(spec):
                        continue      # the parser never builds LimitByOffset/Offset without LimitByLimit (invariant inv_limit of C04_select)
                    bad_hdr += 1
                    if bad_hdr <= 5:
                        found = True
                        rep.violation("input", "(children N) differs from the number of printed children for AST spec " + c.strip()[:100],
                                      {"ast_spec": c.strip(), "header": p[0], "direct_children": p[1]}, input_hex=c.strip().encode().hex())
                elif p and p[0] in ("PANIC", "NOSUBTREE"):
                    bad_hdr += 1
                    if bad_hdr <= 5:
                        found = True
                        rep.violation("input", "printer %s on AST spec %s" % (p[0], c.strip()[:100]), {"ast_spec": c.strip()}, input_hex=c.strip().encode().hex())
        if mism or rc != 0:
            broken.append({"obligation": "correspondence:internal/explain/select.go~SelectExplainModel", "detail": "%d of %d cases differ: %s %s" % (mism, n_sel, first_diff, out[-300:])})
        # (1b) DDL printers (Column, Index, CreateQuery, AlterQuery, AlterCommand): model vs code on field combinations
        ddl = ddl_correspondence(rep, broken, quick)
        found = found or ddl.pop("found")
        # (1c) the remaining statement printers, dictionary.go, tables.go: model vs code on field combinations
        stmt = stmt_correspondence(rep, broken, quick)
        found = found or stmt.pop("found")
        # (1d) the expression printers (expressions.go, functions.go, the expression cases of Node): model vs code on ASTs built directly
        expr = expr_correspondence(rep, broken, quick)
        found = found or expr.pop("found")
        # (1e) C04_lines (the text INSIDE a line cannot contain a line break) is stated over Expr/LiteralModel.v and Expr/TypeModel.v:
        # tie those two models to the CURRENT format.go (model-vs-code halves of the C09 / C18 correspondence runs)
        lines_prem = lines_premises(rep, broken, quick)
        # (2) verified checker on the real EXPLAIN output of VALID statements (the property quantifies over syntactically valid
        # statements: corpus statements; mutants accepted by the permissive parser are not in its scope and belong to C03)
        tin = os.path.join(verif.BUILD, "tree_in.txt")
        n_txt = 0
        samples = []
        if quick:
            rc3, out3 = verif.sh("%s gen -mode corpus -n 0 | %s" % (searchcommon.PSEARCH, os.path.join(verif.BUILD, "explaindump")), shell=True, timeout=1200)
        else:
            rc3, out3 = verif.sh([os.path.join(verif.BUILD, "explaindump"), "-corpus", os.path.join(verif.REPO, "parser", "testdata")], timeout=3000)
        ngram = 20000 if quick else 400000
        rc4, out4 = verif.sh("python3 %s %d %d --hex | %s -v" % (os.path.join(verif.ROOT, "checks", "gen_sql_grammar.py"), rep.seed, ngram, os.path.join(verif.BUILD, "explaindump")),
                             shell=True, timeout=3000)
        gram_lines = out4.splitlines()
        # a second stream with --gaps (valid ClickHouse forms the current parser may reject or split in two): only statements
        # that the parser accepts as exactly ONE statement are used, so a parser change that starts accepting such a form is
        # exercised by the oracle and by the parser-side invariant at once
        rc5, out5 = verif.sh("python3 %s %d %d --gaps --hex | %s -v" % (os.path.join(verif.ROOT, "checks", "gen_sql_grammar.py"), rep.seed + 7, ngram // 2, os.path.join(verif.BUILD, "explaindump")),
                             shell=True, timeout=3000)
        per_sql = {}
        for l in out5.splitlines():
            per_sql.setdefault(l.split("\t")[0], []).append(l)
        gap_lines = []
        for ls in per_sql.values():
            main = [l for l in ls if not l.split("\t")[-1].startswith("INV:")]
            if len(main) == 1 and not main[0].endswith("\tERR"):
                gap_lines += ls
        gram_lines += gap_lines
        gram_err = sum(1 for l in gram_lines if l.endswith("\tERR") or l.endswith("\tPARSEPANIC"))
        if rc4 != 0:
            broken.append({"obligation": "harness:gen_sql_grammar|explaindump", "detail": out4[-500:]})
        with open(tin, "w") as ft:
            n_special = 0
            for line in out3.splitlines() + gram_lines:
                p = line.split("\t")
                if len(p) >= 2 and (p[-1] in ("PANIC", "PARSEPANIC") or p[-1].startswith("INV:")):
                    # a valid statement on which Explain / Parse panics, or for which the parser built a SelectQuery outside
                    # the condition under which count = emitted children is proved (C04_select: inv_limit)
                    n_special += 1
                    if n_special <= 5:
                        found = True
                        try:
                            sql = bytes.fromhex(p[0]).decode("utf-8", "replace")
                        except ValueError:
                            sql = p[0]
                        what = {"PANIC": "Explain panics on a valid statement", "PARSEPANIC": "Parse panics on a valid statement"}.get(p[-1], "the parser built a tree outside the proved condition: " + p[-1][4:])
                        rep.violation("input", "%s: %s" % (what, sql[:150]), {"input_hex": p[0], "verdict": p[-1]}, input_hex=p[0])
                    continue
                if len(p) >= 2 and p[-1] not in ("ERR", "PANIC", "PARSEPANIC"):
                    ft.write(p[0] + "\t" + p[-1] + "\n")
                    n_txt += 1
                    if len(samples) < 5 and n_txt % 1999 == 7:
                        try:
                            samples.append(bytes.fromhex(p[0]).decode("utf-8", "replace")[:140])
                        except ValueError:
                            pass
        res = {"samples": samples, "counts": {"explained": n_txt, "grammar_statements": len(gram_lines), "grammar_rejected_by_parser": gram_err, "gap_statements_accepted_as_one": len(gap_lines)}}
        tout = tin + ".out"
        rc2, e2 = verif.parallel_map_files([os.path.join(verif.BUILD, "tree_driver")], tin, tout, timeout=6000, unlimited_stack=True)
        verdicts = {}
        texts = {}
        with open(tin) as f:
            for line in f:
                q = line.rstrip("\n").split("\t")
                if len(q) >= 2 and q[0] not in texts:
                    try:
                        texts[q[0]] = bytes.fromhex(q[-1]).decode("utf-8", "replace")[:200]
                    except ValueError:
                        pass
        with open(tout) as f:
            for line in f:
                p = line.rstrip("\n").split("\t")
                v = p[-1]
                verdicts[v] = verdicts.get(v, 0) + 1
                if v.startswith("bad"):
                    sql = bytes.fromhex(p[0] if p[0] != "-" else "").decode("utf-8", "replace")
                    key = None
                    if v == "bad:kind" and sql.strip().upper().startswith("SHOW") and texts.get(p[0], "").split("\n")[0].strip() in ("Show", "ShowProcesslist"):
                        key = "show-kinds"
                    if key is None and verdicts[v] > 8:
                        continue
                    found = found or (rep.is_known(key=key) is None)
                    rep.violation("input", "EXPLAIN text rejected by the verified checker (%s): %s" % (v, sql[:150]), {"input_hex": p[0], "verdict": v}, input_hex=p[0], key=key)
        if rc2 != 0:
            broken.append({"obligation": "driver:tree", "detail": e2[-500:]})
        rep.coverage.update({
            "evaluations": n_txt + n_sel + ddl["ddl_model_cases"] + stmt["stmt_model_cases"] + expr["expr_model_cases"], "distinct_nontrivial": n_txt,
            "rule": "EXPLAIN text of every corpus statement (quick: the 9.7k-statement sample in /verif/corpus; thorough: every statement of every enabled parser/testdata/*/query.sql) and of 20k (quick) / 400k (thorough) statements of the verification grammar (checks/gen_sql_grammar.py: SELECT with every clause subset, set operations, INSERT, CREATE, ALTER, utility statements, :: literals, nesting to 300 levels) run through the extracted verified checker check_text with the node kinds of the goldens; "
                    "plus Go-vs-model comparison of header count / printed children / text hash on SelectQuery, union, intersect, INSERT, EXPLAIN and CREATE ASTs built directly (exhaustive 2^16 / 2^13 field combinations in the thorough tier); "
                    "plus the same Go-vs-model comparison (and a whole-subtree tree check on both sides) on ColumnDeclaration, IndexDefinition, AlterCommand (every command type x every combination of the fields its tally or emission reads), AlterQuery and CreateQuery ASTs built directly (checks/gen_ddl_cases.py; counts under coverage.ddl); "
                    "plus the same comparison on InsertQuery, DropQuery, UndropQuery, RenameQuery, ExchangeQuery, TruncateQuery, OptimizeQuery, DeleteQuery, CheckQuery, UseQuery, DescribeQuery, ExistsQuery, ShowQuery (every ShowType), SystemQuery, ExplainQuery (top level and nested), DetachQuery, AttachQuery, BackupQuery, RestoreQuery, KillQuery, CreateIndexQuery, Assignment, UpdateQuery, ParallelWithQuery, the statements Node prints inline, dictionary attribute / definition and TablesInSelectQueryElement / TableExpression / TableJoin ASTs built directly (checks/gen_stmt_cases.py: the full product of the field domains in the thorough tier; counts under coverage.stmt); "
                    "plus the same comparison on EXPRESSION ASTs built directly as terms (checks/gen_exprcount_cases.py: every expression node kind, its aliased and WithElement variants, the special-cased function names, literal / IN lists of length 0..3 over one representative of every class the printers' helper predicates distinguish; counts under coverage.expr); distinct_nontrivial = texts checked",
            "samples": res["samples"], "verdicts": verdicts, "select_model_cases": n_sel, "select_model_mismatches": mism, "status_counts": res["counts"],
            "ddl": ddl,
            "stmt": stmt,
            "expr": expr,
            "lines_premises": lines_prem,
            "trusted_base": TRUSTED,
        })
    verif.report_broken(rep, broken, found)
    rep.assumptions = ["a printed '(children 0)' on a node without children satisfies the property (the suffix equals the number of nodes beneath)",
                       "identifiers without line breaks (as in the property)"]


# ----------------------------------------------------------------------------------------------
# text inside a line: premises of Properties/C04_lines.v
# ----------------------------------------------------------------------------------------------

def lines_premises(rep, broken, quick):
    import re
    b = verif.build_topic(go_pkgs=("litdump", "typedump"), drivers=(("literal", "literal_ex"), ("types", "types_ex")))
    if b:
        broken += b
        return {"built": False}
    n = 1500 if quick else 40000
    rc, out = verif.sh(["python3", os.path.join(verif.ROOT, "checks", "gen_literal_cases.py"), str(rep.seed), str(n), "--run", "--no-exhaustive"], timeout=3000)
    lit_bad = [l for l in out.splitlines() if "CODE!=MODEL" in l]
    m = re.search(r"cases=(\d+)", out)
    lit_n = int(m.group(1)) if m else 0
    if lit_bad or not lit_n:
        broken.append({"obligation": "correspondence:FormatLiteral~LiteralModel (premise of C04_lines)", "detail": ("\n".join(lit_bad[:3]) or out[-800:])[:2500]})
    rc2, out2 = verif.sh(["python3", os.path.join(verif.ROOT, "checks", "gen_type_cases.py"), str(rep.seed), str(n), "--run", "--max-report", "3", "--extras", "quick"], timeout=3000)
    dis = re.search(r"disagreements: tokens (\d+), model-vs-code (\d+), CAST-vs-:: (\d+), spec-vs-code on wf trees (\d+), classifier (\d+)", out2)
    nums = [int(x) for x in dis.groups()] if dis else None
    if nums is None or nums[1] or nums[4]:
        model = [l for l in out2.splitlines() if l.startswith("MODEL")]
        broken.append({"obligation": "correspondence:FormatDataType~TypeModel (premise of C04_lines)", "detail": ("\n".join(model[:3]) or out2[-800:])[:2500]})
    tc = re.search(r"tree cases (\d+)", out2)
    return {"built": True, "literal_cases": lit_n, "literal_model_vs_code_differences": len(lit_bad),
            "type_cases": int(tc.group(1)) if tc else 0, "type_model_vs_code_differences": nums[1] if nums else None}


# ----------------------------------------------------------------------------------------------
# DDL printers: correspondence of /verif/build/ddlcount (real printers) with /verif/build/ddlcount_driver (extracted model)
# ----------------------------------------------------------------------------------------------

_DDL_IDX = None
DDL_STAT5 = ("ADD_STATISTICS", "MODIFY_STATISTICS", "DROP_STATISTICS", "CLEAR_STATISTICS", "MATERIALIZE_STATISTICS")

# SQL texts whose parse is the AST of a refutation witness of Properties/C04_ddl.v: inputs accepted by the permissive parser
# only (no valid ClickHouse statement), so outside C04's quantifier; the verified checker is expected to reject their EXPLAIN
DDL_SQL_WITNESSES = [
    ("alter-statistics-no-columns", "incomplete", "ALTER TABLE t ADD STATISTICS"),
    ("alter-modify-ttl-nil-expression", "incomplete", "ALTER TABLE t MODIFY TTL"),
    ("create-function-no-body", "incomplete", "CREATE FUNCTION f AS"),
    ("create-materialized-window-view", "incomplete", "CREATE MATERIALIZED WINDOW VIEW v AS SELECT 1"),
]


def ddl_outside(case):
    """Name of the condition of Properties/C04_ddl.v (inv_alter_count / inv_create) that the case violates,
    None when the theorems C04_alter_is_tree / C04_create_is_tree / C04_column_is_tree / C04_index_is_tree apply to it."""
    global _DDL_IDX
    if _DDL_IDX is None:
        import gen_ddl_cases as g
        _DDL_IDX = ({nm: i for i, nm in enumerate(g.ALT_NAMES)}, {nm: i for i, nm in enumerate(g.CRE_NAMES)})
    ai, ci = _DDL_IDX
    kind, _, spec = case.partition("\t")
    if kind == "ALT":
        parts = spec.split(":")
        ty, f = parts[0], parts[1]
        if ty not in DDL_STAT5 and ty not in ("ADD_COLUMN", "MODIFY_TTL"):
            return None

        def a(name):
            return int(f[ai[name]])
        if ty == "ADD_COLUMN" and (a("Settings") or a("ResetSettings")):
            return "alter-add-column-settings"          # the parser never sets them on ADD COLUMN
        if ty == "MODIFY_TTL" and a("TTL") and a("TTLElements") and not a("TTLExpression"):
            return "alter-modify-ttl-nil-expression"    # only the incomplete `ALTER TABLE t MODIFY TTL`
        if ty in DDL_STAT5[:2] and not a("StatisticsColumns") and not a("StatisticsTypes"):
            return "alter-statistics-no-columns"        # only the incomplete `ALTER TABLE t ADD STATISTICS`
        if ty in DDL_STAT5[2:] and not a("StatisticsColumns"):
            return "alter-statistics-no-columns"
    elif kind == "CRE":
        f = spec.split(":")[0]

        def c(name):
            return int(f[ci[name]])
        if c("CreateFunction"):
            return None if c("FunctionBody") else "create-function-no-body"        # only the incomplete `CREATE FUNCTION f AS`
        if c("CreateUser") or c("AlterUser") or c("CreateDictionary"):
            return None
        if c("Materialized") and c("WindowView") and c("AsSelect"):
            return "create-materialized-window-view"    # the parser accepts CREATE MATERIALIZED WINDOW VIEW (not valid ClickHouse)
    return None


def ddl_texts(case):
    """Both sides' text for one case (for the replay file)."""
    import subprocess
    out = {}
    for name, binp in (("go", "ddlcount"), ("model", "ddlcount_driver")):
        try:
            p = subprocess.run([os.path.join(verif.BUILD, binp), "-text"], input=(case + "\n").encode(), stdout=subprocess.PIPE,
                               stderr=subprocess.PIPE, timeout=60)
            f = p.stdout.decode().rstrip("\n").split("\t")
            out[name + "_text"] = bytes.fromhex(f[2]).decode("utf-8", "replace") if len(f) >= 3 and f[2] not in ("-", "") else p.stdout.decode() + p.stderr.decode()
        except Exception as e:                                      # the replay stays usable without the texts
            out[name + "_text"] = "unavailable: %s" % e
    return out


def ddl_correspondence(rep, broken, quick):
    cases = os.path.join(verif.BUILD, "ddl_cases.txt")
    rc, out = verif.sh("python3 %s %d %d %s > %s" % (os.path.join(verif.ROOT, "checks", "gen_ddl_cases.py"), rep.seed, 2000 if quick else 3000,
                                                    "--quick" if quick else "", cases), shell=True, timeout=900)
    g, m = cases + ".go", cases + ".ml"
    rcg, eg = verif.parallel_map_files([os.path.join(verif.BUILD, "ddlcount")], cases, g, timeout=3000)
    rcm, em = verif.parallel_map_files([os.path.join(verif.BUILD, "ddlcount_driver")], cases, m, timeout=3000, unlimited_stack=True)
    n = mism = bad = 0
    found = False
    kinds, outside, first_diff = {}, {}, []
    with open(cases) as fc, open(g) as fg, open(m) as fm:
        for c, o, mo in verif.itertools_zip3(fc, fg, fm):
            n += 1
            kinds[c[:3]] = kinds.get(c[:3], 0) + 1
            p = o.split("\t")
            if o != mo:
                # the Go code and the model differ: a concrete failing case (the theorems are about the model only)
                mism += 1
                if len(first_diff) < 3:
                    first_diff.append((c[:120], o[:80], mo[:80]))
                if mism <= 3:
                    found = True
                    data = {"ddl_case": c, "go": o, "model": mo}
                    data.update(ddl_texts(c))
                    rep.violation("input", "DDL printer and its proved model differ (header count / printed children / text / tree check) on AST spec " + c[:140],
                                  data, input_hex=c.encode().hex())
                continue
            why = ddl_outside(c)
            if p[0] in ("PANIC", "NOSUBTREE") or len(p) < 5:
                bad += 1
                if bad <= 3:
                    found = True
                    rep.violation("input", "DDL printer %s on AST spec %s" % (p[0], c[:140]), {"ddl_case": c, "go": o}, input_hex=c.encode().hex())
            elif p[0] != p[1] or p[3] != "T":
                if why is None:
                    # inside the conditions of the theorems the model prints a tree, so this needs o == mo to be violated too; kept as a net
                    bad += 1
                    if bad <= 3:
                        found = True
                        data = {"ddl_case": c, "go": o, "model": mo, "header": p[0], "direct_children": p[1], "tree": p[3]}
                        data.update(ddl_texts(c))
                        rep.violation("input", "(children N) differs from the printed children in the DDL subtree of AST spec " + c[:140], data,
                                      input_hex=c.encode().hex())
                else:
                    outside[why] = outside.get(why, 0) + 1
    if rc != 0 or rcg != 0 or rcm != 0 or n == 0:
        broken.append({"obligation": "harness:gen_ddl_cases|ddlcount|ddlcount_driver", "detail": (out + eg + em)[-600:]})
    if mism:
        broken.append({"obligation": "correspondence:internal/explain/{explain,statements}.go~DdlExplainModel",
                       "detail": "%d of %d cases differ: %s" % (mism, n, first_diff)})
    # the field combinations outside the proved conditions (model and code agree that they are NOT trees there: the *_refuted
    # lemmas; none is reachable from a valid statement) are counted in the evidence
    # the SQL witnesses, through the real parser and the verified checker
    sqlw = []
    win = os.path.join(verif.BUILD, "ddl_witness_in.txt")
    with open(win, "w") as f:
        f.write("".join(w[2].encode().hex() + "\n" for w in DDL_SQL_WITNESSES))
    rcw, outw = verif.sh("%s -v < %s | %s" % (os.path.join(verif.BUILD, "explaindump"), win, os.path.join(verif.BUILD, "tree_driver")), shell=True, timeout=300)
    verdict = {}
    for line in outw.splitlines():
        q = line.split("\t")
        if len(q) >= 2:
            verdict[q[0]] = q[-1]
    for name, cls, sql in DDL_SQL_WITNESSES:
        sqlw.append({"condition": name, "class": cls, "sql": sql, "verified_checker": verdict.get(sql.encode().hex(), "no-output")})
    return {"found": found, "ddl_model_cases": n, "ddl_model_mismatches": mism, "ddl_cases_by_kind": kinds,
            "ddl_not_tree_outside_proved_conditions": outside,
            "ddl_sql_witnesses": sqlw,
            "ddl_enumeration": "checks/gen_ddl_cases.py: all 7680 column field combinations; all 12 index definitions; for each of the 45 AlterCommandType constants and 2 other strings all combinations of the fields its tally or emission reads + random commands over all 26 fields; all 48 AlterQuery shapes; CreateQuery: special variants, main-tally field combinations (thorough: all 589824; quick: 6144 over the 12 interacting fields), storage-definition and columns-definition combinations, random queries over all 41 fields"}


# ----------------------------------------------------------------------------------------------
# the remaining statement printers, dictionary.go, tables.go: /verif/build/stmtcount (real printers) vs
# /verif/build/stmtcount_driver (extracted Stmt/StmtExplainModel.v)
# ----------------------------------------------------------------------------------------------

_STMT_IDX = None

# SQL texts whose parse is the AST of a refutation witness of Properties/C04_stmt.v: accepted by the permissive parser, no valid
# ClickHouse statement (outside C04's quantifier); the verified checker is expected to reject their EXPLAIN
STMT_SQL_WITNESSES = [
    ("system-flush-logs-settings", "not-clickhouse: SETTINGS is taken only after SYSTEM FLUSH DISTRIBUTED", "SYSTEM FLUSH LOGS system.query_log SETTINGS a = 1"),
    ("update-without-where", "not-clickhouse: UPDATE requires WHERE", "UPDATE t SET a = 1"),
    ("attach-dictionary-with-clauses", "not-clickhouse: nothing follows the name of an attached dictionary", "ATTACH DICTIONARY d (a UInt64) PRIMARY KEY a"),
    ("attach-dictionary-with-clauses", "not-clickhouse: nothing follows the name of an attached dictionary", "ATTACH DICTIONARY db.d ENGINE = Memory"),
]


def stmt_outside(case):
    """Name of the condition of Properties/C04_stmt.v (inv_system, inv_update_count, inv_attach_count, ...) that the case
    violates, None when the C04_*_is_tree theorem of its printer applies to it."""
    global _STMT_IDX
    if _STMT_IDX is None:
        import gen_stmt_cases as g
        _STMT_IDX = {k: {f: i for i, (f, _) in enumerate(fs)} for k, fs in g.KINDS.items()}
    kind, _, spec = case.partition("\t")
    idx = _STMT_IDX.get(kind)
    if idx is None or kind == "SHW":
        return None

    def v(name):
        return int(spec[idx[name]])
    if kind == "SYS":
        if v("Command") and v("Settings") and (v("Database") or v("Table")):
            return "system-flush-logs-settings"       # only `SYSTEM FLUSH LOGS db.log SETTINGS ..`, which ClickHouse rejects
    elif kind == "UPD":
        if not v("Where"):
            return "update-without-where"             # only `UPDATE t SET a = 1`, which ClickHouse rejects
        if v("Assignments") >= 3:
            return "assignment-nil-value"             # the parser never leaves Assignment.Value nil
    elif kind == "ASG":
        if not v("Value"):
            return "assignment-nil-value"
    elif kind == "REN":
        if v("RenameDatabase") and not v("Pairs"):
            return "rename-database-no-pair"          # RENAME DATABASE without a pair is a parse error
    elif kind == "ATT":
        db, tb, dc = v("Database"), v("Table"), v("Dictionary")
        if (db and tb) or (db and not tb and not dc) or (not db and tb):
            branch = "general"
        elif dc:
            branch = "dictionary"
        else:
            branch = "noname"
        storage = v("Engine") or v("OrderBy") or v("PrimaryKey") or v("PartitionBy") or v("Settings")
        if branch == "dictionary" and (v("Columns") or v("ColumnsPrimaryKey") or v("Indexes") or v("SelectQuery") or storage):
            return "attach-dictionary-with-clauses"   # only `ATTACH DICTIONARY d (..) ..`, which ClickHouse rejects
        if branch == "general" and (v("OrderBy") > 1 or v("PrimaryKey") > 1):
            return "attach-several-keys"              # the parser wraps several keys in ONE tuple literal
    elif kind == "TEL":
        if not v("ArrayJoin") and not v("Table") and not v("Join"):
            return "tables-element-empty"             # the parser always sets one of them
    elif kind == "CIX":
        if not v("ColumnsParenthesized") and v("Columns") >= 2:
            return "create-index-unparenthesized-columns"   # the parser reads ONE expression without parentheses
    return None


def stmt_texts(case):
    """Both sides' text for one case (for the replay file)."""
    import subprocess
    out = {}
    for name, binp in (("go", "stmtcount"), ("model", "stmtcount_driver")):
        try:
            p = subprocess.run([os.path.join(verif.BUILD, binp), "-text"], input=(case + "\n").encode(), stdout=subprocess.PIPE,
                               stderr=subprocess.PIPE, timeout=60)
            f = p.stdout.decode().rstrip("\n").split("\t")
            out[name + "_text"] = bytes.fromhex(f[2]).decode("utf-8", "replace") if len(f) >= 3 and f[2] not in ("-", "") else p.stdout.decode() + p.stderr.decode()
        except Exception as e:                                      # the replay stays usable without the texts
            out[name + "_text"] = "unavailable: %s" % e
    return out


def stmt_correspondence(rep, broken, quick):
    cases = os.path.join(verif.BUILD, "stmt_cases.txt")
    rc, out = verif.sh("python3 %s %d %s > %s" % (os.path.join(verif.ROOT, "checks", "gen_stmt_cases.py"), rep.seed, "--quick" if quick else "", cases),
                       shell=True, timeout=900)
    g, m = cases + ".go", cases + ".ml"
    rcg, eg = verif.parallel_map_files([os.path.join(verif.BUILD, "stmtcount")], cases, g, timeout=3000)
    rcm, em = verif.parallel_map_files([os.path.join(verif.BUILD, "stmtcount_driver")], cases, m, timeout=3000, unlimited_stack=True)
    n = mism = bad = 0
    found = False
    kinds, outside, first_diff = {}, {}, []
    with open(cases) as fc, open(g) as fg, open(m) as fm:
        for c, o, mo in verif.itertools_zip3(fc, fg, fm):
            n += 1
            kinds[c[:3]] = kinds.get(c[:3], 0) + 1
            p = o.split("\t")
            if o != mo:
                # the Go code and the model differ: a concrete failing case (the theorems are about the model only)
                mism += 1
                if len(first_diff) < 3:
                    first_diff.append((c[:120], o[:80], mo[:80]))
                if mism <= 3:
                    found = True
                    data = {"stmt_case": c, "go": o, "model": mo}
                    data.update(stmt_texts(c))
                    rep.violation("input", "statement printer and its proved model differ (header count / printed children / text / tree check) on AST spec " + c[:140],
                                  data, input_hex=c.encode().hex())
                continue
            why = stmt_outside(c)
            if p[0] in ("PANIC", "NOSUBTREE") or len(p) < 5:
                bad += 1
                if bad <= 3:
                    found = True
                    rep.violation("input", "statement printer %s on AST spec %s" % (p[0], c[:140]), {"stmt_case": c, "go": o}, input_hex=c.encode().hex())
            elif p[0] != p[1] or p[3] != "T":
                if why is None:
                    # inside the conditions of the theorems the model prints a tree, so this needs o == mo to be violated too; kept as a net
                    bad += 1
                    if bad <= 3:
                        found = True
                        data = {"stmt_case": c, "go": o, "model": mo, "header": p[0], "direct_children": p[1], "tree": p[3]}
                        data.update(stmt_texts(c))
                        rep.violation("input", "(children N) differs from the printed children in the statement subtree of AST spec " + c[:140], data,
                                      input_hex=c.encode().hex())
                else:
                    outside[why] = outside.get(why, 0) + 1
    if rc != 0 or rcg != 0 or rcm != 0 or n == 0:
        broken.append({"obligation": "harness:gen_stmt_cases|stmtcount|stmtcount_driver", "detail": (out + eg + em)[-600:]})
    if mism:
        broken.append({"obligation": "correspondence:internal/explain/{statements,explain,dictionary,tables}.go~StmtExplainModel",
                       "detail": "%d of %d cases differ: %s" % (mism, n, first_diff)})
    # the SQL witnesses of the excluded field combinations, through the real parser and the verified checker
    sqlw = []
    win = os.path.join(verif.BUILD, "stmt_witness_in.txt")
    with open(win, "w") as f:
        f.write("".join(w[2].encode().hex() + "\n" for w in STMT_SQL_WITNESSES))
    rcw, outw = verif.sh("%s -v < %s | %s" % (os.path.join(verif.BUILD, "explaindump"), win, os.path.join(verif.BUILD, "tree_driver")), shell=True, timeout=300)
    verdict = {}
    for line in outw.splitlines():
        q = line.split("\t")
        if len(q) >= 2:
            verdict[q[0]] = q[-1]
    for name, cls, sql in STMT_SQL_WITNESSES:
        sqlw.append({"condition": name, "class": cls, "sql": sql, "verified_checker": verdict.get(sql.encode().hex(), "no-output")})
    import gen_stmt_cases as gsc
    return {"found": found, "stmt_model_cases": n, "stmt_model_mismatches": mism, "stmt_cases_by_kind": kinds,
            "stmt_not_tree_outside_proved_conditions": outside,
            "stmt_sql_witnesses": sqlw,
            "stmt_full_product_sizes": {k: gsc.size(k) * (len(gsc.SHOW_TYPES) if k == "SHW" else 1) for k in gsc.KINDS},
            "stmt_enumeration": "checks/gen_stmt_cases.py: per kind the full product of the domains of every field the printer reads (thorough); quick: the full product for every kind of at most %d combinations, for DRP and ATT every combination of the fields entering the tallies (the others seeded) plus a seeded sample" % gsc.QUICK_MAX}


# ----------------------------------------------------------------------------------------------
# expression printers: /verif/build/exprcount (real printers) vs /verif/build/exprcount_driver (extracted ExprExplainModel)
# ----------------------------------------------------------------------------------------------

# valid statements on which the aliased printer's tree differs from the plain printer's by more than the " (alias a)" annotation
# (Properties/C04_expr.v Part 2: *_drift_refuted, C04_function_call_alias_is_annotation_or_dropped, C04_aliased_default_drops_alias);
# both texts are well-formed trees, so these are not C04 violations: recorded in the evidence with what the code prints today
EXPR_ALIAS_SQL = [
    ("single-element-tuple", "SELECT (1,)", "SELECT (1,) AS x"),
    ("negative-number-in-tuple", "SELECT (1, -2)", "SELECT (1, -2) AS x"),
    ("parenthesised-element", "SELECT [(1), 2]", "SELECT [(1), 2] AS x"),
    ("in-single-tuple", "SELECT 1 IN ((1, 2))", "SELECT 1 IN ((1, 2)) AS x"),
    ("in-arrays", "SELECT [1] IN ([1], [2])", "SELECT [1] IN ([1], [2]) AS x"),
    ("in-tuples-with-negative", "SELECT (1,2) IN ((1,-2),(3,4))", "SELECT (1,2) IN ((1,-2),(3,4)) AS x"),
    ("trim-empty-alias-dropped", "SELECT trim(LEADING '' FROM 'foo')", "SELECT trim(LEADING '' FROM 'foo') AS x"),
]


def expr_outside(case):
    """Name of the condition of Properties/C04_expr.v that the term violates (inv_expr), None when C04_expr_is_tree applies."""
    if " tr 3 " in case:
        return "unknown-transformer-type"          # the parser builds the Types apply / except / replace only
    return None


def expr_texts(case):
    """Both sides' text for one case (for the replay file)."""
    import subprocess
    out = {}
    for name, binp in (("go", "exprcount"), ("model", "exprcount_driver")):
        try:
            p = subprocess.run([os.path.join(verif.BUILD, binp), "-text"], input=(case + "\n").encode(), stdout=subprocess.PIPE,
                               stderr=subprocess.PIPE, timeout=60)
            f = p.stdout.decode().rstrip("\n").split("\t")
            out[name + "_text"] = bytes.fromhex(f[2]).decode("utf-8", "replace") if len(f) >= 3 and f[2] not in ("-", "") else p.stdout.decode() + p.stderr.decode()
        except Exception as e:                                      # the replay stays usable without the texts
            out[name + "_text"] = "unavailable: %s" % e
    return out


def expr_correspondence(rep, broken, quick):
    cases = os.path.join(verif.BUILD, "expr_cases.txt")
    rc, out = verif.sh("python3 %s %d %s > %s" % (os.path.join(verif.ROOT, "checks", "gen_exprcount_cases.py"), rep.seed, "--quick" if quick else "", cases),
                       shell=True, timeout=1800)
    g, m = cases + ".go", cases + ".ml"
    rcg, eg = verif.parallel_map_files([os.path.join(verif.BUILD, "exprcount")], cases, g, timeout=6000)
    rcm, em = verif.parallel_map_files([os.path.join(verif.BUILD, "exprcount_driver")], cases, m, timeout=6000, unlimited_stack=True)
    n = mism = bad = 0
    found = False
    kinds, outside, first_diff = {}, {}, []
    with open(cases) as fc, open(g) as fg, open(m) as fm:
        for c, o, mo in verif.itertools_zip3(fc, fg, fm):
            n += 1
            k = c.split("\t")[0]
            kinds[k] = kinds.get(k, 0) + 1
            p = o.split("\t")
            if o != mo:
                # the Go code and the model differ: a concrete failing case (the theorems are about the model only)
                mism += 1
                if len(first_diff) < 3:
                    first_diff.append((c[:160], o[:80], mo[:80]))
                if mism <= 3:
                    found = True
                    data = {"expr_case": c, "go": o, "model": mo}
                    data.update(expr_texts(c))
                    rep.violation("input", "expression printer and its proved model differ (header count / printed children / text / tree check) on AST term " + c[:160],
                                  data, input_hex=c.encode().hex())
                continue
            why = expr_outside(c)
            if p[0] in ("PANIC", "NOSUBTREE") or len(p) < 5:
                bad += 1
                if bad <= 3:
                    found = True
                    rep.violation("input", "expression printer %s on AST term %s" % (p[0], c[:160]), {"expr_case": c, "go": o}, input_hex=c.encode().hex())
            elif p[0] != p[1] or p[3] != "T":
                if why is None:
                    # inside inv_expr the model prints a tree (C04_expr_is_tree), so this needs o == mo to be violated too; kept as a net
                    bad += 1
                    if bad <= 3:
                        found = True
                        data = {"expr_case": c, "go": o, "model": mo, "header": p[0], "direct_children": p[1], "tree": p[3]}
                        data.update(expr_texts(c))
                        rep.violation("input", "(children N) differs from the printed children in the expression subtree of AST term " + c[:160], data,
                                      input_hex=c.encode().hex())
                else:
                    outside[why] = outside.get(why, 0) + 1
    if rc != 0 or rcg != 0 or rcm != 0 or n == 0:
        broken.append({"obligation": "harness:gen_exprcount_cases|exprcount|exprcount_driver", "detail": (out + eg + em)[-600:]})
    if mism:
        broken.append({"obligation": "correspondence:internal/explain/{expressions,functions,explain}.go~ExprExplainModel",
                       "detail": "%d of %d cases differ: %s" % (mism, n, first_diff)})
    # the valid statements whose aliased form prints another tree than the plain form (informative: both are trees)
    win = os.path.join(verif.BUILD, "expr_alias_in.txt")
    with open(win, "w") as f:
        for _, plain, aliased in EXPR_ALIAS_SQL:
            f.write(plain.encode().hex() + "\n" + aliased.encode().hex() + "\n")
    rcw, outw = verif.sh("%s -v < %s" % (os.path.join(verif.BUILD, "explaindump"), win), shell=True, timeout=300)
    texts = {}
    for line in outw.splitlines():
        q = line.split("\t")
        if len(q) >= 2 and q[-1] not in ("ERR", "PANIC", "PARSEPANIC"):
            try:
                texts[q[0]] = bytes.fromhex(q[-1] if q[-1] != "-" else "").decode("utf-8", "replace")
            except ValueError:
                pass
    drift = []
    for name, plain, aliased in EXPR_ALIAS_SQL:
        tp, ta = texts.get(plain.encode().hex()), texts.get(aliased.encode().hex())
        same = None
        if tp is not None and ta is not None:
            same = ta.replace(" (alias x)", "", 1) == tp
        drift.append({"case": name, "plain": plain, "aliased": aliased, "aliased_is_plain_plus_annotation": same,
                      "alias_printed": None if ta is None else ("(alias x)" in ta)})
    return {"found": found, "expr_model_cases": n, "expr_model_mismatches": mism, "expr_cases_by_kind": kinds,
            "expr_not_tree_outside_proved_conditions": outside,
            "expr_alias_drift_on_valid_sql": drift,
            "expr_enumeration": "checks/gen_exprcount_cases.py: terms of every expression node kind; thorough: full products with lists of length 0..3 over "
                                "54 element classes (literal / IN lists), 14 argument classes x 23 function-name classes, all BinaryExpr trees of 3 levels; "
                                "quick: the small kinds in full, lists to length 2 over 12 classes, the rest capped at 30000 per kind plus a seeded 5% sample"}


def replay(rec):
    import subprocess
    if "expr_case" in rec:
        print(rec["expr_case"])
        for k, v in sorted(expr_texts(rec["expr_case"]).items()):
            print("--- " + k)
            print(v)
        return 0
    if "stmt_case" in rec:
        print(rec["stmt_case"])
        for k, v in sorted(stmt_texts(rec["stmt_case"]).items()):
            print("--- " + k)
            print(v)
        return 0
    if "ddl_case" in rec:
        print(rec["ddl_case"])
        for k, v in sorted(ddl_texts(rec["ddl_case"]).items()):
            print("--- " + k)
            print(v)
        return 0
    if "input_hex" in rec:
        p = subprocess.run([os.path.join(verif.BUILD, "explaindump")], input=(rec["input_hex"] + "\n").encode(), stdout=subprocess.PIPE)
        for line in p.stdout.decode().splitlines():
            f = line.split("\t")
            print(bytes.fromhex(f[-1]).decode("utf-8", "replace") if len(f) > 1 else line)
    else:
        print(rec)
    return 0
