"""C04 — EXPLAIN output is a well-formed ClickHouse-style tree.
Theorems: coq/Properties/C04_tree.v — a verified decision procedure for "the text is one rooted tree in EXPLAIN AST
layout, every (children N) equals the number of nodes beneath, no Go formatting artefact, every first word is a node kind
ClickHouse prints" (sound and complete w.r.t. rendering of rose trees); coq/Properties/C04_select.v — count = emitted
children for the SelectQuery / SelectWithUnionQuery / intersect printers (model of internal/explain/select.go with the
count code and the emit code kept separate as in Go), for every field combination and every union tail.
Ties: Go selectcount vs extracted model on exhaustive field combinations (built directly as ast values); the EXTRACTED
verified checker run on the real EXPLAIN text of every corpus statement, of mutants accepted by the parser, and of
generated statements; node kinds regenerated from the ClickHouse goldens."""
import os
import searchcommon
import verif

TRUSTED = [
    "Coq 8.16.1 kernel and vm_compute; Print Assumptions of every theorem: closed under the global context",
    "Select/SelectExplainModel.v: hand transcription of countSelectQueryChildren / explainSelectQuery (+ inherited WITH), countSelectUnionChildrenTail / explainUnionTail and both union printers, explainSelectIntersectExceptQuery, tied to the code by the selectcount correspondence (header count, direct children and md5 of the text)",
    "printers outside that model (DDL, ALTER, expressions, tables, dictionaries): only the verified oracle applied to real output (search, not proof) — the C04 claim is partial there",
    "translator/cmd/genkinds: node-kind vocabulary = first words of node lines of all explain*.txt goldens; extraction (ExtrOcamlBasic only) + OCaml glue",
]


def run(rep):
    st = verif.proof_stage(rep, "C04", needs_translators=["gentables", "genkinds"])
    broken = list(st["broken"])
    broken += verif.build_topic(go_pkgs=("psearch", "selectcount", "explaindump"), drivers=(("tree", "tree_ex"), ("selectcount", "selectcount_ex")))
    found = False
    if not any(b["obligation"].startswith("build:") for b in broken):
        quick = rep.tier == "quick"
        # (1) model vs code on field combinations
        cases = os.path.join(verif.BUILD, "select_cases.txt")
        rc, out = verif.sh("python3 %s %d %d %s > %s" % (os.path.join(verif.ROOT, "checks", "gen_select_cases.py"), rep.seed, 300 if quick else 4000,
                                                        "--no-exhaustive" if quick else "", cases), shell=True, timeout=900)
        g, m = cases + ".go", cases + ".ml"
        verif.parallel_map_files([os.path.join(verif.BUILD, "selectcount")], cases, g, timeout=3000)
        verif.parallel_map_files([os.path.join(verif.BUILD, "selectcount_driver")], cases, m, timeout=3000, unlimited_stack=True)
        n_sel = mism = bad_hdr = 0
        first_diff = []

        def absent(ch):
            return ch in "0e"

        def inv_limit_violated(spec):
            # positions (0-based) 17 LimitBy, 18 LimitByLimit, 19 LimitByOffset, 20 Offset of the 25-char select spec
            if len(spec) < 21:
                return False
            lb, lbl, lbo, off = spec[17], spec[18], spec[19], spec[20]
            return (absent(lbl) and not absent(lbo)) or (absent(lbl) and not absent(lb) and not absent(off))

        with open(cases) as fc, open(g) as fg, open(m) as fm:
            for c, o, mo in verif.itertools_zip3(fc, fg, fm):
                n_sel += 1
                p = o.split("\t")
                flag = p[-1] if p else ""
                if flag == "M" and o != mo:
                    mism += 1
                    if len(first_diff) < 3:
                        first_diff.append((c[:80], o[:80], mo[:80]))
                if len(p) >= 2 and p[0].isdigit() and p[1].isdigit() and p[0] != p[1]:
                    kind = c[:1]
                    spec = c.split()[-1] if c.split() else ""
                    if kind in "SWV" and inv_limit_violated(spec):
                        continue      # the parser never builds LimitByOffset/Offset without LimitByLimit (invariant inv_limit of C04_select)
                    bad_hdr += 1
                    if bad_hdr <= 5:
                        found = True
                        rep.violation("input", "(children N) differs from the number of printed children for AST spec " + c.strip()[:100],
                                      {"ast_spec": c.strip(), "header": p[0], "direct_children": p[1]}, input_hex=c.strip().encode().hex())
                elif p and p[0] in ("PANIC", "NOSUBTREE"):
                    bad_hdr += 1
                    if bad_hdr <= 5:
                        found = True
                        rep.violation("input", "printer %s on AST spec %s" % (p[0], c.strip()[:100]), {"ast_spec": c.strip()}, input_hex=c.strip().encode().hex())
        if mism or rc != 0:
            broken.append({"obligation": "correspondence:internal/explain/select.go~SelectExplainModel", "detail": "%d of %d cases differ: %s %s" % (mism, n_sel, first_diff, out[-300:])})
        # (2) verified checker on the real EXPLAIN output of VALID statements (the property quantifies over syntactically valid
        # statements: corpus statements; mutants accepted by the permissive parser are not in its scope and belong to C03)
        tin = os.path.join(verif.BUILD, "tree_in.txt")
        n_txt = 0
        samples = []
        if quick:
            rc3, out3 = verif.sh("%s gen -mode corpus -n 0 | %s" % (searchcommon.PSEARCH, os.path.join(verif.BUILD, "explaindump")), shell=True, timeout=1200)
        else:
            rc3, out3 = verif.sh([os.path.join(verif.BUILD, "explaindump"), "-corpus", os.path.join(verif.REPO, "parser", "testdata")], timeout=3000)
        ngram = 20000 if quick else 400000
        rc4, out4 = verif.sh("python3 %s %d %d --hex | %s -v" % (os.path.join(verif.ROOT, "checks", "gen_sql_grammar.py"), rep.seed, ngram, os.path.join(verif.BUILD, "explaindump")),
                             shell=True, timeout=3000)
        gram_lines = out4.splitlines()
        gram_err = sum(1 for l in gram_lines if l.endswith("\tERR") or l.endswith("\tPARSEPANIC"))
        if rc4 != 0:
            broken.append({"obligation": "harness:gen_sql_grammar|explaindump", "detail": out4[-500:]})
        with open(tin, "w") as ft:
            for line in out3.splitlines() + gram_lines:
                p = line.split("\t")
                if len(p) >= 2 and p[-1] not in ("ERR", "PANIC", "PARSEPANIC"):
                    ft.write(p[0] + "\t" + p[-1] + "\n")
                    n_txt += 1
                    if len(samples) < 5 and n_txt % 1999 == 7:
                        try:
                            samples.append(bytes.fromhex(p[0]).decode("utf-8", "replace")[:140])
                        except ValueError:
                            pass
        res = {"samples": samples, "counts": {"explained": n_txt, "grammar_statements": len(gram_lines), "grammar_rejected_by_parser": gram_err}}
        tout = tin + ".out"
        rc2, e2 = verif.parallel_map_files([os.path.join(verif.BUILD, "tree_driver")], tin, tout, timeout=6000, unlimited_stack=True)
        verdicts = {}
        texts = {}
        with open(tin) as f:
            for line in f:
                q = line.rstrip("\n").split("\t")
                if len(q) >= 2 and q[0] not in texts:
                    try:
                        texts[q[0]] = bytes.fromhex(q[-1]).decode("utf-8", "replace")[:200]
                    except ValueError:
                        pass
        with open(tout) as f:
            for line in f:
                p = line.rstrip("\n").split("\t")
                v = p[-1]
                verdicts[v] = verdicts.get(v, 0) + 1
                if v.startswith("bad"):
                    sql = bytes.fromhex(p[0] if p[0] != "-" else "").decode("utf-8", "replace")
                    key = None
                    if v == "bad:kind" and sql.strip().upper().startswith("SHOW") and texts.get(p[0], "").split("\n")[0].strip() in ("Show", "ShowProcesslist"):
                        key = "show-kinds"
                    if key is None and verdicts[v] > 8:
                        continue
                    found = found or (rep.is_known(key=key) is None)
                    rep.violation("input", "EXPLAIN text rejected by the verified checker (%s): %s" % (v, sql[:150]), {"input_hex": p[0], "verdict": v}, input_hex=p[0], key=key)
        if rc2 != 0:
            broken.append({"obligation": "driver:tree", "detail": e2[-500:]})
        rep.coverage.update({
            "evaluations": n_txt + n_sel, "distinct_nontrivial": n_txt,
            "rule": "EXPLAIN text of every corpus statement (quick: the 9.7k-statement sample in /verif/corpus; thorough: every statement of every enabled parser/testdata/*/query.sql) and of 20k (quick) / 400k (thorough) statements of the verification grammar (checks/gen_sql_grammar.py: SELECT with every clause subset, set operations, INSERT, CREATE, ALTER, utility statements, :: literals, nesting to 300 levels) run through the extracted verified checker check_text with the node kinds of the goldens; "
                    "plus Go-vs-model comparison of header count / printed children / text hash on SelectQuery, union, intersect, INSERT, EXPLAIN and CREATE ASTs built directly (exhaustive 2^16 / 2^13 field combinations in the thorough tier); distinct_nontrivial = texts checked",
            "samples": res["samples"], "verdicts": verdicts, "select_model_cases": n_sel, "select_model_mismatches": mism, "status_counts": res["counts"],
            "trusted_base": TRUSTED,
        })
    verif.report_broken(rep, broken, found)
    rep.assumptions = ["a printed '(children 0)' on a node without children satisfies the property (the suffix equals the number of nodes beneath)",
                       "identifiers without line breaks (as in the property)"]


def replay(rec):
    import subprocess
    if "input_hex" in rec:
        p = subprocess.run([os.path.join(verif.BUILD, "explaindump")], input=(rec["input_hex"] + "\n").encode(), stdout=subprocess.PIPE)
        for line in p.stdout.decode().splitlines():
            f = line.split("\t")
            print(bytes.fromhex(f[-1]).decode("utf-8", "replace") if len(f) > 1 else line)
    else:
        print(rec)
    return 0
