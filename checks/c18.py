"""C18 — type expressions print canonically and identically in both cast positions.
Theorems: coq/Properties/C18.v over coq/Expr/TypeModel.v (parseDataType, parseCast, parseCastOperator,
FormatDataType and the cast printer) and the independent spec coq/Expr/TypeSpec.v (canon_ty, shown).
Tie: three-way correspondence code / extracted model / spec on random type trees to depth 5 covering every
parent/child constructor pair, six separator styles and token-level mutants; string arguments as BYTE strings (values that
are not valid UTF-8, spelled with \\xNN) and of every length (0..70, around 128 / 256 / 4096) with a quote, a backslash or a
multi-byte character at every distance from either end; very wide (> 1500 arguments) and deep types; a SCRIPT pass that
parses all cases in ONE parser.Parse call and compares per statement with the per-case results (checks/gen_type_cases.py).
The theorems are stated over the lexer's tokens of T: the lexer correspondence (lexcommon.lexer_premise) ties that premise
to the current lexer.go."""
import os
import re
import threading
import verif

TRUSTED = [
    "Coq 8.16.1 kernel and vm_compute; Print Assumptions of every theorem: closed under the global context",
    "hand-written model coq/Expr/TypeModel.v (fragment: the constructor set of the property; everything else explicit OutOfFragment) tied to the code by the correspondence run; the isDataTypeName table is embedded by hand in Expr/TypeBase.v (drift shows up as model-vs-code disagreement)",
    "the canonical escaping (esc applied three times inside the type literal) is read off the ClickHouse goldens (DESIGN.md §7 C18)",
    "extraction (ExtrOcamlBasic only), OCaml driver, Go typedump; tokens come from the real lexer (its model Lexer/LexerModel.v is tied to lexer.go by the lexer correspondence run here; "
    "check (0) of the generator compares the lexer's tokens of every generated T with print_ty(tree))",
    "state carried across types / statements inside one Parse call is outside the model (the model parses one type expression); covered by the script pass only",
]


def run(rep):
    st = verif.proof_stage(rep, "C18", needs_translators=["gentables"])
    broken = list(st["broken"])
    broken += verif.build_topic(go_pkgs=("typedump",), drivers=(("types", "types_ex"),))
    found = False
    if not any(b["obligation"].startswith("build:") for b in broken):
        count = 6000 if rep.tier == "quick" else 120000
        dump = os.path.join(verif.BUILD, "c18_script_prefix_%s.hex" % os.getpid())
        if os.path.exists(dump):
            os.remove(dump)
        res = {}

        def gen():
            res["rc"], res["out"] = verif.sh(["python3", os.path.join(verif.ROOT, "checks", "gen_type_cases.py"), str(rep.seed), str(count), "--run",
                                              "--max-report", "10", "--extras", rep.tier, "--script-dump", dump, "--types-out", dump + ".types"], timeout=3000)
        th = threading.Thread(target=gen)
        th.start()
        # meanwhile: the theorems are stated over the lexer's tokens of T ("written with any spacing"; string arguments are the
        # lexer's STRING values): tie Lexer/LexerModel.v to the CURRENT lexer.go (a difference is a broken correspondence)
        import lexcommon
        lexcommon.lexer_premise(rep, broken, ())
        th.join()
        rc, out = res.get("rc", 1), res.get("out", "")
        lines = out.splitlines()
        spec = [l for l in lines if l.startswith("SPEC ")]
        model = [l for l in lines if l.startswith("MODEL")]
        script = [l for l in lines if l.startswith("SCRIPT ")]

        def type_of(l):
            m = re.search(r" hex=([0-9a-f]+|-) ", l)
            if m and m.group(1) != "-":
                return m.group(1)
            m = re.search(r"text=(b?'.*?'|b?\".*?\") ", l)
            return (m.group(1) if m else l[:200]).encode().hex()
        for l in spec[:10]:
            found = True
            h = type_of(l)
            rep.violation("input", "type shown by EXPLAIN is not the canonical spelling: " + l[:400], {"case": l[:3000], "type_hex": h[:40000]},
                          input_hex=h)
        if script:
            # a statement of the script shows another type than the same statement parsed alone (which equals the spec / the model)
            prefix = open(dump).read().split() if os.path.exists(dump) else []
            l = script[0]
            found = True
            blob = "\n".join(prefix)
            rep.violation("input", "inside a script (one Parse call) a cast shows another type than alone: " + l[:500],
                          {"case": l[:3000], "type_hex": type_of(l)[:40000], "others": [x[:600] for x in script[1:6]],
                           "script_types_hex": prefix if len(blob) <= 4000000 else prefix[-2000:],
                           "how": "typedump -script on script_types_hex (one hex type per line): the LAST line differs from typedump on that type alone"},
                          input_hex=type_of(l))
        # the type line must not depend on WHAT is cast: the same types behind operands of other kinds (unfoldable and foldable
        # array / tuple literals, strings, numbers, calls, nested casts ...), in both cast positions -- the last line of the
        # EXPLAIN text (the CAST node's last child) is compared with the one the plain identifier operand gets
        opres = operand_pass(rep, dump + ".types", 1500 if rep.tier == "quick" else 40000)
        for l in opres.get("bad", [])[:5]:
            found = True
            rep.violation("input", "the type line of a cast depends on the operand: " + l["what"][:300], l, input_hex=l["input_hex"])
        if opres.get("broken"):
            broken.append({"obligation": "harness:explaindump (operand pass)", "detail": opres["broken"]})
        if os.path.exists(dump):
            os.remove(dump)
        dis = re.search(r"disagreements: tokens (\d+), model-vs-code (\d+), CAST-vs-:: (\d+), spec-vs-code on wf trees (\d+), classifier (\d+), script-vs-single (\d+)", out)
        nums = [int(x) for x in dis.groups()] if dis else None
        if nums is None or "RESULT PASS" not in out:
            if nums is None or model or nums[1] or nums[4] or not (spec or script or nums[0]):
                broken.append({"obligation": "correspondence:parseDataType/FormatDataType~TypeModel", "detail": ("\n".join(model[:3]) or out[-1500:])[:3000]})
            if nums and nums[0]:
                tk = [l for l in lines if l.startswith("TOKENS")]
                broken.append({"obligation": "tokens:lexer.Tokenize(T)~print_ty(tree)", "detail": ("\n".join(tk[:3]) or out[-1500:])[:3000]})
            if nums and nums[2] and not spec:
                broken.append({"obligation": "CAST-vs-::", "detail": out[-1500:]})
            if nums and nums[5] and not script:
                broken.append({"obligation": "script-vs-single", "detail": out[-1500:]})
        tc = re.search(r"tree cases (\d+): wf (\d+)", out)
        sc = re.search(r"script pass: (\d+) cases = (\d+) statements in (\d+) parser.Parse", out)
        cov = next((l for l in lines if l.startswith("coverage:")), "")
        rep.coverage.update({
            "evaluations": 2 * (int(tc.group(1)) if tc else count) + (int(sc.group(2)) if sc else 0), "distinct_nontrivial": int(tc.group(2)) if tc else 0,
            "rule": "random type trees to depth 5 over the property's constructor set with every parent/child pair covered, all argument kinds (strings with quotes, backslashes, control bytes, UTF-8, empty, "
                    "values that are NOT valid UTF-8 spelled with \\xNN, random lengths; Enum values incl. negative; numbers), six separator styles, plus token-level mutants; systematic classes: "
                    "bytes (43 invalid-UTF-8 values x 12 string positions), strlen (string lengths 0..70 and around 128/256/4096: prefix + special + tail for '' \\' \\\\ \\n \\xE9 and 2/3/4-byte characters; "
                    "quick: one coordinate from a small set, thorough: the full 71 x 71 grid), wide (Tuple / named Tuple / Variant / Enum with 1600 (thorough: to 12000) arguments, nesting depth to 300 (1000)); "
                    "each in CAST(x AS T) and x::T parsed alone, and once more all together as ONE script in a single Parse call (script pass, compared per statement); "
                    "distinct_nontrivial = well-formed trees compared with the spec",
            "samples": [cov[:500]] + [l[:400] for l in lines if l.startswith("extra classes") or l.startswith("script pass") or l.startswith("tree cases") or l.startswith("mutants")],
            "script_pass": {"cases": int(sc.group(1)) if sc else 0, "statements": int(sc.group(2)) if sc else 0, "parse_calls": int(sc.group(3)) if sc else 0, "differences": nums[5] if nums else None},
            "summary": [l for l in lines if l.startswith("disagreements") or l.startswith("RESULT")],
            "operand_pass": {k: v for k, v in opres.items() if k != "bad"},
            "trusted_base": TRUSTED,
        })
    verif.report_broken(rep, broken, found)
    rep.assumptions = ["Tuple(date LineString) — an element name that is itself a known type name followed by a type name outside the table — is outside wf_ty (still a parse error)"]


OPERANDS = ["[y, 1]", "(now(), 1)", "[1, 2]", "'s'", "1", "f(x)", "(x)", "[1::Int8, 2]", "NULL", "x.y", "[[y]]", "(1, 'a')", "[]", "t.1", "x[1]"]


def operand_pass(rep, dump, limit):
    import subprocess
    if not os.path.exists(dump):
        return {"types": 0}
    allt = open(dump).read().split()
    os.remove(dump)
    step = max(1, len(allt) // limit)
    types = [bytes.fromhex(h) for h in allt[::step] if len(h) < 4000][:limit]
    verif.build_go(("explaindump",))
    lines, meta = [], []
    for i, t in enumerate(types):
        op = OPERANDS[i % len(OPERANDS)].encode()
        for form, sql in (("x-as", b"SELECT CAST(x AS " + t + b")"), ("op-as", b"SELECT CAST(" + op + b" AS " + t + b")"), ("op-::", b"SELECT " + op + b"::" + t)):
            lines.append(sql.hex())
            meta.append((i, form, sql))
    p = subprocess.run([os.path.join(verif.BUILD, "explaindump"), "-v"], input=("\n".join(lines) + "\n").encode(), stdout=subprocess.PIPE, stderr=subprocess.PIPE)
    if p.returncode != 0:
        return {"types": len(types), "broken": p.stderr.decode("utf-8", "replace")[-400:]}
    got = {}
    for l in p.stdout.decode().splitlines():
        f = l.split("\t")
        if len(f) >= 2 and f[0] not in got:
            got[f[0]] = f[-1]
    bad, compared = [], 0
    for k in range(0, len(meta), 3):
        base = got.get(lines[k])
        if base in (None, "ERR", "PANIC", "PARSEPANIC"):
            continue
        try:
            want = bytes.fromhex(base).decode("utf-8", "replace").rstrip("\n").split("\n")[-1].strip()
        except ValueError:
            continue
        for j in (1, 2):
            r = got.get(lines[k + j])
            if r in (None, "ERR"):
                continue        # this operand is not accepted in front of this type: nothing to compare
            i, form, sql = meta[k + j]
            if r in ("PANIC", "PARSEPANIC"):
                bad.append({"what": "%s on %s" % (r, sql.decode("utf-8", "replace")[:200]), "input_hex": sql.hex()})
                continue
            last = bytes.fromhex(r).decode("utf-8", "replace").rstrip("\n").split("\n")[-1].strip()
            compared += 1
            if last != want:
                bad.append({"what": "%s prints the type line %s, CAST(x AS T) prints %s" % (sql.decode("utf-8", "replace")[:160], last[:120], want[:120]), "input_hex": sql.hex()})
    return {"types": len(types), "compared": compared, "differences": len(bad), "bad": bad}


def replay(rec):
    import subprocess
    print(rec.get("case", ""))
    td = os.path.join(verif.BUILD, "typedump")
    if rec.get("script_types_hex") and os.path.exists(td):
        inp = "\n".join(rec["script_types_hex"]) + "\n"
        a = subprocess.run([td, "-script"], input=inp.encode(), stdout=subprocess.PIPE).stdout.decode().splitlines()
        b = subprocess.run([td], input=(rec["script_types_hex"][-1] + "\n").encode(), stdout=subprocess.PIPE).stdout.decode().splitlines()
        print("inside the script:", "\t".join(a[-1].split("\t")[1:3]) if a else "?")
        print("alone            :", "\t".join(b[-1].split("\t")[1:3]) if b else "?")
    elif rec.get("type_hex") and os.path.exists(td):
        p = subprocess.run([td], input=(rec["type_hex"] + "\n").encode(), stdout=subprocess.PIPE)
        print("\t".join(p.stdout.decode().split("\t")[:3]))
    return 0
