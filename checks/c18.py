"""C18 — type expressions print canonically and identically in both cast positions.
Theorems: coq/Properties/C18.v over coq/Expr/TypeModel.v (parseDataType, parseCast, parseCastOperator,
FormatDataType and the cast printer) and the independent spec coq/Expr/TypeSpec.v (canon_ty, shown).
Tie: three-way correspondence code / extracted model / spec on random type trees to depth 5 covering every
parent/child constructor pair, six separator styles and token-level mutants (checks/gen_type_cases.py)."""
import os
import re
import verif

TRUSTED = [
    "Coq 8.16.1 kernel and vm_compute; Print Assumptions of every theorem: closed under the global context",
    "hand-written model coq/Expr/TypeModel.v (fragment: the constructor set of the property; everything else explicit OutOfFragment) tied to the code by the correspondence run; the isDataTypeName table is embedded by hand in Expr/TypeBase.v (drift shows up as model-vs-code disagreement)",
    "the canonical escaping (esc applied three times inside the type literal) is read off the ClickHouse goldens (DESIGN.md §7 C18)",
    "extraction (ExtrOcamlBasic only), OCaml driver, Go typedump; tokens come from the real lexer",
]


def run(rep):
    st = verif.proof_stage(rep, "C18", needs_translators=["gentables"])
    broken = list(st["broken"])
    broken += verif.build_topic(go_pkgs=("typedump",), drivers=(("types", "types_ex"),))
    found = False
    if not any(b["obligation"].startswith("build:") for b in broken):
        count = 6000 if rep.tier == "quick" else 120000
        rc, out = verif.sh(["python3", os.path.join(verif.ROOT, "checks", "gen_type_cases.py"), str(rep.seed), str(count), "--run", "--max-report", "10"], timeout=3000)
        lines = out.splitlines()
        spec = [l for l in lines if l.startswith("SPEC ")]
        model = [l for l in lines if l.startswith("MODEL")]
        for l in spec[:10]:
            found = True
            m = re.search(r"text=(b?'.*?'|b?\".*?\") ", l)
            txt = m.group(1) if m else l[:200]
            rep.violation("input", "type shown by EXPLAIN is not the canonical spelling: " + l[:300], {"case": l[:3000], "type_text": txt},
                          input_hex=txt.encode().hex())
        dis = re.search(r"disagreements: tokens (\d+), model-vs-code (\d+), CAST-vs-:: (\d+), spec-vs-code on wf trees (\d+), classifier (\d+)", out)
        nums = [int(x) for x in dis.groups()] if dis else None
        if nums is None or "RESULT PASS" not in out:
            if not spec or model or nums is None or nums[0] or nums[1] or nums[4]:
                broken.append({"obligation": "correspondence:parseDataType/FormatDataType~TypeModel", "detail": ("\n".join(model[:3]) or out[-1500:])[:3000]})
            if nums and nums[2] and not spec:
                broken.append({"obligation": "CAST-vs-::", "detail": out[-1500:]})
        tc = re.search(r"tree cases (\d+): wf (\d+)", out)
        cov = next((l for l in lines if l.startswith("coverage:")), "")
        samples = []
        for l in lines:
            pass
        rep.coverage.update({
            "evaluations": 2 * count, "distinct_nontrivial": int(tc.group(2)) if tc else 0,
            "rule": "random type trees to depth 5 over the property's constructor set with every parent/child pair covered, all argument kinds (strings with quotes, backslashes, control bytes, UTF-8, empty; "
                    "Enum values incl. negative; numbers), six separator styles, plus token-level mutants; each in CAST(x AS T) and x::T; distinct_nontrivial = well-formed trees compared with the spec",
            "samples": [cov[:400]] + [l[:200] for l in lines if l.startswith("tree cases") or l.startswith("mutants")],
            "summary": [l for l in lines if l.startswith("disagreements") or l.startswith("RESULT")],
            "trusted_base": TRUSTED,
        })
    verif.report_broken(rep, broken, found)
    rep.assumptions = ["Tuple(date LineString) — an element name that is itself a known type name followed by a type name outside the table — is outside wf_ty (still a parse error)"]


def replay(rec):
    print(rec.get("case", ""))
    return 0
