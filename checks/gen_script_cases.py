#!/usr/bin/env python3
"""gen_script_cases.py <seed> <count> <corpus-file> [--with-invalid]

Case generator for /verif/build/cancel (C16: default mode, C06/C05: -semis mode).

corpus-file: one single statement per line (plain text, no trailing semicolon, no comment, no
inline data: no `INSERT ... FORMAT/VALUES`); every line must parse on its own to exactly one
statement with a nil error (`/verif/build/cancel -filter < candidates > corpus` keeps exactly those).

Output: <count> lines, TAB-separated lowercase hex fields ("-" for the empty string):

    <script>\t<part 1>\t...\t<part k>

script = the k parts (1..6 of them; every 97th case a long script of 101..160 short statements,
because a driver that gives up after a fixed number of statements is only visible on long
scripts) joined by separators.  A separator always contains at least one ';' and may contain more
(';;', '; ;'), white space, newlines and comments that themselves contain ';' ('/* ; */',
'-- ;' up to the end of the line).  Before the first part: optional semicolons / blanks / comments;
after the last part: nothing, blanks, or any separator (no trailing ';' at all in about a third
of the cases).  Parts are corpus statements or synthetic statements with ';' inside a string
literal, a back-quoted or double-quoted identifier, or a comment in the middle of the statement;
the expected result of the script is the concatenation of the results of its parts parsed alone,
so the generator needs no knowledge of the parser.

--with-invalid: additionally every 5th case (index % 5 == 4) gets one or two INVALID parts (a
stray ')', a dangling operator, unknown words, ...) at random places.  Those cases are written
WITHOUT the part fields (the script only), because a statement parser need not be
delimiter-respecting on input it rejects; `cancel -semis` skips them, the default (C16) mode uses
them: cancellation must behave the same when parse errors have been recorded.

Corpus helper:  gen_script_cases.py --candidates <testdata-dir>   prints candidate statements
(one per line) taken from <testdata-dir>/*/query.sql: lines ending in ';' that start with a
statement keyword, without comments, inner ';', tabs, `INSERT ... FORMAT/VALUES`; pipe them
through `/verif/build/cancel -filter` to obtain a corpus file.

Every random choice derives from (seed, case index) through splitmix64, so case i of a given
(seed, corpus) is the same whatever <count> is.
"""
import sys

MASK = (1 << 64) - 1


class Rng:
    def __init__(self, seed):
        self.s = seed & MASK

    def next(self):
        self.s = (self.s + 0x9E3779B97F4A7C15) & MASK
        z = self.s
        z = ((z ^ (z >> 30)) * 0xBF58476D1CE4E5B9) & MASK
        z = ((z ^ (z >> 27)) * 0x94D049BB133111EB) & MASK
        return z ^ (z >> 31)

    def below(self, n):
        return self.next() % n

    def pick(self, xs):
        return xs[self.below(len(xs))]

    def chance(self, num, den):
        return self.below(den) < num


# statements with ';' where it must NOT end the statement
SYNTHETIC = [
    "SELECT 'a;b'",
    "SELECT ';'",
    "SELECT ';;', ';'",
    "SELECT 'it''s; here' AS x",
    "SELECT 'a\\';b'",
    "SELECT `x;y` FROM t",
    "SELECT \"p;q\" FROM t",
    "SELECT 1 AS `;`",
    "SELECT 1 /* ; */ + 2",
    "SELECT /* a; b; */ 1",
    "SELECT 1 /* ; /* nested ; */ ; */ , 2",
    "SELECT 1 -- ; not the end\n + 2",
    "SELECT 1 -- ;\n",
    "SELECT 1 # first; then the rest of the remark\n",
    "SELECT 2 #! note: a; b\n FROM system.one",
    "SELECT 1 # ;\n + 2",
    "SELECT x FROM t WHERE s = ';' AND y = 2",
    "SELECT concat('a', ';', 'b'), `c;d`",
    "CREATE TABLE t (`a;b` Int32) ENGINE = Memory",
    "SHOW TABLES LIKE '%;%'",
]

INVALID = [")", "FOO BAR", "SELECT 1 +", "SELECT FROM", "1 2 3", "SELECT (1", "]", "SELECT 1 FROM",
           "CREATE", "DROP TABLE", "SELECT * FROM t WHERE", ", ,", "SELECT 1 AS"]

SHORT = ["SELECT 1", "SELECT 2", "SELECT a", "USE db", "SHOW TABLES", "SELECT ';'", "SELECT 1 + 2"]

BLANKS = ["", "", " ", "  ", "\n", " \n ", "\t", "\r\n"]
COMMENTS = ["/* ; */", "/* c */", "-- ;\n", "-- trailing; comment\n", "/**/", "/* a; /* b; */ c */",
            "# hash; comment\n", "#! shebang; style; x\n", "#;\n"]


def filler(r):
    """white space and comments, no semicolon token"""
    out = r.pick(BLANKS)
    if r.chance(1, 4):
        out += r.pick(COMMENTS) + r.pick(BLANKS)
    return out


def separator(r):
    """at least one semicolon token, maybe more"""
    n = 1
    if r.chance(1, 3):
        n = 2 + r.below(3)
    out = filler(r)
    for _ in range(n):
        out += ";" + filler(r)
    return out


def needs_newline(part):
    """a part ending inside a line comment must be closed before the separator"""
    last = part.rsplit("\n", 1)[-1]
    return "--" in last or "#" in last


def make_case(seed, index, corpus, with_invalid=False):
    r = Rng(seed * 0x9E3779B97F4A7C15 + index * 0xD1B54A32D192ED03 + 1)
    invalid = with_invalid and index % 5 == 4
    if index % 97 == 96:
        k = 101 + r.below(60)
        parts = [r.pick(SHORT) for _ in range(k)]
    else:
        k = 1 + r.below(6)
        parts = []
        for _ in range(k):
            if r.chance(1, 5):
                parts.append(r.pick(SYNTHETIC))
            else:
                parts.append(r.pick(corpus))
    if invalid:
        for _ in range(1 + r.below(2)):
            parts.insert(r.below(len(parts) + 1), r.pick(INVALID))
    script = ""
    if r.chance(1, 3):
        script += separator(r) if r.chance(2, 3) else filler(r)
    for i, p in enumerate(parts):
        script += p
        if needs_newline(p) and not p.endswith("\n"):
            script += "\n"
        if i + 1 < len(parts):
            script += separator(r)
    t = r.below(3)
    if t == 1:
        script += filler(r)
    elif t == 2:
        script += separator(r)
    return script, ([] if invalid else parts)


KEYWORDS = ("SELECT", "WITH", "INSERT", "CREATE", "DROP", "ALTER", "TRUNCATE", "USE", "DESCRIBE", "DESC",
            "SHOW", "EXPLAIN", "SET", "OPTIMIZE", "SYSTEM", "RENAME", "EXCHANGE", "EXISTS", "DETACH",
            "ATTACH", "CHECK", "GRANT", "REVOKE", "BEGIN", "COMMIT", "ROLLBACK", "BACKUP", "RESTORE",
            "KILL", "UPDATE", "DELETE", "UNDROP", "REPLACE", "FROM", "(")


def candidates(testdata):
    import glob
    import os
    import re
    seen = set()
    for f in sorted(glob.glob(os.path.join(testdata, "*", "query.sql"))):
        try:
            with open(f, encoding="utf-8") as fh:
                text = fh.read()
        except (OSError, UnicodeDecodeError):
            continue
        for line in text.split("\n"):
            t = line.strip()
            if not t.endswith(";"):
                continue
            t = t.rstrip(";").rstrip()
            if not t or "\t" in t or "\r" in t or len(t) > 300:
                continue
            u = t.upper()
            if not u.startswith(KEYWORDS):
                continue
            if re.search(r"\bINSERT\b", u) and re.search(r"\b(FORMAT|VALUES)\b", u):
                continue
            if ";" in t or "--" in t or "/*" in t or "#" in t or t in seen:
                continue
            seen.add(t)
            sys.stdout.write(t + "\n")
    return 0


def hx(s):
    b = s.encode("utf-8")
    return b.hex() if b else "-"


def main(argv):
    if len(argv) == 3 and argv[1] == "--candidates":
        return candidates(argv[2])
    with_invalid = False
    if len(argv) == 5 and argv[4] == "--with-invalid":
        with_invalid = True
        argv = argv[:4]
    if len(argv) != 4:
        sys.stderr.write(__doc__)
        return 2
    seed, count = int(argv[1]), int(argv[2])
    with open(argv[3], encoding="utf-8") as f:
        corpus = [ln.rstrip("\r\n") for ln in f]
    corpus = [c for c in corpus if c.strip()]
    # a statement that leaves an unpaired `$tag$` opener outside its string literals (`SELECT 1 AS $alias$name$ ...`: an identifier
    # with dollar signs when alone) pairs up with another copy of itself in the same script as ONE dollar-quoted string across the
    # statements between them; the joined text is then not the sequence of these statements (like INSERT ... FORMAT payloads)
    import re as _re

    def _dollar_ok(c):
        t = _re.sub(r"'(?:[^'\\]|\\.|'')*'|`[^`]*`|\"[^\"]*\"", "", c)
        return t.count("$") % 2 == 0
    corpus = [c for c in corpus if _dollar_ok(c)]
    if not corpus:
        sys.stderr.write("gen_script_cases: empty corpus\n")
        return 2
    w = sys.stdout
    for i in range(count):
        script, parts = make_case(seed, i, corpus, with_invalid)
        w.write("\t".join([hx(script)] + [hx(p) for p in parts]) + "\n")
    return 0


if __name__ == "__main__":
    sys.exit(main(sys.argv))
