"""C16 — cancellation is honoured between statements and never fabricates a result.
Theorems: coq/Properties/C16.v over coq/Driver/DriverModel.v (ParseStatements loop with an abstract
statement parser and a cancellation oracle).
Tie: /verif/build/cancel drives the real Parse with reader-driven and poll-driven cancellation at every
point of generated multi-statement scripts and checks the outcome set the model allows."""
import os
import scriptcommon
import verif

TRUSTED = [
    "Coq 8.16.1 kernel and vm_compute; Print Assumptions of every theorem: closed under the global context",
    "hand-written model coq/Driver/DriverModel.v of Parser.ParseStatements / parseParallelWith (loop state = remaining tokens, statements, errors); the statement parser is a universally quantified parameter constrained only by progress (each call on a non-EOF token consumes >= 1 token), which is what C02 establishes for the real parser",
    "tie by the cancel harness: the model's set of allowed outcomes (prefix, first-done index, monotonicity, exact-k oracle runs) checked on the real Parse; no OCaml driver is involved",
]


def run(rep):
    st = verif.proof_stage(rep, "C16", needs_translators=["gentables", "sharedgen"])
    broken = list(st["broken"])
    broken += verif.build_topic(go_pkgs=("cancel",))
    found = False
    if not any(b["obligation"].startswith("build:") for b in broken):
        count = 400 if rep.tier == "quick" else 6000
        res = scriptcommon.run_cancel(rep, count, [], with_invalid=True)
        for (hx, what) in res["violations"][:10]:
            found = True
            rep.violation("input", "Parse under cancellation: " + what[:200], {"script_hex": hx, "what": what}, input_hex=hx)
        if res["rc"] not in (0, 1):
            broken.append({"obligation": "harness:cancel", "detail": "rc=%s %s" % (res["rc"], res["err"])})
        rep.coverage.update({
            "evaluations": res["runs"], "distinct_nontrivial": res["multi"],
            "rule": "scripts of 1-6 (every 97th: 101-160) corpus/synthetic statements with ';' in strings, identifiers and comments, every 5th with invalid parts; "
                    "per script: cancellation when byte b is requested for every b (capped at 600 points, statement boundaries +-2 always), "
                    "poll-driven cancellation at every k with Canceled and DeadlineExceeded, pre-cancelled and expired-deadline contexts; "
                    "evaluations = Parse calls; distinct_nontrivial = scripts with at least two statements",
            "samples": res["samples"], "scripts": res["scripts"], "trusted_base": TRUSTED,
        })
    verif.report_broken(rep, broken, found)
    rep.assumptions = ["progress of every statement parser call (property C02)"]


def replay(rec):
    import subprocess
    p = subprocess.run([os.path.join(verif.BUILD, "cancel"), "-v"], input=(rec["script_hex"] + "\n").encode(), stdout=subprocess.PIPE, stderr=subprocess.STDOUT)
    print(p.stdout.decode())
    return 0
