"""C14 — the result does not depend on how the reader delivers the bytes.
Theorems: coq/Properties/C14_stream.v (bufio.Reader model refines the pure byte stream for every
well-behaved chunking) and coq/Properties/C14.v (lifted to the lexer model: equal token lists).
Ties: (1) real bufio.Reader vs extracted BufioModel on operation sequences over scripted readers;
(2) parser.Parse over many chunkings of the same bytes vs strings.NewReader (statements, EXPLAIN, error)."""
import os
import readercommon
import verif

TRUSTED = [
    "Coq 8.16.1 kernel and vm_compute; Print Assumptions of every theorem: closed under the global context",
    "Stream/BufioModel.v: transcription of bufio.Reader (fill, Peek, ReadRune, readErr; size 4096, 100 empty reads) of the Go toolchain that builds /repo, validated on every run against the real bufio on generated operation sequences (extraction: ExtrOcamlBasic only)",
    "Lexer/LexerModel.v is parametric in the stream; Lexer/LexerSim.v lifts the stream simulation to the token list; the parser reads nothing but tokens (generated inventory Gen/ReaderUse.v)",
]


def run(rep):
    st = verif.proof_stage(rep, "C14", needs_translators=["gentables", "readeruse", "sharedgen"])
    broken = list(st["broken"])
    broken += verif.build_topic(go_pkgs=("readers", "bufioops"), drivers=(("bufio", "bufio_ex"),))
    found = False
    if not any(b["obligation"].startswith("build:") for b in broken):
        quick = rep.tier == "quick"
        res = readercommon.run_readers(rep, "chunk", 400 if quick else 6000, 120 if quick else 400)
        for (hx, what) in res["violations"][:10]:
            found = True
            rep.violation("input", "Parse differs under chunking: " + what[:200], {"input_hex": hx, "what": what}, input_hex=hx)
        if res["rc"] != 0:
            broken.append({"obligation": "harness:readers", "detail": "rc=%s %s" % (res["rc"], res["err"])})
        bm = readercommon.run_bufio_model(rep, 480 if quick else 12000, "clean")
        if bm["mismatches"] or any(bm["rc"]):
            broken.append({"obligation": "correspondence:bufio.Reader~BufioModel", "detail": "%d of %d op-sequence cases differ; %s %s" % (bm["mismatches"], bm["cases"], bm["first"], bm["err"])})
        rep.coverage.update({
            "evaluations": res["runs"] + bm["cases"], "distinct_nontrivial": res["inputs"],
            "rule": "inputs: corpus statements and scripts (1-40 statements), long inputs crossing the 4096/8192 bufio boundaries, dollar-quoted strings, multi-byte runes, NUL, invalid UTF-8; "
                    "per input: one-byte, halving, data-with-EOF readers, one chunk boundary at every offset (capped), random chunk sizes with empty reads; compared: statement count, EXPLAIN of every statement, error text; "
                    "plus bufio.Reader vs BufioModel on generated Peek/ReadRune sequences; distinct_nontrivial = distinct inputs",
            "samples": res["samples"], "input_distribution": res["dist"], "bufio_model_cases": bm["cases"], "bufio_model_mismatches": bm["mismatches"],
            "trusted_base": TRUSTED,
        })
    verif.report_broken(rep, broken, found)
    rep.assumptions = ["readers that return (0, nil) a hundred times in a row make bufio give up with io.ErrNoProgress; such readers are outside the property (well_behaved)"]


def replay(rec):
    import subprocess
    p = subprocess.run([os.path.join(verif.BUILD, "readers"), "-mode", "chunk"], input=(rec["input_hex"] + "\n").encode(), stdout=subprocess.PIPE)
    print(p.stdout.decode())
    return 0
