#!/usr/bin/env python3
"""Case generator / runner for the SELECT-core correspondence (C17-F2, C01 / C03 fragment layer):

       real code   /verif/build/selectdump        (parser.Parse + parser.Explain, under recover)
   vs  model       /verif/build/selectcore_driver (extracted LexerModel.tokenize ->
                                                   SelectParseModel.parse_script -> SelectPrintModel.print_script)

usage: gen_selectcore_cases.py <seed> <count> [--run] [--keep PATH] [--no-build]

Without --run: one case per line on stdout:  <hex sql> TAB <stream>
With --run   : builds both sides (unless --no-build), runs them on the cases, compares line by
               line and prints one summary line per stream
                   stream=<name> total=.. in_fragment=.. hit_rate=.. agree=.. disagree=..
                   accepted=.. rejected=..
               A case DISAGREES when the model is inside its fragment (status not OOF:...) and
               either the status (ok / err:<n> / PANIC) or, for ok, the EXPLAIN text differs.
               A model PANIC / FUEL / LEXFUEL is a disagreement unless the code panics too.
               Exit status 1 on any disagreement (the first 20 are printed with their SQL).

Streams (every random choice derives from <seed> through splitmix64, the stream and the case
index, so a case replays alone):

 c17        EXHAUSTIVE: for every keyword of the CURRENT /repo/token/token.go x the three naming
            positions  SELECT t.<sp> FROM t | SELECT 1 AS <sp> | SELECT 1 FROM t AS <sp>
            x spelling in {UPPER, lower, MiXeD, random case}.   (#keywords x 12 cases; <count> ignored)
 c17ctx     <count>/4 grammar-generated statements in which EVERY name after a dot, every column
            alias after AS and every table alias after AS is a keyword spelling in random case.
 clauses    EXHAUSTIVE over the 2^7 subsets of {DISTINCT, FROM, WHERE, GROUP BY, HAVING, ORDER BY,
            LIMIT} x LIMIT form {n | n OFFSET m | n, m}, random content, plus the same inside a
            subquery and behind UNION ALL.                                      (<count> ignored)
 valid      <count> grammar-generated statements of the fragment: UNION chains, parenthesised
            first operands, subqueries nested to depth 3 (expression and FROM position), dotted
            names, function calls, aliases (AS / implicit / keyword spellings) in every position.
 ends       EXHAUSTIVE: every keyword as the last word of a select list / alias position / ORDER BY / GROUP BY list / table
            alias / dotted name, followed by nothing, `;`, `;;`, `; SELECT 1`, a closing parenthesis (two embeddings) or UNION ALL.
 malformed  about 2*<count> token-level mutants of `valid`-style statements: truncation after
            EVERY token of the first <count>/20 base statements, and delete / duplicate / swap /
            replace-by-stray / insert-stray (pool of ~110 spellings) / drop one parenthesis /
            add one parenthesis at random positions.
"""
import os
import re
import subprocess
import sys

ROOT = "/verif"
REPO = "/repo"
MASK = (1 << 64) - 1


def mix(z):
    z = (z + 0x9E3779B97F4A7C15) & MASK
    z = ((z ^ (z >> 30)) * 0xBF58476D1CE4E5B9) & MASK
    z = ((z ^ (z >> 27)) * 0x94D049BB133111EB) & MASK
    return z ^ (z >> 31)


class Rng:
    def __init__(self, *keys):
        s = 0x9E3779B97F4A7C15
        for k in keys:
            if isinstance(k, str):
                for ch in k.encode():
                    s = mix((s ^ ch) & MASK)
            else:
                s = mix((s ^ (k & MASK)) & MASK)
        self.s = s

    def next(self):
        self.s = (self.s + 0x9E3779B97F4A7C15) & MASK
        return mix(self.s)

    def below(self, n):
        return self.next() % n

    def chance(self, num, den):
        return self.below(den) < num

    def choice(self, xs):
        return xs[self.below(len(xs))]


# ----------------------------------------------------------------------------------------------
# the current keyword table
# ----------------------------------------------------------------------------------------------

def keywords():
    """[(constant name, spelling)] for keyword_beg < k < keyword_end of /repo/token/token.go."""
    src = open(os.path.join(REPO, "token", "token.go")).read()
    src_nc = re.sub(r"//[^\n]*", "", src)
    m = re.search(r"\bkeyword_beg\b(.*?)\bkeyword_end\b", src_nc, re.S)
    names = re.findall(r"\b([A-Za-z_][A-Za-z0-9_]*)\b", m.group(1))
    table = dict(re.findall(r"^\s*([A-Za-z_][A-Za-z0-9_]*)\s*:\s*\"((?:[^\"\\]|\\.)*)\"\s*,", src_nc, re.M))
    out = []
    for n in names:
        sp = table.get(n, "")
        if sp:
            out.append((n, sp))
    return out


def spell(rng, sp, how):
    if how == 0:
        return sp.upper()
    if how == 1:
        return sp.lower()
    if how == 2:
        return "".join(c.upper() if i % 2 == 0 else c.lower() for i, c in enumerate(sp))
    while True:
        s = "".join(c.upper() if rng.below(2) else c.lower() for c in sp)
        if len(sp) < 2 or (s != sp.upper() and s != sp.lower()) or not any(c.isalpha() for c in sp):
            return s


# ----------------------------------------------------------------------------------------------
# grammar
# ----------------------------------------------------------------------------------------------

IDENTS = ["a", "b", "c", "x", "y", "z", "t", "u", "col1", "tbl", "db", "n_1", "Abc", "k"]
FUNCS = ["f", "g", "count", "sum", "toString", "plus", "if_", "coalesce", "lower", "any", "allow"]
SPECIAL_FUNCS = ["position", "dateDiff", "ltrim", "view", "date_add", "kql"]
IMPLICIT_OK = IDENTS + ["KEY", "index", "View", "database", "TABLE", "sync"]
# words parseImplicitAlias refuses (window frame words, INTERSECT) and keywords it does not accept
IMPLICIT_REFUSED = ["rows", "Range", "GROUPS", "unbounded", "preceding", "following", "current",
                    "intersect", "first", "final", "parallel"]
BINOPS = ["+", "-", "*", "/", "%", "=", "==", "!=", "<>", "<", ">", "<=", ">=", "<=>", "AND", "OR",
          "and", "||", "DIV", "mod"]


class Gen:
    def __init__(self, rng, kws, kwnames=False):
        self.r = rng
        self.kws = kws
        self.kwnames = kwnames      # every name position uses a keyword spelling

    def kw(self):
        return spell(self.r, self.r.choice(self.kws)[1], self.r.below(4))

    def ident(self):
        return self.r.choice(IDENTS)

    def name_after_dot(self):
        if self.kwnames or self.r.chance(1, 3):
            return self.kw()
        return self.ident()

    def alias_after_as(self):
        if self.kwnames or self.r.chance(1, 3):
            return self.kw()
        if self.r.chance(1, 12):
            return self.r.choice(['"q a"', "`b'q`", '"x\\\\y"'])
        return self.ident()

    def dotted(self):
        parts = [self.ident()]
        for _ in range(1 + self.r.below(2)):
            parts += [".", self.name_after_dot()]
        return parts

    def literal(self):
        k = self.r.below(8)
        if k < 3:
            return [str(self.r.choice([0, 1, 2, 7, 42, 1000, 9223372036854775807, 9223372036854775808,
                                       18446744073709551615]))]
        if k < 5:
            return [self.r.choice(["'s'", "''", "'it''s'", "'a\\\\b'", "'x y'", "'\\n'"])]
        return [self.r.choice(["NULL", "null", "true", "FALSE"])]

    def expr(self, depth):
        r = self.r
        if depth <= 0:
            k = r.below(6)
            if k < 2:
                return [self.ident()]
            if k < 4:
                return self.dotted() if (self.kwnames or k == 2) else self.literal()
            return self.literal()
        k = r.below(20)
        if k < 3:
            return [self.ident()]
        if k < 6:
            return self.dotted()
        if k < 8:
            return self.literal()
        if k < 11:
            op = r.choice(BINOPS)
            return self.expr(depth - 1) + [op] + self.expr(depth - 1)
        if k < 13:
            name = r.choice(FUNCS) if not r.chance(1, 15) else r.choice(SPECIAL_FUNCS)
            fn = [name] if r.chance(3, 4) else [self.ident(), ".", name]
            args = []
            for i in range(r.below(4)):
                if i:
                    args.append(",")
                a = self.expr(depth - 1)
                if r.chance(1, 6):
                    a = a + ["AS", self.alias_after_as()]
                args += a
            if not args and r.chance(1, 4):
                args = ["*"]
            return fn + ["("] + args + [")"]
        if k < 15:
            return ["("] + self.expr(depth - 1) + [")"]
        if k < 16:
            return ["-"] + self.expr(depth - 1)
        if k < 17:
            return [r.choice(["NOT", "not"])] + self.expr(depth - 1)
        if k < 18:
            return ["("] + self.union(depth - 1, sub=True) + [")"]
        if k < 19:
            return ["+"] + self.expr(depth - 1)
        return ["("] + self.expr(depth - 1) + ["AS", self.alias_after_as(), ")"]

    def column(self, depth):
        r = self.r
        k = r.below(12)
        if k == 0:
            return ["*"]
        if k == 1:
            return [self.ident(), ".", "*"]
        e = self.expr(depth)
        a = r.below(6)
        if a < 2 or (self.kwnames and a < 4):
            return e + ["AS", self.alias_after_as()]
        if a == 2 and not self.kwnames:
            return e + [r.choice(IMPLICIT_OK) if not r.chance(1, 8) else r.choice(IMPLICIT_REFUSED)]
        return e

    def exprlist(self, depth, col=False):
        out = []
        for i in range(1 + self.r.below(3)):
            if i:
                out.append(",")
            out += self.column(depth) if col else self.expr(depth)
        return out

    def tableref(self, depth):
        r = self.r
        if depth > 0 and r.chance(1, 4):
            t = ["("] + self.union(depth - 1, sub=True) + [")"]
        elif r.chance(1, 4):
            t = [self.ident(), ".", self.name_after_dot()]
        else:
            t = [self.ident()] if r.chance(4, 5) else [self.kw()]
        a = r.below(5)
        if a < 2 or self.kwnames:
            t += ["AS", self.alias_after_as()]
        elif a == 2:
            t += [self.ident()]
        return t

    def limit(self, form=None):
        r = self.r
        form = r.below(3) if form is None else form
        n, m = str(r.choice([0, 1, 10, 100])), str(r.choice([0, 1, 5]))
        if form == 0:
            return ["LIMIT", n]
        if form == 1:
            return ["LIMIT", n, "OFFSET", m] + (["ROWS"] if r.chance(1, 8) else [])
        return ["LIMIT", m, ",", n]

    def select(self, depth, mask=None, limit_form=None):
        r = self.r
        if mask is None:
            mask = r.below(128)
        out = [r.choice(["SELECT", "select", "Select"])]
        if mask & 1:
            out.append(r.choice(["DISTINCT", "distinct", "ALL"]))
        out += self.exprlist(depth, col=True)
        if mask & 2:
            out += ["FROM"] + self.tableref(depth)
        if mask & 4:
            out += ["WHERE"] + self.expr(depth)
        if mask & 8:
            out += ["GROUP", "BY"] + self.exprlist(max(depth - 1, 0))
        if mask & 16:
            out += ["HAVING"] + self.expr(depth)
        if mask & 32:
            out += ["ORDER", "BY"]
            for i in range(1 + r.below(3)):
                if i:
                    out.append(",")
                out += self.expr(max(depth - 1, 0))
                d = r.below(4)
                if d < 2:
                    out.append(["ASC", "DESC"][d])
        if mask & 64:
            out += self.limit(limit_form)
        return out

    def union(self, depth, sub=False):
        r = self.r
        n = 1 if r.chance(3, 5) else 2 + r.below(2)
        first = self.select(depth, mask=(r.below(128) & (0x7F if not sub else 0x67)))
        if r.chance(1, 10):
            first = ["("] + first + [")"]
        out = first
        mode = r.choice([["ALL"], ["ALL"], ["DISTINCT"], []])
        for _ in range(n - 1):
            if r.chance(1, 8):
                mode = r.choice([["ALL"], ["DISTINCT"], []])
            out += [r.choice(["UNION", "union"])] + mode + self.select(max(depth - 1, 0), mask=r.below(128) & 0x07)
        return out

    def statement(self, depth):
        r = self.r
        u = self.union(depth)
        k = r.below(12)
        if k == 0:
            u = ["("] + u + [")"]
        elif k == 1:
            u = ["("] + u + [")", "UNION", "ALL"] + self.select(1, mask=0)
        if r.chance(1, 10):
            u += [";"]
        if r.chance(1, 25):
            u += [";"] + self.select(1, mask=r.below(8))
        return u


GLUE_BEFORE = {".", ",", ")", ";", "("}
GLUE_AFTER = {".", "("}


def render(toks, rng):
    """Join tokens by single spaces; with probability 1/2 drop the optional spaces around . , ( ) ;"""
    tight = rng.below(2) == 1
    out = []
    for i, t in enumerate(toks):
        if i and not (tight and (t in GLUE_BEFORE and toks[i - 1] not in ("-", "+") or toks[i - 1] in GLUE_AFTER)):
            out.append(" ")
        # never glue "(" to a preceding word: `f (` and `f(` are the same tokens, but `- -` vs `--` are not
        out.append(t)
    s = "".join(out)
    return s


STRAY = ["SELECT", "FROM", "WHERE", "GROUP", "BY", "HAVING", "ORDER", "LIMIT", "OFFSET", "UNION", "ALL",
         "DISTINCT", "AS", "AND", "OR", "NOT", "IN", "LIKE", "ILIKE", "BETWEEN", "IS", "NULL", "TRUE", "FALSE",
         "CASE", "WHEN", "THEN", "ELSE", "END", "CAST", "JOIN", "LEFT", "INNER", "ON", "USING", "WITH",
         "TOTALS", "ROLLUP", "CUBE", "SETTINGS", "FORMAT", "INTO", "OUTFILE", "EXCEPT", "INTERSECT", "ARRAY",
         "FINAL", "SAMPLE", "PREWHERE", "WINDOW", "QUALIFY", "INTERVAL", "EXISTS", "ASC", "DESC", "NULLS",
         "FIRST", "LAST", "COLLATE", "TOP", "KEY", "INDEX", "VIEW", "TABLE", "DATABASE", "SYNC", "PARALLEL",
         "IF", "COLUMNS", "INF", "NAN", "EXTRACT", "SUBSTRING", "TRIM", "GLOBAL", "ANY", "APPLY", "REPLACE",
         "TIES", "FETCH", "GROUPING", "SETS", "INSERT", "rows", "range", "current", "intersect", "filter",
         "ignore", "recursive", "row",
         "(", ")", "[", "]", "{x:UInt8}", "}", ",", ".", ";", ":", "?", "+", "-", "*", "/", "%", "=", "==",
         "!=", "<>", "<", ">", "<=", ">=", "<=>", "||", "->", "::", "^", "1", "0", "42", "1.5", ".5", "1e3",
         "'str'", "''", '"qid"', "`bq`", "x", "y", "t", "@@v", "$$d$$", "0x1F"]


def mutate(rng, toks):
    n = len(toks)
    k = rng.below(8)
    t = list(toks)
    if n == 0:
        return [rng.choice(STRAY)]
    i = rng.below(n)
    if k == 0:
        del t[i]
    elif k == 1:
        t.insert(i, t[i])
    elif k == 2 and n > 1:
        j = i if i + 1 < n else i - 1
        t[j], t[j + 1] = t[j + 1], t[j]
    elif k == 3:
        t[i] = rng.choice(STRAY)
    elif k == 4:
        t.insert(rng.below(n + 1), rng.choice(STRAY))
    elif k == 5:
        ps = [j for j, x in enumerate(t) if x in ("(", ")")]
        if ps:
            del t[rng.choice(ps)]
        else:
            t.insert(rng.below(n + 1), "(")
    elif k == 6:
        t.insert(rng.below(n + 1), rng.choice(["(", ")"]))
    else:
        t = t[:i] + [rng.choice(STRAY), rng.choice(STRAY)] + t[i:]
    return t


def hx(s):
    b = s.encode("utf-8", "surrogateescape")
    return b.hex() if b else "-"


def all_cases(seed, count):
    kws = keywords()
    cases = []
    # c17: exhaustive
    for ki, (name, sp) in enumerate(kws):
        for how in range(4):
            s = spell(Rng(seed, "c17", ki, how), sp, how)
            cases.append(("c17", "SELECT t." + s + " FROM t"))
            cases.append(("c17", "SELECT 1 AS " + s))
            cases.append(("c17", "SELECT 1 FROM t AS " + s))
    # c17ctx
    for i in range(max(count // 4, 1)):
        rng = Rng(seed, "c17ctx", i)
        g = Gen(rng, kws, kwnames=True)
        cases.append(("c17ctx", render(g.statement(1 + rng.below(3)), rng)))
    # clauses: exhaustive subsets
    for mask in range(128):
        for form in range(3):
            if not (mask & 64) and form:
                continue
            for ctx in range(3):
                rng = Rng(seed, "clauses", mask, form, ctx)
                g = Gen(rng, kws)
                sel = g.select(1, mask=mask, limit_form=form)
                if ctx == 1:
                    sel = ["SELECT", "(", *sel, ")", "AS", "s", "FROM", "(", *g.select(1, mask=mask, limit_form=form), ")", "q"]
                elif ctx == 2:
                    sel = g.select(0, mask=0) + ["UNION", "ALL"] + sel
                cases.append(("clauses", render(sel, rng)))
    # ends: EXHAUSTIVE over keyword x list position x what follows.  A word at the end of a list (after a comma, as an implicit alias,
    # after AS, as the last ORDER BY / GROUP BY element) is read by looking at the NEXT token: end of input, `;`, `)` and the start of
    # another clause must all be treated as the same "nothing follows" (C05 semicolon clause, C06 delimiter respect, C07 embedding)
    pres = [["SELECT", "a", ","], ["SELECT", "a"], ["SELECT", "a", "AS"], ["SELECT", "a", "FROM", "t", "ORDER", "BY", "a", ","],
            ["SELECT", "a", "FROM", "t", "GROUP", "BY", "a", ","], ["SELECT", "a", "FROM", "t"], ["SELECT", "t", "."]]
    for _kn, kw in kws:
        for pi, pre in enumerate(pres):
            rng = Rng(seed, "ends", kw, pi)
            word = kw if rng.below(2) else kw.lower()
            body = pre + [word]
            for term in ([], [";"], [";", ";"], [";", "SELECT", "1"]):
                cases.append(("ends", render(body + term, rng)))
            cases.append(("ends", render(["("] + body + [")"], rng)))
            cases.append(("ends", render(["SELECT", "*", "FROM", "("] + body + [")"], rng)))
            cases.append(("ends", render(body + ["UNION", "ALL", "SELECT", "1"], rng)))
    # valid
    bases = []
    for i in range(count):
        rng = Rng(seed, "valid", i)
        g = Gen(rng, kws)
        toks = g.statement(rng.below(4))
        bases.append(toks)
        cases.append(("valid", render(toks, rng)))
    # malformed
    ntrunc = max(count // 20, 1)
    for i in range(min(ntrunc, len(bases))):
        toks = bases[i]
        rng = Rng(seed, "trunc", i)
        for j in range(len(toks)):
            cases.append(("malformed", render(toks[:j], rng)))
    for i in range(2 * count):
        rng = Rng(seed, "mut", i)
        g = Gen(rng, kws)
        toks = g.statement(rng.below(3))
        for _ in range(1 + rng.below(2)):
            toks = mutate(rng, toks)
        cases.append(("malformed", render(toks, rng)))
    return cases


# ----------------------------------------------------------------------------------------------
# running
# ----------------------------------------------------------------------------------------------

def build():
    sys.path.insert(0, os.path.join(ROOT, "lib"))
    import verif
    with verif.Lock():
        res = verif.build_go(("selectdump",))
        rc, out = res["selectdump"]
        if rc != 0:
            sys.stderr.write(out)
            return False
        for rel in ("Select/SelectParseModel.v", "Select/SelectPrintModel.v"):
            if not verif.vo_ok(rel):
                rc, out = verif.sh(["coqc", "-Q", ".", "DC", "-w", "-abstract-large-number", rel], cwd=verif.COQ, timeout=900)
                if rc != 0:
                    sys.stderr.write(out)
                    return False
        rc, out = verif.build_driver("selectcore", "selectcore_ex")
        if rc != 0:
            sys.stderr.write(out)
            return False
    return True


def run_tool(argv, data):
    p = subprocess.run(argv, input=data, stdout=subprocess.PIPE, stderr=subprocess.PIPE, check=False)
    if p.returncode != 0:
        sys.stderr.write("tool failed: %s\n%s\n" % (" ".join(argv), p.stderr.decode(errors="replace")[:2000]))
        sys.exit(2)
    return p.stdout.decode().split("\n")


def main():
    args = [a for a in sys.argv[1:] if not a.startswith("--")]
    if len(args) < 2:
        sys.stderr.write(__doc__)
        sys.exit(2)
    seed, count = int(args[0]), int(args[1])
    keep = None
    if "--keep" in sys.argv:
        keep = sys.argv[sys.argv.index("--keep") + 1]
        args = [a for a in args if a != keep]
    cases = all_cases(seed, count)
    if "--run" not in sys.argv:
        out = sys.stdout
        for stream, sql in cases:
            out.write("%s\t%s\n" % (hx(sql), stream))
        return
    if "--no-build" not in sys.argv and not build():
        sys.exit(2)
    data = "".join("%s\t%s\n" % (hx(sql), stream) for stream, sql in cases).encode()
    if keep:
        open(keep, "wb").write(data)
    code = run_tool([os.path.join(ROOT, "build", "selectdump")], data)
    model = run_tool([os.path.join(ROOT, "build", "selectcore_driver")], data)
    stats = {}
    bad = []
    oof_reasons = {}
    for i, (stream, sql) in enumerate(cases):
        st = stats.setdefault(stream, dict(total=0, inf=0, agree=0, dis=0, acc=0, rej=0, panic=0))
        st["total"] += 1
        c = code[i].split("\t") if i < len(code) else ["", "MISSING", "-"]
        m = model[i].split("\t") if i < len(model) else ["", "MISSING", "-"]
        if len(c) < 3:
            c = (c + ["MISSING", "-"])[:3]
        if len(m) < 3:
            m = (m + ["MISSING", "-"])[:3]
        if m[1].startswith("OOF:"):
            oof_reasons[m[1]] = oof_reasons.get(m[1], 0) + 1
            continue
        st["inf"] += 1
        if c[1] == "ok":
            st["acc"] += 1
        elif c[1] == "PANIC":
            st["panic"] += 1
        else:
            st["rej"] += 1
        same = (c[1] == m[1] and c[2] == m[2]) or (c[1] == "PANIC" and m[1].startswith("PANIC:"))
        if same:
            st["agree"] += 1
        else:
            st["dis"] += 1
            bad.append((stream, sql, c, m))
    total_dis = 0
    for stream in ("c17", "c17ctx", "clauses", "ends", "valid", "malformed"):
        st = stats.get(stream)
        if not st:
            continue
        total_dis += st["dis"]
        print("stream=%s total=%d in_fragment=%d hit_rate=%.3f agree=%d disagree=%d accepted=%d rejected=%d code_panics=%d"
              % (stream, st["total"], st["inf"], st["inf"] / max(st["total"], 1), st["agree"], st["dis"],
                 st["acc"], st["rej"], st["panic"]))
    top = sorted(oof_reasons.items(), key=lambda kv: -kv[1])[:12]
    print("out_of_fragment_reasons " + " ".join("%s=%d" % (k[4:], v) for k, v in top))
    for stream, sql, c, m in bad[:20]:
        print("DISAGREE stream=%s sql=%r code=%s model=%s" % (stream, sql, c[1], m[1]))
        if c[1] == "ok" and m[1] == "ok":
            a = bytes.fromhex(c[2]).decode(errors="replace") if c[2] != "-" else ""
            b = bytes.fromhex(m[2]).decode(errors="replace") if m[2] != "-" else ""
            print("--- code\n%s--- model\n%s" % (a, b))
    sys.exit(1 if total_dis else 0)


if __name__ == "__main__":
    main()
