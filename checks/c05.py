"""C05 — layout does not matter: whitespace, comments, keyword case, trailing semicolons.
Theorems: coq/Properties/C05.v — lexer: inserting/removing/replacing separators (all whitespace runes, --/# line comments,
nested /* */ comments) at a token boundary leaves the non-comment token kinds and values unchanged (general form under a
lexer-computed boundary condition; unconditional for the covered token classes), keyword case never changes the token kind,
the lexer never looks at positions; parser/printer: a generated inventory (Gen/PosReads.v) of every read of a token position
and every comparison of a raw token value in parser and internal/explain — position reads only copy into nodes, format error
messages, guard progress or detect spacing inside ::-operand literals (allow-listed = the property's stated exception), and no
case-sensitive comparison against a keyword-like constant — with a small abstract-machine theorem that such a program cannot
distinguish sig-equal token lists; semicolons: Properties/C06_driver.v (C05_driver_*).
Ties: translator posreadgen; lexer correspondence (C12); metamorphic re-layout of every corpus statement on the implementation."""
import os
import verif

TRUSTED = [
    "Coq 8.16.1 kernel and vm_compute; Print Assumptions of every theorem: closed under the global context",
    "translator/cmd/posreadgen: its soundness claim (every way the Go code can observe a position or a raw token value is in the inventory; not covered: reflect, unsafe, raw values stored in AST fields and read back, code outside parser / internal/explain / ast) is trusted",
    "lexer model validated by the C12 correspondence; the `lays` grammar of the unconditional lexer theorems covers identifiers/keywords, unsigned integers and simple decimals, simple quoted tokens and 31 operator spellings — other token classes only under the lexer-computed boundary condition (partial)",
    "open caveat: the EOF token repeats the position of a one-rune final token, so a progress guard evaluated at EOF can depend on trailing whitespace (hypothesis pos_inj of the abstract-machine theorem); covered by the metamorphic run only",
]


def run(rep):
    st = verif.proof_stage(rep, "C05", needs_translators=["gentables", "posreadgen"])
    broken = list(st["broken"])
    broken += verif.build_topic(go_pkgs=("relayout",))
    found = False
    if not any(b["obligation"].startswith("build:") for b in broken):
        corpus = os.path.join(verif.ROOT, "corpus", "statements.txt")
        n = 2500 if rep.tier == "quick" else 0
        src = corpus
        if n:
            src = os.path.join(verif.BUILD, "relayout_in.txt")
            lines = open(corpus, encoding="utf-8", errors="surrogateescape").read().splitlines()
            step = max(1, len(lines) // n)
            off = rep.seed % step
            with open(src, "w", encoding="utf-8", errors="surrogateescape") as f:
                f.write("\n".join(lines[off::step]) + "\n")
        # plus statements of the verification grammar (the property quantifies over corpus + grammar)
        ng = 1500 if rep.tier == "quick" else 40000
        rcg, outg = verif.sh(["python3", os.path.join(verif.ROOT, "checks", "gen_sql_grammar.py"), str(rep.seed), str(ng), "--gaps"], timeout=1200)
        if rcg == 0 and outg.strip():
            merged = os.path.join(verif.BUILD, "relayout_in_all.txt")
            with open(merged, "w", encoding="utf-8", errors="surrogateescape") as f:
                f.write(open(src, encoding="utf-8", errors="surrogateescape").read().rstrip("\n") + "\n" + outg.rstrip("\n") + "\n")
            src = merged
        else:
            broken.append({"obligation": "harness:gen_sql_grammar", "detail": outg[-400:]})
        # ... and the "ends" statements of the SELECT-core correspondence: every keyword as the last word of a list / alias position,
        # where the parser decides by looking at what FOLLOWS (end of input, `;`, `)`): trailing semicolons must not matter
        rce, oute = verif.sh(["python3", os.path.join(verif.ROOT, "checks", "gen_selectcore_cases.py"), str(rep.seed), "1"], timeout=600)
        if rce == 0:
            ends = []
            for l in oute.splitlines():
                hp = l.split("\t")
                if len(hp) == 2 and hp[1] == "ends":
                    t = bytes.fromhex(hp[0]).decode("utf-8", "replace")
                    if ";" not in t and "\n" not in t:
                        ends.append(t)
            with open(src, "a", encoding="utf-8", errors="surrogateescape") as f:
                f.write("\n".join(ends) + "\n")
        outp = os.path.join(verif.BUILD, "relayout_out.txt")
        k = "8" if rep.tier == "quick" else "24"
        rc, err = verif.parallel_map_files([os.path.join(verif.BUILD, "relayout"), "-seed", str(rep.seed), "-k", k, "-soft"], src, outp, timeout=3000)
        ok = bad = variants = 0
        samples = []
        for line in open(outp, encoding="utf-8", errors="replace"):
            p = line.split()
            if line.startswith("ok"):
                ok += 1
                try:
                    variants += int(p[-1])
                except ValueError:
                    pass
            elif line.startswith("BAD"):
                bad += 1
                if bad <= 8:
                    found = True
                    rep.violation("input", "re-layout changes EXPLAIN: " + line[:300], {"detail": line[:3000], "input_hex": p[1] if len(p) > 1 else ""},
                                  input_hex=(p[1] if len(p) > 1 else line[:64]))
            if len(samples) < 4 and ok % 701 == 5:
                samples.append(line.strip()[:100])
        if rc != 0:
            broken.append({"obligation": "harness:relayout", "detail": err[-500:]})
        rep.coverage.update({
            "evaluations": variants, "distinct_nontrivial": ok + bad,
            "rule": "corpus statements (quick: every n-th, about 2500; thorough: all 9.7k) and statements of the verification grammar (1500 / 40000) x K variants: every gap replaced by a random separator (spaces, tabs, newlines, Unicode spaces, -- / # / nested block comments), empty gaps filled when re-lexing shows the pair is safe, every keyword token case-flipped (not when the word reaches the output as a name), IDENT tokens that act as contextual keywords (interval units, SQL_TSI_*, ROWS/RANGE, TIES ...: spelled like an identifier, not echoed by EXPLAIN at the start of a word) case-flipped as well, "
                    "leading/trailing/doubled semicolons; interiors of array/tuple literals under '::' untouched; EXPLAIN of every variant compared with the baseline; distinct_nontrivial = statements re-laid-out",
            "samples": samples or ["ok"], "statements": ok + bad, "bad": bad, "trusted_base": TRUSTED,
        })
    # the layout theorems are stated over Lexer/LexerModel.v: tie that model to the CURRENT lexer.go (a difference is a broken correspondence)
    import lexcommon
    lexcommon.lexer_premise(rep, broken, ())
    # C05_fragment_* are stated over Select/SelectParseModel.v + SelectPrintModel.v: tie them to the CURRENT parser and printer
    import searchcommon
    b2, summ = searchcommon.run_selectcore(rep, 1500 if rep.tier == "quick" else 20000)
    broken += b2
    rep.coverage["selectcore_correspondence"] = summ
    verif.report_broken(rep, broken, found)
    rep.assumptions = ["whitespace is the lexer's own notion (unicode.IsSpace + six ClickHouse code points); a re-layout keeps token boundaries"]


def replay(rec):
    print(rec.get("detail", rec))
    return 0
