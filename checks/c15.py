"""C15 — a failing reader is reported, not mistaken for end of input.
Theorems: coq/Properties/C15_stream.v (the first non-EOF error any Read returned is tracked, for every script and
every operation sequence) and coq/Properties/C15.v (lifted to the lexer run and the ParseStatements model).
Ties: bufio.Reader + errorTrackingReader vs extracted model on scripts with Err/DataErr chunks; parser.Parse over
readers failing at every offset with several error kinds (errors.Is must hold)."""
import os
import readercommon
import verif

TRUSTED = [
    "Coq 8.16.1 kernel and vm_compute; Print Assumptions of every theorem: closed under the global context",
    "Stream/BufioModel.v incl. the errorTrackingReader wrapper of lexer.New (field `tracked`), validated against the real bufio + a verbatim copy of the wrapper on scripts with Err/DataErr chunks",
    "Driver/DriverModel.v: ParseStatements returns the read error (tested first in `finish`) when Lexer.Err() is non-nil",
]


def run(rep):
    st = verif.proof_stage(rep, "C15", needs_translators=["gentables", "readeruse", "sharedgen"])
    broken = list(st["broken"])
    broken += verif.build_topic(go_pkgs=("readers", "bufioops"), drivers=(("bufio", "bufio_ex"),))
    found = False
    if not any(b["obligation"].startswith("build:") for b in broken):
        quick = rep.tier == "quick"
        res = readercommon.run_readers(rep, "fail", 250 if quick else 4000, 60 if quick else 300)
        for (hx, what) in res["violations"][:10]:
            found = True
            rep.violation("input", "failing reader not reported: " + what[:200], {"input_hex": hx, "what": what}, input_hex=hx)
        if res["rc"] != 0:
            broken.append({"obligation": "harness:readers", "detail": "rc=%s %s" % (res["rc"], res["err"])})
        bm = readercommon.run_bufio_model(rep, 480 if quick else 12000, "err")
        if bm["mismatches"] or any(bm["rc"]):
            broken.append({"obligation": "correspondence:bufio.Reader+errorTrackingReader~BufioModel", "detail": "%d of %d op-sequence cases differ; %s %s" % (bm["mismatches"], bm["cases"], bm["first"], bm["err"])})
        rep.coverage.update({
            "evaluations": res["runs"] + bm["cases"], "distinct_nontrivial": res["inputs"],
            "rule": "inputs as for C14; per input: failure at every offset k (capped; statement boundaries, quotes, multi-byte runes, 4096/8192 always) x {plain error, io.ErrUnexpectedEOF, timeout-style} x {error alone, error with data} x {persistent, transient} x reader chunk sizes; "
                    "oracle: errors.Is(Parse error, injected error) whenever the reader returned it; distinct_nontrivial = distinct inputs",
            "samples": res["samples"], "input_distribution": res["dist"], "bufio_model_cases": bm["cases"], "bufio_model_mismatches": bm["mismatches"],
            "trusted_base": TRUSTED,
        })
    verif.report_broken(rep, broken, found)
    rep.assumptions = ["'returned by the reader' means a Read call made during the parse returned it (bytes behind a NUL are never requested)"]


def replay(rec):
    import subprocess
    p = subprocess.run([os.path.join(verif.BUILD, "readers"), "-mode", "fail"], input=(rec["input_hex"] + "\n").encode(), stdout=subprocess.PIPE)
    print(p.stdout.decode())
    return 0
