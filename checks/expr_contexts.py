"""C08, context-aware part: the embedding contexts of an expression, their restriction rules and the
comparison of the subtree EXPLAIN shows inside a context with the reference tree of the spec.

The reference tree `ExprSpec.ref e` is context-independent.  For a well-formed reading e (wfx) whose
tree under `SELECT <e>` already equals the reference, every context below must show THE SAME tree at
the place where it embeds e — modulo indentation depth and modulo the ` (alias x)` annotation on the
root line where the context attaches an alias.  The extraction is done by `exprdump -contexts`
(harness/cmd/exprdump/contexts.go): the whole EXPLAIN text of the context statement has to be the
text calibrated with the sentinel identifier `zzq`, with the sentinel line replaced by the subtree.

A context is a statement template with one or more holes `{e}`.  Three kinds of entries restrict what
a context is fed with; nothing is skipped silently (every (context, expression) pair that is fed and
does not show the reference tree is reported):

  RULES       legitimate features of a context: the context gives a leading token / a literal another
              meaning.  Documented below, counted per context in the evidence.
  KNOWN_OPEN  genuine defects of /repo found by this check on the unchanged tree (the property text
              decides).  Each switch excludes exactly one (context set, shape class) while it is True;
              set it to False (or run gen_expr_cases.py with --no-known-open) to see the violation.
  DROPPED     candidate contexts that are not usable as a context at all (documented, not run).
"""

# ---------------------------------------------------------------------------------------------
# shape predicates over the generator's trees
#   ('i', name) ('n', int) ('(', e) ('NOT', word, e) ('NOTC', word, e) ('~', e) ('b', op, l, r)


def strip_parens(e):
    while e[0] == '(':
        e = e[1]
    return e


def is_literal_element(e):
    """what the printers of array / tuple literals see as a literal element: an integer literal, or a
    minus sign directly on an integer literal (possibly with parentheses around the whole)"""
    if e[0] == 'n':
        return True
    s = strip_parens(e)
    return s[0] == '~' and s[1][0] == 'n'


def is_paren_literal_element(e):
    """the same, and also a parenthesised integer literal"""
    s = strip_parens(e)
    return s[0] == 'n' or (s[0] == '~' and s[1][0] == 'n')


def is_negated_paren_literal(e):
    """- ( n ), - ( ( n ) ), ( - ( n ) ) ...: unary minus applied to a PARENTHESISED integer literal"""
    s = strip_parens(e)
    return s[0] == '~' and s[1][0] == '(' and strip_parens(s[1])[0] == 'n'


def is_minus_zero(e):
    s = strip_parens(e)
    return s[0] == '~' and s[1] == ('n', 0)


def leading_group_op(e):
    """the binary operator that directly follows the closing parenthesis of a parenthesised group the
    text of e STARTS with; None if the text does not start with "(" or the group is the whole text"""
    while e[0] == 'b':
        if e[2][0] == '(':
            return e[1]
        e = e[2]
    return None


# ---------------------------------------------------------------------------------------------
# RULES: legitimate context features (name -> (predicate "e is NOT fed", documentation))

RULES = {
    "literal-element": (
        is_literal_element,
        "[<e>] and (<e>, 1) with an integer literal or a minus-literal in the hole are array / tuple LITERALS: "
        "EXPLAIN prints one line `Literal Array_[UInt64_1]` / `Literal Tuple_(UInt64_1, UInt64_1)` and no subtree "
        "for the element (literal collection is C09 / C07 territory, not operator printing).  Not fed: e an integer "
        "literal, or (after removing outer parentheses) a minus sign directly on an integer literal.  A parenthesised "
        "literal `[(1)]` is NOT a literal element (Function array) and is fed."),
    "paren-literal-element": (
        is_paren_literal_element,
        "k IN (<e>, 1) / k NOT IN (<e>, 1) collect literal elements into `Literal Tuple_(...)`, and (<e>)::T with a "
        "literal inside prints the literal as the string argument of CAST; here also a PARENTHESISED integer literal "
        "counts as a literal element.  Not fed: e that is, after removing outer parentheses, an integer literal or a "
        "minus sign directly on an integer literal."),
}

# ---------------------------------------------------------------------------------------------
# KNOWN_OPEN: genuine defects of /repo on the unchanged tree.  name -> [enabled, predicate, documentation]
# (enabled = False: fixed in /repo since — 875b43903, a7c25edf3, ccf5c2ad5 — the exclusion is off, the text is kept as a record)

KNOWN_OPEN = {
    "alias-negate-paren-literal": [False, is_negated_paren_literal,
        "SELECT -(1) AS x   (every aliasing context: <e> AS x, (<e>) AS x, implicit alias, WITH <e> AS x, f(<e> AS x), "
        "ARRAY JOIN <e> AS x): expected `Function negate (alias x)` / ExpressionList / `Literal UInt64_1` (as printed "
        "without the alias), actual `Literal Int64_-1 (alias x)`.  explainAliasedExpr (internal/explain/expressions.go, "
        "case *ast.UnaryExpr) folds a negated literal without the `!lit.Parenthesized` test that explainUnaryExpr has.  "
        "Fix: `if lit, ok := e.Operand.(*ast.Literal); ok && !lit.Parenthesized {`."],
    "alias-minus-zero": [False, is_minus_zero,
        "SELECT -0 AS x: expected `Literal UInt64_0 (alias x)` (SELECT -0 prints `Literal UInt64_0`: explainUnaryExpr "
        "normalises -0), actual `Literal Int64_0 (alias x)`.  Same duplicated branch of explainAliasedExpr: it lacks the "
        "`val == 0` / `negVal == 0` normalisation.  Fix: print `Literal UInt64_0 (alias ...)` when the value is 0."],
    "collection-negate-paren-literal": [True, is_negated_paren_literal,
        "SELECT [-(1)] / SELECT (-(1), 1) / SELECT k IN (-(1), 1) / k NOT IN (-(1), 1) / (-(1))::UInt8: expected a "
        "Function array / tuple (CAST) whose element is `Function negate` / ExpressionList / `Literal UInt64_1` "
        "(SELECT -(1) is negate(1), and [(1)] is already a Function array), actual the folded literal "
        "`Literal Array_[Int64_-1]` / `Literal Tuple_(Int64_-1, UInt64_1)`.  The literal-element tests of the array / "
        "tuple / IN printers accept `UnaryExpr{-, Literal}` without looking at `Literal.Parenthesized`.  Fix: require "
        "`!innerLit.Parenthesized` where a negated literal is accepted as a literal element."],
    "create-orderby-group-nullsafe-eq": [False, lambda e: leading_group_op(e) == "<=>",
        "CREATE TABLE t (a UInt8) ENGINE = MergeTree ORDER BY (a) <=> b: parse error `unexpected token <=>` (expected "
        "Function isNotDistinctFrom(a, b), as after SELECT).  The ORDER BY branch of parseTableOptions continues after a "
        "parenthesised group only if isBinaryOperatorToken(p.current.Token), and that list (parser/expression.go) lacks "
        "token.NULL_SAFE_EQ.  Fix: add token.NULL_SAFE_EQ to isBinaryOperatorToken."],
    "create-orderby-group-before-as-select": [False, lambda e: leading_group_op(e) is not None,
        "CREATE TABLE t ENGINE = MergeTree ORDER BY (a) + b AS SELECT 1 (also CREATE MATERIALIZED VIEW ... ORDER BY (a) + b "
        "AS SELECT ...): parse error (expected: key plus(a, b), then the AS SELECT part; ORDER BY a + b AS SELECT 1 works).  "
        "The continuation after the group is parsed with parseExpressionFrom(expr, LOWEST), which takes the following "
        "`AS` as an alias operator; every other key position uses ALIAS_PREC.  Fix: parseExpressionFrom(expr, ALIAS_PREC)."],
    "key-group-no-continuation": [True, lambda e: leading_group_op(e) is not None,
        "CREATE TABLE t (a UInt8) ENGINE = MergeTree PRIMARY KEY (a) + b, ATTACH TABLE ... ORDER BY (a) + b / PRIMARY KEY "
        "(a) + b, ALTER TABLE t MODIFY ORDER BY (a) + b: parse error `unexpected token +` (expected key plus(a, b); "
        "ClickHouse parses these keys with its full expression parser).  These positions read `( list )` and stop; only "
        "the ORDER BY of CREATE TABLE has the continuation (`if isBinaryOperatorToken(...) { binExpr.Parenthesized = true; "
        "expr = p.parseExpressionFrom(expr, ...) }`).  Fix: the same continuation after the single-element case of "
        "PRIMARY KEY in parseTableOptions, of ORDER BY / PRIMARY KEY in parseAttach and of MODIFY ORDER BY in "
        "parseAlterCommand."],
}

# ---------------------------------------------------------------------------------------------
# DROPPED candidates (not run), with the reason

DROPPED = {
    "SELECT INTERVAL {e} DAY": "the INTERVAL operand is parsed with its own minimum precedence and a unit keyword follows; a leading NOT / operators below it are not part of the operand (the context stops early by design)",
    "SELECT TOP {e} 1": "TOP takes a multiplicative-level operand by design",
    "ALTER TABLE t UPDATE c = k IN PARTITION {e} WHERE k": "`k IN PARTITION (...)` is ambiguous with the IN operator applied to a function PARTITION(...); outside the expression language of C08",
    "KILL QUERY WHERE {e} / KILL MUTATION WHERE {e}": "the head line of the EXPLAIN text contains a rendering of the expression (`KillQueryQuery Function_equals ...`): the frame depends on e by design",
    "window PARTITION BY / ORDER BY / frame bounds, SHOW ... WHERE / LIMIT, CHECK TABLE ... PARTITION, SET a = {e}, table SETTINGS s = {e}, TTL ... SET a = {e}, * APPLY (k -> {e}), CREATE ROW POLICY ... USING {e}": "EXPLAIN does not print the expression (no hole line in the calibration)",
    "ALTER TABLE t DELETE IN PARTITION {e} WHERE k": "does not parse with an identifier as partition",
}

# ---------------------------------------------------------------------------------------------
# the contexts.  (name, tier, template, alias?, rules, known_open)
#   tier "A": the contexts named in the task — in the quick tier they see EVERY case;
#   tier "B": further positions where the parser reads / the printer prints an expression — in the
#             quick tier they see every bare shape, in a rotating quarter of its decorations (see plan()).

_AL = ("alias-negate-paren-literal", "alias-minus-zero")
_KEY = ("key-group-no-continuation",)
_CT = "CREATE TABLE t (a UInt8) ENGINE = MergeTree "

CONTEXTS = [
    # ---- tier A -------------------------------------------------------------------------------
    ("sel_as", "A", "SELECT {e} AS x", True, (), _AL),
    ("sel_paren_as", "A", "SELECT ({e}) AS x", True, (), _AL),
    # implicit alias: on the unchanged tree EVERY expression of the language takes the implicit alias
    # (no expression ends in a token that swallows the following identifier), so no restriction
    ("sel_implicit", "A", "SELECT {e} x", True, (), _AL),
    ("with_as", "A", "WITH {e} AS x SELECT x", True, (), _AL),
    ("with_paren_as", "A", "WITH ({e}) AS x SELECT x", True, (), _AL),
    ("where", "A", "SELECT 1 FROM t WHERE {e}", False, (), ()),
    # scripts: the statement with the hole is the last one; earlier statements (valid, or failing and leaving errors behind)
    ("after_valid", "A", "#last#SELECT a BETWEEN 1 AND 2 OR b, c ? 1 : 2; SELECT 2; SELECT {e}", False, (), ()),
    ("after_between_error", "A", "#last#SELECT x BETWEEN 1; SELECT {e}", False, (), ()),
    ("after_ternary_error", "A", "#last#SELECT x ? 1; SELECT 1 FROM t WHERE {e}", False, (), ()),
    ("after_paren_error", "A", "#last#SELECT (1 +; SELEC 2; SELECT {e}", False, (), ()),
    ("after_operator_error", "A", "#last#SELECT 1 +; SELECT a FROM; SELECT {e} FROM t", False, (), ()),
    ("prewhere", "A", "SELECT 1 FROM t PREWHERE {e}", False, (), ()),
    ("having", "A", "SELECT 1 FROM t GROUP BY k HAVING {e}", False, (), ()),
    ("groupby", "A", "SELECT 1 FROM t GROUP BY {e}", False, (), ()),
    ("orderby", "A", "SELECT 1 FROM t ORDER BY {e}", False, (), ()),
    ("join_on", "A", "SELECT 1 FROM t JOIN u ON {e}", False, (), ()),
    ("fn_arg", "A", "SELECT f({e})", False, (), ()),
    ("array", "A", "SELECT [{e}]", False, ("literal-element",), ("collection-negate-paren-literal",)),
    ("tuple", "A", "SELECT ({e}, 1)", False, ("literal-element",), ("collection-negate-paren-literal",)),
    ("case_when", "A", "SELECT CASE WHEN {e} THEN 1 END", False, (), ()),
    ("if_fn", "A", "SELECT if({e}, 1, 2)", False, (), ()),
    ("in_list", "A", "SELECT k IN ({e})", False, (), ()),
    ("limit", "A", "SELECT 1 LIMIT {e}", False, (), ()),
    ("alter_update_val", "A", "ALTER TABLE t UPDATE c = {e} WHERE k", False, (), ()),
    ("alter_update_where", "A", "ALTER TABLE t UPDATE c = k WHERE {e}", False, (), ()),
    ("alter_update_both", "A", "ALTER TABLE t UPDATE c = {e} WHERE {e}", False, (), ()),
    ("alter_delete", "A", "ALTER TABLE t DELETE WHERE {e}", False, (), ()),
    ("ct_orderby", "A", _CT + "ORDER BY {e}", False, (), ("create-orderby-group-nullsafe-eq",)),
    ("ct_primarykey", "A", _CT + "PRIMARY KEY {e}", False, (), _KEY),
    ("ct_partitionby", "A", _CT + "PARTITION BY {e} ORDER BY k", False, (), ()),
    ("ct_sampleby", "A", _CT + "ORDER BY k SAMPLE BY {e}", False, (), ()),
    ("ct_ttl", "A", _CT + "ORDER BY k TTL {e}", False, (), ()),
    ("col_default", "A", "CREATE TABLE t (a UInt8 DEFAULT {e}) ENGINE = Memory", False, (), ()),
    ("col_materialized", "A", "CREATE TABLE t (a UInt8 MATERIALIZED {e}) ENGINE = Memory", False, (), ()),
    ("col_alias", "A", "CREATE TABLE t (a UInt8 ALIAS {e}) ENGINE = Memory", False, (), ()),
    ("check", "A", "CREATE TABLE t (a UInt8, CONSTRAINT c CHECK {e}) ENGINE = Memory", False, (), ()),
    ("create_view", "A", "CREATE VIEW v AS SELECT {e}", False, (), ()),
    ("insert_select", "A", "INSERT INTO t SELECT {e}", False, (), ()),
    ("subquery_from", "A", "SELECT * FROM (SELECT {e})", False, (), ()),
    ("settings", "A", "SELECT {e} FROM t SETTINGS a = 1", False, (), ()),
    # ---- tier B: SELECT clauses ---------------------------------------------------------------
    ("sel_second", "B", "SELECT k, {e}, 1 FROM t", False, (), ()),
    ("orderby_dir", "B", "SELECT 1 FROM t ORDER BY {e} DESC, {e} ASC NULLS FIRST", False, (), ()),
    ("limit_offset", "B", "SELECT 1 FROM t LIMIT 1 OFFSET {e}", False, (), ()),
    ("limit_pair", "B", "SELECT 1 FROM t LIMIT {e}, {e}", False, (), ()),
    ("limit_ties", "B", "SELECT 1 FROM t ORDER BY k LIMIT {e} WITH TIES", False, (), ()),
    ("limit_by", "B", "SELECT 1 FROM t LIMIT 1 BY {e}", False, (), ()),
    ("qualify_distinct_on", "B", "SELECT DISTINCT ON ({e}) k FROM t QUALIFY {e}", False, (), ()),
    ("join_using_multi", "B", "SELECT 1 FROM t JOIN u USING ({e}) JOIN v ON {e}", False, (), ()),
    ("join_on_paren", "B", "SELECT 1 FROM t AS a INNER JOIN u AS b ON ({e})", False, (), ()),
    ("from_first", "B", "FROM t SELECT {e} WHERE {e}", False, (), ()),
    ("all_clauses", "B", "SELECT {e} FROM t PREWHERE {e} WHERE {e} GROUP BY {e} HAVING {e} ORDER BY {e} LIMIT 1 BY {e}", False, (), ()),
    ("groupby_rollup", "B", "SELECT 1 FROM t GROUP BY {e} WITH ROLLUP", False, (), ()),
    ("grouping_sets", "B", "SELECT 1 FROM t GROUP BY GROUPING SETS (({e}), (k))", False, (), ()),
    ("rollup", "B", "SELECT 1 FROM t GROUP BY ROLLUP({e})", False, (), ()),
    ("cube", "B", "SELECT 1 FROM t GROUP BY CUBE({e})", False, (), ()),
    ("fill", "B", "SELECT k FROM t ORDER BY k WITH FILL FROM {e} TO {e} STEP {e}", False, (), ()),
    ("fill_staleness", "B", "SELECT k FROM t ORDER BY k WITH FILL STALENESS {e}", False, (), ()),
    ("interpolate", "B", "SELECT k FROM t ORDER BY k WITH FILL INTERPOLATE (k AS {e})", False, (), ()),
    ("table_fn", "B", "SELECT 1 FROM numbers({e})", False, (), ()),
    ("array_join", "B", "SELECT 1 FROM t ARRAY JOIN {e}", False, (), ()),
    ("array_join_as", "B", "SELECT 1 FROM t LEFT ARRAY JOIN {e} AS x, {e} AS y", True, (), _AL),
    # ---- tier B: inside other expressions -----------------------------------------------------
    ("fn_args", "B", "SELECT f(1, {e}, k)", False, (), ()),
    ("fn_paren", "B", "SELECT f(({e}))", False, (), ()),
    ("fn_nested_as", "B", "SELECT f(g({e})) AS x", False, (), ()),
    ("param_fn", "B", "SELECT quantile(0.5)({e})", False, (), ()),
    ("filter", "B", "SELECT sum(k) FILTER (WHERE {e})", False, (), ()),
    ("array_second", "B", "SELECT [k, {e}]", False, (), ()),
    ("tuple_second", "B", "SELECT (k, {e})", False, (), ()),
    ("in_list2", "B", "SELECT k IN ({e}, 1)", False, ("paren-literal-element",), ("collection-negate-paren-literal",)),
    ("not_in_list2", "B", "SELECT k NOT IN ({e}, 1)", False, ("paren-literal-element",), ("collection-negate-paren-literal",)),
    ("case_then_else", "B", "SELECT CASE WHEN k THEN {e} ELSE {e} END", False, (), ()),
    ("case_operand", "B", "SELECT CASE {e} WHEN 1 THEN 2 END", False, (), ()),
    ("case_else_as", "B", "SELECT CASE WHEN k THEN 1 ELSE {e} END AS x", False, (), ()),
    ("if_as", "B", "SELECT if({e}, {e}, {e}) AS x", False, (), ()),
    ("between_bounds", "B", "SELECT k BETWEEN ({e}) AND ({e})", False, (), ()),
    ("ternary_cond", "B", "SELECT {e} ? 1 : 2", False, (), ()),
    ("ternary_arms", "B", "SELECT k ? {e} : {e}", False, (), ()),
    ("lambda", "B", "SELECT arrayMap(k -> {e}, l)", False, (), ()),
    ("lambda2", "B", "SELECT arrayMap((k, j) -> {e}, l, m)", False, (), ()),
    ("subscript", "B", "SELECT l[{e}]", False, (), ()),
    ("cast_as", "B", "SELECT CAST({e} AS UInt8)", False, (), ()),
    ("cast_comma", "B", "SELECT CAST({e}, 'UInt8')", False, (), ()),
    ("extract", "B", "SELECT EXTRACT(YEAR FROM {e})", False, (), ()),
    ("interval_paren", "B", "SELECT INTERVAL ({e}) DAY", False, (), ()),
    ("substring", "B", "SELECT substring({e} FROM {e} FOR {e})", False, (), ()),
    ("trim", "B", "SELECT trim(BOTH 'x' FROM {e})", False, (), ()),
    ("position_in", "B", "SELECT position(({e}) IN k)", False, (), ()),
    ("replace_col", "B", "SELECT * REPLACE ({e} AS k) FROM t", False, (), ()),
    # a parenthesised e followed by a postfix / infix construct outside the language
    ("paren_is_null", "B", "SELECT ({e}) IS NULL", False, (), ()),
    ("paren_cast", "B", "SELECT ({e})::UInt8", False, ("paren-literal-element",), ("collection-negate-paren-literal",)),
    ("paren_in", "B", "SELECT ({e}) IN (1, 2)", False, (), ()),
    ("paren_like", "B", "SELECT ({e}) LIKE 'x'", False, (), ()),
    ("paren_between", "B", "SELECT ({e}) BETWEEN 1 AND 2", False, (), ()),
    ("paren_subscript", "B", "SELECT ({e})[1]", False, (), ()),
    ("paren_dot", "B", "SELECT ({e}).1", False, (), ()),
    ("paren_ternary", "B", "SELECT ({e}) ? 1 : 2", False, (), ()),
    # ---- tier B: further aliasing positions ---------------------------------------------------
    ("sel_two_as", "B", "SELECT {e} AS x, ({e}) AS y", True, (), _AL),
    ("double_paren_as", "B", "SELECT (({e})) AS x", True, (), _AL),
    ("fn_arg_as", "B", "SELECT f({e} AS x)", True, (), _AL),
    ("fn_arg_paren_as", "B", "SELECT f(({e}) AS x)", True, (), _AL),
    ("array_as", "B", "SELECT [{e} AS x]", True, (), _AL),
    ("tuple_as", "B", "SELECT ({e} AS x, 1)", True, (), _AL),
    ("where_as", "B", "SELECT 1 FROM t WHERE ({e}) AS x", True, (), _AL),
    ("with_as_and_use", "B", "WITH ({e}) AS x SELECT x FROM t WHERE {e}", True, (), _AL),
    # ---- tier B: subqueries and set operations ------------------------------------------------
    ("subquery_scalar", "B", "SELECT (SELECT {e})", False, (), ()),
    ("subquery_in", "B", "SELECT k IN (SELECT {e})", False, (), ()),
    ("exists", "B", "SELECT EXISTS (SELECT {e})", False, (), ()),
    ("view_fn", "B", "SELECT 1 FROM view(SELECT {e})", False, (), ()),
    ("cte", "B", "WITH y AS (SELECT {e}) SELECT * FROM y", False, (), ()),
    ("union", "B", "SELECT 1 UNION ALL SELECT {e}", False, (), ()),
    ("intersect_except", "B", "SELECT {e} INTERSECT SELECT {e} EXCEPT SELECT {e}", False, (), ()),
    ("paren_union", "B", "(SELECT {e}) UNION ALL (SELECT {e})", False, (), ()),
    ("explain", "B", "EXPLAIN SELECT {e}", False, (), ()),
    ("explain_ast", "B", "EXPLAIN AST SELECT {e}", False, (), ()),
    ("explain_syntax", "B", "EXPLAIN SYNTAX SELECT {e}", False, (), ()),
    ("describe", "B", "DESCRIBE (SELECT {e})", False, (), ()),
    # ---- tier B: DML --------------------------------------------------------------------------
    ("insert_cols", "B", "INSERT INTO t (a) SELECT {e} FROM u WHERE {e}", False, (), ()),
    ("insert_fn", "B", "INSERT INTO FUNCTION f({e}) SELECT 1", False, (), ()),
    ("update_stmt", "B", "UPDATE t SET c = {e} WHERE {e}", False, (), ()),
    ("delete_from", "B", "DELETE FROM t WHERE {e}", False, (), ()),
    ("alter_update_two", "B", "ALTER TABLE t UPDATE c = {e}, d = {e} WHERE k", False, (), ()),
    ("alter_two_cmds", "B", "ALTER TABLE t DELETE WHERE {e}, UPDATE c = {e} WHERE {e}", False, (), ()),
    # ---- tier B: DDL --------------------------------------------------------------------------
    ("ct_orderby_tuple", "B", _CT + "ORDER BY (k, {e})", False, (), ()),
    ("ct_primarykey_tuple", "B", _CT + "PRIMARY KEY (k, {e})", False, (), ()),
    ("ct_orderby_settings", "B", _CT + "ORDER BY {e} SETTINGS s = 1", False, (), ("create-orderby-group-nullsafe-eq",)),
    ("ct_pk_orderby", "B", _CT + "PRIMARY KEY {e} ORDER BY {e}", False, (), _KEY + ("create-orderby-group-nullsafe-eq",)),
    ("ct_as_select", "B", "CREATE TABLE t ENGINE = MergeTree ORDER BY {e} AS SELECT 1", False, (), ("create-orderby-group-before-as-select",)),
    ("ct_as_select_pk", "B", "CREATE TABLE t ENGINE = MergeTree PRIMARY KEY {e} AS SELECT 1", False, (), _KEY),
    ("mv_orderby", "B", "CREATE MATERIALIZED VIEW v ENGINE = MergeTree ORDER BY {e} AS SELECT 1", False, (), ("create-orderby-group-before-as-select",)),
    ("ct_ttl_where", "B", _CT + "ORDER BY k TTL d DELETE WHERE {e}", False, (), ()),
    ("ct_ttl_two", "B", _CT + "ORDER BY k TTL {e}, {e} DELETE", False, (), ()),
    ("engine_param", "B", "CREATE TABLE t (a UInt8) ENGINE = MergeTree({e}) ORDER BY k", False, (), ()),
    ("col_default_notype", "B", "CREATE TABLE t (a DEFAULT {e}, b UInt8) ENGINE = Memory", False, (), ()),
    ("col_ttl", "B", "CREATE TABLE t (a UInt8 TTL {e}) ENGINE = MergeTree ORDER BY k", False, (), ()),
    ("assume", "B", "CREATE TABLE t (a UInt8, CONSTRAINT c ASSUME {e}) ENGINE = Memory", False, (), ()),
    ("index", "B", "CREATE TABLE t (a UInt8, INDEX i {e} TYPE minmax GRANULARITY 1) ENGINE = MergeTree ORDER BY k", False, (), ()),
    ("projection", "B", "CREATE TABLE t (a UInt8, PROJECTION p (SELECT {e})) ENGINE = MergeTree ORDER BY k", False, (), ()),
    ("create_mv", "B", "CREATE MATERIALIZED VIEW v ENGINE = Memory AS SELECT {e}", False, (), ()),
    ("create_index", "B", "CREATE INDEX i ON t ({e}) TYPE minmax", False, (), ()),
    ("create_function", "B", "CREATE FUNCTION f AS (k) -> {e}", False, (), ()),
    ("dict_default", "B", "CREATE DICTIONARY d (a UInt8 DEFAULT {e}) PRIMARY KEY a SOURCE(NULL()) LAYOUT(FLAT()) LIFETIME(0)", False, (), ()),
    ("dict_expression", "B", "CREATE DICTIONARY d (a UInt8 DEFAULT 0 EXPRESSION {e}) PRIMARY KEY a SOURCE(NULL()) LAYOUT(FLAT()) LIFETIME(0)", False, (), ()),
    ("at_orderby", "B", "ATTACH TABLE t (a UInt8) ENGINE = MergeTree ORDER BY {e}", False, (), _KEY),
    ("at_primarykey", "B", "ATTACH TABLE t (a UInt8) ENGINE = MergeTree PRIMARY KEY {e}", False, (), _KEY),
    ("at_partitionby", "B", "ATTACH TABLE t (a UInt8) ENGINE = MergeTree PARTITION BY {e} ORDER BY k", False, (), ()),
    # ---- tier B: ALTER ------------------------------------------------------------------------
    ("alter_add_col", "B", "ALTER TABLE t ADD COLUMN c UInt8 DEFAULT {e}", False, (), ()),
    ("alter_modify_col", "B", "ALTER TABLE t MODIFY COLUMN c UInt8 DEFAULT {e}", False, (), ()),
    ("alter_modify_orderby", "B", "ALTER TABLE t MODIFY ORDER BY {e}", False, (), _KEY),
    ("alter_modify_sampleby", "B", "ALTER TABLE t MODIFY SAMPLE BY {e}", False, (), ()),
    ("alter_modify_ttl", "B", "ALTER TABLE t MODIFY TTL {e}", False, (), ()),
    ("alter_add_constraint", "B", "ALTER TABLE t ADD CONSTRAINT c CHECK {e}", False, (), ()),
    ("alter_add_index", "B", "ALTER TABLE t ADD INDEX i {e} TYPE minmax GRANULARITY 1", False, (), ()),
    ("alter_add_projection", "B", "ALTER TABLE t ADD PROJECTION p (SELECT {e})", False, (), ()),
    ("alter_modify_query", "B", "ALTER TABLE t MODIFY QUERY SELECT {e}", False, (), ()),
    ("alter_drop_part", "B", "ALTER TABLE t DROP PARTITION {e}", False, (), ()),
    ("alter_attach_part", "B", "ALTER TABLE t ATTACH PARTITION {e}", False, (), ()),
    ("optimize_part", "B", "OPTIMIZE TABLE t PARTITION {e}", False, (), ()),
]

SENTINEL = "zzq"


def statement(template, text):
    return template.replace("{e}", text)


def excluded_by(ctx, e, known_open_enabled=True):
    """-> ("rule", name) | ("known-open", name) | None for context entry ctx and tree e"""
    for r in ctx[4]:
        if RULES[r][0](e):
            return ("rule", r)
    if known_open_enabled:
        for k in ctx[5]:
            on, pred, _ = KNOWN_OPEN[k]
            if on and pred(e):
                return ("known-open", k)
    return None


def bare_shape(e):
    """the operator tree of e over the six precedence classes, decorations and leaves removed"""
    k = e[0]
    if k == 'b':
        return (OP_CLASS[e[1]], bare_shape(e[2]), bare_shape(e[3]))
    if k in ('i', 'n'):
        return None
    return bare_shape(e[-1])


OP_CLASS = {}
for _c, _ops in (("OR", ("OR", "or")), ("AND", ("AND", "and")), ("CMP", ("=", "==", "!=", "<>", "<", "<=", ">", ">=", "<=>")),
                 ("CAT", ("||",)), ("ADD", ("+", "-")), ("MUL", ("*", "/", "%", "DIV", "div", "MOD", "mod"))):
    for _o in _ops:
        OP_CLASS[_o] = _c


def plan(mode, tag, rank, j, ctx):
    """Does context number j (entry ctx of CONTEXTS) see a case?
    `tag` is the origin of the case (all_cases), `rank` the number of earlier cases of the same origin kind
    and the same bare shape (operator tree over the six precedence classes) THAT THIS CONTEXT CAN BE FED WITH
    (cases excluded by a rule / a KNOWN_OPEN switch of the context do not count).
    full : every context sees every case (thorough tier; the exhaustive shapes with more than 3 operators
           are not passed in at all: they stay SELECT-only).
    quick: tier A contexts see every case.  A tier B context sees
             - every random case and the core cases without a binary operator,
             - of the core cases with 1 to 3 operators and of the spelling-pass cases: the FIRST feedable
               case of every bare shape (rank 0: the least decorated one), and of the further decorations /
               spellings of that shape a rotating quarter ((rank + j) mod 4 = 0).
           So every context sees every bare shape with <= 3 operators that has a well-formed reading it can
           be fed with at all, every context sees every random case, and the full product is the thorough tier."""
    if mode == "full" or ctx[1] == "A" or tag in ("core0", "random") or rank == 0:
        return True
    return (rank + j) % 4 == 0


# ---------------------------------------------------------------------------------------------
# running the contexts

def _unhex(h):
    return "" if h == "-" else bytes.fromhex(h).decode(errors="replace")


def _hex(s):
    return s.encode().hex() or "-"


def run(cases, mode, exprdump, run_tool, keep=None, known_open_enabled=True, per_context_reports=3):
    """cases: list of (tree, tag, hex text, hex reference tree) — well-formed readings whose tree under
    SELECT <e> already equals the reference.  Returns (reports, stats, summary) where reports are
    `SPEC!=CODE` blocks (the first line carries the SQL of the context statement), stats is the
    per-context record for the evidence and summary = (contexts, evaluations, bad)."""
    import os
    import tempfile
    ctx_dir = keep or tempfile.mkdtemp(prefix="c08ctx")
    os.makedirs(ctx_dir, exist_ok=True)
    ctx_file = os.path.join(ctx_dir, "contexts.tsv")
    with open(ctx_file, "w") as f:
        for c in CONTEXTS:
            f.write("%s\t%s\n" % (c[0], c[2]))
    names = [c[0] for c in CONTEXTS]
    by_name = {c[0]: c for c in CONTEXTS}
    stats = {c[0]: {"template": c[2], "tier": c[1], "alias": c[3], "holes": c[2].count("{e}"), "fed": 0, "equal": 0,
                    "restricted": {}, "known_open": {}, "by_origin": {}} for c in CONTEXTS}
    seen = set()
    ranks = {}
    lines = []
    fed = []          # per line: (tree, hex text, hex ref, [ctx names])
    for e, tag, h, sref in cases:
        if h in seen:
            continue
        seen.add(h)
        kind = "core" if tag.startswith("core") else tag
        key = None if kind == "random" else (kind, bare_shape(e))
        rank = 0
        if key is not None:
            rank = ranks.get(key, 0)
            ranks[key] = rank + 1
        sel = []
        for j, c in enumerate(CONTEXTS):
            x = excluded_by(c, e, known_open_enabled)
            st = stats[c[0]]
            if x is not None:
                d = st["restricted"] if x[0] == "rule" else st["known_open"]
                d[x[1]] = d.get(x[1], 0) + 1
                continue
            r = rank
            if key is not None and (c[4] or c[5]):
                # a context with restrictions ranks the cases it can be fed with
                r = ranks.get((c[0], key), 0)
                ranks[(c[0], key)] = r + 1
            if not plan(mode, tag, r, j, c):
                continue
            sel.append(c[0])
            st["fed"] += 1
            st["by_origin"][kind] = st["by_origin"].get(kind, 0) + 1
        if not sel:
            continue
        lines.append("%s\t%s\t%s" % (h, sref, "*" if len(sel) == len(names) else ",".join(sel)))
        fed.append((e, h, sref, sel))
    blob = ("\n".join(lines) + "\n").encode()
    out = run_tool([exprdump, "-contexts", ctx_file], blob).decode().splitlines()
    if keep:
        open(os.path.join(keep, "contexts.in"), "wb").write(blob)
        open(os.path.join(keep, "contexts.out"), "w").write("\n".join(out) + "\n")
    reports = []
    bad = 0
    calib = {}
    body = []
    for l in out:
        if l.startswith("#ctx\t"):
            f = l.split("\t")
            calib[f[1]] = (f[2], int(f[3]), f[4])
        else:
            body.append(l)
    broken_ctx = set()
    for c in CONTEXTS:
        st, holes, sfx = calib.get(c[0], ("MISSING", 0, "-"))
        want_sfx = ",".join([_hex(" (alias x)") if c[3] else "-"] * holes) if holes else "-"
        stats[c[0]]["hole_lines"] = holes
        if st != "OK" or holes < c[2].count("{e}") or (c[3] and _hex(" (alias x)") not in sfx.split(",")):
            bad += 1
            broken_ctx.add(c[0])
            reports.append("SPEC!=CODE  %s   [context %s: CALIBRATION %s, %d hole line(s), annotations %s; expected %d hole(s)%s]\n"
                           "--- code\ncalibration status: %s\n--- spec\nIdentifier %s%s\n"
                           % (statement(c[2], SENTINEL), c[0], st, holes, sfx, c[2].count("{e}"),
                              " with the annotation ` (alias x)`" if c[3] else "", st, SENTINEL, " (alias x)" if c[3] else ""))
    assert len(body) == len(fed), (len(body), len(fed))
    failures = {}     # ctx -> list of (len, text, result, hex ref)
    evals = 0
    for (e, h, sref, sel), l in zip(fed, body):
        f = l.split("\t")
        assert f[0] == h, (f[0], h)
        evals += len(sel)
        if len(f) == 2 and f[1] == "*":
            for n in sel:
                stats[n]["equal"] += 1
            continue
        for x in f[1:]:
            n, r = x.split("=", 1)
            if r == "=":
                stats[n]["equal"] += 1
                continue
            if n in broken_ctx:
                continue
            rs = r.split(",")
            if all(y == sref for y in rs) and len(rs) == stats[n]["hole_lines"]:
                stats[n]["equal"] += 1
                continue
            bad += 1
            failures.setdefault(n, []).append((len(h), h, r, sref))
    # the shortest failing cases of every context, with the full EXPLAIN text of the statement
    picked = []
    for n in names:
        fl = failures.get(n)
        if not fl:
            continue
        stats[n]["failed"] = len(fl)
        fl.sort()
        picked += [(n,) + x[1:] for x in fl[:per_context_reports]]
    if picked:
        stmts = [statement(by_name[n][2], _unhex(h)) for n, h, r, sref in picked]
        ex = run_tool([exprdump, "-explain"], ("\n".join(_hex(s) for s in stmts) + "\n").encode()).decode().splitlines()
        for (n, h, r, sref), sql, x in zip(picked, stmts, ex):
            full = x.split("\t")[1] if "\t" in x else "?"
            if full.startswith("ERR:"):
                full_text = "parse error: " + _unhex(full[4:]) + "\n"
            elif full in ("PANIC", "BADHEX", "?"):
                full_text = full + "\n"
            else:
                full_text = _unhex(full)
            if r in ("ERR", "PANIC", "FRAME", "UNCALIBRATED"):
                code_text = {"ERR": "the statement does not parse (to exactly one statement)", "PANIC": "the parser / printer panics",
                             "FRAME": "frame mismatch: the EXPLAIN text outside the hole differs from the calibrated frame of the context",
                             "UNCALIBRATED": "the context could not be calibrated"}[r] + "\n"
            else:
                parts = []
                for i, y in enumerate(r.split(",")):
                    tagy = ""
                    if y.startswith("NOSUFFIX:"):
                        y = y[len("NOSUFFIX:"):]
                        tagy = " (annotation ` (alias x)` missing on the root line)"
                    parts.append("[hole %d%s]\n%s" % (i + 1, tagy, _unhex(y)))
                code_text = "".join(parts)
            reports.append("SPEC!=CODE  %s   [context %s: %s | expression: %s | %d failing case(s) in this context]\n"
                           "--- code\n%s--- spec\n%s--- full EXPLAIN of the statement\n%s"
                           % (sql, n, by_name[n][2], _unhex(h), len(failures[n]), code_text, _unhex(sref), full_text))
    return reports, stats, (len(CONTEXTS), evals, bad)


def evidence(stats, mode):
    """the coverage record of the contexts for evidence/C08.json"""
    return {
        "mode": mode,
        "contexts": [{"name": c[0], "tier": c[1], "statement": c[2], "alias_annotation": c[3], "holes": stats[c[0]]["holes"],
                      "cases_fed": stats[c[0]]["fed"], "cases_equal": stats[c[0]]["equal"], "by_origin": stats[c[0]]["by_origin"],
                      "rules": list(c[4]), "not_fed_by_rule": stats[c[0]]["restricted"],
                      "known_open": list(c[5]), "not_fed_known_open": stats[c[0]]["known_open"]} for c in CONTEXTS],
        "restriction_rules": {k: v[1] for k, v in RULES.items()},
        "known_open": {k: {"enabled": v[0], "finding": v[2]} for k, v in KNOWN_OPEN.items()},
        "dropped_candidates": DROPPED,
        "sampling": plan.__doc__,
        "comparison": "the WHOLE EXPLAIN text of the context statement must be the text calibrated with the sentinel identifier zzq in the "
                      "hole(s), with each `Identifier zzq` line replaced by the reference tree of e at that indentation; the annotation "
                      "` (alias x)` is accepted on the root line (at its end or before ` (children N)`) exactly where the calibration has it",
    }
