"""C01 — Parse never panics or crashes, whatever bytes it is given.
Theorems: lexer: C12's totality theorem covers every byte string (no partial operation in the lexer model);
parser, whole package: coq/Properties/C01_nil.v — nil-safety certificate over the control-flow graphs regenerated from
/repo/parser (Gen/ParserNil.v) with a locally checked, untrusted certificate, plus guarded-or-reviewed inventories of
index / type-assertion / explicit panic sites; parser, SELECT core: coq/Properties/C01_fragment.v — the executable model
with explicit Panic outcomes never reaches one, for every token list.
Ties: translators (nilgen, gentables); SELECT-core correspondence; implementation-side search under recover: corpus,
token/byte/structure mutants, exhaustive short token sequences behind statement prefixes, deep nesting probes."""
import os
import lexcommon
import searchcommon
import verif

TRUSTED = [
    "Coq 8.16.1 kernel and vm_compute; Print Assumptions of every theorem: closed under the global context",
    "translator/cmd/nilgen over-approximates the nil-relevant data flow of package parser (trusted); reviewed sites in checks/c01_reviewed_sites.json weaken the theorem and are listed in the evidence",
    "stack exhaustion is a fatal error, not a panic: outside the model (recursion depth <= consumed tokens by C02; 1 MiB nesting probes in the thorough tier)",
]


def run(rep):
    st = verif.proof_stage(rep, "C01", needs_translators=["gentables", "nilgen"])
    broken = list(st["broken"])
    broken += verif.build_topic(go_pkgs=("psearch",))
    found = False
    if not any(b["obligation"].startswith("build:") for b in broken):
        tier = rep.tier if not broken else "targeted"
        res = searchcommon.run_search(rep, tier, statuses=("PANIC",))
        for (stt, hx, detail, tk, steps) in res["hits"][:10]:
            found = True
            rep.violation("input", "Parse panics: " + detail[:200], {"input_hex": hx, "detail": detail}, input_hex=hx)
        if res["rc"] != 0:
            broken.append({"obligation": "harness:psearch (a worker died: possible fatal error such as stack exhaustion)", "detail": res["err"]})
        # lexer half (Properties/C01_lexer.v): tie the lexer model to the current lexer.go; a Go panic is a failing input
        if lexcommon.lexer_premise(rep, broken, ("panic",)):
            found = True
        rep.coverage.update({
            "evaluations": res["n"], "distinct_nontrivial": res["n"] - res["counts"].get("err", 0) // 2,
            "rule": "every corpus statement; token/byte/structure mutants of corpus statements (truncate after a token, delete, duplicate, swap, splice from a 230-word pool, drop a bracket partner, empty a range, byte flips); "
                    "every sequence of up to 1 (quick) / 2 (thorough) pool words behind 18 statement prefixes; statements of the verification grammar (checks/gen_sql_grammar.py) as they are, mutated and truncated; literal substitution (a NUMBER/STRING token of a valid statement replaced by a boundary literal of its class); deep nesting probes up to 20 KB (quick) / 1 MiB (thorough); each parsed under recover; "
                    "distinct_nontrivial counts conservatively (accepted inputs plus half of the rejected ones)",
            "samples": res["samples"], "input_distribution": res["dist"], "status_counts": res["counts"], "max_tokens": res["max_tokens"], "trusted_base": TRUSTED,
        })
    b2, summ = searchcommon.run_selectcore(rep, 1500 if rep.tier == "quick" else 40000)
    broken += b2
    rep.coverage["selectcore_correspondence"] = summ
    verif.report_broken(rep, broken, found)
    rep.assumptions = ["inputs up to 1 MiB (harness bound; the theorems carry no size bound)"]


def replay(rec):
    import subprocess
    p = subprocess.run([searchcommon.PSEARCH, "run"], input=(rec["input_hex"] + "\n").encode(), stdout=subprocess.PIPE)
    print(p.stdout.decode())
    return 0
