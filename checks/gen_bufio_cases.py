#!/usr/bin/env python3
"""Case generator for the bufio correspondence check (C14/C15):
       real bufio.Reader (/verif/build/bufioops)  vs  extracted BufioModel (/verif/build/bufio_driver).

usage: gen_bufio_cases.py <seed> <count> [clean|err|all]       (cases on stdout)

One case per line: "<script>\t<ops>" (syntax: /verif/harness/cmd/bufioops/main.go).
Case i depends only on (seed, stream, i) through splitmix64, so a single index replays alone
(`... | sed -n '<i+1>p'`).

stream "clean": scripts without non-EOF errors, varied chunkings of varied byte strings
        (whole, 1-byte, halves, fixed and random sizes, boundaries around 4096*k, chunks > 4096,
        multi-byte runes / invalid bytes split across chunks, empty reads, runs of >= 100 empty
        reads, final bytes together with io.EOF, explicit io.EOF chunks, also in mid-stream).
stream "err":   a clean base script (shared by a block of 32 consecutive indices) with an Err chunk
        inserted at every position / every chunk turned into DataErr, plus multi-error scripts.
stream "all":   index i is clean when i % 10 < 7, else err.
ops mix r, p1, p4, p8, p32, p8192 (the calls lexer.go makes) and a few other sizes.
"""
import sys

MASK = (1 << 64) - 1


class Rng:
    def __init__(self, *keys):
        s = 0x9E3779B97F4A7C15
        for k in keys:
            s = (s ^ (k & MASK)) & MASK
            s = self._mix(s)
        self.s = s

    @staticmethod
    def _mix(z):
        z = (z + 0x9E3779B97F4A7C15) & MASK
        z = ((z ^ (z >> 30)) * 0xBF58476D1CE4E5B9) & MASK
        z = ((z ^ (z >> 27)) * 0x94D049BB133111EB) & MASK
        return z ^ (z >> 31)

    def next(self):
        self.s = (self.s + 0x9E3779B97F4A7C15) & MASK
        z = self.s
        z = ((z ^ (z >> 30)) * 0xBF58476D1CE4E5B9) & MASK
        z = ((z ^ (z >> 27)) * 0x94D049BB133111EB) & MASK
        return z ^ (z >> 31)

    def below(self, n):
        return self.next() % n if n > 0 else 0

    def rng(self, lo, hi):  # inclusive
        return lo + self.below(hi - lo + 1)

    def pick(self, xs):
        return xs[self.below(len(xs))]

    def chance(self, num, den):
        return self.below(den) < num


SQL_WORDS = [b"SELECT ", b"FROM ", b"WHERE ", b"x", b"1", b", ", b"'str'", b"$tag$", b"$$", b" ", b"\n",
             b"(", b")", b"1.5e3", b"db.03711_t", b"`q`", b"\"d\"", b"-- c\n", b"/* c */", b"0x1F", b";",
             b"\\", b"'", b"\t", b"a_b", b"::", b"->", b"<=>", b"\x00"]
RUNES = ["\u00e9", "\u00a0", "\u4e2d", "\u20ac", "\ufeff", "\u2028", "\U0001F600", "\U00010348",
         "\u07ff", "\u0800", "\uffff", "\U0010ffff", "\u0080", "\ud7ff", "\ue000", "\ufffd", "\u3000",
         "\u200b", "\u2212", "\u0085", "\u1680", "\u00ab"]
INVALID = [b"\x80", b"\xbf", b"\xc0\x80", b"\xc1\xbf", b"\xc2", b"\xe0\x80\x80", b"\xe0\xa0", b"\xe4\xb8",
           b"\xed\xa0\x80", b"\xed\xbf\xbf", b"\xf0\x80\x80\x80", b"\xf0\x90\x80", b"\xf0\x9f\x98",
           b"\xf4\x90\x80\x80", b"\xf5\x80\x80\x80", b"\xff", b"\xfe", b"\xf8\x88\x80\x80\x80", b"\xe4\x41",
           b"\xf0\x9f\x41", b"\xf0\x9f\x98\x41", b"\xc3\x28", b"\xe2\x28\xa1", b"\xef\xbf", b"\xf4\x8f\xbf"]


def gen_bytes(r, n, style):
    """about n bytes in the given style"""
    out = bytearray()
    while len(out) < n:
        k = r.below(100)
        if style == "ascii":
            out += r.pick(SQL_WORDS)
        elif style == "mixed":
            if k < 50:
                out += r.pick(SQL_WORDS)
            elif k < 85:
                out += r.pick(RUNES).encode("utf-8", "surrogatepass")
            else:
                out += r.pick(INVALID)
        elif style == "wide":
            if k < 80:
                out += r.pick(RUNES).encode("utf-8", "surrogatepass")
            elif k < 90:
                out += r.pick(INVALID)
            else:
                out += r.pick(SQL_WORDS)
        elif style == "four":  # mostly 4-byte runes: moves fast through the buffer
            if k < 90:
                out += r.pick(["\U0001F600", "\U00010348", "\U0010ffff"]).encode("utf-8")
            elif k < 95:
                out += r.pick(INVALID)
            else:
                out += b"a"
        else:  # random bytes
            out.append(r.below(256))
    if r.chance(1, 2):
        del out[n:]  # may cut a rune in the middle
    return bytes(out)


def gen_data(r):
    style = r.pick(["ascii", "mixed", "mixed", "wide", "four", "random"])
    k = r.below(100)
    if k < 8:
        n = r.below(4)
    elif k < 45:
        n = r.rng(1, 40)
    elif k < 75:
        n = r.rng(30, 400)
    elif k < 88:
        n = 4096 * r.rng(1, 2) + r.rng(-6, 6)
    elif k < 94:
        n = r.rng(4000, 9000)
    else:
        n = r.rng(8000, 13000)
    if n > 3000 and style in ("ascii", "random") and r.chance(1, 2):
        style = "four"
    return gen_bytes(r, n, style)


def split_sizes(r, total, kind):
    """chunk sizes summing to total"""
    sizes = []
    left = total
    if kind == "whole":
        return [total] if total else []
    if kind == "one":
        return [1] * total
    if kind == "halves":
        h = max(1, total // 2)
        return [h, total - h] if total > 1 else [total]
    if kind == "fixed":
        k = r.pick([2, 3, 4, 5, 7, 16, 100, 1000, 4095, 4096, 4097, 5000, 8192, 10000])
        while left > 0:
            sizes.append(min(k, left))
            left -= sizes[-1]
        return sizes
    if kind == "small":
        while left > 0:
            sizes.append(min(r.rng(1, 5), left))
            left -= sizes[-1]
        return sizes
    if kind == "random":
        hi = r.pick([8, 50, 700, 5000, 12000])
        while left > 0:
            sizes.append(min(r.rng(1, hi), left))
            left -= sizes[-1]
        return sizes
    if kind == "boundary":  # cuts close to multiples of 4096
        cuts = set()
        k = 4096
        while k - 8 < total:
            for _ in range(r.rng(1, 3)):
                c = k + r.rng(-5, 5)
                if 0 < c < total:
                    cuts.add(c)
            k += 4096
        for _ in range(r.below(3)):
            if total > 1:
                cuts.add(r.rng(1, total - 1))
        prev = 0
        for c in sorted(cuts):
            sizes.append(c - prev)
            prev = c
        sizes.append(total - prev)
        return [s for s in sizes if s > 0]
    if kind == "tailone":  # big first chunk, then single bytes
        first = max(0, total - r.rng(1, 9))
        return ([first] if first else []) + [1] * (total - first)
    raise ValueError(kind)


KINDS = ["whole", "one", "halves", "fixed", "small", "random", "boundary", "tailone"]


def gen_clean_script(r, data, allow_mid_eof=True):
    """list of chunks ('d', bytes) / ('e', code) / ('x', bytes, code) without non-EOF errors"""
    kind = r.pick(KINDS)
    if kind == "one" and len(data) > 5000 and r.chance(2, 3):
        kind = "random"
    sizes = split_sizes(r, len(data), kind)
    chunks = []
    pos = 0
    for s in sizes:
        chunks.append(("d", data[pos:pos + s]))
        pos += s
    # empty reads
    em = r.below(100)
    if em < 25 and len(chunks) < 3000:
        for _ in range(r.rng(1, 4)):
            at = r.below(len(chunks) + 1)
            chunks[at:at] = [("d", b"")] * r.pick([1, 1, 2, 3, 50, 98, 99])
    elif em < 37:
        at = r.below(len(chunks) + 1)
        chunks[at:at] = [("d", b"")] * r.pick([99, 100, 100, 101, 150, 199, 200, 201, 250])
        if r.chance(1, 3):
            at = r.below(len(chunks) + 1)
            chunks[at:at] = [("d", b"")] * r.pick([99, 100, 101])
    # how the stream ends
    end = r.below(100)
    if end < 25 and chunks and chunks[-1][0] == "d":
        chunks[-1] = ("x", chunks[-1][1], 0)  # last bytes together with io.EOF
    elif end < 40:
        chunks.append(("e", 0))
    elif end < 45:
        chunks += [("e", 0), ("e", 0)]
    elif end < 50:
        chunks += [("d", b""), ("e", 0)]
    # io.EOF in mid-stream (a reader that continues after EOF): outside C14's hypothesis, but the
    # model must still agree with the real bufio
    if allow_mid_eof and r.chance(1, 12) and len(chunks) > 1:
        at = r.below(len(chunks))
        if r.chance(1, 2):
            chunks.insert(at, ("e", 0))
        elif chunks[at][0] == "d":
            chunks[at] = ("x", chunks[at][1], 0)
    return chunks


PEEKS = [1, 1, 1, 4, 4, 8, 8, 32, 32, 8192]
ODD_PEEKS = [0, 2, 3, 5, 12, 16, 100, 4095, 4096, 4097, 5000, 20000]


def gen_ops(r, data_len, extra):
    """ops reading roughly through the data"""
    ops = []
    long_peeks = 0
    if data_len <= 400:
        n = r.rng(0, data_len + 6 + extra)
    else:
        n = r.pick([r.rng(0, 50), data_len // 3, data_len + 8 + extra, data_len + 8 + extra])
    pw = r.pick([5, 10, 20, 35, 60])  # percentage of peeks
    if n > 1000:
        pw = r.pick([1, 2, 5])
    for _ in range(n):
        if r.below(100) < pw:
            p = r.pick(PEEKS) if r.chance(5, 6) else r.pick(ODD_PEEKS)
            if p > 200:
                long_peeks += 1
                if long_peeks > 12:
                    p = r.pick([1, 4, 8, 32])
            ops.append("p%d" % p)
        else:
            ops.append("r")
    # always look at the end state too
    tail = r.pick([["r"], ["p1", "r"], ["r", "r", "p8192"], ["p4", "r", "p1", "r", "r"], ["p8192", "r", "p32", "r"], []])
    return ops + tail


def fmt_chunk(c):
    hx = lambda b: b.hex() if b else "-"
    if c[0] == "d":
        return "d" + hx(c[1])
    if c[0] == "e":
        return "e%d" % c[1]
    return "x%s:%d" % (hx(c[1]), c[2])


def fmt_case(chunks, ops):
    return "%s\t%s" % (",".join(fmt_chunk(c) for c in chunks) or "-", ",".join(ops) or "-")


def clean_case(seed, i):
    r = Rng(seed, 1, i)
    data = gen_data(r)
    chunks = gen_clean_script(r, data)
    extra = sum(1 for c in chunks if c[0] != "d" or not c[1]) // 50
    return fmt_case(chunks, gen_ops(r, len(data), extra))


def err_case(seed, i):
    block, j = divmod(i, 32)
    rb = Rng(seed, 2, block)  # shared by the block: base data + chunking
    r = Rng(seed, 3, i)
    # short bases so that every position is covered inside one block
    style = rb.pick(["ascii", "mixed", "wide", "random"])
    big = rb.chance(1, 6)
    data = gen_bytes(rb, rb.rng(4090, 4104) if big else rb.rng(0, 40), style)
    nchunks = rb.rng(1, 15)
    cuts = sorted(rb.below(len(data) + 1) for _ in range(nchunks - 1))
    chunks = []
    prev = 0
    for c in cuts + [len(data)]:
        chunks.append(("d", data[prev:c]))
        prev = c
    if rb.chance(1, 4):
        at = rb.below(len(chunks) + 1)
        chunks[at:at] = [("d", b"")] * rb.pick([1, 2, 99, 100])
    code = r.rng(1, 9)
    k = len(chunks)
    if j < 16:
        at = j % (k + 1)
        chunks.insert(at, ("e", code))  # Err at every position 0..k
    elif j < 28:
        at = (j - 16) % k
        chunks[at] = ("x", chunks[at][1], code)  # every chunk as DataErr
    else:
        # several errors: the first non-EOF one must win; also io.EOF before/after an error
        for _ in range(r.rng(2, 4)):
            at = r.below(len(chunks) + 1)
            c = r.pick([0, code, r.rng(1, 9), r.rng(1, 9)])
            if r.chance(1, 2) or at == len(chunks) or chunks[at][0] != "d":
                chunks.insert(at, ("e", c))
            else:
                chunks[at] = ("x", chunks[at][1], c)
    if r.chance(1, 3):
        chunks.append(("e", 0))
    ops = gen_ops(r, len(data) if not big else r.pick([len(data), 30]), 4)
    # keep going after the failure: transient errors, errors cleared by Peek's readErr
    ops += r.pick([[], ["r", "r"], ["p1", "r", "p4", "r"], ["p8192", "r", "r", "r"], ["r"] * 6])
    return fmt_case(chunks, ops)


def main():
    if len(sys.argv) < 3:
        sys.stderr.write(__doc__)
        sys.exit(2)
    seed = int(sys.argv[1])
    count = int(sys.argv[2])
    stream = sys.argv[3] if len(sys.argv) > 3 else "all"
    out = sys.stdout
    for i in range(count):
        if stream == "clean" or (stream == "all" and i % 10 < 7):
            out.write(clean_case(seed, i))
        else:
            out.write(err_case(seed, i))
        out.write("\n")


if __name__ == "__main__":
    main()
