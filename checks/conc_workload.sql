INSERT INTO t SELECT a, b FROM s WHERE a > 1 FORMAT TabSeparated
INSERT INTO t (a, b) SELECT 1, 2 UNION ALL SELECT 3, 4 FORMAT JSONEachRow
INSERT INTO db.t SELECT number, toString(number) FROM numbers(10) FORMAT Null SETTINGS max_threads = 1
WITH 1 AS x INSERT INTO t SELECT x FORMAT CSV
WITH 2 AS x INSERT INTO TABLE t SELECT 1 UNION ALL (SELECT x)
WITH y AS (SELECT 1 AS c) INSERT INTO t SELECT c FROM y FORMAT Values
EXPLAIN SELECT 1 FORMAT Null SETTINGS enable_analyzer = 1
EXPLAIN PIPELINE SELECT (SELECT 1) AS c0 FROM (SELECT 1 AS c0, 1 AS c1) tx JOIN (SELECT 0 AS c0, 1 AS c1) ty USING (c0, c1) FORMAT Null SETTINGS enable_analyzer = 1
EXPLAIN PIPELINE graph = 1, compact = 1 SELECT * FROM merge1 FORMAT Null SETTINGS enable_analyzer=1
EXPLAIN SYNTAX SELECT a FROM t WHERE b = 1 FORMAT TSVRaw
EXPLAIN SELECT 1 UNION ALL (SELECT 2) FORMAT Null SETTINGS max_threads = 1
EXPLAIN (SELECT 1) FORMAT Null SETTINGS max_threads = 2
EXPLAIN AST SELECT 1 UNION ALL SELECT 2 UNION DISTINCT (SELECT 3) FORMAT JSON SETTINGS a = 1, b = 'x'
EXPLAIN PLAN header = 1 SELECT sum(x) FROM t GROUP BY y SETTINGS max_threads = 4 FORMAT TSV
EXPLAIN SELECT x FROM (SELECT 1 AS x FORMAT Null) FORMAT Vertical SETTINGS s = 1
CREATE VIEW v AS SELECT a, b FROM t WHERE a > 0 FORMAT TSV
CREATE MATERIALIZED VIEW mv TO dst AS SELECT a, count() AS c FROM src GROUP BY a FORMAT Null
CREATE MATERIALIZED VIEW mv2 ENGINE = MergeTree ORDER BY a AS SELECT a FROM src UNION ALL SELECT a FROM src2
CREATE WINDOW VIEW wv TO dst AS SELECT count(a) AS c, tumbleStart(wid) AS w FROM src GROUP BY tumble(ts, INTERVAL '5' SECOND) AS wid FORMAT Null
CREATE WINDOW VIEW wv2 INNER ENGINE = MergeTree ORDER BY w ENGINE = Memory AS SELECT count() AS c, tumble(ts, INTERVAL 1 MINUTE) AS w FROM src GROUP BY w
CREATE TABLE t2 ENGINE = Memory AS SELECT 1 AS x FORMAT Null
SELECT 1 FORMAT JSON SETTINGS output_format_json_quote_64bit_integers = 0
SELECT a FROM t SETTINGS max_threads = 1 FORMAT Null
SELECT 1 UNION ALL SELECT 2 UNION DISTINCT SELECT 3 UNION ALL SELECT 4
SELECT position('abc' IN 'b'), extract(YEAR FROM d), CAST(1 AS Nullable(UInt8)), x::DateTime('UTC'), INTERVAL 1 DAY + INTERVAL '2' HOUR FROM t
SELECT nan, inf, -inf, 1e400, 0.5, -0., 18446744073709551616, 'a\'b', [1, 2, (3, 'x')], {'k': 1} FROM system.one
SELECT * EXCEPT (a) REPLACE (b + 1 AS b), COLUMNS('^c') APPLY (sum) FROM t ARRAY JOIN arr AS e WHERE e IN (SELECT 1) GROUP BY ALL WITH TOTALS HAVING 1 ORDER BY 1 DESC NULLS LAST WITH FILL LIMIT 1 BY a LIMIT 2, 3
SELECT 1 +
RENAME
SELECT column_default, column_materialized, column_alias, column_codec, column_comment, column_ttl FROM prop_table
WITH toDate('2000-01-01') + rand() % (30000) AS EventDate SELECT * FROM numbers(1000000) WHERE EventDate != toDate(concat(toString(toYear(EventDate)), '-', toString(toMonth(EventDate)), '-', toString(toDayOfMonth(EventDate))))
WITH arrayJoin(['192.168.99.255', '192.168.100.1', '192.168.103.255', '192.168.104.0']) as addr, '192.168.100.0/22' as prefix SELECT addr, prefix, isIPAddressInRange(addr, prefix)
INSERT INTO prop_table (column_codec, column_comment, column_ttl) VALUES ('str', toDate('2019-10-01'), 1)
INSERT INTO prop_table (column_alias, column_codec, column_comment, column_ttl) VALUES (33, 'trs', toDate('2020-01-01'), 2)
CREATE TABLE tab (a Int64, b Int64) ENGINE = MergeTree ORDER BY a
CREATE TABLE 02483_substitute_udf (id UInt32, number UInt32 DEFAULT 02483_plusone(id)) ENGINE=MergeTree() ORDER BY id
CREATE VIEW sleep_view AS SELECT sleepEachRow(0.001) FROM system.numbers
CREATE MATERIALIZED VIEW mv TO output AS SELECT key, dictGetUInt64('dict_in_01023.dict', 'val', key) val FROM dist_out
CREATE DICTIONARY dict_sharded (key UInt64, v0 UInt16) PRIMARY KEY key SOURCE(CLICKHOUSE(TABLE 'dict_data')) LIFETIME(MIN 0 MAX 0) LAYOUT(HASHED(SHARDS 32))
CREATE FUNCTION 02483_plusone AS (a) -> a + 1
CREATE DATABASE db1_03101
CREATE USER user_03141
CREATE ROLE r1_01293
CREATE ROW POLICY 02131_filter_1 ON 02131_rqtable USING x=1 AS permissive TO ALL
CREATE SETTINGS PROFILE s1_01418 SETTINGS custom_compound.identifier.v2 = 100
CREATE TEMPORARY TABLE test_02327 (name String) AS SELECT * FROM VALUES(('Vasya'), ('Petya'))
ALTER TABLE prop_table MODIFY COLUMN column_comment REMOVE COMMENT
ALTER TABLE prop_table MODIFY COLUMN column_codec REMOVE CODEC
DROP TABLE IF EXISTS prop_table
DROP VIEW IF EXISTS text_index_cache_stats
DROP DATABASE IF EXISTS db1_03101
DROP FUNCTION IF EXISTS 02483_plusone
DROP DICTIONARY dict_in_01023.dict
RENAME TABLE view_table_00942 TO new_view_table_00942
EXCHANGE TABLES test_01191.t AND test_01191.dict
SHOW CREATE TABLE prop_table
SHOW TABLES NOT LIKE '%'
SHOW GRANTS FOR user_03141
DESCRIBE TABLE t_desc_subcolumns FORMAT PrettyCompactNoEscapes
DESC t02006
EXPLAIN AST SELECT a * b IS NULL, a * b IS NOT NULL
EXPLAIN SYNTAX SELECT max(log(2) * number) AS k FROM numbers(10000000) GROUP BY number % 2, number % 3, (number % 2 + number % 3) % 2 ORDER BY k
EXPLAIN PLAN actions=1 SELECT * FROM 03591_test WHERE a > 0 SETTINGS optimize_move_to_prewhere = 1, allow_experimental_analyzer = 1
EXPLAIN PIPELINE SELECT 1 + number from system.numbers LIMIT 1
EXPLAIN ESTIMATE SELECT 0 = 1048577, NULL, groupBitmapOr(bitmapBuild([toInt32(65537)])) FROM cluster(test_cluster_two_shards) WHERE NULL = 1048575
EXPLAIN QUERY TREE dump_tree = 1, dump_ast = 1 SELECT id IS NULL, n IS NULL, n IS NOT NULL FROM t_func_to_subcolumns
SET output_format_write_statistics = 0
USE db1_03101
SYSTEM STOP TTL MERGES prop_table
SYSTEM START TTL MERGES prop_table
OPTIMIZE TABLE prop_table FINAL
TRUNCATE TABLE test_log
GRANT SELECT ON test*.* TO user_03141
REVOKE SELECT ON test.* FROM user_03141
KILL MUTATION WHERE database = currentDatabase() AND command LIKE '%throwIf%' SYNC FORMAT Null
CHECK TABLE t_sparse_02235 SETTINGS check_query_single_value_result = 0, max_threads = 1
ATTACH DATABASE test_01457
DETACH DATABASE test_01457
DELETE FROM t0 WHERE TRUE
UPDATE t_lwu_delete SET v = v + 1000 WHERE id % 10 = 0
BACKUP TABLE 03593_backup_with_broken_projection TO Null SETTINGS allow_backup_broken_projections = true, check_projection_parts = false FORMAT Null
RESTORE TABLE t1 FROM Memory('b1') FORMAT Null
EXISTS TABLE table1
BEGIN TRANSACTION
ROLLBACK
(SELECT toString(getMergeTreeSetting('index_granularity')) AS val) AS t2
