INSERT INTO t SELECT a, b FROM s WHERE a > 1 FORMAT TabSeparated
INSERT INTO t (a, b) SELECT 1, 2 UNION ALL SELECT 3, 4 FORMAT JSONEachRow
INSERT INTO db.t SELECT number, toString(number) FROM numbers(10) FORMAT Null SETTINGS max_threads = 1
WITH 1 AS x INSERT INTO t SELECT x FORMAT CSV
WITH 2 AS x INSERT INTO TABLE t SELECT 1 UNION ALL (SELECT x)
WITH y AS (SELECT 1 AS c) INSERT INTO t SELECT c FROM y FORMAT Values
EXPLAIN SELECT 1 FORMAT Null SETTINGS enable_analyzer = 1
EXPLAIN PIPELINE SELECT (SELECT 1) AS c0 FROM (SELECT 1 AS c0, 1 AS c1) tx JOIN (SELECT 0 AS c0, 1 AS c1) ty USING (c0, c1) FORMAT Null SETTINGS enable_analyzer = 1
EXPLAIN PIPELINE graph = 1, compact = 1 SELECT * FROM merge1 FORMAT Null SETTINGS enable_analyzer=1
EXPLAIN SYNTAX SELECT a FROM t WHERE b = 1 FORMAT TSVRaw
EXPLAIN SELECT 1 UNION ALL (SELECT 2) FORMAT Null SETTINGS max_threads = 1
EXPLAIN (SELECT 1) FORMAT Null SETTINGS max_threads = 2
EXPLAIN AST SELECT 1 UNION ALL SELECT 2 UNION DISTINCT (SELECT 3) FORMAT JSON SETTINGS a = 1, b = 'x'
EXPLAIN PLAN header = 1 SELECT sum(x) FROM t GROUP BY y SETTINGS max_threads = 4 FORMAT TSV
EXPLAIN SELECT x FROM (SELECT 1 AS x FORMAT Null) FORMAT Vertical SETTINGS s = 1
CREATE VIEW v AS SELECT a, b FROM t WHERE a > 0 FORMAT TSV
CREATE MATERIALIZED VIEW mv TO dst AS SELECT a, count() AS c FROM src GROUP BY a FORMAT Null
CREATE MATERIALIZED VIEW mv2 ENGINE = MergeTree ORDER BY a AS SELECT a FROM src UNION ALL SELECT a FROM src2
CREATE WINDOW VIEW wv TO dst AS SELECT count(a) AS c, tumbleStart(wid) AS w FROM src GROUP BY tumble(ts, INTERVAL '5' SECOND) AS wid FORMAT Null
CREATE WINDOW VIEW wv2 INNER ENGINE = MergeTree ORDER BY w ENGINE = Memory AS SELECT count() AS c, tumble(ts, INTERVAL 1 MINUTE) AS w FROM src GROUP BY w
CREATE TABLE t2 ENGINE = Memory AS SELECT 1 AS x FORMAT Null
SELECT 1 FORMAT JSON SETTINGS output_format_json_quote_64bit_integers = 0
SELECT a FROM t SETTINGS max_threads = 1 FORMAT Null
SELECT 1 UNION ALL SELECT 2 UNION DISTINCT SELECT 3 UNION ALL SELECT 4
SELECT position('abc' IN 'b'), extract(YEAR FROM d), CAST(1 AS Nullable(UInt8)), x::DateTime('UTC'), INTERVAL 1 DAY + INTERVAL '2' HOUR FROM t
SELECT nan, inf, -inf, 1e400, 0.5, -0., 18446744073709551616, 'a\'b', [1, 2, (3, 'x')], {'k': 1} FROM system.one
SELECT * EXCEPT (a) REPLACE (b + 1 AS b), COLUMNS('^c') APPLY (sum) FROM t ARRAY JOIN arr AS e WHERE e IN (SELECT 1) GROUP BY ALL WITH TOTALS HAVING 1 ORDER BY 1 DESC NULLS LAST WITH FILL LIMIT 1 BY a LIMIT 2, 3
SELECT 1 +
RENAME
SELECT column_default, column_materialized, column_alias, column_codec, column_comment, column_ttl FROM prop_table
WITH toDate('2000-01-01') + rand() % (30000) AS EventDate SELECT * FROM numbers(1000000) WHERE EventDate != toDate(concat(toString(toYear(EventDate)), '-', toString(toMonth(EventDate)), '-', toString(toDayOfMonth(EventDate))))
WITH arrayJoin(['192.168.99.255', '192.168.100.1', '192.168.103.255', '192.168.104.0']) as addr, '192.168.100.0/22' as prefix SELECT addr, prefix, isIPAddressInRange(addr, prefix)
INSERT INTO prop_table (column_codec, column_comment, column_ttl) VALUES ('str', toDate('2019-10-01'), 1)
INSERT INTO prop_table (column_alias, column_codec, column_comment, column_ttl) VALUES (33, 'trs', toDate('2020-01-01'), 2)
CREATE TABLE tab (a Int64, b Int64) ENGINE = MergeTree ORDER BY a
CREATE TABLE 02483_substitute_udf (id UInt32, number UInt32 DEFAULT 02483_plusone(id)) ENGINE=MergeTree() ORDER BY id
CREATE VIEW sleep_view AS SELECT sleepEachRow(0.001) FROM system.numbers
CREATE MATERIALIZED VIEW mv TO output AS SELECT key, dictGetUInt64('dict_in_01023.dict', 'val', key) val FROM dist_out
CREATE DICTIONARY dict_sharded (key UInt64, v0 UInt16) PRIMARY KEY key SOURCE(CLICKHOUSE(TABLE 'dict_data')) LIFETIME(MIN 0 MAX 0) LAYOUT(HASHED(SHARDS 32))
CREATE FUNCTION 02483_plusone AS (a) -> a + 1
CREATE DATABASE db1_03101
CREATE USER user_03141
CREATE ROLE r1_01293
CREATE ROW POLICY 02131_filter_1 ON 02131_rqtable USING x=1 AS permissive TO ALL
CREATE SETTINGS PROFILE s1_01418 SETTINGS custom_compound.identifier.v2 = 100
CREATE TEMPORARY TABLE test_02327 (name String) AS SELECT * FROM VALUES(('Vasya'), ('Petya'))
ALTER TABLE prop_table MODIFY COLUMN column_comment REMOVE COMMENT
ALTER TABLE prop_table MODIFY COLUMN column_codec REMOVE CODEC
DROP TABLE IF EXISTS prop_table
DROP VIEW IF EXISTS text_index_cache_stats
DROP DATABASE IF EXISTS db1_03101
DROP FUNCTION IF EXISTS 02483_plusone
DROP DICTIONARY dict_in_01023.dict
RENAME TABLE view_table_00942 TO new_view_table_00942
EXCHANGE TABLES test_01191.t AND test_01191.dict
SHOW CREATE TABLE prop_table
SHOW TABLES NOT LIKE '%'
SHOW GRANTS FOR user_03141
DESCRIBE TABLE t_desc_subcolumns FORMAT PrettyCompactNoEscapes
DESC t02006
EXPLAIN AST SELECT a * b IS NULL, a * b IS NOT NULL
EXPLAIN SYNTAX SELECT max(log(2) * number) AS k FROM numbers(10000000) GROUP BY number % 2, number % 3, (number % 2 + number % 3) % 2 ORDER BY k
EXPLAIN PLAN actions=1 SELECT * FROM 03591_test WHERE a > 0 SETTINGS optimize_move_to_prewhere = 1, allow_experimental_analyzer = 1
EXPLAIN PIPELINE SELECT 1 + number from system.numbers LIMIT 1
EXPLAIN ESTIMATE SELECT 0 = 1048577, NULL, groupBitmapOr(bitmapBuild([toInt32(65537)])) FROM cluster(test_cluster_two_shards) WHERE NULL = 1048575
EXPLAIN QUERY TREE dump_tree = 1, dump_ast = 1 SELECT id IS NULL, n IS NULL, n IS NOT NULL FROM t_func_to_subcolumns
SET output_format_write_statistics = 0
USE db1_03101
SYSTEM STOP TTL MERGES prop_table
SYSTEM START TTL MERGES prop_table
OPTIMIZE TABLE prop_table FINAL
TRUNCATE TABLE test_log
GRANT SELECT ON test*.* TO user_03141
REVOKE SELECT ON test.* FROM user_03141
KILL MUTATION WHERE database = currentDatabase() AND command LIKE '%throwIf%' SYNC FORMAT Null
CHECK TABLE t_sparse_02235 SETTINGS check_query_single_value_result = 0, max_threads = 1
ATTACH DATABASE test_01457
DETACH DATABASE test_01457
DELETE FROM t0 WHERE TRUE
UPDATE t_lwu_delete SET v = v + 1000 WHERE id % 10 = 0
BACKUP TABLE 03593_backup_with_broken_projection TO Null SETTINGS allow_backup_broken_projections = true, check_projection_parts = false FORMAT Null
RESTORE TABLE t1 FROM Memory('b1') FORMAT Null
EXISTS TABLE table1
BEGIN TRANSACTION
ROLLBACK
(SELECT toString(getMergeTreeSetting('index_granularity')) AS val) AS t2
SELECT 1 UNION ALL (SELECT 2 UNION DISTINCT SELECT 3 UNION ALL SELECT 4 UNION DISTINCT SELECT 5)
SELECT 1 UNION DISTINCT (SELECT 2 UNION ALL SELECT 3 UNION DISTINCT SELECT 4) UNION ALL SELECT 5
(SELECT 1 UNION ALL SELECT 2) UNION DISTINCT (SELECT 3 UNION ALL SELECT 4 UNION DISTINCT SELECT 5)
SELECT count(*, x) FILTER (WHERE x > 1), uniqExact(a, *, b) FILTER (WHERE a), count(*) FILTER (WHERE b) FROM t
SELECT sum(a), toDate(d), SUM(b), Sum(c), TODATE(e), todate(f), COUNT(*), Count(), count() FROM t
SELECT SUM(x), sum(y), toDate(z), TODATE(w) FROM t
SELECT nan, inf, -inf, (nan), (inf), [nan, inf], (1, -inf) FROM t
SELECT quantile(0.5)(x), quantiles(0.1, 0.9)(y), QUANTILE(0.5)(z), topK(3)(w) FROM t
SELECT CAST(x AS Nullable(String)), x::Array(UInt8), CAST(y, 'Date'), [1, NULL]::Array(Nullable(UInt8)) FROM t
SELECT a, b FROM t1 GLOBAL ANY LEFT JOIN t2 USING (k) ARRAY JOIN arr AS e PREWHERE p WHERE w GROUP BY a, b WITH ROLLUP HAVING h ORDER BY a DESC NULLS LAST WITH FILL FROM 1 TO 10 STEP 2 LIMIT 3 BY a LIMIT 10 OFFSET 2
WITH 1 AS x, y AS (SELECT 2) SELECT x, (SELECT * FROM y) UNION ALL SELECT 3, 4
SELECT CASE WHEN a THEN 1 WHEN b THEN 2 ELSE 3 END, if(a, b, c), a ? b : c, x -> x + 1, arrayMap((x, y) -> x + y, a, b)
SELECT * EXCEPT (a) REPLACE (b + 1 AS b) APPLY (toString), COLUMNS('^x') FROM t
SELECT sum(x) OVER (PARTITION BY a ORDER BY b ROWS BETWEEN 1 PRECEDING AND CURRENT ROW), rank() OVER w FROM t WINDOW w AS (ORDER BY c)
ALTER TABLE t ADD COLUMN c UInt8 DEFAULT 1 AFTER b, DROP COLUMN d, MODIFY COLUMN e String, RENAME COLUMN f TO g
CREATE TABLE t (a UInt8, b Nullable(String) DEFAULT 'x' CODEC(ZSTD(3)), c Array(Tuple(x UInt8, y String))) ENGINE = MergeTree ORDER BY (a, b) PARTITION BY toYYYYMM(d) TTL d + INTERVAL 1 MONTH SETTINGS index_granularity = 8192
CREATE DICTIONARY d (k UInt64, v String DEFAULT '') PRIMARY KEY k SOURCE(CLICKHOUSE(TABLE 't' DB 'db')) LAYOUT(FLAT()) LIFETIME(MIN 0 MAX 1000)
SELECT age('year', toDateTime64('2015-02-02 20:30:36.200', 3, 'UTC'), toDateTime64('2023-02-02 20:30:36.100', 3, 'UTC'))
SELECT * FROM mysql('127.0.0.1:9004', currentDatabase(), foo, 'default', '', SETTINGS connect_timeout = 100, connection_wait_timeout = 100) ORDER BY key
ATTACH TABLE stripe_log_02184
alter table defaulted add column payload_length UInt64 materialized length(payload)
ALTER TABLE mv_00610 DROP PARTITION 201801
UPDATE t_lightweight SET c1 = 15000 WHERE id = 15
SET max_ast_depth = 10_000_000
SET optimize_injective_functions_inside_uniq = 1
DESCRIBE (SELECT p.`产品`, p.`销量` FROM test ARRAY JOIN products AS p)
DELETE FROM t_large WHERE a = 50000
DESCRIBE (SELECT id, value FROM test_table)
insert into test_rows_compact_part__fuzz_11 select 1
INSERT INTO t_replicated_merge_tree select '2024-08-02', '1', toString(number)  FROM numbers(100)
EXPLAIN indexes = 1 SELECT * FROM test_skip_idx WHERE id < 3
EXPLAIN SYNTAX SELECT [1, 1 + 1, 1 + 2]::Array(UInt32) AS c
SELECT 1 AS x, x, (SELECT 2 AS x, x) FROM remote('127.0.0.{2,3}', system.one) WHERE (3, 4) IN (SELECT 3 AS x, toUInt8(x + 1))
DESC format(JSONEachRow, '{"x" : 1.1e20}') settings input_format_try_infer_exponent_floats = 0
ALTER TABLE tp ADD PROJECTION p (SELECT sum(eventcnt), type GROUP BY type)
CREATE INDEX idx_tab2_5 ON tab2 (col1)
WITH test1 AS (SELECT i + 1, j + 1 FROM test1) SELECT * FROM test1
SELECT * FROM test WHERE '2020-10-15' != timestamp ORDER BY timestamp
SELECT visitParamExtractFloat('{"myparam":null}', 'myparam')
OPTIMIZE TABLE nest FINAL
drop table if exists t_rio
SELECT round(quantileOrNullMerge(0.10)((*,).1)) FROM t5
SELECT k, count() AS c FROM (SELECT number, CASE WHEN number < 10 THEN 'hello' WHEN number < 50 THEN 'world' ELSE 'goodbye' END AS k FROM system.numbers LIMIT 100) GROUP BY k WITH TOTALS HAVING nullIf(c, 10) < 50 ORDER BY c
SELECT * FROM columns_with_multiple_streams_compact ORDER BY field0
ATTACH TABLE {CLICKHOUSE_DATABASE:Identifier}.tablefunc04
ALTER TABLE eligible_test ADD COLUMN b String SETTINGS use_query_cache = true
INSERT INTO cool_table SELECT number, range(number), arrayMap(x -> (arrayMap(y -> 'k' || toString(y), range(x % 4)), range(x % 4))::Map(LowCardinality(String), UInt64), range(number)) FROM numbers(10)
OPTIMIZE TABLE testNullableStatesAgg FINAL
SELECT 'hasToken reference without index'
SELECT CASE WHEN (number % 2) = 0 THEN [toInt32(1), toInt32(2)] WHEN (number % 3) = 0 THEN [toInt8(2), toInt8(3)] ELSE [toInt64(3), toInt64(3)] END FROM system.numbers LIMIT 10
SELECT CASE WHEN (number % 2) = 0 THEN [toUInt16(1), toUInt16(2)] WHEN (number % 3) = 0 THEN [toFloat64(2), toFloat64(3)] ELSE [toUInt8(3), toUInt8(3)] END FROM system.numbers LIMIT 10
SELECT 't join none using'
SELECT multiIf((number % 2) = 0, [toUInt32(1), toUInt32(2)], (number % 3) = 0, [toUInt8(2), toUInt8(3)], [toUInt64(3), toUInt64(3)]) FROM system.numbers LIMIT 10
SYSTEM STOP MERGES tbl
SHOW INDEX FROM `tab.with.dots`
CREATE TABLE qbits (id UInt32, vec QBit(BFloat16, 16)) ENGINE = AggregatingMergeTree ORDER BY id
system stop merges test_block_mismatch_sk1
SELECT round(entropy(number), 6) FROM remote('127.0.0.{1,2}', numbers(256))
SELECT sumMapMerge(s) FROM (SELECT sumMapState(statusMap.status, statusMap.requests) AS s FROM sum_map)
SELECT materialize('a\xFFb') LIKE materialize('a%\xFFb')
optimize table ttl_test_02129 final
select * from test_memory
DROP DATABASE 01681_database_for_flat_dictionary
set mutations_sync=1
DROP TABLE IF EXISTS t_lwu_memory SYNC
EXISTS TEMPORARY TABLE temp_tab
show create table tp_2
DELETE FROM test_virtual_columns WHERE a = 1
SELECT s, replaceAll(s, '_', 'o') AS a, replaceRegexpAll(s, '_', 'o') AS b, a = b FROM (SELECT arrayJoin(['._', '_._']) AS s)
ALTER TABLE alter_test MODIFY COLUMN `b` DateTime DEFAULT now()
ATTACH TABLE mutate_and_zero_copy_replication2
SELECT dictGetKeys('dict_valexpr', 's', CAST('alpha' AS LowCardinality(String)))
explain select * from distributed_table limit 1 by id
SELECT arrayNormalizedGini([0.9, 0.3, 0.8, 0.75, 0.65, 0.6, 0.78, 0.7, 0.05, 0.4, 0.4, 0.05, 0.5, 0.1, 0.1], [1, 1, 1, 1, 1, 1, 0, 0, 0, 0, 0, 0, 0, 0, 0])
OPTIMIZE TABLE t_bloom_filter FINAL
CREATE TABLE values_list AS VALUES('a UInt64, s String', (1, 'one'), (2, 'two'), (3, 'three'))
SELECT groupArrayMovingSum(0) FROM system.one
SYSTEM SYNC REPLICA replica1
SELECT toDate('2015-02-05') >= '2015-02-04'
WITH toDateTime(1 + rand() % 0xFFFFFFFF) AS t SELECT count() FROM numbers(1000000) WHERE formatDateTime(t, '%Y-%m-%d %H:%i:%S') != toString(t)
desc format(CSV, '"2020-01-01 00:00:00"\n"2020-01-01"')
RENAME TABLE {CLICKHOUSE_DATABASE:Identifier}.r1 TO {CLICKHOUSE_DATABASE:Identifier}.r1_bak
ALTER TABLE table_rename_with_ttl MODIFY TTL date1 + INTERVAL 1 MONTH
SELECT COUNT() FROM bloom_filter_array_lc_null_types_test WHERE has(i8, 100)
SELECT ignore(subtractDays(toDate(0), 1))
SELECT * FROM test_deep_nested_json ORDER BY i
EXPLAIN SYNTAX SELECT value1 FROM date_t WHERE toYear(date1) <> 1993 AND id BETWEEN 1 AND 3
SELECT fromUnixTimestamp(0) FROM system.one
SELECT 'ArrayLastIndex constant predicate'
DELETE FROM test_deletes WHERE b = 1 SETTINGS lightweight_deletes_sync = 0
SELECT number FROM temp_tab
insert into test select number, 'str_' || toString(number) from numbers(200000, 200000)
SELECT * FROM bf_tokenbf_map_keys_test WHERE map_fixed['K2'] = 'V2' SETTINGS force_data_skipping_indices='map_fixed_keys_tokenbf'
SELECT space(-3::Int16), length(space(-3::Int16))
select null as offset, toFixedString('Hello', 6) as s,    subString(bin(s), offset), bin(bitSlice(s, offset))
OPTIMIZE TABLE hits_snippet
SELECT age('second', toDateTime64('2015-08-18 00:00:00', 0, 'UTC'), toDateTime('2015-08-18 01:10:10', 'UTC'))
SELECT length(dictGetKeys('dict_big', 'grp', '123'))
select isNaN(lgamma(-2))
DETACH TABLE log_02184
desc format(Values, '([123, 123])\n([321.321, 312])')
ALTER TABLE t_mut_virtuals UPDATE s = _part WHERE 1
SELECT multiIf((number % 2) = 0, [toInt32(1), toInt32(2)], (number % 3) = 0, [toFloat64(2), toFloat64(3)], [toInt32(3), toInt32(3)]) FROM system.numbers LIMIT 10
EXPLAIN ESTIMATE SELECT count() FROM test.hits WHERE CounterID < 29103473
with '2018-01-12 22:33:44.55' as s, toDateTime64(s, 6) as datetime64 SELECT fromUnixTimestampInJodaSyntax(datetime64, 'SSSSSSSSS', 'UTC')
CREATE TABLE userid_test (userid UInt64, name String) ENGINE = MergeTree() PARTITION BY (intDiv(userid, 500)) ORDER BY (userid) SETTINGS index_granularity = 8192
SHOW CREATE USER u2_01292@'192.168.%.%'
system stop fetches rmt2
INSERT INTO 03173_nested_function_lc_null SELECT number FROM numbers(100)
SELECT CAST(a, 'Int32') as x, toTypeName(x) FROM (SELECT materialize(CAST(NULL, 'Nullable(UInt8)')) AS a)
DELETE FROM 02581_trips                        WHERE id IN (SELECT (number*10 + 9)::UInt32 FROM numbers(10000000)) SETTINGS lightweight_deletes_sync = 2
rename table db_hang.test_mv to db_hang_temp.test_mv
SET input_format_json_infer_array_of_dynamic_from_array_of_different_types=0
SELECT CASE WHEN (number % 2) = 0 THEN [toUInt64(1), toUInt64(2)] WHEN (number % 3) = 0 THEN [toUInt16(2), toUInt16(3)] ELSE [toUInt64(3), toUInt64(3)] END FROM system.numbers LIMIT 10
DESCRIBE TABLE t_describe_options
SELECT concat('With ', materialize(['foo', 'bar'] :: Array(String)))
INSERT INTO TABLE test1(year, uv) select '2021',uniqThetaState(toInt64(2))
SHOW CREATE TABLE codecs2
SHOW CREATE TABLE mt2
DROP TABLE IF EXISTS underlying_00967
select * from remote('127.{1,2}', view(select * from system.one), identity(dummy)) format Null
REVOKE SELECT ON db3.table FROM test_user_01073
INSERT INTO 01504_test SELECT concat(toString(number), '_1'), number FROM numbers(10000)
INSERT INTO 02581_trips SELECT number+30000, number+30000, '' FROM numbers(10000)
insert into in_02231 select * from numbers(5e6) settings max_memory_usage='400Mi', max_threads=1
TRUNCATE TABLE truncate_test_set
OPTIMIZE TABLE ttl FINAL
desc s3Cluster('test_cluster_one_shard_three_replicas_localhost', 'http://localhost:11111/test/{a,b}.tsv', 'test', 'testtest')
WITH ((1, (1, 1)), (2, (2, 2))) AS liter_prepared_set SELECT COUNT() FROM single_column_bloom_filter WHERE (i64, (i64, i32)) IN liter_prepared_set SETTINGS max_rows_to_read = 6
INSERT INTO grouparray Select groupArrayIntersectState([]::Array(UInt8))
SELECT database, table, name, data_compressed_bytes FROM system.data_skipping_indices WHERE database = currentDatabase() AND table = 'tab'
EXPLAIN indexes = 1, description=0 SELECT id FROM test_table WHERE id <= 10 AND value IN (SELECT 5)
SYSTEM FLUSH DISTRIBUTED dist_test_01040
EXPLAIN QUERY TREE dump_tree = 0, dump_ast = 1 SELECT replaceRegexpOne(identity('abc123'), '^(a)(b)$', '\2')
CREATE TABLE t3 AS numbers(10)
SELECT max(length(x)) FROM parallel_replicas_plain FORMAT Null
SELECT CASE WHEN (number % 2) = 0 THEN toUInt32(1) WHEN (number % 3) = 0 THEN toUInt16(2) ELSE toInt32(3) END FROM system.numbers LIMIT 10
optimize table xp final
SELECT groupArray(id) FROM tab WHERE hasAllTokens(message, ['cdef'])
OPTIMIZE TABLE minmax_idx2
CREATE TABLE t2lc (`a` UInt64, `b` LowCardinality(Nullable(Int64)) ) ENGINE = MergeTree ORDER BY tuple()
SELECT count(*) FROM (SELECT * FROM numbers(10))
CREATE INDEX idx_tab3_5 ON tab3 (col1,col3 DESC)
SELECT count(*) FROM source WHERE toYear(dt) = 2023 SETTINGS enable_analyzer=1
DETACH TABLE t_index_lazy_load
ALTER TABLE t_ephemeral_02205_1 DELETE WHERE x = 7
SELECT arrayMap(x -> '.', range(number % 10)) AS k FROM remote('127.0.0.{2,3}', numbers(10)) GROUP BY GROUPING SETS ((k)) ORDER BY k settings group_by_use_nulls=1
SYSTEM RELOAD DICTIONARIES
select toValidUTF8('\x00\x00\x00\x00\x00\xC2\xC2\x80\x00\x00\xE1\x80\x80\x00\x00\x00') from system.numbers limit 10
WITH IPv4CIDRToRange(toIPv4('192.168.0.0'), 0) as ip_range SELECT COUNT(*) FROM ipv4_range WHERE ip BETWEEN tupleElement(ip_range, 1) AND tupleElement(ip_range, 2)
EXPLAIN SYNTAX SELECT -(-(-(1)))
CREATE TABLE binary_op_mono3(i int, j int) ENGINE MergeTree PARTITION BY i + 1000 ORDER BY j
WITH toInt64(2) AS new_x SELECT * replace(new_x as x)  FROM (SELECT 1 AS x) t
SELECT JSON_EXISTS('{"a":[{"b":1},{"c":2}]}', '$.a[*].b')
SELECT 'Special cases'
select multiFuzzyMatchAny(materialize('leftabcright'), 1, materialize(['a1c']))
set force_index_by_date=1
set optimize_group_by_function_keys=0
SELECT COUNT() FROM bloom_filter_null_types_test WHERE date_time = toDateTime('1970-01-01 02:00:01', 'Asia/Istanbul') SETTINGS max_rows_to_read = 6
EXPLAIN SYNTAX (SELECT sum(1 + uint64) AS j from test_table having j > 0)
INSERT INTO t1 SELECT number, number % 100 FROM numbers(100)
SET enable_analyzer=1, join_algorithm = 'full_sorting_merge'
SELECT d1, f2, least(d1, f2) FROM t ORDER BY f2
SYSTEM STOP MERGES t_optimize_level
ALTER TABLE t MODIFY COMMENT 'World', MODIFY COLUMN x UInt16
DROP TABLE 03199_fixedstring_array
SHOW CREATE TABLE constrained2
EXPLAIN SYNTAX (SELECT sum(2 + uint64) From test_table)
WITH minSampleSizeContinous(0.0, 10.0, 0.05, 0.8, 0.05) AS res SELECT 'continous const 2', roundBankers(res.1, 2), roundBankers(res.2, 2), roundBankers(res.3, 2)
CREATE TABLE low_null_float (a LowCardinality(Nullable(Float64))) ENGINE = MergeTree order by tuple()
RENAME DICTIONARY test_01155_ordinary.dict TO test_01155_atomic.dict
SELECT toFloat64(0.999999999) as x, toDecimal32(x, 9), toDecimal32(-x, 9), toDecimal64(x, 9), toDecimal64(-x, 9)
GRANT SELECT(col1) ON db3.table TO test_user_01073
SELECT * FROM test_tuple_filter WHERE (log_date, value) = ('2021-01-01', 'A')
INSERT INTO join_on_disk SELECT number as id FROM numbers_mt(50000)
SHOW TABLES FROM test_truncate_database
SELECT '37' == dictGetString({CLICKHOUSE_DATABASE:String} || '.dict_ip_trie', 'val', tuple(IPv6StringToNum('ffff:ffff:f800::')))
BACKUP TABLE t1 TO Memory('b1') FORMAT Null
SELECT * FROM t_enum_in_unknown_value WHERE e IN ('c')
SELECT multiIf((number % 2) = 0, [toFloat32(1), toFloat32(2)], (number % 3) = 0, [toInt16(2), toInt16(3)], [toInt8(3), toInt8(3)]) FROM system.numbers LIMIT 10
DROP TABLE IF EXISTS t_light_r2 SYNC
select arrayMap(x -> NULL::Nullable(UInt8), range(number)) from numbers(3)
rename table t2 to t1
SHOW CREATE ROW POLICY sqllt_row_policy FORMAT Null
SELECT date_trunc('year', toDate('2020-01-01', 'Europe/London'))
system flush logs system.metric_log
SELECT parseDateTime32BestEffortOrNull('Dec 15, 2021') AS a, toTypeName(a)
DROP VIEW IF EXISTS explain_index_has_all_tokens
system start merges test
ALTER TABLE test_alter_if_exists DROP COLUMN c0, MODIFY COLUMN IF EXISTS c0 Int64
SELECT formatDateTime(toDateTime64('2205-01-12 12:12:12', 6, 'Asia/Istanbul'), '%C')
ALTER TABLE t_mutation_rows_counter UPDATE x = x + 1 WHERE x = 150
explain syntax select x3 + 1, x2, x1 from test order by -1
desc file('02906.orc')
SELECT toTime64('-99:59:59.123', 3)
SELECT '99' == dictGetString({CLICKHOUSE_DATABASE:String} || '.dict_ip_trie', 'val', tuple(IPv6StringToNum('ffff:ffff:ffff:ffff:ffff:ffff:ffff:8000')))
SHOW INDEX FROM database_123456789abcde.tbl
SELECT CAST(x AS Tuple(`a b` UInt8, c Array(Tuple(`d-e` String, f UInt8)))), x::Tuple(`a b` UInt8, `c.d` Map(String, Nullable(UInt8)))
SELECT CAST(1 AS Enum8('it\'s' = 1, 'b\\c' = -2)), CAST(d AS DateTime64(3, 'Europe/Moscow')), y::Decimal(10, 2), z::FixedString(16)
CREATE TABLE t2 (`a b` Tuple(`x y` UInt8, z String), e Enum16('a' = 1, 'b' = 2), n Nested(k UInt8, `v w` String)) ENGINE = Memory
