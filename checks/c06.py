"""C06 — statements in a script are parsed independently.
Theorems: coq/Properties/C06_driver.v (ParseStatements model: a script of delimiter-respected segments with any placement of
extra semicolons maps to the per-segment results in order; the loop threads nothing but remaining tokens and errors) and
coq/Properties/C06.v (lexer: ';' inside a quoted string literal — for every byte string — or inside a comment never
becomes a SEMICOLON token).  PARTIAL: delimiter-respect of the real statement parsers is not proved (joined-vs-individual
comparison on the implementation only).
Ties: cancel -semis: scripts of 1-6 (and 101-160) corpus/synthetic statements joined with ';' — with ';' inside strings,
quoted identifiers and comments, empty statements, no trailing ';' — compared statement by statement (EXPLAIN) with each
part parsed alone."""
import os
import scriptcommon
import verif

TRUSTED = [
    "Coq 8.16.1 kernel and vm_compute; Print Assumptions of every theorem: closed under the global context",
    "hand-written models: Driver/DriverModel.v (ParseStatements), Lexer/LexerModel.v (validated by correspondence)",
    "partial: the hypothesis `delimited` (a statement parser stops exactly at the ';' that follows a valid statement) is assumed in the driver theorem and only tested on the implementation",
]


def run(rep):
    st = verif.proof_stage(rep, "C06", needs_translators=["gentables"])
    broken = list(st["broken"])
    broken += verif.build_topic(go_pkgs=("cancel",))
    found = False
    if not any(b["obligation"].startswith("build:") for b in broken):
        count = 3000 if rep.tier == "quick" else 60000
        res = scriptcommon.run_cancel(rep, count, ["-semis"], with_invalid=False)
        for (hx, what) in res["violations"][:10]:
            found = True
            rep.violation("input", "script differs from its statements parsed alone: " + what[:200], {"script_hex": hx, "what": what}, input_hex=hx)
        if res["rc"] not in (0, 1):
            broken.append({"obligation": "harness:cancel -semis", "detail": "rc=%s %s" % (res["rc"], res["err"])})
        rep.coverage.update({
            "evaluations": res["scripts"], "distinct_nontrivial": res["multi"],
            "rule": "scripts of 1-6 (every 97th: 101-160) statements from the corpus and synthetic statements with ';' inside string literals, back-quoted / double-quoted identifiers and comments; separators ';', ';;', '; ;', with blanks, newlines and comments containing ';'; "
                    "leading semicolons, with and without trailing ';'; oracle: number of statements and EXPLAIN of each equal those of the parts parsed alone; distinct_nontrivial = scripts with at least two statements",
            "samples": res["samples"], "trusted_base": TRUSTED,
        })
    # the semicolon-in-string/comment theorems are stated over Lexer/LexerModel.v: tie that model to the CURRENT lexer.go (a difference is a broken correspondence)
    import lexcommon
    lexcommon.lexer_premise(rep, broken, ())
    # C06_fragment_* are stated over Select/SelectParseModel.v + SelectPrintModel.v: tie them to the CURRENT parser and printer
    import searchcommon
    b2, summ = searchcommon.run_selectcore(rep, 1500 if rep.tier == "quick" else 20000)
    broken += b2
    rep.coverage["selectcore_correspondence"] = summ
    verif.report_broken(rep, broken, found)
    rep.assumptions = ["INSERT ... FORMAT <inline data> / VALUES payloads are excluded (as in the property)"]


def replay(rec):
    import subprocess
    p = subprocess.run([os.path.join(verif.BUILD, "cancel"), "-semis", "-v"], input=(rec["script_hex"] + "\n").encode(), stdout=subprocess.PIPE, stderr=subprocess.STDOUT)
    print(p.stdout.decode())
    return 0
