#!/usr/bin/env python3
"""C08 case generator and three-way comparison (code vs extracted model vs extracted spec).

usage: gen_expr_cases.py <seed> <count> [--exhaustive k] [--soup n] [--run] [--exprdump PATH]
                         [--driver PATH] [--keep DIR] [--max-report N]
                         [--contexts none|quick|full] [--no-known-open]

Without --run: prints one case per line on stdout:
    <tree> TAB <hex text>
  <tree> is the surface tree in the prefix notation read by `/verif/build/expr_driver spec`
  (see /verif/driver/expr/main.ml), or "-" for a text-only case (spacing / mixed-case variants that
  the spec's `print` cannot produce); <hex text> is the expression source text.

  --exhaustive k : ALL binary-operator shapes with up to k operators over one representative per
      precedence class (OR AND = || + *), every parenthesisation, with prefix NOT / prefix minus /
      parentheses / NOT( ) wrappers placed on every node (up to a wrapper budget that shrinks as k
      grows), plus the spelling passes (every operator spelling, every adjacent pair of spellings).
      k = 3 is the quick tier, k = 4 the thorough tier.
  <count> random deeper expressions (depth to 12, up to 40 operators), case i derived from
      (<seed>, i) through splitmix64 only.

  --soup n : n random short token sequences over a vocabulary that also contains tokens OUTSIDE the
      fragment (. :: , IN BETWEEN LIKE IS AS ANY ALL [ ] ? -> strings floats keywords ...), printed as
      "~ TAB <hex text>".  They probe the fragment boundary: whenever the model answers (no
      OutOfFragment, nothing left over) its answer must equal the code's; OOF is not an error here.

With --run: runs the comparison and prints a summary; exit status 1 on any disagreement.
  code  : /verif/build/exprdump            (real parser + Explain on `SELECT <text>`)
  model : /verif/build/exprdump -tokens | /verif/build/expr_driver model   (extracted ExprModel)
  spec  : /verif/build/expr_driver spec    (extracted ExprSpec: wfb, print, ref)
  checks: (1) model = code on every text unless the model says OOF (counted; in-fragment texts must
              not be OOF: the generator only writes in-fragment texts, so OOF is itself reported);
          (2) for every tree with wfxb = true (precedence-climb readings; the layered ones, wfb = true,
              are counted separately): spec text = generator text, and ref = code.
          (3) --contexts quick|full: every tree that passed (2) — except the exhaustive shapes with more than
              3 operators, which stay SELECT-only — is ALSO evaluated inside the embedding contexts of
              checks/expr_contexts.py (ALTER ... UPDATE c = <e> WHERE <e>, CREATE TABLE ... ORDER BY <e>,
              SELECT (<e>) AS x, WITH <e> AS x ..., ...): the subtree EXPLAIN shows at the hole must be the same
              reference tree (`exprdump -contexts`).  A failure is reported as a SPEC!=CODE block whose first
              line carries the SQL of the context statement.  quick samples the contexts per case
              (expr_contexts.plan), full is the whole product.  --no-known-open switches the KNOWN_OPEN
              exclusions (documented genuine defects of /repo) off.
"""
import os
import subprocess
import sys
import tempfile

MASK = (1 << 64) - 1


class SplitMix:
    def __init__(self, seed):
        self.s = seed & MASK

    def next(self):
        self.s = (self.s + 0x9E3779B97F4A7C15) & MASK
        z = self.s
        z = ((z ^ (z >> 30)) * 0xBF58476D1CE4E5B9) & MASK
        z = ((z ^ (z >> 27)) * 0x94D049BB133111EB) & MASK
        return z ^ (z >> 31)

    def below(self, n):
        return self.next() % n

    def choice(self, xs):
        return xs[self.below(len(xs))]

    def chance(self, num, den):
        return self.below(den) < num


# ---------------------------------------------------------------------------------------------
# trees:  ('i', name) ('n', int) ('(', e) ('NOT', word, e) ('NOTC', word, e) ('~', e) ('b', op, l, r)
# `word` / `op` are the spellings as written in the source text.

SPEC_OPS = ["OR", "or", "AND", "and", "=", "==", "!=", "<>", "<", "<=", ">", ">=", "<=>", "||",
            "+", "-", "*", "/", "%", "DIV", "div", "MOD", "mod"]
CLASS_SPELLINGS = {
    "OR": ["OR", "or"],
    "AND": ["AND", "and"],
    "CMP": ["=", "==", "!=", "<>", "<", "<=", ">", ">=", "<=>"],
    "CAT": ["||"],
    "ADD": ["+", "-"],
    "MUL": ["*", "/", "%", "DIV", "div", "MOD", "mod"],
}
CLASSES = ["OR", "AND", "CMP", "CAT", "ADD", "MUL"]
REPRESENTATIVE = {"OR": "OR", "AND": "AND", "CMP": "=", "CAT": "||", "ADD": "+", "MUL": "*"}
OP_LEVEL = {}
for _c, _lvl in (("OR", 1), ("AND", 2), ("CMP", 4), ("CAT", 5), ("ADD", 6), ("MUL", 7)):
    for _s in CLASS_SPELLINGS[_c]:
        OP_LEVEL[_s] = _lvl
MIXED_CASE = {"OR": ["Or", "oR"], "AND": ["And", "aNd", "anD"], "DIV": ["Div", "dIV", "d\u0131v", "D\u0131V"],     # (U+0131 dotless i upper-cases to I: the lexer's keyword lookup accepts it, `dıv` is DIV)
              "MOD": ["Mod", "mOd"], "NOT": ["Not", "nOT"]}


def tokens(e, out):
    k = e[0]
    if k == 'i':
        out.append(e[1])
    elif k == 'n':
        out.append(str(e[1]))
    elif k == '(':
        out.append("(")
        tokens(e[1], out)
        out.append(")")
    elif k == 'NOT':
        out.append(e[1])
        tokens(e[2], out)
    elif k == 'NOTC':
        out.append(e[1])
        out.append("(")
        tokens(e[2], out)
        out.append(")")
    elif k == '~':
        out.append("-")
        tokens(e[1], out)
    else:
        tokens(e[2], out)
        out.append(e[1])
        tokens(e[3], out)


def text_of(e):
    out = []
    tokens(e, out)
    return " ".join(out)


def encode(e, out):
    """prefix notation for the spec driver; None if the tree uses a spelling the spec lacks"""
    k = e[0]
    if k == 'i':
        out.append("i" + e[1])
    elif k == 'n':
        out.append("n" + str(e[1]))
    elif k == '(':
        out.append("(")
        return encode(e[1], out)
    elif k == 'NOT':
        if e[1] not in ("NOT", "not"):
            return False
        out.append(e[1])
        return encode(e[2], out)
    elif k == 'NOTC':
        if e[1] not in ("NOT", "not"):
            return False
        out.append("NOTC" if e[1] == "NOT" else "notc")
        return encode(e[2], out)
    elif k == '~':
        out.append("~")
        return encode(e[1], out)
    else:
        if e[1] not in SPEC_OPS:
            return False
        out.append("b" + e[1])
        return encode(e[2], out) and encode(e[3], out)
    return True


def case_line(e):
    enc = []
    ok = encode(e, enc)
    return (" ".join(enc) if ok else "-") + "\t" + text_of(e).encode().hex()


# ---------------------------------------------------------------------------------------------
# exhaustive part

def bare_shapes(k, ops):
    """all binary trees with k operators; operators drawn from `ops`; leaves are None"""
    if k == 0:
        yield None
        return
    for kl in range(k):
        for l in bare_shapes(kl, ops):
            for r in bare_shapes(k - 1 - kl, ops):
                for op in ops:
                    yield (op, l, r)


def count_ops(e):
    """number of binary operators of a (decorated) tree"""
    if e[0] == 'b':
        return 1 + count_ops(e[2]) + count_ops(e[3])
    if e[0] in ('i', 'n'):
        return 0
    return count_ops(e[-1])


def inorder_ops(t):
    return () if t is None else inorder_ops(t[1]) + (t[0],) + inorder_ops(t[2])


def count_nodes(t):
    return 1 if t is None else 1 + count_nodes(t[1]) + count_nodes(t[2])


WRAPPERS = "NMPC"   # NOT x | - x | ( x ) | NOT ( x )


def wrapper_assignments(n, budget):
    """all tuples (w_0 .. w_{n-1}) of wrapper strings with total length <= budget"""
    def seqs(length):
        if length == 0:
            yield ""
            return
        for s in seqs(length - 1):
            for w in WRAPPERS:
                yield s + w
    by_len = [list(seqs(l)) for l in range(budget + 1)]

    def go(i, left):
        if i == n:
            yield ()
            return
        for l in range(left + 1):
            for s in by_len[l]:
                for rest in go(i + 1, left - l):
                    yield (s,) + rest
    return go(0, budget)


def build(t, assign, leafkind, spell, notword):
    """decorate the bare tree t (preorder node numbering) -> tree"""
    idx = [0]
    leaf = [0]
    opno = [0]

    def go(t):
        i = idx[0]
        idx[0] += 1
        if t is None:
            j = leaf[0]
            leaf[0] += 1
            e = ('n', j) if leafkind == 'n' else ('i', "abcdefghij"[j])
        else:
            l = go(t[1])
            op = spell(t[0], opno[0])      # operators are numbered in text order
            opno[0] += 1
            r = go(t[2])
            e = ('b', op, l, r)
        for w in reversed(assign[i]):      # the first letter is the outermost wrapper
            if w == 'N':
                e = ('NOT', notword(i), e)
            elif w == 'M':
                e = ('~', e)
            elif w == 'P':
                e = ('(', e)
            else:
                e = ('NOTC', notword(i), e)
        return e
    return go(t)


def budgets_for(kmax):
    # wrapper budget per number of binary operators
    if kmax <= 3:
        return {0: 3, 1: 3, 2: 2, 3: 1}
    return {0: 4, 1: 3, 2: 3, 3: 2, 4: 1}


# the pass of exhaustive() that produced the tree most recently yielded, and its number of binary
# operators (read by all_cases to tag the cases for the context sampling of the quick tier)
CURRENT_PASS = [0, 0]


def exhaustive(kmax):
    budgets = budgets_for(kmax)
    # pass 1: one representative per class
    CURRENT_PASS[0] = 1
    for k in range(0, kmax + 1):
        CURRENT_PASS[1] = k
        budget = budgets.get(k, 0)
        shapes = list(bare_shapes(k, CLASSES))
        n = 2 * k + 1
        assigns = list(wrapper_assignments(n, budget))
        for t in shapes:
            for a in assigns:
                yield build(t, a, 'i', lambda c, i: REPRESENTATIVE[c], lambda i: "NOT")
                if any('M' in s for s in a):
                    yield build(t, a, 'n', lambda c, i: REPRESENTATIVE[c], lambda i: "NOT")
    # pass 2: cycle every spelling through every position (three rotations), smaller budgets
    CURRENT_PASS[0] = 2
    for rot in range(3):
        for k in range(1, kmax + 1):
            budget = max(budgets.get(k, 0) - 1, 0)
            shapes = list(bare_shapes(k, CLASSES))
            n = 2 * k + 1
            assigns = list(wrapper_assignments(n, budget))
            seqno = {}
            for t in shapes:
                # spellings depend on the operator sequence in text order only, so that all
                # parenthesis / prefix decorations and all groupings of one operator sequence
                # (hence every reading of one text) use the same spellings
                key = inorder_ops(t)
                if key not in seqno:
                    seqno[key] = len(seqno) + 1
                c0 = seqno[key] + 1000 * k
                for a in assigns:

                    def spell(c, i, c0=c0):
                        s = CLASS_SPELLINGS[c]
                        return s[(c0 + i * 7 + rot * 3) % len(s)]

                    def notword(i, c0=c0):
                        return ("NOT", "not")[(c0 + rot) % 2]
                    yield build(t, a, 'i' if (c0 + rot) % 4 else 'n', spell, notword)
    # pass 3: every ordered pair (and for kmax >= 4 the triples over one spelling per token kind)
    #          of operator spellings, both shapes, wrapper budget 1
    CURRENT_PASS[0] = 3
    allsp = [s for c in CLASSES for s in CLASS_SPELLINGS[c]]
    assigns5 = list(wrapper_assignments(5, 1))
    for o1 in allsp:
        for o2 in allsp:
            for t in ((o1, (o2, None, None), None), (o1, None, (o2, None, None))):
                for a in assigns5:
                    yield build(t, a, 'i', lambda s, i: s, lambda i: "NOT")
    if kmax >= 4:
        kinds = ["OR", "AND", "=", "<>", "<=>", "||", "+", "-", "*", "/", "%", "DIV", "MOD"]
        for o1 in kinds:
            for o2 in kinds:
                for o3 in kinds:
                    for t in bare_shapes(3, ["?"]):
                        # relabel the three operators in preorder
                        ops = [o1, o2, o3]
                        pos = [0]

                        def relabel(t):
                            if t is None:
                                return None
                            o = ops[pos[0]]
                            pos[0] += 1
                            return (o, relabel(t[1]), relabel(t[2]))
                        yield build(relabel(t), ("",) * 7, 'i', lambda s, i: s, lambda i: "NOT")


def text_only_variants(e, i):
    """spacing / mixed-case variants of a tree's text (no tree: code vs model only)"""
    toks = []
    tokens(e, toks)
    out = []
    # compact: no space unless two words or two minus signs ("--" starts a comment) would touch
    s = ""
    for j, t in enumerate(toks):
        if j > 0:
            p = toks[j - 1]
            word = lambda x: x[0].isalnum() or x[0] == '_'
            need = (word(p) and word(t)) or (p == "-" and t == "-")
            if need:
                s += " "
        s += t
    out.append(s)
    # mixed-case keywords
    m = [MIXED_CASE[t.upper()][(i + j) % len(MIXED_CASE[t.upper()])] if t.upper() in MIXED_CASE and t.isalpha() and len(t) > 1 else t
         for j, t in enumerate(toks)]
    if m != toks:
        out.append("  ".join(m))
    return out


# ---------------------------------------------------------------------------------------------
# random part

NAMES = ["a", "b", "c", "x", "y", "z", "k1", "col", "foo", "a_b", "t1", "xx", "val", "n", "m"]
NUMS = [0, 1, 2, 7, 10, 42, 255, 65536, 2147483647, 2147483648, 4294967296,
        9223372036854775807, 9223372036854775808, 9223372036854775809,
        18446744073709551615, 1000000007, 123456789012345678]


def level_of(e):
    k = e[0]
    if k == 'b':
        return OP_LEVEL[e[1]]
    if k == 'NOT':
        return 3
    if k == '~':
        return 8
    return 9


def starts_paren(e):
    if e[0] == '(':
        return True
    if e[0] == 'b':
        return starts_paren(e[2])
    return False


def fit(e, minlevel, rng, sloppy):
    """parenthesise e if its level is below minlevel (unless sloppy)"""
    if level_of(e) < minlevel and not sloppy:
        return ('(', e)
    return e


def random_tree(rng, depth, ops_left, sloppy_p):
    """returns (tree, ops_used)"""
    def sloppy():
        return rng.chance(sloppy_p, 100)

    if depth == 0 or ops_left[0] <= 0 or rng.chance(1, 5):
        r = rng.below(10)
        if r < 5 or depth == 0:
            if rng.chance(1, 3):
                return ('n', rng.choice(NUMS))
            return ('i', rng.choice(NAMES))
        if r < 7:
            return ('~', fit(random_tree(rng, depth - 1, ops_left, sloppy_p), 8, rng, sloppy()))
        if r < 8:
            return ('(', random_tree(rng, depth - 1, ops_left, sloppy_p))
        if r < 9:
            return ('NOTC', rng.choice(["NOT", "not"]), random_tree(rng, depth - 1, ops_left, sloppy_p))
        sub = fit(random_tree(rng, depth - 1, ops_left, sloppy_p), 3, rng, sloppy())
        if starts_paren(sub) and not sloppy():
            return ('NOTC', rng.choice(["NOT", "not"]), sub[1] if sub[0] == '(' else sub)
        return ('NOT', rng.choice(["NOT", "not"]), sub)
    r = rng.below(12)
    if r < 1:
        return ('~', fit(random_tree(rng, depth - 1, ops_left, sloppy_p), 8, rng, sloppy()))
    if r < 2:
        sub = fit(random_tree(rng, depth - 1, ops_left, sloppy_p), 3, rng, sloppy())
        if starts_paren(sub) and not sloppy():
            return ('(', ('NOT', rng.choice(["NOT", "not"]), ('i', rng.choice(NAMES))))
        return ('NOT', rng.choice(["NOT", "not"]), sub)
    if r < 3:
        return ('(', random_tree(rng, depth - 1, ops_left, sloppy_p))
    ops_left[0] -= 1
    # bias towards chains of the flattening operators and towards left-deep trees
    c = rng.choice(CLASSES + ["OR", "AND", "CAT"])
    op = rng.choice(CLASS_SPELLINGS[c])
    lvl = OP_LEVEL[op]
    l = random_tree(rng, depth - 1, ops_left, sloppy_p)
    rt = random_tree(rng, depth - 1 if rng.chance(1, 2) else max(depth - 3, 0), ops_left, sloppy_p)
    l = fit(l, lvl, rng, sloppy())
    rt = fit(rt, lvl + 1, rng, sloppy())
    return ('b', op, l, rt)


def clamp_leftmost(e):
    """the token right after a minus sign: if it is a literal above 2^63, make it 2^63"""
    if e[0] == 'n':
        return ('n', min(e[1], 1 << 63))
    if e[0] == 'b':
        return ('b', e[1], clamp_leftmost(e[2]), e[3])
    return e


def sanitize(e):
    """keep literals under a minus at or below 2^63 (above: Float64, C09's business)"""
    k = e[0]
    if k in ('i', 'n'):
        return e
    if k == '~':
        return ('~', clamp_leftmost(sanitize(e[1])))
    if k == '(':
        return ('(', sanitize(e[1]))
    if k in ('NOT', 'NOTC'):
        return (k, e[1], sanitize(e[2]))
    return ('b', e[1], sanitize(e[2]), sanitize(e[3]))


def random_case(seed, i):
    rng = SplitMix((seed * 0x100000001B3 + i) & MASK)
    rng.next()
    depth = 2 + rng.below(11)                 # 2 .. 12
    ops = [1 + rng.below(40)]                 # up to 40 binary operators
    sloppy_p = rng.choice([0, 0, 0, 5, 30])   # mostly well-formed; sometimes deliberately not
    return sanitize(random_tree(rng, depth, ops, sloppy_p))


SOUP_IN = ["a", "b", "date", "1", "2", "0", "007", "(", ")", "(", ")", "NOT", "not", "-", "-", "+", "*",
           "/", "%", "AND", "OR", "and", "=", "==", "<>", "<", "<=>", "||", "DIV", "MOD"]
SOUP_OUT = [".", "::", ",", "IN", "BETWEEN", "LIKE", "IS", "NULL", "'x'", "[", "]", "?", ":", "AS", "any",
            "ANY", "ALL", "->", "1.5", ".1", "0x1F", "inf", "SELECT", "x.y", "f(", "1e3", "GLOBAL",
            "ILIKE", "REGEXP", "EXCEPT", "`q`", "@@v", "18446744073709551616", "9223372036854775809"]


def soup_case(seed, i):
    """a small random expression with one to three token-level edits (insert / delete / replace)"""
    rng = SplitMix((seed * 0x1000193 + 0x5EED + i) & MASK)
    rng.next()
    base = sanitize(random_tree(rng, 1 + rng.below(3), [1 + rng.below(4)], 20))
    toks = []
    tokens(base, toks)
    p_out = rng.choice([0, 0, 10, 30])
    for _ in range(1 + rng.below(3)):
        t = rng.choice(SOUP_OUT) if rng.chance(p_out, 100) else rng.choice(SOUP_IN)
        k = rng.below(3)
        pos = rng.below(len(toks) + 1)
        if k == 0 or not toks:
            toks.insert(pos, t)
        elif k == 1:
            del toks[min(pos, len(toks) - 1)]
        else:
            toks[min(pos, len(toks) - 1)] = t
    return " ".join(toks)


# ---------------------------------------------------------------------------------------------

def all_cases(seed, count, kmax, tags=None):
    """yields (tree-or-None, text); with `tags` (a list) appends, for every yielded TREE, its origin:
    "core<k>" (pass 1 of exhaustive(): one representative per precedence class, k binary operators),
    "spell" (passes 2 and 3: the spelling passes) or "random"."""
    n = 0
    if kmax is not None:
        for e in exhaustive(kmax):
            if tags is not None:
                tags.append("core%d" % CURRENT_PASS[1] if CURRENT_PASS[0] == 1 else "spell")
            yield e, None
            n += 1
            if n % 97 == 0:
                for s in text_only_variants(e, n):
                    yield None, s
    for i in range(count):
        e = random_case(seed, i)
        if tags is not None:
            tags.append("random")
        yield e, None
        if i % 5 == 0:
            for s in text_only_variants(e, i):
                yield None, s
    # long and deep expressions: flat chains of n operands per operator class (fixed-size buffers in the flattening code),
    # the same nested to the right in parentheses and mixed with a second class, prefix chains (depth of the printed tree)
    for e in long_cases():
        if tags is not None:
            tags.append("random")
        yield e, None


def long_cases():
    def ident(i):
        return ('i', "x%d" % i)
    out = []
    for n in (10, 40, 63, 64, 65, 66, 67, 100, 130, 260):
        for cls in CLASSES:
            op = REPRESENTATIVE[cls]
            e = ident(0)
            for i in range(1, n + 1):                      # left-deep, unparenthesised: x0 op x1 op ... xn
                e = ('b', op, e, ident(i))
            out.append(e)
            if n in (10, 65, 130):
                r = ident(n)
                for i in range(n - 1, -1, -1):             # nested to the right: x0 op (x1 op (... xn))
                    r = ('b', op, ident(i), ('(', r))
                out.append(r)
                other = REPRESENTATIVE[CLASSES[(CLASSES.index(cls) + 1) % len(CLASSES)]]
                m = ident(0)
                for i in range(1, n + 1):                  # two classes alternating
                    m = ('b', op if i % 2 else other, m, ident(i))
                out.append(m)
    for n in (10, 130, 260):
        e = ident(0)
        for i in range(n):
            e = ('NOT', "NOT", e)
        out.append(e)
        e = ident(0)
        for i in range(n):
            e = ('~', ('(', e)) if i % 2 else ('~', e)
        out.append(('(', e))
    return out


def run_tool(argv, data):
    p = subprocess.run(argv, input=data, stdout=subprocess.PIPE, stderr=subprocess.PIPE, check=False)
    if p.returncode != 0:
        sys.stderr.write("tool failed: %s\n%s\n" % (" ".join(argv), p.stderr.decode(errors="replace")[:2000]))
        sys.exit(2)
    return p.stdout


def hx(text):
    return text.encode().hex() or "-"


def unhex(h):
    return "" if h == "-" else bytes.fromhex(h).decode(errors="replace")


def main():
    sys.setrecursionlimit(20000)
    args = sys.argv[1:]
    if len(args) < 2:
        sys.stderr.write(__doc__)
        sys.exit(2)
    seed = int(args[0])
    count = int(args[1])
    kmax = None
    nsoup = 0
    run = False
    exprdump = "/verif/build/exprdump"
    driver = "/verif/build/expr_driver"
    keep = None
    max_report = 20
    ctx_mode = "none"
    known_open = True
    i = 2
    while i < len(args):
        if args[i] == "--exhaustive":
            kmax = int(args[i + 1]); i += 2
        elif args[i] == "--soup":
            nsoup = int(args[i + 1]); i += 2
        elif args[i] == "--run":
            run = True; i += 1
        elif args[i] == "--exprdump":
            exprdump = args[i + 1]; i += 2
        elif args[i] == "--driver":
            driver = args[i + 1]; i += 2
        elif args[i] == "--keep":
            keep = args[i + 1]; i += 2
        elif args[i] == "--max-report":
            max_report = int(args[i + 1]); i += 2
        elif args[i] == "--contexts":
            ctx_mode = args[i + 1]; i += 2
            if ctx_mode not in ("none", "quick", "full"):
                sys.stderr.write("--contexts none|quick|full\n"); sys.exit(2)
        elif args[i] == "--no-known-open":
            known_open = False; i += 1
        else:
            sys.stderr.write("unknown argument %s\n" % args[i]); sys.exit(2)

    if not run:
        w = sys.stdout.write
        for e, s in all_cases(seed, count, kmax):
            if e is not None:
                w(case_line(e) + "\n")
            else:
                w("-\t" + hx(s) + "\n")
        for j in range(nsoup):
            w("~\t" + hx(soup_case(seed, j)) + "\n")
        return

    # ---- three-way comparison ----
    trees = []          # (encoding, hex text)
    tree_objs = []      # parallel to trees: (tree, origin tag)
    tags = []
    texts = {}          # hex text -> index (dedupe, keep order)
    for e, s in all_cases(seed, count, kmax, tags):
        if e is not None:
            line = case_line(e)
            enc, h = line.split("\t")
            if enc != "-":
                trees.append((enc, h))
                tree_objs.append((e, tags[-1]))
        else:
            h = hx(s)
        if h not in texts:
            texts[h] = len(texts)
    soup = set()
    for j in range(nsoup):
        h = hx(soup_case(seed, j))
        if h not in texts:
            texts[h] = len(texts)
            soup.add(h)
    text_list = list(texts.keys())
    text_blob = ("\n".join(text_list) + "\n").encode()
    code_out = run_tool([exprdump], text_blob).decode().splitlines()
    # the token stream always comes from the unmodified lexer build
    tok_out = run_tool(["/verif/build/exprdump", "-tokens"], text_blob)
    model_out = run_tool([driver, "model"], tok_out).decode().splitlines()
    spec_out = run_tool([driver, "spec"], ("\n".join(t[0] for t in trees) + "\n").encode()).decode().splitlines()
    if keep:
        os.makedirs(keep, exist_ok=True)
        open(os.path.join(keep, "texts.hex"), "wb").write(text_blob)
        open(os.path.join(keep, "code.out"), "w").write("\n".join(code_out) + "\n")
        open(os.path.join(keep, "model.out"), "w").write("\n".join(model_out) + "\n")
        open(os.path.join(keep, "spec.in"), "w").write("\n".join(t[0] for t in trees) + "\n")
        open(os.path.join(keep, "spec.out"), "w").write("\n".join(spec_out) + "\n")
    assert len(code_out) == len(text_list) == len(model_out), (len(code_out), len(text_list), len(model_out))
    assert len(spec_out) == len(trees), (len(spec_out), len(trees))

    code = {}
    bad = 0
    n_oof = 0
    n_soup_oof = 0
    n_code_fail = 0
    reports = []
    for h, c, m in zip(text_list, code_out, model_out):
        ch, cv = c.split("\t")
        mh, mv = m.split("\t")
        assert ch == h and mh == h
        code[h] = cv
        if cv in ("ERR", "PANIC"):
            n_code_fail += 1
        if h in soup and mv.startswith("OOF:"):
            n_soup_oof += 1
        elif mv.startswith("OOF:") or mv == "FUEL":
            n_oof += 1
            bad += 1
            reports.append("MODEL-OOF  %-14s %s" % (mv, unhex(h)))
        elif mv != cv:
            bad += 1
            reports.append("MODEL!=CODE  %s\n--- code\n%s--- model\n%s" % (unhex(h), unhex(cv) if cv not in ("ERR", "PANIC") else cv + "\n", unhex(mv)))
    n_wf = 0
    n_layered = 0
    n_notwf = 0
    ctx_cases = []      # (tree, tag, hex text, hex ref): the well-formed readings that agree under SELECT
    for (enc, h), s, (obj, tag) in zip(trees, spec_out, tree_objs):
        if s == "NOTWF":
            n_notwf += 1
            continue
        if s == "BAD":
            bad += 1
            reports.append("SPEC-BAD  %s" % enc)
            continue
        sh, sref, kind = s.split("\t")
        n_wf += 1
        if kind == "L":
            n_layered += 1
        if sh != h:
            bad += 1
            reports.append("SPEC-PRINT!=GENERATOR  %s | %s | %s" % (enc, unhex(sh), unhex(h)))
            continue
        if sref != code[h]:
            bad += 1
            cv = code[h]
            reports.append("SPEC!=CODE  %s   [tree %s]\n--- code\n%s--- spec\n%s" % (unhex(h), enc, unhex(cv) if cv not in ("ERR", "PANIC") else cv + "\n", unhex(sref)))
        else:
            ctx_cases.append((obj, tag, h, sref))
    ctx_summary = ""
    if ctx_mode != "none":
        import json
        sys.path.insert(0, os.path.dirname(os.path.abspath(__file__)))
        import expr_contexts
        # the exhaustive shapes with more than 3 operators (core and spelling passes of the thorough tier) stay SELECT-only
        ctx_in = [c for c in ctx_cases if c[1] == "random" or count_ops(c[0]) <= 3]
        creports, cstats, (n_ctx, n_evals, n_cbad) = expr_contexts.run(
            ctx_in, ctx_mode, exprdump, run_tool, keep=keep, known_open_enabled=known_open)
        reports = creports + reports if n_cbad else reports
        bad += n_cbad
        ctx_summary = "  contexts=%d context_cases=%d context_evaluations=%d context_failures=%d" % (n_ctx, len(ctx_in), n_evals, n_cbad)
        if keep:
            json.dump(expr_contexts.evidence(cstats, ctx_mode), open(os.path.join(keep, "contexts.json"), "w"), indent=1)
    for r in reports[:max_report]:
        print(r)
    print("texts=%d (code ERR/PANIC=%d, model OOF/FUEL=%d)  soup=%d (model OOF=%d)  trees=%d (wfx=%d of which layered wf=%d, notwf=%d)%s  disagreements=%d"
          % (len(text_list), n_code_fail, n_oof, len(soup), n_soup_oof, len(trees), n_wf, n_layered, n_notwf, ctx_summary, bad))
    sys.exit(1 if bad else 0)


if __name__ == "__main__":
    main()
