"""C02 — Parse always terminates, in work linear in the number of tokens.
Theorems: coq/Properties/C02.v — `check_prog skeleton B E_main = true` (computed in the kernel) and the soundness
theorem of the locally checked potential certificate (Skel/SkelSound.v) give: every run of the control-flow skeleton of
the WHOLE parser package, for every token list and every resolution of its data-dependent branches, halts within
E_main + B*tokens steps.  The skeleton (Gen/ParserSkeleton.v) is regenerated from /repo/parser on every run by
/verif/translator/cmd/skelgen; the certificate it carries is untrusted.
Ties: the translator; the real step counter (verif hook) against the proved bound on corpus, mutants, exhaustive short
token sequences and deep nesting probes."""
import os
import lexcommon
import searchcommon
import verif

TRUSTED = [
    "Coq 8.16.1 kernel and vm_compute (the obligations check_prog skeleton B E_main = true and no_assume skeleton = true are discharged by computation); Print Assumptions: closed under the global context",
    "translator/cmd/skelgen: the generated control-flow graphs over-approximate every real execution's sequence of consume/call/return events (argument in DESIGN.md §C02 and in skelgen_report.json: trusted_translation_assumptions); it self-checks that every nextToken/currentIs/peekIs/call/loop site of the Go AST was visited",
    "steps are the calls of currentIs/peekIs/nextToken (hook), each instruction of the skeleton costs one step (over-counts); once the lexer returns EOF it keeps returning EOF (C12); memory: O(1) allocation per step and recursion depth <= consumed tokens are argued, not proved",
]


def run(rep):
    st = verif.proof_stage(rep, "C02", needs_translators=["gentables", "skelgen"])
    broken = list(st["broken"])
    broken += verif.build_topic(go_pkgs=("psearch",))
    E, B, report = searchcommon.bounds()
    found = False
    if report and not report.get("certified", False):
        broken.append({"obligation": "certificate: skelgen found no certificate", "detail": str(report.get("blocking", ""))[:3000], "blocking": report.get("blocking", [])[:10]})
    for a in report.get("assumed_progress", []) or []:
        broken.append({"obligation": "assumed_progress entry", "detail": str(a)})
    if not any(b["obligation"].startswith("build:") for b in broken):
        # when an obligation broke, search harder for a concrete non-terminating input
        tier = rep.tier if not broken else "targeted"
        res = searchcommon.run_search(rep, tier, statuses=("BUDGET", "SLOW"))
        for (stt, hx, detail, tk, steps) in res["hits"][:10]:
            found = True
            rep.violation("input", ("Parse exceeds the proved step bound %d + %d*tokens (tokens=%d): does not terminate in linear work" % (E, B, tk)) if stt == "BUDGET"
                          else ("Parse work is not linear: %s (tokens=%d)" % (detail, tk)),
                          {"input_hex": hx, "tokens": tk, "steps": steps, "E": E, "B": B}, input_hex=hx)
        if not found and report.get("blocking"):
            # targeted search: statements that mention the keywords of the blocking functions and of their callers
            fns = [b.get("function", "") for b in report.get("blocking", []) if isinstance(b, dict)]
            foc = searchcommon.run_focused(rep, fns, ("BUDGET", "SLOW"))
            rep.coverage["targeted_search"] = {"functions": fns, "keywords": foc.get("keywords", [])[:40], "inputs": foc.get("n", 0)}
            for (stt, hx, detail, tk, steps) in foc["hits"][:5]:
                found = True
                rep.violation("input", ("Parse exceeds the proved step bound %d + %d*tokens (tokens=%d)" % (E, B, tk)) if stt == "BUDGET" else ("Parse work is not linear: %s (tokens=%d)" % (detail, tk)),
                              {"input_hex": hx, "tokens": tk, "steps": steps, "E": E, "B": B, "blocking_functions": fns}, input_hex=hx)
        if res["rc"] != 0:
            broken.append({"obligation": "harness:psearch", "detail": res["err"]})
        # memory "bounded likewise" and work linear on long flat chains of every list-like construct
        ch_hits, ch_sum = searchcommon.run_chains(rep, 600 if rep.tier == "quick" else 3000, 2400 if rep.tier == "quick" else 12000)
        rep.coverage["chains"] = ch_sum
        for (stt, hx, detail, tk, val) in ch_hits[:5]:
            found = True
            rep.violation("input", "Parse work/memory is not linear in the number of tokens: %s: %s" % (stt, detail), {"input_hex": hx, "tokens": tk, "detail": detail}, input_hex=hx)
        # lexer premise (Properties/C02_lexer.v): the lexer reaches EOF on every input, with at most one token per byte
        if lexcommon.lexer_premise(rep, broken, ("runaway",)):
            found = True
        rep.coverage.update({
            "evaluations": res["n"], "distinct_nontrivial": res["n"] - res["counts"].get("err", 0) // 2,
            "rule": "corpus statements, token/byte/structure mutants of them (truncate, delete, duplicate, swap, splice from a 230-word pool, drop a bracket partner, empty a range), "
                    "every sequence of up to 1 (quick) / 2 (thorough) pool words behind 18 statement prefixes, statements of the verification grammar (checks/gen_sql_grammar.py) as they are, mutated and truncated; literal substitution (a NUMBER/STRING token of a valid statement replaced by a boundary literal of its class); deep nesting probes (20 KB quick / 1 MiB thorough); "
                    "oracle: steps <= E_main + B*tokens with the constants the kernel accepted; distinct_nontrivial counts conservatively (accepted inputs plus half of the rejected ones)",
            "samples": res["samples"], "input_distribution": res["dist"], "status_counts": res["counts"],
            "max_steps_per_token_plus_16": round(res["max_ratio"], 2), "E_main": E, "B": B,
            "skeleton": {k: report.get(k) for k in ("functions", "variants", "nodes", "loops", "certified")},
            "trusted_base": TRUSTED,
        })
    verif.report_broken(rep, broken, found)
    rep.assumptions = ["the bound is in parser steps; wall-clock and memory constants are outside the theorem"]


def replay(rec):
    import subprocess
    p = subprocess.run([searchcommon.PSEARCH, "run", "-E", str(rec.get("E", 42)), "-B", str(rec.get("B", 305))],
                       input=(rec["input_hex"] + "\n").encode(), stdout=subprocess.PIPE)
    print(p.stdout.decode())
    return 0
