(* Extraction of the statement printers' count-vs-emit model (C04 part D) for the correspondence driver.
   Run inside this directory:  coqc -Q /verif/coq DC Extract.v   (writes stmtcount_ex.ml / .mli) *)
Require Extraction.
Require Import ExtrOcamlBasic.
From DC Require Import Tree.LineTree Select.SelectExplainModel Ddl.DdlExplainModel Stmt.StmtExplainModel.

Extraction "stmtcount_ex.ml"
  explain_insert_query explain_drop_query explain_undrop_query explain_rename_query explain_exchange_query
  explain_truncate_query explain_optimize_query explain_delete_query explain_check_query explain_use_query
  explain_describe_query explain_exists_query explain_show_query explain_system_query explain_explain_query
  explain_detach_query explain_attach_query explain_backup_query explain_restore_query explain_kill_query
  explain_create_index_query explain_assignment explain_update_query explain_parallel_with_query
  explain_single_line explain_format_child explain_create_resource explain_create_workload
  explain_dict_attr explain_dict_definition
  explain_tables_in_select_query explain_tables_element explain_table_expression explain_table_join
  explain_select_query explain_select_query_with_inherited_with explain_select_with_union_query
  parse_lines header_count direct_children print_lines check_lines.
