(* Model side of the C04 count-vs-emit correspondence for the statement printers outside the SELECT
   and DDL models: same line protocol as /verif/harness/cmd/stmtcount/main.go (see there for the case
   syntax); the answers are computed by the extracted Stmt/StmtExplainModel (with the SELECT model of
   Select/SelectExplainModel for the unions inside INSERT and EXPLAIN).

   stdout: <header count> TAB <direct children> TAB <md5 of the printed text> TAB <T|F> TAB M
           (-text: hex of the text); T/F is the extracted verified check_lines on the model's lines.

   Glue that is NOT extracted (trusted, small): decoding a case into the model's records and the
   sub-trees standing for what Node / explainFunctionCall print for the identifiers, data types,
   function calls, literals, table identifiers and nested statements the Go side builds. *)
open Stmtcount_ex

let rec pos_of_int n =
  if n = 1 then XH
  else if n land 1 = 1 then XI (pos_of_int (n lsr 1))
  else XO (pos_of_int (n lsr 1))
let n_of_int n = if n = 0 then N0 else Npos (pos_of_int n)
let rec int_of_pos = function
  | XH -> 1
  | XO p -> 2 * int_of_pos p
  | XI p -> 2 * int_of_pos p + 1
let int_of_n = function N0 -> 0 | Npos p -> int_of_pos p
let nat_of_int n =
  let rec go acc k = if k = 0 then acc else go (S acc) (k - 1) in
  go O n
let int_of_nat n =
  let rec go acc = function O -> acc | S m -> go (acc + 1) m in
  go 0 n

let bytes s = List.init (String.length s) (fun i -> n_of_int (Char.code s.[i]))
let string_of_bytes l =
  let b = Buffer.create 256 in
  List.iter (fun x -> Buffer.add_char b (Char.chr (int_of_n x))) l;
  Buffer.contents b

(* ---- what the callees print for the sub-nodes the Go side builds ---- *)
let leaf s = Node (bytes s, [])
let ident s = leaf ("Identifier " ^ s)
let idents prefix n = List.init n (fun i -> ident (Printf.sprintf "%s%d" prefix (i + 1)))
let names prefix n = List.init n (fun i -> bytes (Printf.sprintf "%s%d" prefix (i + 1)))
let el ts = Node (bytes "ExpressionList", ts)
let fcall_tree name args = Node (bytes ("Function " ^ name), [el args])
let tuple_tree es = Node (bytes "Function tuple", [el es])
let opt name d = if d = 0 then None else Some (ident name)
let str name d = if d = 0 then [] else bytes name
let select_q with_format =
  let sq = Node (bytes "SelectQuery", [el [ident "q"]]) in
  Node (bytes "SelectWithUnionQuery", el [sq] :: (if with_format then [ident "Null"] else []))

let digits spec n what =
  if String.length spec <> n then
    failwith (Printf.sprintf "%s spec must have %d characters: %s" what n spec);
  Array.init n (fun i ->
      let c = spec.[i] in
      if c < '0' || c > '9' then failwith ("bad digit in " ^ what ^ " spec " ^ spec);
      Char.code c - 48)

let fn_list prefix arg_prefix n =
  List.init n (fun i ->
      let j = i + 1 in
      { fn_name = bytes (Printf.sprintf "%s%d" prefix j); fn_args = idents arg_prefix ((j - 1) mod 3) })

let build_column spec name =
  let d = digits spec 9 "column" in
  { cd_name = bytes name;
    cd_type = (if d.(0) = 0 then None else Some (leaf "DataType Int32"));
    cd_statistics = fn_list "st" "sa" d.(1);
    cd_default = opt "dflt" d.(2);
    cd_ephemeral = (d.(3) = 2);
    cd_ttl = opt "cttl" d.(4);
    cd_codec = (if d.(5) = 0 then None else if d.(5) = 9 then Some [] else Some (fn_list "cd" "ca" d.(5)));
    cd_settings = nat_of_int d.(6);
    cd_comment = str "cmt" d.(7);
    cd_primary_key = (d.(8) <> 0) }

let key_expr kind name =
  match kind with
  | 1 -> let es = [ident (name ^ "a"); ident (name ^ "b")] in { k_view = KV_tuple es; k_tree = tuple_tree es }
  | 2 | 4 -> { k_view = KV_tuple []; k_tree = tuple_tree [] }
  | 3 -> { k_view = KV_other; k_tree = fcall_tree "f" [ident name] }
  | _ -> { k_view = KV_ident (bytes name); k_tree = ident name }

let key_list n first_kind prefix =
  List.init n (fun i ->
      let j = i + 1 in
      key_expr (if j = 1 then first_kind else 0) (Printf.sprintf "%s%d" prefix j))

let build_index spec =
  let d = digits spec 2 "index" in
  { ix_expr = (match d.(0) with
        | 0 -> None
        | 1 -> Some (key_expr 0 "ie")
        | 2 -> Some (key_expr 3 "ie")
        | _ -> Some (key_expr 1 "ie"));
    ix_type = (match d.(1) with
        | 0 -> None
        | 1 -> Some (fcall_tree "minmax" [])
        | _ -> Some (fcall_tree "set" [ident "ta"])) }

let build_engine d name arg_prefix =
  match d with
  | 0 -> None
  | 1 -> Some { en_name = bytes name; en_has_parens = false; en_params = [] }
  | _ -> Some { en_name = bytes name; en_has_parens = true; en_params = idents arg_prefix (d - 2) }


(* ---- the SELECT values of the Go side, in the SELECT model ---- *)
let simple_select name format nsettings after =
  { sq_with = []; sq_distinct_on = []; sq_top = None; sq_columns = [ident name]; sq_from = None;
    sq_array_join = None; sq_prewhere = None; sq_where = None; sq_group_by = []; sq_group_by_all = false;
    sq_grouping_sets = false; sq_having = None; sq_qualify = None; sq_window = O; sq_order_by = [];
    sq_interpolate = []; sq_limit = None; sq_limit_by = []; sq_limit_by_limit = None;
    sq_limit_by_offset = None; sq_offset = None; sq_settings = nat_of_int nsettings;
    sq_settings_after_format = after; sq_into_outfile = None;
    sq_format = (if format <> 0 then Some (ident "Null") else None) }

(* (member of Selects, member of the grouped list) *)
let union_of nsettings after before items =
  { u_selects = List.map fst items; u_grouped = List.map snd items; u_settings = nat_of_int nsettings;
    u_settings_after_format = after; u_settings_before_format = before }
let sel q = (ItemSelect q, ItemSelect q)

exception Out_of_model
let tree_of_lines ls = match parse_lines ls with Some t -> t | None -> raise Out_of_model
let union_tree u = tree_of_lines (explain_select_with_union_query O u)
(* a parenthesised single select as a member of Selects: flattened in the grouped list *)
let nested q =
  let u = union_of 0 false false [sel q] in
  (ItemOther { o_tree = union_tree u; o_with = q.sq_with; o_is_union = true }, ItemSelect q)

let table_ident name = leaf ("TableIdentifier " ^ name)
let str_lit s = leaf ("Literal \\'" ^ s ^ "\\'")

let build_insert spec =
  let d = digits spec 12 "insert" in
  let w = idents "iw" d.(10) in
  { in_infile = str "in.csv" d.(0); in_compression = str "gzip" d.(1);
    in_function = (if d.(2) = 0 then None else Some (fcall_tree "tf" [ident "ta"]));
    in_database = str "db" d.(3); in_table = str "tb" d.(4);
    in_column_exprs = idents "ce" d.(5);
    in_columns = names "col" d.(6);
    in_all_columns = (d.(7) <> 0);
    in_partition_by = (match d.(8) with 0 -> None | 1 -> Some (key_expr 0 "pb") | _ -> Some (key_expr 3 "pb"));
    in_select = (match d.(9) with
        | 0 -> None
        | 1 -> Some (IS_union (union_of 0 false false [sel (simple_select "q" 0 0 false)]))
        | 2 -> Some (IS_union (union_of 0 false false [sel (simple_select "q" 1 1 false)]))
        | 3 ->
          let q = simple_select "q" 0 0 false in
          Some (IS_other (tree_of_lines (explain_select_query O q),
                          tree_of_lines (explain_select_query_with_inherited_with O (ItemSelect q) w)))
        | _ -> Some (IS_union (union_of 1 false false [sel (simple_select "q" 0 0 false); sel (simple_select "r" 1 0 false)])));
    in_with = w;
    in_has_settings = (d.(11) <> 0) }

let build_drop spec =
  let d = digits spec 16 "drop" in
  { dq_user = (d.(0) <> 0); dq_function = (d.(1) <> 0); dq_role = (d.(2) <> 0); dq_quota = (d.(3) <> 0);
    dq_policy = (d.(4) <> 0); dq_row_policy = (d.(5) <> 0); dq_settings_profile = (d.(6) <> 0);
    dq_index = str "ix" d.(7);
    dq_tables = List.init d.(8) (fun i -> let j = i + 1 in
                                  table_ident (if j = 2 then "d2.t2" else Printf.sprintf "t%d" j));
    dq_database = str "db" d.(9); dq_table = str "tb" d.(10); dq_view = str "vw" d.(11);
    dq_dictionary = str "dc" d.(12); dq_drop_database = (d.(13) <> 0); dq_format = str "Null" d.(14);
    dq_settings = nat_of_int d.(15) }

let build_rename spec =
  let d = digits spec 9 "rename" in
  { rq_rename_database = (d.(0) <> 0); rq_settings = nat_of_int d.(1);
    rq_pairs = List.init d.(2) (fun i -> let j = i + 1 in
      { rp_from_database = str (Printf.sprintf "fd%d" j) d.(1 + 2 * j); rp_from_table = bytes (Printf.sprintf "ft%d" j);
        rp_to_database = str (Printf.sprintf "td%d" j) d.(2 + 2 * j); rp_to_table = bytes (Printf.sprintf "tt%d" j) }) }

let partition_of k =
  match k with
  | 0 -> None
  | 1 -> Some { pt_view = PV_all; pt_tree = ident "aLl" }
  | 2 -> Some { pt_view = PV_literal (bytes "p1"); pt_tree = str_lit "p1" }
  | _ -> Some { pt_view = PV_other; pt_tree = ident "pp" }

let show_type_of_string s =
  match s with
  | "TABLES" -> SH_Tables | "DATABASES" -> SH_Databases | "PROCESSLIST" -> SH_Processes | "CREATE" -> SH_Create
  | "CREATE_DATABASE" -> SH_CreateDB | "CREATE_DICTIONARY" -> SH_CreateDictionary | "CREATE_VIEW" -> SH_CreateView
  | "CREATE_USER" -> SH_CreateUser | "CREATE_ROLE" -> SH_CreateRole | "CREATE_POLICY" -> SH_CreatePolicy
  | "CREATE_ROW_POLICY" -> SH_CreateRowPolicy | "CREATE_QUOTA" -> SH_CreateQuota
  | "CREATE_SETTINGS_PROFILE" -> SH_CreateSettingsProfile | "COLUMNS" -> SH_Columns | "DICTIONARIES" -> SH_Dictionaries
  | "FUNCTIONS" -> SH_Functions | "SETTINGS" -> SH_Settings | "SETTING" -> SH_Setting | "GRANTS" -> SH_Grants
  | other ->
    (* strings.Title(strings.ToLower(s)) for the other strings the generator uses: letters, digits, '_' only *)
    SH_Other (bytes (String.capitalize_ascii (String.lowercase_ascii other)))

let build_explain spec =
  let d = digits spec 11 "explain" in
  let types = [| ET_AST; ET_Syntax; ET_Plan; ET_Pipeline; ET_Estimate; ET_QueryTree; ET_CurrentTransaction;
                 ET_Other []; ET_Other (bytes "OTHER") |] in
  let first = simple_select "q" d.(4) d.(5) (d.(6) <> 0) in
  let u items = XS_union (union_of d.(7) (d.(8) <> 0) (d.(9) <> 0) items, bytes "Null") in
  { ex_type = types.(d.(0)); ex_explicit_type = (d.(1) <> 0); ex_has_settings = (d.(2) <> 0);
    ex_statement = (match d.(3) with
        | 0 -> XS_other None
        | 1 -> u [sel first]
        | 2 -> u [sel first; sel (simple_select "r" 1 1 true)]
        | 3 -> XS_other (Some (tree_of_lines (explain_select_query O first)))
        | _ -> u [nested (simple_select "p" 1 1 true); sel first]) }

let build_attach spec =
  let d = digits spec 14 "attach" in
  let col_specs = [| "100000000"; "131219111" |] and idx_specs = [| "11"; "21" |] in
  { ath_database = str "db" d.(0); ath_table = str "tb" d.(1); ath_dictionary = str "dc" d.(2);
    ath_columns = List.init d.(3) (fun i -> build_column col_specs.(i) (Printf.sprintf "c%d" (i + 1)));
    ath_columns_primary_key = idents "ck" d.(4);
    ath_has_empty_columns_primary_key = (d.(5) <> 0);
    ath_indexes = List.init d.(6) (fun i -> build_index idx_specs.(i));
    ath_engine = build_engine d.(7) "Eng" "ep";
    ath_order_by = idents "ob" d.(8); ath_primary_key = idents "pk" d.(9);
    ath_is_materialized_view = (d.(10) <> 0);
    ath_partition_by = opt "pb" d.(11);
    ath_select_query = (if d.(12) = 0 then None else Some (select_q false));
    ath_settings = nat_of_int d.(13) }

let target_fn k =
  if k = 0 then None else Some { fn_name = bytes "Disk"; fn_args = idents "ta" (k - 1) }

let single_line = [| "Set"; "SetRoleQuery"; "ASTTransactionControl"; "ASTTransactionControl"; "ASTTransactionControl";
                     "ASTTransactionControl"; "ShowPrivilegesQuery"; "CreateQuotaQuery"; "CreateSettingsProfileQuery";
                     "CreateSettingsProfileQuery"; "DROP SETTINGS PROFILE query"; "CreateNamedCollectionQuery";
                     "AlterNamedCollectionQuery"; "DropNamedCollectionQuery"; "CREATE ROW POLICY or ALTER ROW POLICY query";
                     "DROP ROW POLICY query"; "CreateRoleQuery"; "DROP ROLE query"; "DropResourceQuery"; "DropWorkloadQuery";
                     "GrantQuery"; "GrantQuery" |]

let kv_pairs prefix n =
  List.init n (fun i -> let j = i + 1 in if j = 2 then None else Some (ident (Printf.sprintf "%sv%d" prefix j)))

let binary fn = Node (bytes ("Function " ^ fn), [el [ident "ka"; ident "kb"]])

let lines_of_case kind spec =
  match kind with
  | "INS" -> explain_insert_query O (build_insert spec)
  | "DRP" -> explain_drop_query O (build_drop spec)
  | "UND" ->
    let d = digits spec 3 "undrop" in
    explain_undrop_query O { uq_database = str "db" d.(0); uq_table = str "tb" d.(1); uq_format = str "Null" d.(2) }
  | "REN" -> explain_rename_query O (build_rename spec)
  | "EXC" ->
    let d = digits spec 2 "exchange" in
    explain_exchange_query O { xq_database1 = str "d1" d.(0); xq_table1 = bytes "t1"; xq_database2 = str "d2" d.(1); xq_table2 = bytes "t2" }
  | "TRU" ->
    let d = digits spec 3 "truncate" in
    explain_truncate_query O { tq_database = str "db" d.(0); tq_table = bytes "tb"; tq_truncate_database = (d.(1) <> 0);
                               tq_settings = nat_of_int d.(2) }
  | "OPT" ->
    let d = digits spec 7 "optimize" in
    explain_optimize_query O { oq_database = str "db" d.(0); oq_table = bytes "tb"; oq_final = (d.(1) <> 0); oq_cleanup = (d.(2) <> 0);
                               oq_dedupe = (d.(3) <> 0); oq_partition = partition_of d.(4); oq_partition_by_id = (d.(5) <> 0);
                               oq_settings = nat_of_int d.(6) }
  | "DEL" ->
    let d = digits spec 3 "delete" in
    explain_delete_query O { lq_table = bytes "tb"; lq_partition = opt "pt" d.(0); lq_where = opt "wh" d.(1); lq_settings = nat_of_int d.(2) }
  | "CHK" ->
    let d = digits spec 3 "check" in
    explain_check_query O { kq_database = str "db" d.(0); kq_table = bytes "tb"; kq_format = str "Null" d.(1); kq_settings = nat_of_int d.(2) }
  | "USE" -> explain_use_query O (bytes "db")
  | "DSC" ->
    let d = digits spec 6 "describe" in
    explain_describe_query O
      { dsc_table_expr = (if d.(0) = 0 then None else Some (Node (bytes "TableExpression", [table_ident "te"])));
        dsc_table_function = (if d.(1) = 0 then None else Some (fcall_tree "tf" [ident "ta"]));
        dsc_database = str "db" d.(2); dsc_table = str "tb" d.(3); dsc_format = str "Null" d.(4); dsc_settings = nat_of_int d.(5) }
  | "EXS" ->
    let d = digits spec 3 "exists" in
    let types = [| XT_Table; XT_Dictionary; XT_Database; XT_View; XT_Other |] in
    explain_exists_query O { eq_type = types.(d.(0)); eq_database = str "db" d.(1); eq_table = bytes "tb"; eq_settings = nat_of_int d.(2) }
  | "SHW" ->
    (match String.index_opt spec ':' with
     | None -> failwith ("show spec must be <type>:<digits>: " ^ spec)
     | Some i ->
       let ty = String.sub spec 0 i and f = String.sub spec (i + 1) (String.length spec - i - 1) in
       let d = digits f 5 "show" in
       explain_show_query O { hq_type = show_type_of_string ty; hq_database = str "db" d.(0); hq_from = str "fr" d.(1);
                              hq_format = str "Null" d.(2); hq_has_settings = (d.(3) <> 0); hq_multiple_users = (d.(4) <> 0) })
  | "SYS" ->
    let d = digits spec 5 "system" in
    explain_system_query O { yq_is_flush_logs = (d.(0) <> 0); yq_database = str "db" d.(1); yq_table = str "tb" d.(2);
                             yq_duplicate = (d.(3) <> 0); yq_settings = nat_of_int d.(4) }
  | "EXP" ->
    let d = digits spec 11 "explain" in
    (* nested: printed at depth 1 by the model; the Go side reports the de-indented subtree *)
    if d.(10) <> 0 then
      List.map (fun l -> { l with indent = (match l.indent with S k -> k | O -> O) }) (explain_explain_query (S O) (build_explain spec))
    else explain_explain_query O (build_explain spec)
  | "DET" ->
    let d = digits spec 3 "detach" in
    explain_detach_query O { dt_database = str "db" d.(0); dt_table = str "tb" d.(1); dt_dictionary = str "dc" d.(2) }
  | "ATT" -> explain_attach_query O (build_attach spec)
  | "BAK" ->
    let d = digits spec 3 "backup" in
    let n = { bq_target = target_fn d.(1); bq_format = str "Null" d.(2) } in
    if d.(0) <> 0 then explain_restore_query O n else explain_backup_query O n
  | "KIL" ->
    let d = digits spec 5 "kill" in
    explain_kill_query O
      { kl_where = (match d.(0) with
            | 0 -> None
            | 1 -> Some (bytes "Function_equals", binary "equals")
            | 2 -> Some (bytes "Function_kf", fcall_tree "kf" [ident "ka"])
            | 3 -> Some (bytes "Function", ident "kw")
            | 4 -> Some (bytes "Function_notEquals", binary "notEquals")
            | _ -> Some (bytes "Function_and", binary "and"));
        kl_sync = (d.(1) <> 0); kl_test = (d.(2) <> 0); kl_format = str "Null" d.(3); kl_settings = nat_of_int d.(4) }
  | "CIX" ->
    let d = digits spec 4 "create index" in
    explain_create_index_query O { ci_table = bytes "tb"; ci_index_name = bytes "ix"; ci_type = str "minmax" d.(0);
                                   ci_columns_parenthesized = (d.(1) <> 0); ci_columns = key_list d.(2) d.(3) "c" }
  | "ASG" ->
    let d = digits spec 1 "assignment" in
    explain_assignment O { as_column = bytes "a1"; as_value = opt "v1" d.(0) }
  | "UPD" ->
    let d = digits spec 3 "update" in
    explain_update_query O
      { pq_database = str "db" d.(0); pq_table = bytes "tb"; pq_where = opt "wh" d.(1);
        pq_assignments = List.init d.(2) (fun i -> let j = i + 1 in
          { as_column = bytes (Printf.sprintf "a%d" j); as_value = (if j = 3 then None else Some (ident (Printf.sprintf "v%d" j))) }) }
  | "PAR" ->
    let d = digits spec 2 "parallel with" in
    let use j = Node (bytes (Printf.sprintf "UseQuery u%d" j), [ident (Printf.sprintf "u%d" j)]) in
    let first, name =
      match d.(1) with
      | 0 -> Node (bytes "DropQuery  ", [el [table_ident "x1"; table_ident "x2"]]), "DropQuery__x1"
      | 1 -> Node (bytes "CreateQuery ct", [ident "ct"]), "CreateQuery_ct"
      | 2 -> Node (bytes "InsertQuery  ", [ident "it"]), "InsertQuery__"
      | _ -> use 1, "Statement" in
    explain_parallel_with_query O
      { pw_name = bytes name;
        pw_statements = List.init d.(0) (fun i -> let j = i + 1 in if j = 1 then Some first else if j = 3 then None else Some (use j)) }
  | "ONE" ->
    let d = digits spec 2 "single line" in
    explain_single_line O (bytes single_line.(10 * d.(0) + d.(1)))
  | "FMT" ->
    let d = digits spec 3 "format child" in
    let f = str "Null" d.(1) and several = d.(2) <> 0 in
    let lab1, lab0 =
      match d.(0) with
      | 0 -> "SHOW CREATE QUOTA query", "SHOW CREATE QUOTA query"
      | 1 -> let l = if several then "SHOW CREATE SETTINGS PROFILES query" else "SHOW CREATE SETTINGS PROFILE query" in l, l
      | 2 -> "SHOW CREATE ROW POLICIES query", "SHOW CREATE ROW POLICY query"
      | 3 -> let l = if several then "SHOW CREATE ROLES query" else "SHOW CREATE ROLE query" in l, l
      | _ -> "ShowGrantsQuery", "ShowGrantsQuery" in
    explain_format_child O (bytes lab1) (bytes lab0) f
  | "RES" -> explain_create_resource O (bytes "res")
  | "WRK" ->
    let d = digits spec 1 "workload" in
    explain_create_workload O (bytes "wl") (str "par" d.(0))
  | "DAT" ->
    let d = digits spec 3 "dictionary attribute" in
    explain_dict_attr O { da_name = bytes "da1"; da_type = (if d.(0) = 0 then None else Some (leaf "DataType UInt64"));
                          da_default = opt "dd" d.(1); da_expression = opt "de" d.(2) }
  | "DDF" ->
    let d = digits spec 6 "dictionary definition" in
    explain_dict_definition O
      { dd_primary_key = idents "pk" d.(0);
        dd_source = (if d.(1) = 0 then None else Some { ds_type = bytes "clickhouse"; ds_args = kv_pairs "sa" (2 * (d.(1) - 1)) });
        dd_lifetime = (d.(2) <> 0);
        dd_layout = (if d.(3) = 0 then None else Some (kv_pairs "la" (d.(3) - 1)));
        dd_range = (d.(4) <> 0); dd_settings = nat_of_int d.(5) }
  | "TEL" ->
    let d = digits spec 3 "tables element" in
    explain_tables_element O
      { el_array_join = (match d.(0) with 0 -> None | 1 -> Some [] | _ -> Some (idents "aj" 2));
        el_table = (if d.(1) = 0 then None else Some (Node (bytes "TableExpression", [table_ident "t1"])));
        el_join = (if d.(2) = 0 then None else Some (Node (bytes "TableJoin", [ident "jo"]))) }
  | "TEX" ->
    let d = digits spec 3 "table expression" in
    let sq = select_q false in
    explain_table_expression O
      { tx_table = (match d.(0) with
            | 0 -> TV_other None
            | 1 -> TV_subquery (Node (bytes "Subquery", [sq]), Some sq)
            | 2 -> TV_subquery_explain { ve_type_str = bytes "EXPLAIN"; ve_options = []; ve_statement = Some sq }
            | 3 -> TV_subquery_explain { ve_type_str = bytes "EXPLAIN SYNTAX"; ve_options = bytes "oneline = 1"; ve_statement = None }
            | 4 -> TV_function (fcall_tree "tf" [ident "ta"],
                                Node (bytes "Function tf (alias al)", [el [ident "ta"]]))
            | 5 -> TV_identifier (bytes "t1")
            | 6 -> TV_identifier (bytes "d1.t1")
            | _ -> TV_other (Some (ident "other")));
        tx_alias = str "al" d.(1);
        tx_sample = (match d.(2) with
            | 0 -> None
            | 1 -> Some { sm_ratio = bytes "1 / 10"; sm_offset = None }
            | _ -> Some { sm_ratio = bytes "1 / 10"; sm_offset = Some (bytes "2") }) }
  | "TJN" ->
    let d = digits spec 2 "table join" in
    explain_table_join O { tj_on = opt "jo" d.(0);
                           tj_using = (match d.(1) with 0 -> None | 1 -> Some [] | _ -> Some (idents "ju" 2)) }
  | _ -> failwith ("unknown kind " ^ kind)

let hex_of_string s =
  if s = "" then "-"
  else begin
    let b = Buffer.create (2 * String.length s) in
    String.iter (fun c -> Buffer.add_string b (Printf.sprintf "%02x" (Char.code c))) s;
    Buffer.contents b
  end

let () =
  let as_text = Array.length Sys.argv > 1 && Sys.argv.(1) = "-text" in
  try
    while true do
      let line = input_line stdin in
      if line <> "" then begin
        match String.split_on_char '\t' line with
        | [kind; spec] ->
          let ls = lines_of_case kind spec in
          let text = string_of_bytes (print_lines ls) in
          Printf.printf "%d\t%d\t%s\t%s\tM\n"
            (int_of_nat (header_count ls)) (int_of_nat (direct_children ls))
            (if as_text then hex_of_string text else Digest.to_hex (Digest.string text))
            (if check_lines ls then "T" else "F")
        | _ -> failwith ("bad case line " ^ line)
      end
    done
  with End_of_file -> ()
