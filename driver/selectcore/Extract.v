(* SELECT-core driver: extraction of the lexer model (source bytes -> tokens), the parser model and
   the printer model.  ExtrOcamlBasic only.
   Run inside this directory:  coqc -Q /verif/coq DC Extract.v   (writes selectcore_ex.ml / .mli) *)
Require Extraction.
Require Import ExtrOcamlBasic.
From DC Require Import Base.Item Lexer.LexerModel Tree.LineTree.
From DC Require Import Select.SelectParseModel Select.SelectPrintModel.

Extraction "selectcore_ex.ml"
  LexerModel.tokenize SelectPrintModel.parser_tokens
  SelectParseModel.parse_script SelectParseModel.parse_model
  SelectParseModel.oof_name SelectParseModel.psite_name
  SelectPrintModel.print_script SelectPrintModel.print_model
  LineTree.print_lines.
