(* SELECT-core driver.  Line protocol (CONVENTIONS.md): fields separated by TAB, byte strings in
   lowercase hex, "-" for empty.

     stdin : <hex sql> [TAB anything]            (only the first field is read)
     stdout: <hex sql> TAB <status> TAB <hex EXPLAIN text of all statements | ->
             status = ok | err:<n> | OOF:<reason> | PANIC:<site> | FUEL | LEXFUEL

   The source bytes go through the EXTRACTED lexer model (LexerModel.tokenize, verified against the
   real lexer by the C12 correspondence), then parser_tokens, parse_script, print_script. *)
open Selectcore_ex

let rec pos_of_int i =
  if i = 1 then XH
  else if i land 1 = 0 then XO (pos_of_int (i lsr 1))
  else XI (pos_of_int (i lsr 1))
let n_of_int i = if i = 0 then N0 else Npos (pos_of_int i)
let rec int_of_pos = function XH -> 1 | XO p -> 2 * int_of_pos p | XI p -> 2 * int_of_pos p + 1
let int_of_n = function N0 -> 0 | Npos p -> int_of_pos p

let bytes_of_string s = List.init (String.length s) (fun i -> n_of_int (Char.code s.[i]))
let string_of_bytes l =
  let b = Buffer.create 256 in
  List.iter (fun c -> Buffer.add_char b (Char.chr (int_of_n c land 255))) l;
  Buffer.contents b

let hexdigits = "0123456789abcdef"
let hex_of_string s =
  if s = "" then "-"
  else begin
    let n = String.length s in
    let b = Bytes.create (2 * n) in
    for i = 0 to n - 1 do
      let c = Char.code (String.unsafe_get s i) in
      Bytes.unsafe_set b (2 * i) hexdigits.[c lsr 4];
      Bytes.unsafe_set b (2 * i + 1) hexdigits.[c land 15]
    done;
    Bytes.unsafe_to_string b
  end
let nibble c =
  match c with
  | '0' .. '9' -> Char.code c - 48
  | 'a' .. 'f' -> Char.code c - 87
  | 'A' .. 'F' -> Char.code c - 55
  | _ -> failwith "bad hex"
let string_of_hex h =
  if h = "-" then ""
  else String.init (String.length h / 2) (fun i -> Char.chr (16 * nibble h.[2 * i] + nibble h.[2 * i + 1]))

let status_of = function
  | Panic s -> "PANIC:" ^ string_of_bytes (psite_name s)
  | OutOfFragment r -> "OOF:" ^ string_of_bytes (oof_name r)
  | OutOfFuel -> "FUEL"
  | Ok _ -> "ok"

let run line =
  let h = match String.index_opt line '\t' with Some i -> String.sub line 0 i | None -> line in
  let src = string_of_hex h in
  let res =
    match tokenize (bytes_of_string src) with
    | None -> "LEXFUEL\t-"
    | Some items ->
      let ts = parser_tokens items in
      (match parse_script ts with
       | Ok (qs, errs) ->
         if errs <> [] then Printf.sprintf "err:%d\t-" (List.length errs)
         else
           (match print_script qs with
            | Ok lines -> "ok\t" ^ hex_of_string (string_of_bytes (print_lines lines))
            | r -> status_of r ^ "\t-")
       | r -> status_of r ^ "\t-") in
  h ^ "\t" ^ res

let () =
  let out = Buffer.create 65536 in
  (try
     while true do
       let line = input_line stdin in
       let line = if String.length line > 0 && line.[String.length line - 1] = '\r'
         then String.sub line 0 (String.length line - 1) else line in
       if line <> "" then begin
         Buffer.add_string out (try run line with Failure _ | Invalid_argument _ -> "BAD");
         Buffer.add_char out '\n';
         if Buffer.length out > 60000 then begin print_string (Buffer.contents out); Buffer.clear out end
       end
     done
   with End_of_file -> ());
  print_string (Buffer.contents out)
