(* C09 driver.  Line protocol (CONVENTIONS.md): fields separated by TAB, byte strings in lowercase hex,
   "-" for empty.

   The ORACLE field (strconv's answers, produced by `litdump -floats`, see /verif/harness/cmd/litdump/main.go):
     "-"  or  <hex token value>:<pf>:<iv>:<nf>,...      with <fl> = N | I+ | I- | <sign><digits>e<exp10>
   parse_float  = lookup of a token value  -> pf      (E = error)
   int_to_float = lookup of an integer iv  -> nf
   A question the table does not answer makes the whole line NOORACLE.

   literal_driver model
     stdin : <hex src> TAB <oracle>
     stdout: <hex src> TAB L TAB <hex text after "Literal ">        (extracted tokenize + literal_of_tokens)
           | <hex src> TAB NOTLIT TAB <hex line>
           | <hex src> TAB OOF:<reason> TAB -   |  FUEL TAB -  |  LEXFUEL TAB -  |  NOORACLE TAB -

   literal_driver tokens
     stdin : <hex src>
     stdout: <hex src> TAB T TAB <tok>:<hex value>,...    (extracted tokenize, items up to EOF; "-" for none)  |  LEXFUEL TAB -

   literal_driver src
     stdin : <tree>                prefix notation, words separated by one space:
               n<dec>  m<dec> (negated)  x<dec> (hex spelling)  b<dec> (binary spelling)  o<dec> (octal spelling, 0o)
               r<x|X|b|B|o|O><hex of the digits and '_' after the prefix>   (any prefixed spelling, LiteralSpec.CRad)
               f+<hex text> / f-<hex text> (float text, plain / negated)   s<hex value or ->
               A<k> followed by k trees     T<k> followed by k trees
     stdout: <hex of LiteralSpec.src tree>

   literal_driver canon
     stdin : <tree> TAB <oracle>
     stdout: <hex src> TAB <hex of LiteralSpec.canon tree> TAB W|N      (W: LiteralSpec.wfb tree = true)

   literal_driver quote
     stdin : <hex v>
     stdout: <hex v> TAB <hex quote v> TAB <hex quote_raw v> TAB <hex canon_string v> *)
open Literal_ex

let rec pos_of_int i =
  if i = 1 then XH
  else if i land 1 = 0 then XO (pos_of_int (i lsr 1))
  else XI (pos_of_int (i lsr 1))
let n_of_int i = if i = 0 then N0 else Npos (pos_of_int i)
let rec int_of_pos = function XH -> 1 | XO p -> 2 * int_of_pos p | XI p -> 2 * int_of_pos p + 1
let int_of_n = function N0 -> 0 | Npos p -> int_of_pos p
let z_of_int i = if i = 0 then Z0 else if i > 0 then Zpos (pos_of_int i) else Zneg (pos_of_int (-i))

let bytes_of_string s = List.init (String.length s) (fun i -> n_of_int (Char.code s.[i]))
let string_of_bytes l =
  let b = Buffer.create 16 in
  List.iter (fun c -> Buffer.add_char b (Char.chr (int_of_n c land 255))) l;
  Buffer.contents b

let hexdigits = "0123456789abcdef"
let hex_of_string s =
  if s = "" then "-"
  else begin
    let n = String.length s in
    let b = Bytes.create (2 * n) in
    for i = 0 to n - 1 do
      let c = Char.code (String.unsafe_get s i) in
      Bytes.unsafe_set b (2 * i) hexdigits.[c lsr 4];
      Bytes.unsafe_set b (2 * i + 1) hexdigits.[c land 15]
    done;
    Bytes.unsafe_to_string b
  end
let nibble c =
  match c with
  | '0' .. '9' -> Char.code c - 48
  | 'a' .. 'f' -> Char.code c - 87
  | 'A' .. 'F' -> Char.code c - 55
  | _ -> failwith "bad hex"
let string_of_hex h =
  if h = "-" then ""
  else String.init (String.length h / 2) (fun i -> Char.chr (16 * nibble h.[2 * i] + nibble h.[2 * i + 1]))

(* decimal string -> N (unbounded) with the extracted arithmetic *)
let n_of_decimal s =
  if s = "" then failwith "empty decimal";
  let ten = n_of_int 10 in
  let acc = ref N0 in
  String.iter (fun c ->
      if c < '0' || c > '9' then failwith "bad decimal";
      acc := N.add (N.mul !acc ten) (n_of_int (Char.code c - 48))) s;
  !acc

(* ---- oracle ---- *)
exception No_oracle

let fval_of_string s =
  if s = "N" then FNaN
  else if s = "I+" then FInf false
  else if s = "I-" then FInf true
  else begin
    let neg = match s.[0] with '+' -> false | '-' -> true | _ -> failwith "bad float sign" in
    let i = String.index s 'e' in
    let digits = String.sub s 1 (i - 1) in
    let e = int_of_string (String.sub s (i + 1) (String.length s - i - 1)) in
    FFin (neg, bytes_of_string digits, z_of_int e)
  end

type oracle = { pf : (string * string) list; nf : (n * string) list }

let oracle_of_field f =
  if f = "-" then { pf = []; nf = [] }
  else begin
    let entries = String.split_on_char ',' f in
    let pf = ref [] and nf = ref [] in
    List.iter (fun e ->
        match String.split_on_char ':' e with
        | [hv; p; iv; nfs] ->
          pf := (string_of_hex hv, p) :: !pf;
          if iv <> "E" then nf := (n_of_decimal iv, nfs) :: !nf
        | _ -> failwith "bad oracle entry") entries;
    { pf = !pf; nf = !nf }
  end

let parse_float_of o (text : n list) : fval option =
  match List.assoc_opt (string_of_bytes text) o.pf with
  | None -> raise No_oracle
  | Some "E" -> None
  | Some s -> Some (fval_of_string s)

let rec assoc_n k = function
  | [] -> None
  | (k', v) :: tl -> if N.eqb k k' then Some v else assoc_n k tl

let int_to_float_of o (k : n) : fval =
  match assoc_n k o.nf with
  | None | Some "E" -> raise No_oracle
  | Some s -> fval_of_string s

(* ---- model ---- *)
let loof_name = function
  | LoofPrefix -> "prefix" | LoofFollow -> "follow" | LoofMinusOperand -> "minus-operand"
  | LoofMinusCast -> "minus-cast" | LoofParen -> "paren" | LoofSubquery -> "subquery"
  | LoofSyntax -> "syntax" | LoofComment -> "comment" | LoofTrailing -> "trailing"

let run_model line =
  match String.split_on_char '\t' line with
  | [h; orc] ->
    let o = oracle_of_field orc in
    let r =
      match tokenize (bytes_of_string (string_of_hex h)) with
      | None -> "LEXFUEL\t-"
      | Some items ->
        (try
           match literal_of_tokens (parse_float_of o) (int_to_float_of o) (strip_items items) with
           | LOk (OLit t) -> "L\t" ^ hex_of_string (string_of_bytes t)
           | LOk (ONotLit l) -> "NOTLIT\t" ^ hex_of_string (string_of_bytes l)
           | LOutOfFragment r -> "OOF:" ^ loof_name r ^ "\t-"
           | LOutOfFuel -> "FUEL\t-"
         with No_oracle -> "NOORACLE\t-") in
    h ^ "\t" ^ r
  | _ -> "BAD"

let run_tokens line =
  match tokenize (bytes_of_string (string_of_hex line)) with
  | None -> line ^ "\tLEXFUEL\t-"
  | Some items ->
    let parts = List.map (fun (t, v) -> string_of_int (int_of_n t) ^ ":" ^ hex_of_string (string_of_bytes v))
        (strip_items items) in
    line ^ "\tT\t" ^ (if parts = [] then "-" else String.concat "," parts)

(* ---- spec ---- *)
exception Bad

let rec parse_tree = function
  | [] -> raise Bad
  | w :: ws ->
    if String.length w < 2 then raise Bad;
    let arg = String.sub w 1 (String.length w - 1) in
    (match w.[0] with
     | 'n' -> (CNat (n_of_decimal arg), ws)
     | 'm' -> (CNeg (n_of_decimal arg), ws)
     | 'x' -> (CHex (n_of_decimal arg), ws)
     | 'b' -> (CBin (n_of_decimal arg), ws)
     | 'o' -> (CRad (ROct, false, oct (n_of_decimal arg)), ws)
     | 'r' ->
       let (r, up) = match arg.[0] with
         | 'x' -> (RHex, false) | 'X' -> (RHex, true) | 'b' -> (RBin, false) | 'B' -> (RBin, true)
         | 'o' -> (ROct, false) | 'O' -> (ROct, true) | _ -> raise Bad in
       (CRad (r, up, bytes_of_string (string_of_hex (String.sub arg 1 (String.length arg - 1)))), ws)
     | 'f' ->
       let neg = match arg.[0] with '+' -> false | '-' -> true | _ -> raise Bad in
       (CFlt (neg, bytes_of_string (string_of_hex (String.sub arg 1 (String.length arg - 1)))), ws)
     | 's' -> (CStr (bytes_of_string (string_of_hex arg)), ws)
     | 'A' | 'T' ->
       let k = int_of_string arg in
       let rec go k ws acc =
         if k = 0 then (List.rev acc, ws)
         else let (t, ws') = parse_tree ws in go (k - 1) ws' (t :: acc) in
       let (l, ws') = go k ws [] in
       ((if w.[0] = 'A' then CArr l else CTup l), ws')
     | _ -> raise Bad)

let tree_of_string s =
  match parse_tree (String.split_on_char ' ' s) with
  | (t, []) -> t
  | _ -> raise Bad

let run_src line =
  try hex_of_string (string_of_bytes (src (tree_of_string line)))
  with Bad | Failure _ | Invalid_argument _ | Not_found -> "BAD"

let run_canon line =
  match String.split_on_char '\t' line with
  | [tr; orc] ->
    (try
       let t = tree_of_string tr in
       let o = oracle_of_field orc in
       let s = hex_of_string (string_of_bytes (src t)) in
       (try
          let c = canon (parse_float_of o) (int_to_float_of o) t in
          let w = wfb (parse_float_of o) t in
          s ^ "\t" ^ hex_of_string (string_of_bytes c) ^ "\t" ^ (if w then "W" else "N")
        with No_oracle -> s ^ "\tNOORACLE\t-")
     with Bad | Failure _ | Invalid_argument _ | Not_found -> "BAD")
  | _ -> "BAD"

let run_quote line =
  let v = bytes_of_string (string_of_hex line) in
  line ^ "\t" ^ hex_of_string (string_of_bytes (quote v)) ^ "\t" ^ hex_of_string (string_of_bytes (quote_raw v))
  ^ "\t" ^ hex_of_string (string_of_bytes (canon_string v))

let () =
  let mode = if Array.length Sys.argv > 1 then Sys.argv.(1) else "model" in
  let f = match mode with
    | "model" -> run_model | "tokens" -> run_tokens | "src" -> run_src | "canon" -> run_canon | "quote" -> run_quote
    | _ -> failwith "mode: model | tokens | src | canon | quote" in
  let out = Buffer.create 65536 in
  (try
     while true do
       let line = input_line stdin in
       let line = if String.length line > 0 && line.[String.length line - 1] = '\r'
         then String.sub line 0 (String.length line - 1) else line in
       if line <> "" then begin
         Buffer.add_string out (try f line with Failure _ | Invalid_argument _ | Not_found -> "BAD");
         Buffer.add_char out '\n';
         if Buffer.length out > 60000 then begin print_string (Buffer.contents out); Buffer.clear out end
       end
     done
   with End_of_file -> ());
  print_string (Buffer.contents out)
