(* C09 driver: extraction of the lexer model, the literal model and the independent specs.
   Run inside this directory:  coqc -Q /verif/coq DC Extract.v   (writes literal_ex.ml / literal_ex.mli) *)
From Coq Require Import NArith.
From DC Require Import Base.Item Lexer.LexerModel Lexer.LexerStringsSpec Expr.ExprTree Expr.LiteralModel Expr.LiteralSpec.
Require Extraction.
Require Import ExtrOcamlBasic.
Extraction "literal_ex.ml"
  LexerModel.tokenize LiteralModel.strip_items LiteralModel.literal_of_tokens
  LexerStringsSpec.quote LexerStringsSpec.quote_raw LexerStringsSpec.canon_string LexerStringsSpec.bytes_okb
  LiteralSpec.src LiteralSpec.toks LiteralSpec.canon LiteralSpec.wfb LiteralSpec.oct
  ExprTree.digits_val ExprTree.dec N.add N.mul N.eqb.
