(* Extraction of the verified EXPLAIN-text checker (C04) for the oracle driver.
   Run inside this directory:  coqc -Q /verif/coq DC Extract.v   (writes tree_ex.ml / tree_ex.mli) *)
Require Extraction.
Require Import ExtrOcamlBasic.
From DC Require Import Tree.LineTree Gen.NodeKinds.

Extraction "tree_ex.ml" check_text classify node_kinds.
