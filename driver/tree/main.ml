(* The verified EXPLAIN-text checker as a filter.

   stdin : one case per line.  The LAST tab-separated field is the EXPLAIN text in lowercase
           hex ("-" = empty text); any preceding fields (e.g. the hex of the SQL, as printed
           by /verif/harness/cmd/explaindump) are echoed.
   stdout: one line per case:  [<preceding fields> TAB] <verdict>   with <verdict> one of
             ok
             bad:empty | bad:lines | bad:artefact | bad:tree | bad:kind
                 (Tree_ex.check_text Tree_ex.node_kinds text = false; the reason is the first
                  failing stage of Tree_ex.classify: no line at all / last line not
                  newline-terminated / a Go formatting artefact in some line / the lines are
                  not the rendering of one rooted tree (a leaf may carry "(children 0)") / a first word that is not a ClickHouse
                  node kind)
             bad:panic        the field is the word PANIC (Explain panicked: no text at all)
             skip:<WORD>      the field is another non-hex word (ERR, PARSEPANIC: not a
                              syntactically valid statement, outside C04)
   `ok` is printed iff the EXTRACTED check_text returns true.

   Option -nested (unverified extra screen, applied only to texts the verified checker accepts):
   prints  bad:nested  when some line contains " (children <digits>)" that is NOT the end of
   the line, i.e. a label that embeds the header of another node (a sub-node formatted into its
   parent's text: "each line is one node" is violated although the line structure is a tree).
   No label of the 113774 ClickHouse golden files contains such a sequence. *)
open Tree_ex

let rec pos_of_int n =
  if n = 1 then XH
  else if n land 1 = 1 then XI (pos_of_int (n lsr 1))
  else XO (pos_of_int (n lsr 1))
let n_of_int n = if n = 0 then N0 else Npos (pos_of_int n)
let byte_table = Array.init 256 n_of_int

let hexval c =
  match c with
  | '0' .. '9' -> Char.code c - 48
  | 'a' .. 'f' -> Char.code c - 87
  | _ -> -1

(* None when the field is not lowercase hex *)
let bytes_of_hex s =
  if s = "-" then Some []
  else begin
    let len = String.length s in
    if len = 0 || len mod 2 <> 0 then None
    else begin
      let ok = ref true in
      let acc = ref [] in
      let i = ref (len - 2) in
      while !ok && !i >= 0 do
        let h = hexval s.[!i] and l = hexval s.[!i + 1] in
        if h < 0 || l < 0 then ok := false
        else acc := byte_table.(h * 16 + l) :: !acc;
        i := !i - 2
      done;
      if !ok then Some !acc else None
    end
  end

let reason = function
  | VOk -> "ok"
  | VEmpty -> "bad:empty"
  | VLines -> "bad:lines"
  | VArtefact -> "bad:artefact"
  | VTree -> "bad:tree"
  | VKind -> "bad:kind"

let nested_screen = ref false

(* is there " (children <digits>)" followed by something else than a newline? (on the raw bytes) *)
let has_nested_header (s : string) : bool =
  let pat = " (children " in
  let n = String.length s and k = String.length pat in
  let found = ref false in
  let i = ref 0 in
  while not !found && !i + k <= n do
    if String.sub s !i k = pat then begin
      let j = ref (!i + k) in
      while !j < n && s.[!j] >= '0' && s.[!j] <= '9' do incr j done;
      if !j > !i + k && !j < n && s.[!j] = ')' && !j + 1 < n && s.[!j + 1] <> '\n' then found := true
    end;
    incr i
  done;
  !found

let string_of_hex s =
  if s = "-" then "" else
  String.init (String.length s / 2) (fun i ->
      Char.chr (hexval s.[2 * i] * 16 + hexval s.[2 * i + 1]))

let verdict field =
  match bytes_of_hex field with
  | None -> if field = "PANIC" then "bad:panic" else "skip:" ^ field
  | Some text ->
    if check_text node_kinds text then
      (if !nested_screen && has_nested_header (string_of_hex field) then "bad:nested" else "ok")
    else begin
      match classify node_kinds text with
      | VOk -> "bad:internal"   (* impossible: check_text is defined as classify = VOk *)
      | v -> reason v
    end

let () =
  if Array.length Sys.argv > 1 && Sys.argv.(1) = "-nested" then nested_screen := true;
  let out = Buffer.create 65536 in
  (try
     while true do
       let line = input_line stdin in
       let line =
         let n = String.length line in
         if n > 0 && line.[n - 1] = '\r' then String.sub line 0 (n - 1) else line in
       if line <> "" then begin
         let prefix, field =
           match String.rindex_opt line '\t' with
           | Some i -> String.sub line 0 (i + 1), String.sub line (i + 1) (String.length line - i - 1)
           | None -> "", line in
         Buffer.add_string out prefix;
         Buffer.add_string out (verdict field);
         Buffer.add_char out '\n';
         if Buffer.length out > 60000 then begin
           print_string (Buffer.contents out); Buffer.clear out
         end
       end
     done
   with End_of_file -> ());
  print_string (Buffer.contents out)
