(* Model side of the C04 count-vs-emit correspondence: same line protocol as
   /verif/harness/cmd/selectcount/main.go (see there for the case syntax); the answers are
   computed by the extracted SelectExplainModel.

   stdout: <header count> TAB <direct children> TAB <md5 of the printed text> TAB M   (-text: hex of the text)
           or  - TAB - TAB - TAB O  for an oracle-only case (a spec containing the letter e:
           "present but empty" slice, which the model cannot distinguish from nil)
           or OUTOFMODEL when a `u` item (nested single-select union) does not itself print as a
           tree in the model (then it cannot be handed on as an already rendered sub-tree).

   Kinds N / X / C (union nested in INSERT / EXPLAIN / CREATE VIEW): the model side prints the
   union with the tail the enclosing statement passes (explain_insert_select,
   explain_explain_select with the extracted explain_query_tail, explain_as_select_without_format)
   at depth 0; the Go side extracts and de-indents the nested subtree.

   Glue that is NOT extracted (trusted, small): decoding a case into the model's record, the
   sub-trees standing for the identifiers / table elements / ORDER BY elements the Go side
   builds, the flattening of a nested single-select union in u_grouped (expandNestedUnions'
   `len(nested.Selects) == 1` case; all modes are UNION ALL so groupSelectsByUnionMode is the
   identity). *)
open Selectcount_ex

let rec pos_of_int n =
  if n = 1 then XH
  else if n land 1 = 1 then XI (pos_of_int (n lsr 1))
  else XO (pos_of_int (n lsr 1))
let n_of_int n = if n = 0 then N0 else Npos (pos_of_int n)
let rec int_of_pos = function
  | XH -> 1
  | XO p -> 2 * int_of_pos p
  | XI p -> 2 * int_of_pos p + 1
let int_of_n = function N0 -> 0 | Npos p -> int_of_pos p
let nat_of_int n =
  let rec go acc k = if k = 0 then acc else go (S acc) (k - 1) in
  go O n
let int_of_nat n =
  let rec go acc = function O -> acc | S m -> go (acc + 1) m in
  go 0 n

let bytes s = List.init (String.length s) (fun i -> n_of_int (Char.code s.[i]))
let string_of_bytes l =
  let b = Buffer.create 256 in
  List.iter (fun x -> Buffer.add_char b (Char.chr (int_of_n x))) l;
  Buffer.contents b

let leaf s = Node (bytes s, [])
let ident s = leaf ("Identifier " ^ s)
let idents prefix n = List.init n (fun i -> ident (Printf.sprintf "%s%d" prefix (i + 1)))
let opt name d = if d = 0 then None else Some (ident name)
let el ts = Node (bytes "ExpressionList", ts)
(* what Node(sb, <tuple literal of identifiers>, _) prints *)
let tuple_self es = Node (bytes "Function tuple", [el es])

let build spec =
  if String.length spec <> 25 then failwith ("select spec must have 25 digits: " ^ spec);
  let d = Array.init 25 (fun i ->
      let c = spec.[i] in
      if c < '0' || c > '9' then failwith ("bad digit in " ^ spec);
      Char.code c - 48) in
  let gs = d.(10) <> 0 in
  let group_elem i =
    let name = Printf.sprintf "g%d" (i + 1) in
    if gs then
      match i mod 4 with
      | 1 -> let es = [ident (name ^ "a"); ident (name ^ "b")] in GE_tuple (false, Some es, tuple_self es)
      | 2 -> let es = [ident (name ^ "a")] in GE_tuple (true, Some es, tuple_self es)
      | 3 -> GE_tuple (false, Some [], tuple_self [])
      | _ -> GE_other (ident name)
    else GE_other (ident name) in
  { sq_with = idents "w" d.(0);
    sq_distinct_on = idents "d" d.(1);
    sq_top = opt "top" d.(2);
    sq_columns = idents "c" d.(3);
    sq_from =
      (if d.(4) = 0 then None
       else if d.(4) = 9 then Some []
       else Some (List.init d.(4) (fun i ->
           Node (bytes "TablesInSelectQueryElement",
                 [Node (bytes "TableExpression", [leaf (Printf.sprintf "TableIdentifier t%d" (i + 1))])]))));
    sq_array_join =
      (if d.(5) = 0 then None else Some (Node (bytes "ArrayJoin", [el [ident "aj"]])));
    sq_prewhere = opt "pw" d.(6);
    sq_where = opt "wh" d.(7);
    sq_group_by = List.init d.(8) group_elem;
    sq_group_by_all = d.(9) <> 0;
    sq_grouping_sets = gs;
    sq_having = opt "hv" d.(11);
    sq_qualify = opt "ql" d.(12);
    sq_window = nat_of_int d.(13);
    sq_order_by = List.init d.(14) (fun i ->
        Node (bytes "OrderByElement", [ident (Printf.sprintf "o%d" (i + 1))]));
    sq_interpolate = List.init d.(15) (fun i ->
        let c = Printf.sprintf "i%d" (i + 1) in
        Node (bytes (Printf.sprintf "InterpolateElement (column %s)" c), [ident c]));
    sq_limit = opt "lim" d.(16);
    sq_limit_by = idents "lb" d.(17);
    sq_limit_by_limit = opt "lbl" d.(18);
    sq_limit_by_offset = opt "lbo" d.(19);
    sq_offset = opt "off" d.(20);
    sq_settings = nat_of_int d.(21);
    sq_settings_after_format = d.(22) <> 0;
    sq_into_outfile = (if d.(23) = 0 then None else Some (bytes "out.txt"));
    sq_format = (if d.(24) = 0 then None else Some (ident "Null")) }

exception Out_of_model

(* a parenthesised single select: SelectWithUnionQuery{Selects: [q]} *)
let nested_union q =
  { u_selects = [ItemSelect q]; u_grouped = [ItemSelect q]; u_settings = O;
    u_settings_after_format = false; u_settings_before_format = false }

let nested_tree q =
  match parse_lines (explain_select_with_union_query O (nested_union q)) with
  | Some t -> t
  | None -> raise Out_of_model

(* (member of Selects, member of the expanded/grouped list) *)
let item s =
  if String.length s < 1 then failwith "empty item";
  let q = build (String.sub s 1 (String.length s - 1)) in
  match s.[0] with
  | 'q' -> (ItemSelect q, ItemSelect q)
  | 'u' ->
    (ItemOther { o_tree = nested_tree q; o_with = q.sq_with; o_is_union = true }, ItemSelect q)
  | _ -> failwith ("bad item kind in " ^ s)

let union arg items =
  if String.length arg <> 3 then failwith "union arg must be 3 digits";
  let its = List.map item (String.split_on_char ';' items) in
  { u_selects = List.map fst its; u_grouped = List.map snd its;
    u_settings = nat_of_int (Char.code arg.[2] - 48);
    u_settings_after_format = arg.[1] <> '0';
    u_settings_before_format = arg.[0] <> '0' }

let lines_of_case kind arg items =
  match kind with
  | "S" -> explain_select_query O (build items)
  | "W" ->
    (* second member of a union whose first member has WITH fw1..fw<w> *)
    explain_select_query_with_inherited_with O (ItemSelect (build items))
      (idents "fw" (Char.code arg.[0] - 48))
  | "V" ->
    (* the single member of the union of an INSERT with WITH iw1..iw<w>:
       ExplainSelectWithInheritedWith dispatches a SelectQuery to the same printer *)
    explain_select_query_with_inherited_with O (ItemSelect (build items))
      (idents "iw" (Char.code arg.[0] - 48))
  | "U" -> explain_select_with_union_query O (union arg items)
  | "N" ->
    if String.length arg <> 4 then failwith "N arg must be 4 digits";
    explain_insert_select O (idents "iw" (Char.code arg.[0] - 48))
      (union (String.sub arg 1 3) items)
  | "X" -> explain_explain_select O (union arg items)
  | "C" ->
    if String.length arg <> 4 then failwith "C arg must be 4 digits";
    let u = union (String.sub arg 1 3) items in
    if arg.[0] <> '0' then explain_as_select_without_format O u
    else explain_select_with_union_query O u
  | "I" ->
    let its = List.map item (String.split_on_char ';' items) in
    explain_select_intersect_except_query O
      { i_selects = List.map fst its; i_has_except = (arg <> "0") }
  | _ -> failwith ("unknown kind " ^ kind)

let hex_of_string s =
  if s = "" then "-"
  else begin
    let b = Buffer.create (2 * String.length s) in
    String.iter (fun c -> Buffer.add_string b (Printf.sprintf "%02x" (Char.code c))) s;
    Buffer.contents b
  end

let () =
  let as_text = Array.length Sys.argv > 1 && Sys.argv.(1) = "-text" in
  try
    while true do
      let line = input_line stdin in
      if line <> "" then begin
        match String.split_on_char '\t' line with
        | [_; _; items] when String.contains items 'e' ->
          (* "present but empty" slices: the model cannot tell nil from empty; oracle-only *)
          print_endline "-\t-\t-\tO"
        | [kind; arg; items] ->
          (try
             let ls = lines_of_case kind arg items in
             let text = string_of_bytes (print_lines ls) in
             Printf.printf "%d\t%d\t%s\tM\n"
               (int_of_nat (header_count ls)) (int_of_nat (direct_children ls))
               (if as_text then hex_of_string text else Digest.to_hex (Digest.string text))
           with Out_of_model -> print_endline "OUTOFMODEL\tM")
        | _ -> failwith ("bad case line " ^ line)
      end
    done
  with End_of_file -> ()
