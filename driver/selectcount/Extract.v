(* Extraction of the SELECT printers' count-vs-emit model (C04 part B) for the correspondence driver.
   Run inside this directory:  coqc -Q /verif/coq DC Extract.v   (writes selectcount_ex.ml / .mli) *)
Require Extraction.
Require Import ExtrOcamlBasic.
From DC Require Import Tree.LineTree Select.SelectExplainModel.

Extraction "selectcount_ex.ml"
  explain_select_query
  explain_select_query_with_inherited_with
  explain_select_with_union_query
  explain_select_with_union_query_tail
  explain_select_with_union_query_with_inherited_with
  explain_insert_select explain_explain_select explain_as_select_without_format
  explain_select_intersect_except_query
  header_count direct_children print_lines parse_lines.
