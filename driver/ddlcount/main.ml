(* Model side of the C04 count-vs-emit correspondence for the DDL printers: same line protocol
   as /verif/harness/cmd/ddlcount/main.go (see there for the case syntax); the answers are
   computed by the extracted Ddl/DdlExplainModel.

   stdout: <header count> TAB <direct children> TAB <md5 of the printed text> TAB <T|F> TAB M
           (-text: hex of the text); T/F is the extracted verified check_lines on the model's lines.

   Glue that is NOT extracted (trusted, small): decoding a case into the model's records and the
   sub-trees standing for what Node / explainFunctionCall / the dictionary printers print for the
   identifiers, data types, function calls, tuple and string literals and the `SELECT q` union the
   Go side builds. *)
open Ddlcount_ex

let rec pos_of_int n =
  if n = 1 then XH
  else if n land 1 = 1 then XI (pos_of_int (n lsr 1))
  else XO (pos_of_int (n lsr 1))
let n_of_int n = if n = 0 then N0 else Npos (pos_of_int n)
let rec int_of_pos = function
  | XH -> 1
  | XO p -> 2 * int_of_pos p
  | XI p -> 2 * int_of_pos p + 1
let int_of_n = function N0 -> 0 | Npos p -> int_of_pos p
let nat_of_int n =
  let rec go acc k = if k = 0 then acc else go (S acc) (k - 1) in
  go O n
let int_of_nat n =
  let rec go acc = function O -> acc | S m -> go (acc + 1) m in
  go 0 n

let bytes s = List.init (String.length s) (fun i -> n_of_int (Char.code s.[i]))
let string_of_bytes l =
  let b = Buffer.create 256 in
  List.iter (fun x -> Buffer.add_char b (Char.chr (int_of_n x))) l;
  Buffer.contents b

(* ---- what the callees print for the sub-nodes the Go side builds ---- *)
let leaf s = Node (bytes s, [])
let ident s = leaf ("Identifier " ^ s)
let idents prefix n = List.init n (fun i -> ident (Printf.sprintf "%s%d" prefix (i + 1)))
let names prefix n = List.init n (fun i -> bytes (Printf.sprintf "%s%d" prefix (i + 1)))
let el ts = Node (bytes "ExpressionList", ts)
let fcall_tree name args = Node (bytes ("Function " ^ name), [el args])
let tuple_tree es = Node (bytes "Function tuple", [el es])
let opt name d = if d = 0 then None else Some (ident name)
let str name d = if d = 0 then [] else bytes name
let select_q with_format =
  let sq = Node (bytes "SelectQuery", [el [ident "q"]]) in
  Node (bytes "SelectWithUnionQuery", el [sq] :: (if with_format then [ident "Null"] else []))

let digits spec n what =
  if String.length spec <> n then
    failwith (Printf.sprintf "%s spec must have %d characters: %s" what n spec);
  Array.init n (fun i ->
      let c = spec.[i] in
      if c < '0' || c > '9' then failwith ("bad digit in " ^ what ^ " spec " ^ spec);
      Char.code c - 48)

let fn_list prefix arg_prefix n =
  List.init n (fun i ->
      let j = i + 1 in
      { fn_name = bytes (Printf.sprintf "%s%d" prefix j); fn_args = idents arg_prefix ((j - 1) mod 3) })

let build_column spec name =
  let d = digits spec 9 "column" in
  { cd_name = bytes name;
    cd_type = (if d.(0) = 0 then None else Some (leaf "DataType Int32"));
    cd_statistics = fn_list "st" "sa" d.(1);
    cd_default = opt "dflt" d.(2);
    cd_ephemeral = (d.(3) = 2);
    cd_ttl = opt "cttl" d.(4);
    cd_codec = (if d.(5) = 0 then None else if d.(5) = 9 then Some [] else Some (fn_list "cd" "ca" d.(5)));
    cd_settings = nat_of_int d.(6);
    cd_comment = str "cmt" d.(7);
    cd_primary_key = (d.(8) <> 0) }

let key_expr kind name =
  match kind with
  | 1 -> let es = [ident (name ^ "a"); ident (name ^ "b")] in { k_view = KV_tuple es; k_tree = tuple_tree es }
  | 2 | 4 -> { k_view = KV_tuple []; k_tree = tuple_tree [] }
  | 3 -> { k_view = KV_other; k_tree = fcall_tree "f" [ident name] }
  | _ -> { k_view = KV_ident (bytes name); k_tree = ident name }

let key_list n first_kind prefix =
  List.init n (fun i ->
      let j = i + 1 in
      key_expr (if j = 1 then first_kind else 0) (Printf.sprintf "%s%d" prefix j))

let build_index spec =
  let d = digits spec 2 "index" in
  { ix_expr = (match d.(0) with
        | 0 -> None
        | 1 -> Some (key_expr 0 "ie")
        | 2 -> Some (key_expr 3 "ie")
        | _ -> Some (key_expr 1 "ie"));
    ix_type = (match d.(1) with
        | 0 -> None
        | 1 -> Some (fcall_tree "minmax" [])
        | _ -> Some (fcall_tree "set" [ident "ta"])) }

let build_projection spec =
  if spec = "-" then None
  else if spec = "n" then Some (None : projection)   (* a single-field record is extracted as its field *)
  else begin
    let d = digits spec 4 "projection" in
    Some (Some { ps_with = idents "pw" d.(0); ps_columns = idents "pc" d.(1);
                 ps_group_by = idents "pg" d.(2); ps_order_by = idents "po" d.(3) } : projection)
  end

let build_ttl set elements expression expressions =
  if set = 0 then None
  else
    Some { ttl_elements = List.init elements (fun i ->
        let j = i + 1 in
        { te_expr = (if j = 3 then None else Some (ident (Printf.sprintf "te%d" j)));
          te_where = (if j mod 2 = 0 then Some (ident (Printf.sprintf "tw%d" j)) else None) });
           ttl_expression = opt "tx" expression;
           ttl_expressions = idents "ty" expressions }

let alter_type_of_string s =
  match s with
  | "ADD_COLUMN" -> AT_AddColumn | "DROP_COLUMN" -> AT_DropColumn | "MODIFY_COLUMN" -> AT_ModifyColumn
  | "RENAME_COLUMN" -> AT_RenameColumn | "CLEAR_COLUMN" -> AT_ClearColumn
  | "MATERIALIZE_COLUMN" -> AT_MaterializeColumn | "COMMENT_COLUMN" -> AT_CommentColumn
  | "ADD_INDEX" -> AT_AddIndex | "DROP_INDEX" -> AT_DropIndex | "CLEAR_INDEX" -> AT_ClearIndex
  | "MATERIALIZE_INDEX" -> AT_MaterializeIndex
  | "ADD_CONSTRAINT" -> AT_AddConstraint | "DROP_CONSTRAINT" -> AT_DropConstraint
  | "MODIFY_TTL" -> AT_ModifyTTL | "MATERIALIZE_TTL" -> AT_MaterializeTTL | "REMOVE_TTL" -> AT_RemoveTTL
  | "MODIFY_SETTING" -> AT_ModifySetting | "RESET_SETTING" -> AT_ResetSetting
  | "DROP_PARTITION" -> AT_DropPartition | "DROP_DETACHED_PARTITION" -> AT_DropDetachedPartition
  | "DETACH_PARTITION" -> AT_DetachPartition | "ATTACH_PARTITION" -> AT_AttachPartition
  | "REPLACE_PARTITION" -> AT_ReplacePartition | "FETCH_PARTITION" -> AT_FetchPartition
  | "MOVE_PARTITION" -> AT_MovePartition | "FREEZE_PARTITION" -> AT_FreezePartition
  | "FREEZE" -> AT_Freeze | "APPLY_PATCHES" -> AT_ApplyPatches
  | "DELETE_WHERE" -> AT_DeleteWhere | "UPDATE" -> AT_Update
  | "ADD_PROJECTION" -> AT_AddProjection | "DROP_PROJECTION" -> AT_DropProjection
  | "MATERIALIZE_PROJECTION" -> AT_MaterializeProjection | "CLEAR_PROJECTION" -> AT_ClearProjection
  | "ADD_STATISTICS" -> AT_AddStatistics | "MODIFY_STATISTICS" -> AT_ModifyStatistics
  | "DROP_STATISTICS" -> AT_DropStatistics | "CLEAR_STATISTICS" -> AT_ClearStatistics
  | "MATERIALIZE_STATISTICS" -> AT_MaterializeStatistics
  | "MODIFY_COMMENT" -> AT_ModifyComment | "MODIFY_ORDER_BY" -> AT_ModifyOrderBy
  | "MODIFY_SAMPLE_BY" -> AT_ModifySampleBy | "MODIFY_QUERY" -> AT_ModifyQuery
  | "REMOVE_SAMPLE_BY" -> AT_RemoveSampleBy | "APPLY_DELETED_MASK" -> AT_ApplyDeletedMask
  | other -> AT_Other (bytes other)

let build_alter spec =
  match String.split_on_char ':' spec with
  | [ty; fields; col; idx; prj] ->
    let d = digits fields 26 "alter" in
    { ac_type = alter_type_of_string ty;
      ac_column = (if col = "-" then None else Some (build_column col "c1"));
      ac_column_name = str "cn" d.(0);
      ac_after_column = str "ac" d.(1);
      ac_new_name = str "nn" d.(2);
      ac_index = str "ix" d.(3);
      ac_index_def = (if idx = "-" then None else Some (build_index idx));
      ac_after_index = str "ai" d.(4);
      ac_constraint = (match d.(5) with 0 -> None | 1 -> Some (Some (ident "ce")) | _ -> Some None);
      ac_constraint_name = str "ct" d.(6);
      ac_partition = (match d.(7) with
          | 0 -> None
          | 1 -> Some { pt_view = PV_all; pt_tree = ident "aLl" }
          | 2 -> Some { pt_view = PV_literal (bytes "p1"); pt_tree = leaf "Literal \\'p1\\'" }
          | _ -> Some { pt_view = PV_other; pt_tree = ident "pp" });
      ac_partition_is_id = (d.(8) <> 0);
      ac_is_part = (d.(9) <> 0);
      ac_from_table = (d.(10) <> 0);
      ac_ttl = build_ttl d.(11) d.(12) d.(13) d.(14);
      ac_settings = nat_of_int d.(15);
      ac_where = opt "wh" d.(16);
      ac_assignments = List.init d.(17) (fun i ->
          let j = i + 1 in
          { as_column = bytes (Printf.sprintf "as%d" j);
            as_value = (if j = 3 then None else Some (ident (Printf.sprintf "av%d" j))) });
      ac_projection = build_projection prj;
      ac_projection_name = str "pn" d.(18);
      ac_stat_columns = names "sc" d.(19);
      ac_stat_types =
        (if d.(20) <= 3 then
           List.init d.(20) (fun i -> { fn_name = bytes (Printf.sprintf "sk%d" (i + 1)); fn_args = [] })
         else
           List.init (d.(20) - 3) (fun i ->
               { fn_name = bytes (Printf.sprintf "sk%d" (i + 1)); fn_args = idents "ka" (i + 1) }));
      ac_comment = str "cm" d.(21);
      ac_order_by = idents "ob" d.(22);
      ac_sample_by = opt "sb" d.(23);
      ac_reset_settings = names "rs" d.(24);
      ac_query = (if d.(25) = 0 then None else Some (select_q false)) }
  | _ -> failwith ("alter spec must have 5 parts: " ^ spec)

let build_engine d name arg_prefix =
  match d with
  | 0 -> None
  | 1 -> Some { en_name = bytes name; en_has_parens = false; en_params = [] }
  | _ -> Some { en_name = bytes name; en_has_parens = true; en_params = idents arg_prefix (d - 2) }

let split_list s = if s = "-" then [] else String.split_on_char ',' s

let build_create spec =
  match String.split_on_char ':' spec with
  | [fields; cols; idxs; prjs] ->
    let d = digits fields 41 "create" in
    { cq_create_function = (d.(0) <> 0);
      cq_function_name = bytes "fn";
      cq_function_body = opt "fb" d.(1);
      cq_create_user = (d.(2) <> 0);
      cq_alter_user = (d.(3) <> 0);
      cq_has_authentication_data = (d.(4) <> 0);
      cq_authentication_values = names "pw" d.(5);
      cq_ssh_key_count = nat_of_int d.(6);
      cq_create_dictionary = (d.(7) <> 0);
      cq_dictionary_attrs = List.init d.(8) (fun i ->
          Node (bytes (Printf.sprintf "DictionaryAttributeDeclaration da%d" (i + 1)), [leaf "DataType UInt64"]));
      cq_dictionary_def = (if d.(9) = 0 then None else Some (leaf "Dictionary definition"));
      cq_create_database = (d.(10) <> 0);
      cq_database = str "db" d.(11);
      cq_table = str "tb" d.(12);
      cq_view = str "vw" d.(13);
      cq_columns = List.mapi (fun i s -> build_column s (Printf.sprintf "c%d" (i + 1))) (split_list cols);
      cq_indexes = List.map build_index (split_list idxs);
      cq_projections = List.map (fun s ->
          match build_projection s with Some p -> p | None -> failwith "nil projection in a list")
          (split_list prjs);
      cq_constraints = List.init d.(40) (fun i ->
          let j = i + 1 in if j = 3 then None else Some (ident (Printf.sprintf "cx%d" j)));
      cq_columns_primary_key = idents "ck" d.(14);
      cq_has_empty_columns_primary_key = (d.(15) <> 0);
      cq_engine = build_engine d.(16) "Eng" "ep";
      cq_inner_engine = build_engine d.(17) "Inn" "ip";
      cq_order_by = key_list d.(18) d.(19) "o";
      cq_order_by_has_modifiers = (d.(20) <> 0);
      cq_partition_by = (match d.(21) with 0 -> None | 1 -> Some (key_expr 0 "pb") | _ -> Some (key_expr 3 "pb"));
      cq_primary_key = key_list d.(22) d.(23) "k";
      cq_sample_by = opt "sm" d.(24);
      cq_ttl = build_ttl d.(25) d.(26) d.(27) d.(28);
      cq_settings = nat_of_int d.(29);
      cq_query_settings = nat_of_int d.(30);
      cq_settings_before_comment = (d.(31) <> 0);
      cq_comment = str "cmt" d.(32);
      cq_has_refresh = (d.(33) <> 0);
      cq_materialized = (d.(34) <> 0);
      cq_window_view = (d.(35) <> 0);
      cq_to = (d.(36) <> 0);
      cq_as_select = (match d.(37) with
          | 0 -> None
          | 1 -> Some { as_plain = select_q false; as_no_format = select_q false }
          | _ -> Some { as_plain = select_q true; as_no_format = select_q false });
      cq_as_table_function = (if d.(38) = 0 then None else Some (fcall_tree "tf" [ident "ta"]));
      cq_format = str "Null" d.(39) }
  | _ -> failwith ("create spec must have 4 parts: " ^ spec)

let lines_of_case kind spec =
  match kind with
  | "COL" -> explain_column O (build_column spec "c1")
  | "IDX" -> explain_index O (build_index spec)
  | "ALT" -> explain_alter_command O (build_alter spec)
  | "ALQ" ->
    let d = digits spec 4 "alter query" in
    let empty ty =
      { ac_type = ty; ac_column = None; ac_column_name = []; ac_after_column = []; ac_new_name = [];
        ac_index = []; ac_index_def = None; ac_after_index = []; ac_constraint = None;
        ac_constraint_name = []; ac_partition = None; ac_partition_is_id = false; ac_is_part = false;
        ac_from_table = false; ac_ttl = None; ac_settings = O; ac_where = None; ac_assignments = [];
        ac_projection = None; ac_projection_name = []; ac_stat_columns = []; ac_stat_types = [];
        ac_comment = []; ac_order_by = []; ac_sample_by = None; ac_reset_settings = []; ac_query = None } in
    explain_alter_query O
      { aq_database = str "db" d.(0); aq_table = bytes "t";
        aq_commands = List.init d.(3) (fun i ->
            { (empty AT_DropColumn) with ac_column_name = bytes (Printf.sprintf "x%d" (i + 1)) });
        aq_settings = nat_of_int d.(2); aq_format = str "Null" d.(1) }
  | "CRE" -> explain_create_query O (build_create spec)
  | _ -> failwith ("unknown kind " ^ kind)

let hex_of_string s =
  if s = "" then "-"
  else begin
    let b = Buffer.create (2 * String.length s) in
    String.iter (fun c -> Buffer.add_string b (Printf.sprintf "%02x" (Char.code c))) s;
    Buffer.contents b
  end

let () =
  let as_text = Array.length Sys.argv > 1 && Sys.argv.(1) = "-text" in
  try
    while true do
      let line = input_line stdin in
      if line <> "" then begin
        match String.split_on_char '\t' line with
        | [kind; spec] ->
          let ls = lines_of_case kind spec in
          let text = string_of_bytes (print_lines ls) in
          Printf.printf "%d\t%d\t%s\t%s\tM\n"
            (int_of_nat (header_count ls)) (int_of_nat (direct_children ls))
            (if as_text then hex_of_string text else Digest.to_hex (Digest.string text))
            (if check_lines ls then "T" else "F")
        | _ -> failwith ("bad case line " ^ line)
      end
    done
  with End_of_file -> ()
