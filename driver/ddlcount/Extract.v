(* Extraction of the DDL printers' count-vs-emit model (C04 part C) for the correspondence driver.
   Run inside this directory:  coqc -Q /verif/coq DC Extract.v   (writes ddlcount_ex.ml / .mli) *)
Require Extraction.
Require Import ExtrOcamlBasic.
From DC Require Import Tree.LineTree Select.SelectExplainModel Ddl.DdlExplainModel.

Extraction "ddlcount_ex.ml"
  explain_column explain_index explain_projection
  explain_alter_command explain_alter_query explain_create_query
  header_count direct_children print_lines check_lines.
