(* Model side of the C04 count-vs-emit correspondence for the expression printers: same line protocol
   as /verif/harness/cmd/exprcount/main.go (see there for the term syntax); the answers are computed
   by the extracted ExprEx/ExprExplainModel ([enode], the model of Node on expressions).

   stdout: <header count> TAB <direct children> TAB <md5 of the printed text> TAB <T|F> TAB M
           (-text: hex of the text); T/F is the extracted verified check_lines on the model's lines.

   Glue that is NOT extracted (trusted, small, validated by the comparison itself): decoding a term into
   the model's [expr]; the texts the opaque label functions of format.go return for the names the Go side
   uses (NormalizeFunctionName, OperatorToFunction, UnaryOperatorToFunction, extractFieldToFunction,
   normalizeIntervalUnit); what parseKQL / parseMultiIntervalString / ParseFloat return for the strings of
   the Go side's table; the trees standing for a SELECT statement and a DataType; the rewriting of
   "Literal <text>" lines to "Literal _" (both sides). *)
open Exprcount_ex

let rec pos_of_int n =
  if n = 1 then XH
  else if n land 1 = 1 then XI (pos_of_int (n lsr 1))
  else XO (pos_of_int (n lsr 1))
let n_of_int n = if n = 0 then N0 else Npos (pos_of_int n)
let rec int_of_pos = function
  | XH -> 1
  | XO p -> 2 * int_of_pos p
  | XI p -> 2 * int_of_pos p + 1
let int_of_n = function N0 -> 0 | Npos p -> int_of_pos p
let nat_of_int n =
  let rec go acc k = if k = 0 then acc else go (S acc) (k - 1) in
  go O n
let int_of_nat n =
  let rec go acc = function O -> acc | S m -> go (acc + 1) m in
  go 0 n

let bytes s = List.init (String.length s) (fun i -> n_of_int (Char.code s.[i]))
let string_of_bytes l =
  let b = Buffer.create 256 in
  List.iter (fun x -> Buffer.add_char b (Char.chr (int_of_n x))) l;
  Buffer.contents b

let leaf s = Node (bytes s, [])
let el ts = Node (bytes "ExpressionList", ts)
let names prefix n = List.init n (fun i -> bytes (Printf.sprintf "%s%d" prefix (i + 1)))
(* what Node prints for the statement the Go side puts into Subquery / IN / EXISTS *)
let select_q =
  Node (bytes "SelectWithUnionQuery", [el [Node (bytes "SelectQuery", [el [leaf "Identifier q"]])]])
(* ... for &ast.DataType{Name: "T"} without and with HasParentheses *)
let opaque k = if k = 1 then Node (bytes "DataType T", [el []]) else leaf "DataType T"
let order_elem = Node (bytes "OrderByElement", [leaf "Identifier o"])

(* normalizeIntervalUnit (format-level text function, re-implemented here for the units the Go side uses) *)
let norm_unit u =
  let s = String.lowercase_ascii (string_of_bytes u) in
  if s = "" then [] else begin
    let s = if String.length s >= 8 && String.sub s 0 8 = "sql_tsi_" then String.sub s 8 (String.length s - 8) else s in
    if s = "" then [] else begin
      let s = match s with
        | "yy" -> "year" | "qq" -> "quarter" | "mm" -> "month" | "wk" | "ww" | "w" -> "week" | "dd" | "d" -> "day"
        | "hh" | "h" -> "hour" | "mi" | "m" -> "minute" | "ss" | "s" -> "second" | "ms" -> "millisecond"
        | "us" -> "microsecond" | "ns" -> "nanosecond" | x -> x in
      let n = String.length s in
      let s = if n > 1 && s.[n - 1] = 's' then String.sub s 0 (n - 1) else s in
      bytes (String.capitalize_ascii s)
    end
  end

let ip u = { ip_unit = bytes u; ip_literal = bytes "_" }
let kql t cols f = Some { kq_table = bytes t; kq_columns = List.map bytes cols; kq_filter = f }
(* what the three string parsers of functions.go return for strTable of the Go side *)
let str_table = [|
  { s_empty = false; s_float = false; s_kql = kql "s" [] None; s_iparts = [] };
  { s_empty = true; s_float = false; s_kql = None; s_iparts = [] };
  { s_empty = false; s_float = true; s_kql = kql "99999999999999999999" [] None; s_iparts = [] };
  { s_empty = false; s_float = false; s_kql = kql "1 DAY" [] None; s_iparts = [ip "Day"] };
  { s_empty = false; s_float = false; s_kql = kql "-1 SECOND 2 MINUTE" [] None; s_iparts = [ip "Second"; ip "Minute"] };
  { s_empty = false; s_float = false; s_kql = kql "1 DAY 2 HOUR 3 MINUTE" [] None; s_iparts = [ip "Day"; ip "Hour"; ip "Minute"] };
  { s_empty = false; s_float = false; s_kql = kql "T" ["a"; "b"] None; s_iparts = [ip "A,"] };
  { s_empty = false; s_float = false;
    s_kql = kql "T" ["a"] (Some { kf_fn = bytes "equals"; kf_left = bytes "x"; kf_right_quoted = true; kf_right = bytes "_" });
    s_iparts = [ip "A|filter"] };
  { s_empty = false; s_float = false;
    s_kql = kql "T" [] (Some { kf_fn = bytes "greater"; kf_left = bytes "x"; kf_right_quoted = false; kf_right = bytes "z" });
    s_iparts = [ip "X>z"] };
|]

(* class of Name and NormalizeFunctionName(Name) for the names of the Go side's table *)
let cls_table = [
  "kql", (NKql, "kql"); "pos", (NPosition, "position"); "dadd", (NDateAdd, "date_add"); "dsub", (NDateSub, "DATE_SUB");
  "ddiff", (NDateDiff, "dateDiff"); "trim", (NTrim, "trimBoth"); "view", (NView, "view");
  "toint", (NToInterval, "toIntervalDay"); "plain", (NPlain, "f");
  "qa0", (NQuant (false, QEquals), "in"); "qa1", (NQuant (false, QNotEquals), "anyNotEquals");
  "qa2", (NQuant (false, QLess), "anyLess"); "qa3", (NQuant (false, QLessOrEquals), "anyLessOrEquals");
  "qa4", (NQuant (false, QGreater), "anyGreater"); "qa5", (NQuant (false, QGreaterOrEquals), "anyGreaterOrEquals");
  "qa6", (NQuant (false, QOtherOp), "anyLast");
  "ql0", (NQuant (true, QEquals), "allEquals"); "ql1", (NQuant (true, QNotEquals), "notIn");
  "ql2", (NQuant (true, QLess), "allLess"); "ql3", (NQuant (true, QLessOrEquals), "allLessOrEquals");
  "ql4", (NQuant (true, QGreater), "allGreater"); "ql5", (NQuant (true, QGreaterOrEquals), "allGreaterOrEquals");
  "ql6", (NQuant (true, QOtherOp), "allx");
]

(* extractFieldToFunction *)
let extract_fn = function
  | "YEAR" -> "toYear" | "DAY" -> "toDayOfMonth" | "EPOCH" -> "toEpoch"
  | s -> failwith ("extract_fn: no entry for " ^ s)

type tp = { toks : Stdlib.String.t array; mutable i : int }

let next p =
  if p.i >= Array.length p.toks then failwith "term ends early";
  let t = p.toks.(p.i) in
  p.i <- p.i + 1; t
let peek p =
  if p.i >= Array.length p.toks then failwith "term ends early";
  p.toks.(p.i)
let flag p = match next p with "0" -> false | "1" -> true | t -> failwith ("bad flag " ^ t)
let num p = int_of_string (next p)
let str p = match next p with "-" -> [] | t -> bytes t
let expect p t = let g = next p in if g <> t then failwith ("expected " ^ t ^ " got " ^ g)

let lit_type = function
  | "s" -> LString | "i" -> LInteger | "f" -> LFloat | "b" -> LBoolean | "n" -> LNull | "a" -> LArray | "t" -> LTuple
  | t -> failwith ("bad literal type " ^ t)

let query p = if flag p then Some select_q else None

let list_of p item =
  expect p "[";
  let rec go acc = if peek p = "]" then (ignore (next p); List.rev acc) else go (item p :: acc) in
  go []

let rec opt p = if peek p = "-" then (ignore (next p); None) else Some (expr p)

and replaces p = list_of p opt

and transformers p =
  list_of p (fun p ->
      expect p "tr";
      let ty = nat_of_int (num p) in
      let pat = flag p in
      let exc = names "x" (num p) in
      let reps = replaces p in
      (((ty, pat), exc), reps))

and expr p : expr =
  match next p with
  | "nil" -> ENil
  | "op" -> EOpaque (opaque (num p))
  | "id" -> let name = str p in let alias = str p in EIdent (name, alias)
  | "lit" ->
    let ty = lit_type (next p) in
    let paren = flag p in
    let big = flag p in
    let v = match next p with
      | "nil" -> VNil | "int" | "uint" -> VInt | "flt" -> VFloat | "bool" -> VBool | "oth" -> VOtherVal
      | s when String.length s > 4 && String.sub s 0 4 = "str:" ->
        VStr str_table.(int_of_string (String.sub s 4 (String.length s - 4)))
      | s -> failwith ("bad literal value " ^ s) in
    ELit (ty, paren, big, v, bytes "_")
  | "ll" ->
    let ty = lit_type (next p) in
    let paren = flag p in
    let es = list_of p expr in
    ELitList (ty, paren, es, bytes "_")
  | "un" ->
    let minus = flag p in
    let o = expr p in
    EUnary (minus, bytes (if minus then "negate" else "not"), o)
  | "bin" ->
    let op = match next p with
      | "cat" -> OpConcat | "and" -> OpAnd | "or" -> OpOr | "plus" -> OpOther (bytes "plus")
      | t -> failwith ("bad operator " ^ t) in
    let paren = flag p in
    let l = expr p in
    let r = expr p in
    EBin (op, paren, l, r)
  | "fn" ->
    let (cls, fn) = try List.assoc (next p) cls_table with Not_found -> failwith "bad function class" in
    let params = if peek p = "-" then (ignore (next p); None) else Some (list_of p expr) in
    let args = list_of p expr in
    let settings = flag p in
    let distinct = flag p in
    let filter = opt p in
    let over =
      if peek p = "-" then (ignore (next p); None)
      else begin
        expect p "ov";
        let name = str p in
        let part = list_of p expr in
        let nord = num p in
        let off = opt p in
        Some (((name, part), List.init nord (fun _ -> order_elem)), off)
      end in
    let alias = str p in
    let std = flag p in
    EFunc (cls, bytes fn, params, args, settings, distinct, filter, over, alias, std)
  | "lam" -> let k = num p in let body = expr p in ELambda (names "p" k, body)
  | "cast" ->
    let e = expr p in
    let te = opt p in
    let alias = str p in
    let ops = flag p in
    ECast (e, te, bytes "_", alias, ops, bytes "_")
  | "in" ->
    let e = expr p in
    let not_ = flag p in
    let glob = flag p in
    let items = list_of p expr in
    let q = query p in
    let tr = flag p in
    EIn (e, not_, glob, items, q, tr)
  | "tern" -> let c = expr p in let t = expr p in let e = expr p in ETernary (c, t, e)
  | "aacc" -> let a = expr p in let i = expr p in EArrayAccess (a, i)
  | "tacc" -> let a = expr p in let i = expr p in ETupleAccess (a, i)
  | "like" ->
    let e = expr p in
    let pat = expr p in
    let not_ = flag p in
    let ci = flag p in
    let alias = str p in
    ELike (e, pat, not_, ci, alias)
  | "btw" -> let e = expr p in let lo = expr p in let hi = expr p in let not_ = flag p in EBetween (e, lo, hi, not_)
  | "isnull" -> let e = expr p in let not_ = flag p in EIsNull (e, not_)
  | "case" ->
    let operand = opt p in
    let ws = list_of p expr in
    let rec pairs = function a :: b :: r -> (a, b) :: pairs r | _ -> [] in
    let els = opt p in
    let alias = str p in
    ECase (operand, pairs ws, els, alias)
  | "ivl" -> let v = expr p in let u = str p in EInterval (v, u)
  | "exists" -> EExists (query p)
  | "subq" -> let q = query p in let a = str p in ESubquery (q, a)
  | "extr" -> let f = next p in let from = expr p in let a = str p in EExtract (bytes (extract_fn f), from, a)
  | "param" -> let name = str p in let ty = flag p in EParam (name, if ty then Some (bytes "Int32") else None)
  | "ast" ->
    let table = str p in
    let exc = names "x" (num p) in
    let rep = replaces p in
    let app = nat_of_int (num p) in
    let trs = transformers p in
    EAsterisk (table, exc, rep, app, trs)
  | "cols" ->
    let qual = str p in
    let cs = list_of p expr in
    let exc = names "x" (num p) in
    let rep = replaces p in
    let app = nat_of_int (num p) in
    let trs = transformers p in
    EColumns (qual, cs, exc, rep, app, trs)
  | "al" -> let e = expr p in let a = str p in EAliased (e, a)
  | "with" -> let name = str p in let q = expr p in let sc = flag p in EWith (name, q, sc)
  | t -> failwith ("unknown tag " ^ t)

let hex_of_string s =
  if s = "" then "-"
  else begin
    let b = Buffer.create (2 * String.length s) in
    String.iter (fun c -> Buffer.add_string b (Printf.sprintf "%02x" (Char.code c))) s;
    Buffer.contents b
  end

(* "Literal <text>[ (alias a)]" -> "Literal _[ (alias a)]" *)
let lit_re = Str.regexp "^\\( *\\)Literal .*$"
let alias_re = Str.regexp "^.*\\( (alias [A-Za-z0-9_]*)\\)$"
let normalise text =
  let ls = String.split_on_char '\n' text in
  String.concat "\n"
    (List.map (fun l ->
         if Str.string_match lit_re l 0 then begin
           let ind = Str.matched_group 1 l in
           let al = if Str.string_match alias_re l 0 then Str.matched_group 1 l else "" in
           ind ^ "Literal _" ^ al
         end else l) ls)

let () =
  let as_text = Array.length Sys.argv > 1 && Sys.argv.(1) = "-text" in
  try
    while true do
      let line = input_line stdin in
      if line <> "" then begin
        let line = match String.rindex_opt line '\t' with
          | Some k -> String.sub line (k + 1) (String.length line - k - 1)      (* <kind> TAB <term> *)
          | None -> line in
        let p = { toks = Array.of_list (String.split_on_char ' ' line); i = 0 } in
        let e = expr p in
        if p.i <> Array.length p.toks then failwith ("trailing tokens in " ^ line);
        let ls = enode norm_unit O e in
        let text = normalise (string_of_bytes (print_lines ls)) in
        if ls = [] then print_string "NOSUBTREE\tM\n"
        else
          Printf.printf "%d\t%d\t%s\t%s\tM\n"
            (int_of_nat (header_count ls)) (int_of_nat (direct_children ls))
            (if as_text then hex_of_string text else Digest.to_hex (Digest.string text))
            (if check_lines ls then "T" else "F")
      end
    done
  with End_of_file -> ()
