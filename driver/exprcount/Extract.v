(* Extraction of the expression printers' count-vs-emit model (C04 part E) for the correspondence driver.
   Run inside this directory:  coqc -Q /verif/coq DC Extract.v   (writes exprcount_ex.ml / .mli) *)
Require Extraction.
Require Import ExtrOcamlBasic.
From DC Require Import Tree.LineTree Select.SelectExplainModel Ddl.DdlExplainModel ExprEx.ExprExplainModel.

Extraction "exprcount_ex.ml" enode header_count direct_children print_lines check_lines.
