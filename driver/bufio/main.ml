(* Model side of the bufio correspondence check: same line protocol as
   /verif/harness/cmd/bufioops/main.go, answers computed by the extracted BufioModel.

   stdin : "<script>\t<ops>" per line   (see the Go file for the syntax)
   stdout: "<op results joined by ,>\ttracked=<code or ->\treads=<count>:<checksum>"
   A model loop running out of fuel prints "DIVERGED" in place of the line. *)
open Bufio_ex

let rec pos_of_int n =
  if n = 1 then XH
  else if n land 1 = 1 then XI (pos_of_int (n lsr 1))
  else XO (pos_of_int (n lsr 1))
let n_of_int n = if n = 0 then N0 else Npos (pos_of_int n)
let rec int_of_pos = function
  | XH -> 1
  | XO p -> 2 * int_of_pos p
  | XI p -> 2 * int_of_pos p + 1
let int_of_n = function N0 -> 0 | Npos p -> int_of_pos p
let nat_of_int n =
  let rec go acc k = if k = 0 then acc else go (S acc) (k - 1) in
  go O n
let int_of_nat n =
  let rec go acc = function O -> acc | S m -> go (acc + 1) m in
  go 0 n

let bytes_of_hex s =
  if s = "-" || s = "" then []
  else begin
    let len = String.length s in
    if len mod 2 <> 0 then failwith "odd hex";
    let rec go i acc =
      if i < 0 then acc
      else go (i - 2) (n_of_int (int_of_string ("0x" ^ String.sub s i 2)) :: acc)
    in
    go (len - 2) []
  end

let hex_of_bytes l =
  match l with
  | [] -> "-"
  | _ ->
    let b = Buffer.create 64 in
    List.iter (fun x -> Buffer.add_string b (Printf.sprintf "%02x" (int_of_n x))) l;
    Buffer.contents b

let parse_chunk f =
  if f = "" then failwith "empty chunk";
  let rest = String.sub f 1 (String.length f - 1) in
  match f.[0] with
  | 'd' -> Data (bytes_of_hex rest)
  | 'e' -> Err (n_of_int (int_of_string rest))
  | 'x' ->
    let i = String.index rest ':' in
    DataErr (bytes_of_hex (String.sub rest 0 i),
             n_of_int (int_of_string (String.sub rest (i + 1) (String.length rest - i - 1))))
  | _ -> failwith ("bad chunk " ^ f)

let parse_script s =
  if s = "-" || s = "" then [] else List.map parse_chunk (String.split_on_char ',' s)

let err_class = function
  | None -> "-"
  | Some (GE c) -> let c = int_of_n c in if c = 0 then "eof" else "e" ^ string_of_int c
  | Some GNoProgress -> "noprogress"
  | Some GBufferFull -> "full"

let sum_mod = 1000000007

let checksum (log : rentry list) =
  (* log is most recent first *)
  List.fold_left
    (fun h e ->
       let ev = match e.re_err with None -> 0 | Some c -> (int_of_n c) mod 1000000 + 1 in
       (h * 1000003 + int_of_n e.re_free * 131 + int_of_n e.re_n * 7 + ev) mod sum_mod)
    0 (List.rev log)

let run_case line =
  match String.split_on_char '\t' line with
  | [s; ops] ->
    let st = ref (bufio_init (parse_script s)) in
    let b = Buffer.create 256 in
    let first = ref true in
    if ops <> "-" && ops <> "" then
      List.iter
        (fun o ->
           if not !first then Buffer.add_char b ',';
           first := false;
           if o = "r" then begin
             let (((r, sz), e), st') = bufio_read_rune_full !st in
             st := st';
             Buffer.add_string b
               (Printf.sprintf "r:%d:%d:%s" (int_of_n r) (int_of_nat sz) (err_class e))
           end else if String.length o >= 2 && o.[0] = 'p' then begin
             let n = int_of_string (String.sub o 1 (String.length o - 1)) in
             let ((bs, e), st') = bufio_peek_full (nat_of_int n) !st in
             st := st';
             Buffer.add_string b (Printf.sprintf "p:%s:%s" (hex_of_bytes bs) (err_class e))
           end else failwith ("bad op " ^ o))
        (String.split_on_char ',' ops);
    if !first then Buffer.add_char b '-';
    if diverged !st then "DIVERGED"
    else begin
      Buffer.add_string b "\ttracked=";
      (match tracked_err !st with
       | None -> Buffer.add_char b '-'
       | Some c -> Buffer.add_string b (string_of_int (int_of_n c)));
      let log = rlog !st in
      Buffer.add_string b (Printf.sprintf "\treads=%d:%d" (List.length log) (checksum log));
      Buffer.contents b
    end
  | l -> failwith (Printf.sprintf "want 2 tab-separated fields, got %d" (List.length l))

let () =
  let line_no = ref 0 in
  try
    while true do
      let line = input_line stdin in
      incr line_no;
      let line =
        if String.length line > 0 && line.[String.length line - 1] = '\r'
        then String.sub line 0 (String.length line - 1) else line in
      (try print_endline (run_case line)
       with Failure m -> Printf.printf "ERROR line %d: %s\n" !line_no m)
    done
  with End_of_file -> ()
