(* Extraction of the bufio model for the correspondence driver.
   Run inside this directory:  coqc -Q /verif/coq DC Extract.v   (writes bufio_ex.ml / bufio_ex.mli) *)
Require Extraction.
Require Import ExtrOcamlBasic.
From DC Require Import Stream.BufioModel.

Extraction "bufio_ex.ml" bufio_init bufio_peek_full bufio_read_rune_full tracked_err rlog diverged.
