(* C08 driver: extraction of the expression model and of the independent spec.
   Run inside this directory:  coqc -Q /verif/coq DC Extract.v   (writes expr_ex.ml / expr_ex.mli) *)
From DC Require Import Base.Item Expr.ExprTree Expr.ExprModel Expr.ExprSpec.
Require Extraction.
Require Import ExtrOcamlBasic.
Extraction "expr_ex.ml"
  ExprModel.parse_model ExprModel.explain_model ExprTree.rose_lines ExprTree.digits_val
  ExprSpec.print ExprSpec.ref ExprSpec.wfb ExprSpec.wfxb ExprSpec.follow_okb.
