(* C08 driver.  Line protocol (CONVENTIONS.md): fields separated by TAB, byte strings in lowercase
   hex, "-" for empty.

   expr_driver model
     stdin : <hex e> TAB <tok>:<hex value>,<tok>:<hex value>,...      (output of `exprdump -tokens`)
     stdout: <hex e> TAB <hex of the EXPLAIN lines of the model>  |  OOF:<reason>  |  FUEL
             (the tokens come from the real lexer; no hand-written tokenizer is involved)

   expr_driver spec
     stdin : a surface tree in prefix notation, words separated by one space:
               i<name>  n<decimal>  (  NOT x  not x  NOTC x  notc x  ~ x  b<op> l r
             with <op> one of OR or AND and = == != <> < <= > >= <=> || + - * / % DIV div MOD mod
     stdout: <hex of the source text: the values of ExprSpec.print e joined by single spaces>
             TAB <hex of the lines of ExprSpec.ref e>
             TAB L (ExprSpec.wfb e = true: a reading of the layered grammar)
               | X (only ExprSpec.wfxb e = true: a precedence-climb reading outside the layered grammar)
             |  NOTWF (ExprSpec.wfxb e = false)  | BAD *)
open Expr_ex

let rec pos_of_int i =
  if i = 1 then XH
  else if i land 1 = 0 then XO (pos_of_int (i lsr 1))
  else XI (pos_of_int (i lsr 1))
let n_of_int i = if i = 0 then N0 else Npos (pos_of_int i)
let rec int_of_pos = function XH -> 1 | XO p -> 2 * int_of_pos p | XI p -> 2 * int_of_pos p + 1
let int_of_n = function N0 -> 0 | Npos p -> int_of_pos p
let int_of_nat n = let rec go acc = function O -> acc | S m -> go (acc + 1) m in go 0 n

let bytes_of_string s = List.init (String.length s) (fun i -> n_of_int (Char.code s.[i]))
let string_of_bytes l =
  let b = Buffer.create 16 in
  List.iter (fun c -> Buffer.add_char b (Char.chr (int_of_n c land 255))) l;
  Buffer.contents b

let hexdigits = "0123456789abcdef"
let hex_of_string s =
  if s = "" then "-"
  else begin
    let n = String.length s in
    let b = Bytes.create (2 * n) in
    for i = 0 to n - 1 do
      let c = Char.code (String.unsafe_get s i) in
      Bytes.unsafe_set b (2 * i) hexdigits.[c lsr 4];
      Bytes.unsafe_set b (2 * i + 1) hexdigits.[c land 15]
    done;
    Bytes.unsafe_to_string b
  end
let nibble c =
  match c with
  | '0' .. '9' -> Char.code c - 48
  | 'a' .. 'f' -> Char.code c - 87
  | 'A' .. 'F' -> Char.code c - 55
  | _ -> failwith "bad hex"
let string_of_hex h =
  if h = "-" then ""
  else String.init (String.length h / 2) (fun i -> Char.chr (16 * nibble h.[2 * i] + nibble h.[2 * i + 1]))

let text_of_rose t =
  let b = Buffer.create 256 in
  List.iter (fun (d, l) ->
      Buffer.add_string b (String.make (int_of_nat d) ' ');
      Buffer.add_string b (string_of_bytes l);
      Buffer.add_char b '\n')
    (rose_lines O t);
  Buffer.contents b

let oof_name = function
  | OofPrefixToken -> "prefix-token" | OofInfixToken -> "infix-token" | OofNotInfix -> "not-infix"
  | OofAnyAll -> "any-all" | OofFunctionCall -> "function-call" | OofQualified -> "qualified"
  | OofTypedLiteral -> "typed-literal" | OofIdentChars -> "ident-chars"
  | OofNumberFormat -> "number-format" | OofNumberRange -> "number-range"
  | OofMinusInf -> "minus-inf" | OofMinusCast -> "minus-cast" | OofEmptyTuple -> "empty-tuple"
  | OofSubquery -> "subquery" | OofTuple -> "tuple" | OofMissingRParen -> "missing-rparen"
  | OofNegFloat -> "neg-float" | OofTrailing -> "trailing"

let zero_pos = { p_off = N0; p_line = N0; p_col = N0 }

let item_of_field f =
  match String.index_opt f ':' with
  | None -> failwith "bad token field"
  | Some i ->
    let t = int_of_string (String.sub f 0 i) in
    let v = string_of_hex (String.sub f (i + 1) (String.length f - i - 1)) in
    { it_tok = n_of_int t; it_val = bytes_of_string v; it_pos = zero_pos; it_quoted = false }

let run_model line =
  match String.split_on_char '\t' line with
  | [h; toks] ->
    let items = if toks = "-" then [] else List.map item_of_field (String.split_on_char ',' toks) in
    let r =
      match explain_model (parse_model items) with
      | Ok (t, []) -> hex_of_string (text_of_rose t)
      | Ok (_, _ :: _) -> "OOF:" ^ oof_name OofTrailing
      | OutOfFragment r -> "OOF:" ^ oof_name r
      | OutOfFuel -> "FUEL" in
    h ^ "\t" ^ r
  | _ -> "BAD"

(* ---- spec mode ---- *)
exception Bad

let binop_of = function
  | "OR" -> OOr false | "or" -> OOr true | "AND" -> OAnd false | "and" -> OAnd true
  | "=" -> OEq | "==" -> OEq2 | "!=" -> ONe | "<>" -> ONe2 | "<" -> OLt | "<=" -> OLe
  | ">" -> OGt | ">=" -> OGe | "<=>" -> ONse | "||" -> OConcat | "+" -> OPlus | "-" -> OMinus
  | "*" -> OMul | "/" -> ODiv | "%" -> OPct | "DIV" -> OIntDiv false | "div" -> OIntDiv true
  | "MOD" -> OMod false | "mod" -> OMod true
  | _ -> raise Bad

let rec parse_tree = function
  | [] -> raise Bad
  | w :: ws ->
    if w = "(" then let (e, r) = parse_tree ws in (Paren e, r)
    else if w = "NOT" then let (e, r) = parse_tree ws in (Not (false, e), r)
    else if w = "not" then let (e, r) = parse_tree ws in (Not (true, e), r)
    else if w = "NOTC" then let (e, r) = parse_tree ws in (NotCall (false, e), r)
    else if w = "notc" then let (e, r) = parse_tree ws in (NotCall (true, e), r)
    else if w = "~" then let (e, r) = parse_tree ws in (Neg e, r)
    else if String.length w >= 1 && w.[0] = 'i' then
      (Id (bytes_of_string (String.sub w 1 (String.length w - 1))), ws)
    else if String.length w >= 2 && w.[0] = 'n' then
      (Num (digits_val (bytes_of_string (String.sub w 1 (String.length w - 1)))), ws)
    else if String.length w >= 2 && w.[0] = 'b' then begin
      let op = binop_of (String.sub w 1 (String.length w - 1)) in
      let (l, r1) = parse_tree ws in
      let (r, r2) = parse_tree r1 in
      (Bin (op, l, r), r2)
    end else raise Bad

let run_spec line =
  try
    match parse_tree (String.split_on_char ' ' line) with
    | (e, []) ->
      if not (wfxb e) then (if wfb e then "BAD" else "NOTWF")
      else begin
        let src = String.concat " " (List.map (fun it -> string_of_bytes it.it_val) (print e)) in
        hex_of_string src ^ "\t" ^ hex_of_string (text_of_rose (ref e)) ^ "\t" ^ (if wfb e then "L" else "X")
      end
    | _ -> "BAD"
  with Bad | Failure _ | Invalid_argument _ -> "BAD"

let () =
  let mode = if Array.length Sys.argv > 1 then Sys.argv.(1) else "model" in
  let f = match mode with "model" -> run_model | "spec" -> run_spec | _ -> failwith "mode: model | spec" in
  let out = Buffer.create 65536 in
  (try
     while true do
       let line = input_line stdin in
       let line = if String.length line > 0 && line.[String.length line - 1] = '\r'
         then String.sub line 0 (String.length line - 1) else line in
       if line <> "" then begin
         Buffer.add_string out (try f line with Failure _ | Invalid_argument _ -> "BAD");
         Buffer.add_char out '\n';
         if Buffer.length out > 60000 then begin print_string (Buffer.contents out); Buffer.clear out end
       end
     done
   with End_of_file -> ());
  print_string (Buffer.contents out)
