(* C18 driver.  stdin: one case per line
     <hex T> TAB <tokens of T: kind:hexvalue,...> [TAB <tree>]
   (the first two fields are columns 1 and 4 of /verif/build/typedump's output; the tree is the generator's).
   stdout:
     <hex T> TAB <model CAST form> TAB <model :: form> TAB <spec>
   model form : hex of the text after "Literal " | ERR | OOF:<reason> | FUEL
   spec       : "-" when no tree was given, else  <hex of shown t>;wf=<0|1>;toks=<0|1>
                (wf = wf_ty, toks = the lexer's tokens equal print_ty t) *)
open Types_ex

let rec pos_of_int (i : int) : positive =
  if i = 1 then XH else if i land 1 = 0 then XO (pos_of_int (i lsr 1)) else XI (pos_of_int (i lsr 1))
let n_of_int (i : int) : n = if i = 0 then N0 else Npos (pos_of_int i)
let rec int_of_pos (p : positive) : int =
  match p with XH -> 1 | XO q -> 2 * int_of_pos q | XI q -> 2 * int_of_pos q + 1
let int_of_n (x : n) : int = match x with N0 -> 0 | Npos p -> int_of_pos p

let bytes_of_string (s : string) : n list =
  List.init (String.length s) (fun i -> n_of_int (Char.code s.[i]))
let string_of_bytes (l : n list) : string =
  let b = Buffer.create 64 in
  List.iter (fun x -> Buffer.add_char b (Char.chr (int_of_n x land 255))) l;
  Buffer.contents b

let hexdigit c =
  match c with
  | '0' .. '9' -> Char.code c - 48
  | 'a' .. 'f' -> Char.code c - 87
  | 'A' .. 'F' -> Char.code c - 55
  | _ -> failwith "bad hex"
let unhex (s : string) : string =
  if s = "-" then ""
  else begin
    let n = String.length s / 2 in
    String.init n (fun i -> Char.chr (hexdigit s.[2 * i] * 16 + hexdigit s.[2 * i + 1]))
  end
let hex (s : string) : string =
  if s = "" then "-"
  else begin
    let b = Buffer.create (2 * String.length s) in
    String.iter (fun c -> Buffer.add_string b (Printf.sprintf "%02x" (Char.code c))) s;
    Buffer.contents b
  end

let parse_tokens (s : string) : (n * n list) list =
  if s = "" || s = "-" then []
  else
    List.map
      (fun f ->
        match String.index_opt f ':' with
        | None -> failwith "bad token field"
        | Some i ->
            let k = int_of_string (String.sub f 0 i) in
            let v = unhex (String.sub f (i + 1) (String.length f - i - 1)) in
            (n_of_int k, bytes_of_string v))
      (String.split_on_char ',' s)

let oof_name (r : oof) : string =
  match r with
  | OofNonAsciiName -> "non-ascii-name"
  | OofObjectType -> "object-type"
  | OofExprToken -> "expr-token"
  | OofExprOperator -> "expr-operator"
  | OofNumberFormat -> "number-format"
  | OofNumberRange -> "number-range"
  | OofMinusOperand -> "minus-operand"
  | OofAnyAll -> "any-all"
  | OofBinaryLeft -> "binary-left"
  | OofBinaryRight -> "binary-right"
  | OofFunctionCall -> "function-call"
  | OofQualified -> "qualified"
  | OofTypedLiteral -> "typed-literal"
  | OofKeywordExpr -> "keyword-expr"
  | OofCastAlias -> "cast-alias"
  | OofCastForm -> "cast-form"
  | OofTrailing -> "trailing"

let show (r : n list res) : string =
  match r with
  | Ok l -> hex (string_of_bytes l)
  | ParseErr -> "ERR"
  | OOF r -> "OOF:" ^ oof_name r
  | OutOfFuel -> "FUEL"

(* tree: prefix notation, fields separated by single spaces
   ty  ::= N <hex> | A <hex> <k> arg^k
   arg ::= t ty | n <hex> ty | u <dec> | m <dec> | s <hex> | e <hex> <0|1> <dec> *)
let num_of_dec (s : string) : n =
  match parse_dec (bytes_of_string s) with Some x -> x | None -> failwith "bad decimal"

let parse_tree (s : string) : ty =
  let fs = ref (List.filter (fun x -> x <> "") (String.split_on_char ' ' s)) in
  let next () = match !fs with [] -> failwith "tree: eof" | x :: r -> fs := r; x in
  let rec pty () : ty =
    match next () with
    | "N" -> TName (bytes_of_string (unhex (next ())))
    | "A" ->
        let s = bytes_of_string (unhex (next ())) in
        let k = int_of_string (next ()) in
        let rec go i acc = if i = 0 then List.rev acc else let a = parg () in go (i - 1) (a :: acc) in
        TApp (s, go k [])
    | x -> failwith ("tree: bad ty tag " ^ x)
  and parg () : arg =
    match next () with
    | "t" -> AType (pty ())
    | "n" -> let s = bytes_of_string (unhex (next ())) in let t = pty () in ANamed (s, t)
    | "u" -> ANum (num_of_dec (next ()))
    | "m" -> ANeg (num_of_dec (next ()))
    | "s" -> AStr (bytes_of_string (unhex (next ())))
    | "e" ->
        let s = bytes_of_string (unhex (next ())) in
        let neg = next () = "1" in
        let x = num_of_dec (next ()) in
        AEnum (s, neg, x)
    | x -> failwith ("tree: bad arg tag " ^ x)
  in
  let t = pty () in
  if !fs <> [] then failwith "tree: trailing fields";
  t

let b01 b = if b then "1" else "0"

let () =
  try
    while true do
      let line = input_line stdin in
      if line <> "" then begin
        match String.split_on_char '\t' line with
        | h :: toks :: rest ->
            let ts = parse_tokens toks in
            let a = show (run_cast_as ts) in
            let b = show (run_cast_op ts) in
            let spec =
              match rest with
              | tree :: _ when tree <> "" && tree <> "-" ->
                  let t = parse_tree tree in
                  let lexed = drop_eof (strip_trivia ts) in
                  Printf.sprintf "%s;wf=%s;toks=%s"
                    (hex (string_of_bytes (shown t)))
                    (b01 (wf_ty t)) (b01 (lexed = print_ty t))
              | _ -> "-"
            in
            Printf.printf "%s\t%s\t%s\t%s\n" h a b spec
        | _ -> Printf.printf "%s\tBADLINE\tBADLINE\t-\n" line
      end
    done
  with End_of_file -> ()
