(* C18 driver extraction: run with `coqc -Q /verif/coq DC Extract.v` inside /verif/driver/types. *)
Require Extraction.
Require Import ExtrOcamlBasic.
From DC Require Import Expr.TypeBase Expr.TypeSpec Expr.TypeModel.
Extraction "types_ex.ml"
  run_cast_as run_cast_op shown canon_ty print_ty wf_ty strip_trivia drop_eof parse_dec.
