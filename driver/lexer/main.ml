(* Reads hex-encoded inputs (one per line, "-" = empty), prints the model's token list:
   tok:valhex:off:line:col:q  separated by spaces, or NONE when the model runs out of fuel. *)
open Lexer_ex

let rec pos_of_int n = if n = 1 then XH else if n land 1 = 0 then XO (pos_of_int (n lsr 1)) else XI (pos_of_int (n lsr 1))
let n_of_int n = if n = 0 then N0 else Npos (pos_of_int n)
let rec int_of_pos = function XH -> 1 | XO p -> 2 * int_of_pos p | XI p -> 2 * int_of_pos p + 1
let int_of_n = function N0 -> 0 | Npos p -> int_of_pos p

let unhex s =
  if s = "-" then [] else
  let n = String.length s / 2 in
  let rec go i acc = if i < 0 then acc else go (i - 1) (n_of_int (int_of_string ("0x" ^ String.sub s (2 * i) 2)) :: acc) in
  go (n - 1) []

let hex l =
  if l = [] then "-" else begin
    let b = Buffer.create 16 in
    List.iter (fun x -> Buffer.add_string b (Printf.sprintf "%02x" (int_of_n x))) l;
    Buffer.contents b
  end

let () =
  try
    while true do
      let line = input_line stdin in
      (match tokenize (unhex line) with
       | None -> print_string "NONE"
       | Some items ->
         let first = ref true in
         List.iter (fun it ->
           if not !first then print_char ' ';
           first := false;
           Printf.printf "%d:%s:%d:%d:%d:%d" (int_of_n it.it_tok) (hex it.it_val)
             (int_of_n it.it_pos.p_off) (int_of_n it.it_pos.p_line) (int_of_n it.it_pos.p_col)
             (if it.it_quoted then 1 else 0)) items);
      print_newline ()
    done
  with End_of_file -> ()
