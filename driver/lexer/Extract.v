(* Extraction of the lexer model for the correspondence driver. ExtrOcamlBasic only. *)
Require Extraction.
Require Import ExtrOcamlBasic.
From DC Require Import Base.Item Lexer.LexerModel.
Extraction "lexer_ex.ml" tokenize.
