#!/usr/bin/env python3
"""Regenerates /verif/MANIFEST.json from the table below (kept in one place so that it stays valid)."""
import json

CLAIMED = {
    "C12": dict(
        technique="Coq proof (induction over fuel/measure) on a hand-written model of lexer.go + extraction correspondence",
        text="Machine-checked theorem C12_lexer_total over a Gallina transcription of the whole of lexer/lexer.go: for every byte list the model terminates (no fuel exhaustion, no partial operation), returns exactly one EOF and it is last, at most len+1 tokens, and NextToken stays at EOF. The model is tied to the code on every run by running lexer.Tokenize and the OCaml extraction of the model on the same inputs (exhaustive short strings over a 40-byte alphabet, random, corpus, one large input per scanner) and comparing kind, value, offset, line, column and quoted flag of every token.",
        design_ref="DESIGN.md §4 C12",
        note="Trusted: Coq kernel + vm_compute; the hand-written model (validated by correspondence, not derived); extraction (ExtrOcamlBasic) and the OCaml/Go harness glue; the generated Unicode/token tables. No axioms (Print Assumptions: closed under the global context)."),
}

NOT_YET = {
}

ALL = ["C%02d" % i for i in range(1, 19)]


def main():
    checks = []
    for pid in ALL:
        if pid not in CLAIMED:
            continue
        c = CLAIMED[pid]
        checks.append({
            "property_id": pid,
            "quick_cmd": "bin/check %s --tier quick" % pid,
            "thorough_cmd": "bin/check %s --tier thorough" % pid,
            "evidence_file": "/verif/evidence/%s.json" % pid,
            "replay_cmd_template": "bin/check replay {path}",
            "engine": "coq",
            "level_claimed": {"category": "proof", "text": c["text"], "design_ref": c["design_ref"]},
            "level_note": c["note"],
            "technique": c["technique"],
        })
    na = []
    for pid in ALL:
        if pid not in CLAIMED:
            na.append({"property_id": pid, "reason": NOT_YET.get(pid, "check not built yet in this round (planned, see DESIGN.md §4); not claimed until its theorem and tie run")})
    m = {
        "version": 1,
        "setup_cmd": "bin/setup",
        "hooks": {
            "guard": "verif",
            "enable": "go build -tags verif (harness modules replace github.com/sqlc-dev/doubleclick => /repo)",
            "baseline_off_cmd": "cd /repo && GOFLAGS=-mod=mod GOPROXY=off go test -vet=off -count=1 -timeout 25m ./...",
            "source_commits": ["1397d28ae"],
            "add_only": True,
        },
        "engines": [
            {"name": "coq", "path": "/verif/coq", "serves_properties": sorted(CLAIMED),
             "kind_free_text": "Coq 8.16.1 development (hand-written models + models generated from /repo by /verif/translator), theorems in coq/Properties, tied to the code by extraction-based correspondence (/verif/driver, /verif/harness) and by regeneration"},
        ],
        "checks": checks,
        "not_applicable": na,
        "notes": "Every check: regenerate coq/Gen from /repo, make the property's .vo files (full build), Print Assumptions, correspondence of model and implementation on generated inputs, implementation-side search with the property's own oracle. See DESIGN.md.",
    }
    json.dump(m, open("/verif/MANIFEST.json", "w"), indent=1)


if __name__ == "__main__":
    main()
