#!/usr/bin/env python3
"""Regenerates /verif/MANIFEST.json from the table below (kept in one place so that it stays valid)."""
import json

CLAIMED = {
    "C01": dict(
        technique="Coq: verified local checker for an untrusted nil-safety certificate over control-flow graphs of the whole parser regenerated from source; totality of the lexer model (C01_lexer) tied to lexer.go by the extraction correspondence re-run in this check; Panic-free executable model of the SELECT core; search under recover",
        text="C01: lexer — C01_lexer_returns_normally: the model of the whole of lexer.go returns a token list for every byte string (no partial operation, no fuel exhaustion), compared with lexer.Tokenize on every run (a Go panic is reported with its input); parser, whole package — C01_nil_no_crash: in a nondeterministic semantics where every producer not certified never-nil may return nil, no run of the graphs regenerated from /repo/parser reaches a dereference of nil outside 5 reviewed sites (the certificate is untrusted and checked locally in the kernel), every index expression is guarded or reviewed (7), no unchecked type assertion, no explicit panic, no non-constant division; SELECT core — the executable model with explicit Panic outcomes never reaches one for any token list. Re-introducing any of the fixed nil dereferences, an unguarded index or assertion breaks an obligation and names the site. Search: corpus, mutants, short token sequences, token prefixes, nesting probes under recover.",
        design_ref="DESIGN.md §4 C01",
        note="Trusted: nilgen's translation rules (over-approximation of nil-relevant data flow); 13 reviewed sites weaken the theorem (listed in checks/c01_reviewed_sites.json and the evidence); stack exhaustion (fatal error) is outside the model."),
    "C03": dict(
        technique="Coq: same certificate in its 'no error recorded' reading (typed-nil stores into interface cells are Bad), AST-schema theorem for json.Marshal, SELECT-core model; reflection/Marshal/Explain search on accepted inputs",
        text="C03: over the graphs regenerated from /repo/parser in the reading where recording a parse error halts the run: no typed-nil pointer is ever stored into an interface-typed cell (every pointer-to-interface conversion has a certainly non-nil operand, is return-declared and normalised by parseStatement, or is reviewed), ParseStatements appends only usable statements, and the AST schema admits no type on which json.Marshal fails other than cycles / non-finite floats; for the SELECT core no-error implies a well-formed statement whose printer model yields non-empty well-formed text. Search: every accepted input (corpus, mutants, token sequences) is walked by reflection, marshalled and explained.",
        design_ref="DESIGN.md §4 C03",
        note="Trusted: nilgen translation; printers outside the SELECT-core model are covered by the search only (partial)."),
    "C02": dict(
        technique="Coq: verified local checker for an untrusted potential certificate over the control-flow skeleton of the whole parser, regenerated from source on every run; obligation discharged by vm_compute; lexer premise (reaches EOF, at most one token per byte) by the totality theorem of the lexer model + extraction correspondence",
        text="C02_lexer_reaches_eof_in_linear_tokens: for every byte string the lexer model returns at most len+1 tokens ending in a sticky EOF (tied to lexer.go by the correspondence run; a lexer that never reaches EOF is reported with its input). Theorem C02_parser_steps_linear: every run of the control-flow skeleton of the whole parser package (168 functions, regenerated from /repo/parser by a Go translator on every run), for every token list and every resolution of its data-dependent branches, halts within E_main + B*tokens steps. Proved once (Skel/SkelSound.v) for any skeleton accepted by the boolean checker; the per-run obligation check_prog skeleton = true is computed in the kernel, so deleting a break arm, removing a progress guard or adding a non-consuming loop breaks the build of Properties/C02.v and names the loop. The real step counter (verif hook) is compared with the proved bound on corpus, mutants, exhaustive short token sequences and nesting probes.",
        design_ref="DESIGN.md §4 C02",
        note="Trusted: Coq kernel + vm_compute; the translator's over-approximation argument (the certificate itself is untrusted); sticky EOF of the lexer (C12). Memory bound argued, not proved."),
    "C04": dict(
        technique="Coq: verified decision procedure for EXPLAIN tree well-formedness (sound+complete) + proofs of count = emitted children on models of the SELECT printers of the DDL printers (Column, Index, CreateQuery with its Columns/Storage sub-tallies, AlterCommand, AlterQuery, projections, statistics), of the remaining statement printers and of the expression/function printers + line-break freedom of literal and type lines (C04_lines); extraction-based correspondence on ASTs built directly and oracle run on corpus + grammar statements",
        text="C04_tree: check_text accepts exactly the texts that are one rooted tree in EXPLAIN AST layout with correct (children N), no Go artefacts and ClickHouse node kinds (sound and complete w.r.t. rendering of rose trees). C04_select: for the SelectQuery, SelectWithUnionQuery (every union tail), inherited-WITH and intersect printers — transcribed with the count code and the emit code kept separate as in Go — the header count equals the number of emitted children for every field combination (iff the parser-established LIMIT BY invariant for SelectQuery), hence the output is a tree. Tied by Go-vs-extracted-model comparison on ASTs built directly (exhaustive 2^16/2^13 field combinations) and by running the extracted verified checker on the real EXPLAIN of every corpus statement.",
        design_ref="DESIGN.md §4 C04",
        note="C04_ddl: for Column/Index/projection/Columns-definition/Storage-definition/dictionary/AlterQuery the header count equals the emitted children unconditionally; for AlterCommand and CreateQuery it is an equivalence with an explicit condition (inv_alter_count / inv_create) that excludes only field combinations the parser cannot produce or accepts only for invalid ClickHouse. C04_stmt: the same for the remaining statement printers (INSERT, DROP, RENAME, EXCHANGE, TRUNCATE, OPTIMIZE, DELETE, CHECK, USE, DESCRIBE, EXISTS, SHOW, SYSTEM, EXPLAIN, ATTACH/DETACH, BACKUP/RESTORE, KILL, CREATE INDEX, UPDATE, PARALLEL WITH, the one-line access-control statements), dictionary.go and tables.go: 151 theorems, unconditional for 22 printers, equivalences with explicit inv_* conditions for the rest (the excluded combinations are unreachable from the parser or accepted only for invalid ClickHouse; witnesses are proved as *_refuted lemmas and listed in the evidence). C04_expr: the expression and function printers (expressions.go, functions.go: 76 per-printer theorems over abstract children, IN / function / asterisk / COLUMNS families, the aliased-vs-plain relations with their *_drift_refuted witnesses, and C04_expr_is_tree / C04_expr_check_lines / C04_expr_header_eq_direct_children over the whole expression AST under inv_expr; 131 theorems), tied by the exprcount Go-vs-extracted-model comparison over per-kind products of element classes. C04_lines (47 theorems over the literal and type models of C09 / C18, tied here by their model-vs-code runs): the text of a literal line contains none of the bytes 0, 8, 9, 10, 12, 13 for every token list (numbers use a fixed alphabet), a type line contains no line break exactly when no raw name of the type does (equivalence; well-formed types and token lists without such a quoted identifier: unconditionally), with *_refuted witnesses for the false general statements (negated string elements inside FormatLiteral, masked by explainLiteral; `Tuple(`a<LF>b` UInt8)`; control bytes 1-7, 11, 14-31 are copied). Partial: names and aliases are copied unescaped (the property excludes names with line breaks); data types beneath columns are covered only by the verified oracle applied to real output. Trusted: hand-written printer model (validated by correspondence), extraction, node-kind generator."),
    "C05": dict(
        technique="Coq proofs on the lexer model (separator invisibility, follow-independence, keyword case, position blindness) + abstract-machine indistinguishability theorem instantiated by a generated inventory of position/raw-value reads; metamorphic re-layout run",
        text="C05: over the lexer model, replacing/inserting/removing separators (all whitespace runes, --/# comments, nested block comments) at a token boundary leaves the comment-free token kinds and values unchanged, keyword case never changes a token kind, and the lexer is blind to positions; over parser and printer, the inventory regenerated from /repo shows positions are only copied into nodes, printed in error messages, compared in progress guards or used for the spacing detection inside ::-operand literals (the stated exception), and no raw token value is compared case-sensitively with a keyword-like constant — so by the abstract-machine theorem sig-equal token lists are indistinguishable; semicolon clauses by the driver theorems. Every corpus statement is re-laid-out K times on the implementation and EXPLAIN compared.",
        design_ref="DESIGN.md §4 C05",
        note="C05_fragment_*: for the SELECT-core model the parser+printer half is proved directly (no inventory): token lists that agree up to positions and the letter case of keyword-kind tokens give related parses, and equal EXPLAIN text when the keywords used as NAMES are spelled alike (or none is used as a name); composed with the lexer theorems to source texts (C05_fragment_layout, _layout_case). Outside the fragment the parser half rests on the generated inventory. Partial: the unconditional lexer theorems cover identifiers/keywords, integers/decimals, simple quoted tokens and operators (other classes only under a lexer-computed boundary condition); EOF-position caveat (pos_inj hypothesis). Trusted: posreadgen's soundness claim."),
    "C06": dict(
        technique="Coq induction on the ParseStatements model over scripts with arbitrary semicolon placement + simulation proof of delimiter-respect for the SELECT-core parser model + lexer theorems for ';' inside strings and comments + generated inventory of the Parser struct; joined-vs-individual harness; lexer and SELECT-core correspondences",
        text="C06: the driver model maps s1;...;sn (any extra/leading/trailing/doubled semicolons) to the per-statement results in order, threading nothing but remaining tokens and errors; for every byte string v the quoted spelling of v lexes to one STRING token (so a ';' inside never splits), and a separator of whitespace and complete comments (any bodies) is invisible to the token stream. Scripts of corpus/synthetic statements are compared statement by statement with the parts parsed alone.",
        design_ref="DESIGN.md §4 C06",
        note="Also: after-error independence (48 vetted broken prefixes followed by ';' and valid statements) and scripts beyond 1 MiB (thorough: 4 / 16 MiB). Delimiter-respect (followed by end of input or a semicolon the statement parser consumes exactly the statement and returns what it returns on it alone) is PROVED for the SELECT-core model (C06_fragment_*: forward simulation over every parse function of the fragment; the one EOF/semicolon asymmetry it exposed, the unclosed-parenthesis skip loop, is fixed in /repo); for statement kinds outside the fragment it remains a hypothesis of the driver theorem, tested by the script harness. Parser state: C06_parser_state_is_window_and_errors over the regenerated Parser struct."),
    "C07": dict(
        technique="Coq: shift law of a depth-oblivious printer calculus instantiated by a depth/indent-use inventory regenerated from source + tail-insensitivity on the SELECT printer model + C10's no-hidden-state obligation; embedding harness",
        text="C07_printer: every clean function of internal/explain denotes a trace of a printer calculus that cannot inspect depth (except two allow-listed `depth == 0` tests in explainExplainQuery), hence prints at depth d the depth-0 text shifted by d; the inventory of every use of depth/indent, every write and every (indent, depth) pair is regenerated from /repo and checked in the kernel; over the SELECT printer model a tail-free union prints identically under every union tail and each embedding context contains the query's rendering as a shifted block; no package-level or tree writes (C10). The parser half is covered by the harness: 14 embeddings per SELECT/WITH corpus query and composed queries, each explained after random histories and in fresh processes.",
        design_ref="DESIGN.md §4 C07",
        note="Parser half: proved for the SELECT-core model (C07_fragment_*: FROM subquery, scalar / parenthesised subquery and statement-level parentheses parse the embedded query to the identical AST value, and the printer model shows its lines as a block shifted by 7 / 5 / 6 levels) under the side condition that the query does not end in a comma followed by a clause keyword (`SELECT a, limit` is read differently alone and in parentheses by isClauseKeyword: C07_fragment_*_refuted; not valid ClickHouse); the other embeddings (IN/EXISTS, CTE, JOIN, CREATE VIEW, INSERT SELECT, EXPLAIN) are covered by the harness only. Trusted: depthgen's claim (D); Node dispatch hypothesis."),
    "C08": dict(
        technique="Coq proof by induction over expression trees on a hand-written model of the Pratt parser + independent reference printer; three-way extraction correspondence",
        text="C08_precedence_and_associativity: for every well-formed surface expression tree of the property's language (unbounded depth and operator count) and every follow context, explain_model (parse_model (print e ++ rest)) = reference tree of e (precedence climb OR < AND < NOT < comparison < || < additive < multiplicative < unary minus, left associative, ClickHouse function names, AND/OR/|| chains flattened); plus totality of the model. Tied to the code by comparing code, extracted model and extracted spec on all shapes with up to 3/4 binary operators and random deeper expressions.",
        design_ref="DESIGN.md §4 C08",
        note="Also: 157 embedding contexts including scripts in which the statement with the hole follows valid and failing statements. Trusted: hand-written model of parseExpression & printers (fragment, explicit OutOfFragment elsewhere) validated by correspondence; NOT( and minus-literal folding follow the code/goldens where the property text is silent."),
    "C09": dict(
        technique="Coq proofs on lexer + literal models against independent canonical printers (strings for all byte strings, integers for all n, float layout for all digit strings/exponents with strconv as a Section oracle); three-way extraction correspondence",
        text="C09: for every byte string v, lexing quote(v) gives STRING v and the printer renders canon_string v (two-level escaping); for all n: UInt64_n below 2^64, Int64_-n down to -2^63, -0 as UInt64_0, float branch beyond, hex/binary by value; FormatFloat's fixed/exponent layout equals an independent canon_float for every digit string and exponent (which digits are shortest is strconv's contract, an explicit premise); nesting in arrays/tuples and negation at any depth. Tied by comparing code, extracted model and spec on all 1- and 2-byte strings, integer and float boundaries and random cases.",
        design_ref="DESIGN.md §4 C09",
        note="Trusted: strconv oracle contract; hand-written models validated by correspondence."),
    "C10": dict(
        technique="Coq interleaving theorem instantiated by a shared-write inventory regenerated from source (go/types); obligation by vm_compute; race-detector workload",
        text="C10_concurrent_calls_behave_as_alone: threads whose shared write set is empty are data-race free and each observes exactly what it observes alone, for every schedule (Conc/Interleave.v); the write set of the library is the inventory of writes to package-level variables and through AST arguments regenerated from /repo on every run, and the obligation 'inventory has no shared write' is computed in the kernel. A new package-level flag, a memoising write into an AST node, a map range in the printer break the obligation and name the site. go build -race workload on distinct trees and on one shared tree compares every result with the sequential baseline.",
        design_ref="DESIGN.md §4 C10",
        note="Trusted: the translator's soundness claim (every reachable store is listed) and the hypothesis `conforms` linking Go calls to the abstract action programs; the Go memory model for DRF programs."),
    "C11": dict(
        technique="Coq proof of the restore discipline + computed obligations over the regenerated write inventory; snapshot/history harness",
        text="C11: a temporary edit with deferred restore leaves memory unchanged on normal and panicking exit (and a non-deferred restore leaks on panic); over the inventory regenerated from /repo: every tree write is restored by defer, no package-level write outside init, no map range in post-parse code — hence Explain is read-only and its output a function of the statement alone for every call history. Tied by deep snapshots around Explain/ExplainStatements/json.Marshal, repeated calls, fresh-process comparison after random histories including panicking calls.",
        design_ref="DESIGN.md §4 C11",
        note="Trusted: translator inventory; reflection snapshot harness; json.Marshal does not mutate."),
    "C12": dict(
        technique="Coq proof (induction over fuel/measure) on a hand-written model of lexer.go + extraction correspondence",
        text="Machine-checked theorem C12_lexer_total over a Gallina transcription of the whole of lexer/lexer.go: for every byte list the model terminates (no fuel exhaustion, no partial operation), returns exactly one EOF and it is last, at most len+1 tokens, and NextToken stays at EOF. The model is tied to the code on every run by running lexer.Tokenize and the OCaml extraction of the model on the same inputs (exhaustive short strings over a 40-byte alphabet, random, corpus, one large input per scanner) and comparing kind, value, offset, line, column and quoted flag of every token.",
        design_ref="DESIGN.md §4 C12",
        note="Trusted: Coq kernel + vm_compute; the hand-written model (validated by correspondence, not derived); extraction (ExtrOcamlBasic) and the OCaml/Go harness glue; the generated Unicode/token tables. No axioms."),
    "C13": dict(
        technique="Coq proof of a position invariant over the lexer model against an independent line/column spec + generated message inventory; correspondence and message re-location",
        text="C13 (a) offsets strictly increase and lie in [1,len], (b) line/column equal those of the designated rune per an independent spec, (c) the position designates the first character of the token for every kind but STRING, (e) two non-EOF tokens of one result never share a Position (offsets strictly increase by index), (f) a printed (line, column) pair designates at most one rune of the input and at most one non-EOF token — all for every byte list over the lexer model; (d) every 'line %d, column %d' message of package parser takes both numbers from the Pos of one token register and the registers are written only in nextToken (generated inventory, computed obligation). Tied by the lexer correspondence and by re-locating every message of Parse on mutated statements in the input's token list.",
        design_ref="DESIGN.md §4 C13",
        note="Trusted: lexer model (correspondence), the reading of Offset/EOF (DESIGN §7), the translator argument for (d)."),
    "C14": dict(
        technique="Coq refinement proof: model of bufio.Reader over chunked readers simulates the pure byte stream; lifted to the lexer model by a relational (simulation) theorem; extraction correspondence with the real bufio",
        text="C14_bufio_refines_pure: for every well-behaved chunking (any chunk sizes, empty reads, last bytes with EOF) Peek and ReadRune of the bufio.Reader model return what the pure stream returns and preserve the abstraction — so every client restricted to these two operations, in particular the lexer model (parametric in the stream), produces the same tokens; statements, EXPLAIN and errors are functions of the token list. Tied by comparing the real bufio.Reader with the extracted model on generated operation sequences and Parse over many chunkings with Parse over a string reader.",
        design_ref="DESIGN.md §4 C14",
        note="Also: a stream ENDING IN THE SAME FAILURE gives the same statements and error under every delivery (error with or without data, 1 / 7 bytes per Read). Trusted: transcription of bufio (validated every run); readers returning (0,nil) 100 times in a row are outside the property."),
    "C15": dict(
        technique="Coq invariant proof on the bufio + error-tracking reader model (all scripts, all operation sequences) + totality of the lexer over every scripted (failing) reader by a measure argument (no fuel hypothesis left); fault-injection harness over readers of several dynamic types",
        text="C15: for every script of reads (errors anywhere, transient or persistent, with or without data) and every sequence of Peek/ReadRune operations, the error-tracking wrapper holds the first non-EOF error any Read returned (monotone); ParseStatements model returns ReadErr when it is set. Tied by the real bufio + wrapper vs extracted model on scripts with error chunks, and Parse over readers failing at every offset with several error kinds (errors.Is must hold).",
        design_ref="DESIGN.md §4 C15",
        note="Trusted: bufio transcription; 'returned by the reader' = a Read call made by the parse returned it."),
    "C16": dict(
        technique="Coq proof by induction on the ParseStatements loop model with abstract statement parser and cancellation oracle; deterministic cancellation harness",
        text="C16: for every statement parser with progress, every token list and every cancellation oracle: never cancelled => never a context error and the full result; first done at iteration k => exactly the statements of the first k iterations (a prefix) with the context error; nil error => all input consumed; pre-cancelled => ([], ctx error) unless the input has no token. Tied by driving the real Parse with reader-side cancellation at every byte and poll-side cancellation at every k and checking the allowed outcome set.",
        design_ref="DESIGN.md §4 C16",
        note="Trusted: hand-written driver model; progress of the statement parser is C02's theorem."),
    "C17": dict(
        technique="Coq: computed obligation over the token table regenerated from token.go + general lemma about the Keywords map construction; exhaustive API probes per keyword",
        text="C17 (table half): over the token table regenerated from token.go on every run: every keyword has a unique non-empty upper-case spelling, Lookup finds it from that spelling and from no other string, IsKeyword classifies it and accepts no kind without such an entry (C17_is_keyword_only_keywords: the keyword range of the enum has no hole), Lookup returns only IDENT or keywords — the finite facts computed in the kernel, 'from no other string' by a general lemma about how init() builds the map. Naming half (C17_naming.v when present): every keyword in any letter case as column name after a dot, column alias and table alias over the SELECT-core models. Every keyword of the current table x 3 positions x 4 letter cases is probed through the real API.",
        design_ref="DESIGN.md §4 C17",
        note="Trusted: gentables translator; model of token.init/Lookup. Naming half relies on the SELECT-core model (correspondence)."),
    "C18": dict(
        technique="Coq proof by mutual induction on type trees over a hand-written model of parseDataType/FormatDataType + independent canonical printer; three-way extraction correspondence",
        text="C18: for every well-formed type tree of the property's constructor set at any depth, both CAST(x AS T) and x::T show exactly the canonical text (names as written, ', ' separators, string arguments escaped at three levels inside the literal), over the model of parseDataType, parseCast, parseCastOperator, FormatDataType and the cast printer; tokens with any spacing/comments erase to the same token list. Tied by comparing code, extracted model and spec on random type trees covering every parent/child constructor pair, six separator styles and mutants.",
        design_ref="DESIGN.md §4 C18",
        note="Also: an operand pass (the type line must not depend on what is cast: 15 operand kinds x both positions). Trusted: hand-written model incl. an embedded isDataTypeName table (drift shows as disagreement); canonical escaping read off the goldens. Residual exclusion: Tuple(date LineString)."),
}

NOT_YET = {
}

ALL = ["C%02d" % i for i in range(1, 19)]


def main():
    checks = []
    for pid in ALL:
        if pid not in CLAIMED:
            continue
        c = CLAIMED[pid]
        checks.append({
            "property_id": pid,
            "quick_cmd": "bin/check %s --tier quick" % pid,
            "thorough_cmd": "bin/check %s --tier thorough" % pid,
            "evidence_file": "/verif/evidence/%s.json" % pid,
            "replay_cmd_template": "bin/check replay {path}",
            "engine": "coq",
            "level_claimed": {"category": "proof", "text": c["text"], "design_ref": c["design_ref"]},
            "level_note": c["note"],
            "technique": c["technique"],
        })
    na = []
    for pid in ALL:
        if pid not in CLAIMED:
            na.append({"property_id": pid, "reason": NOT_YET.get(pid, "check not built yet in this round (planned, see DESIGN.md §4); not claimed until its theorem and tie run")})
    m = {
        "version": 1,
        "setup_cmd": "bin/setup",
        "hooks": {
            "guard": "verif",
            "enable": "go build -tags verif (harness modules replace github.com/sqlc-dev/doubleclick => /repo)",
            "baseline_off_cmd": "cd /repo && GOFLAGS=-mod=mod GOPROXY=off go test -vet=off -count=1 -timeout 25m ./...",
            "source_commits": ["1397d28ae"],
            "add_only": True,
        },
        "engines": [
            {"name": "coq", "path": "/verif/coq", "serves_properties": sorted(CLAIMED),
             "kind_free_text": "Coq 8.16.1 development (hand-written models + models generated from /repo by /verif/translator), theorems in coq/Properties, tied to the code by extraction-based correspondence (/verif/driver, /verif/harness) and by regeneration"},
        ],
        "checks": checks,
        "not_applicable": na,
        "notes": "Every check: regenerate coq/Gen from /repo, make the property's .vo files (full build), Print Assumptions, correspondence of model and implementation on generated inputs, implementation-side search with the property's own oracle. See DESIGN.md.",
    }
    json.dump(m, open("/verif/MANIFEST.json", "w"), indent=1)


if __name__ == "__main__":
    main()
