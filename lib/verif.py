"""Shared machinery of the /verif checks: building (translators, Coq, extraction drivers, Go
harness), theorem/assumption collection, known findings, violation reporting and evidence."""
import fcntl
import glob
import hashlib
import json
import os
import re
import subprocess
import sys
import time

ROOT = os.environ.get("VERIF_ROOT", "/verif")
REPO = os.environ.get("VERIF_REPO", "/repo")   # VERIF_REPO: run the checks against another checkout (used by bin/seedtest)
BUILD = os.path.join(ROOT, "build")
COQ = os.path.join(ROOT, "coq")
GOENV = dict(os.environ, GOFLAGS="-mod=mod", GOPROXY="off")
for _k in ("GOTOOLCHAIN", "GOSUMDB"):
    GOENV.pop(_k, None)   # either of them breaks the go 1.25 toolchain switch
GOENV["CGO_ENABLED"] = GOENV.get("CGO_ENABLED", "1")

ALLOWED_AXIOMS = set()   # no axiom is expected under any property theorem


def log(*a):
    print("[verif]", *a, file=sys.stderr, flush=True)


def sh(cmd, cwd=ROOT, timeout=3600, env=None, stdin=None, check=False, shell=None):
    """Run cmd (list or string); returns (rc, stdout+stderr)."""
    if shell is None:
        shell = isinstance(cmd, str)
    try:
        p = subprocess.run(cmd, cwd=cwd, timeout=timeout, env=env or GOENV, input=stdin,
                           stdout=subprocess.PIPE, stderr=subprocess.STDOUT, shell=shell,
                           executable="/bin/bash" if shell else None)
        out = p.stdout.decode("utf-8", "replace") if isinstance(p.stdout, bytes) else p.stdout
        rc = p.returncode
    except subprocess.TimeoutExpired as e:
        out = (e.stdout or b"").decode("utf-8", "replace") + "\n[timeout after %ss]" % timeout
        rc = 124
    if check and rc != 0:
        raise RuntimeError("command failed (%s): %s\n%s" % (rc, cmd, out[-4000:]))
    return rc, out


class Lock:
    """Builds are shared by all checks; serialise them."""
    def __init__(self, name="build"):
        os.makedirs(BUILD, exist_ok=True)
        self.path = os.path.join(BUILD, "." + name + ".lock")

    def __enter__(self):
        self.f = open(self.path, "w")
        fcntl.flock(self.f, fcntl.LOCK_EX)
        return self

    def __exit__(self, *a):
        fcntl.flock(self.f, fcntl.LOCK_UN)
        self.f.close()


# ----------------------------------------------------------------------------------------------
# building
# ----------------------------------------------------------------------------------------------

TRANSLATORS = [
    # (binary, go package dir under translator/cmd, argv after the binary, required?)
    ("gentables", "gentables", ["-repo", REPO, "-out", os.path.join(COQ, "Gen")]),
    ("genkinds", "genkinds", ["-repo", REPO, "-out", os.path.join(COQ, "Gen")]),
    ("sharedgen", "sharedgen", ["-repo", REPO, "-out", os.path.join(COQ, "Gen"),
                                "-report", os.path.join(BUILD, "sharedgen_report.json")]),
    ("readeruse", "readeruse", ["-repo", REPO, "-out", os.path.join(COQ, "Gen")]),
    ("posmsggen", "posmsggen", ["-repo", REPO, "-out", os.path.join(COQ, "Gen")]),
    ("posreadgen", "posreadgen", ["-repo", REPO, "-out", os.path.join(COQ, "Gen", "PosReads.v"), "-allow-out", os.path.join(COQ, "Gen", "PosReadsAllowed.v"),
                                  "-allow", os.path.join(ROOT, "checks", "c05_allowed_sites.json"), "-report", os.path.join(BUILD, "posreadgen_report.json")]),
    ("nilgen", "nilgen", ["-repo", REPO, "-out", os.path.join(COQ, "Gen"), "-report", os.path.join(BUILD, "nilgen_report.json")]),
    ("depthgen", "depthgen", ["-repo", REPO, "-out", os.path.join(COQ, "Gen"), "-report", os.path.join(BUILD, "depthgen_report.json")]),
    ("skelgen", "skelgen", ["-repo", REPO, "-out", os.path.join(COQ, "Gen"),
                            "-report", os.path.join(BUILD, "skelgen_report.json")]),
]


def build_translators(only=None):
    """Build and run every translator that exists; returns {name: (rc, output)}."""
    res = {}
    for name, pkg, args in TRANSLATORS:
        if only is not None and name not in only:
            continue
        src = os.path.join(ROOT, "translator", "cmd", pkg)
        if not os.path.isdir(src):
            continue
        binp = os.path.join(BUILD, name)
        rc, out = sh(["go", "build"] + _modfile("translator") + ["-o", binp, "./cmd/" + pkg], cwd=os.path.join(ROOT, "translator"), timeout=600)
        if rc == 0:
            rc, out2 = sh([binp] + args, timeout=900)
            out += out2
        res[name] = (rc, out)
    return res


def coq_files():
    fs = []
    for p in glob.glob(os.path.join(COQ, "**", "*.v"), recursive=True):
        rel = os.path.relpath(p, COQ)
        if rel.startswith("scratch" + os.sep) or os.sep + "." in os.sep + rel:
            continue
        fs.append(rel)
    return sorted(fs)


def coq_prepare():
    """(Re)write _CoqProject and Makefile when the file list changed."""
    files = coq_files()
    proj = "-Q . DC\n-arg -w -arg -abstract-large-number,-deprecated-hint-without-locality,-notation-overridden\n" + "\n".join(files) + "\n"
    pp = os.path.join(COQ, "_CoqProject")
    old = open(pp).read() if os.path.exists(pp) else ""
    if old != proj or not os.path.exists(os.path.join(COQ, "Makefile")):
        open(pp, "w").write(proj)
        sh(["coq_makefile", "-f", "_CoqProject", "-o", "Makefile"], cwd=COQ, check=True)
    return files


def coq_make(targets, timeout=3000):
    """make -k the given .vo targets (full .vo build, never -vos). Returns (rc, log)."""
    coq_prepare()
    cmd = ["make", "-k", "-j16"] + list(targets)
    rc, out = sh(cmd, cwd=COQ, timeout=timeout)
    return rc, out


def vo_ok(rel_v):
    """Is the .vo of this .v present and at least as new as its own source and as the .vo of everything it
    depends on (a property file whose rebuild failed after a dependency changed is NOT ok)?"""
    v = os.path.join(COQ, rel_v)
    vo = v + "o"
    if not os.path.exists(vo):
        return False
    t = os.path.getmtime(vo)
    if t < os.path.getmtime(v):
        return False
    for dep in dep_closure([rel_v]):
        if dep == rel_v:
            continue
        dvo = os.path.join(COQ, dep) + "o"
        if not os.path.exists(dvo) or os.path.getmtime(dvo) > t + 1e-6:
            return False
    return True


def _modfile(module_dir):
    """With VERIF_REPO set, build against that checkout through a generated -modfile."""
    if REPO == "/repo":
        return []
    src = open(os.path.join(ROOT, module_dir, "go.mod")).read().replace("=> /repo", "=> " + REPO)
    os.makedirs(BUILD, exist_ok=True)
    mf = os.path.join(BUILD, module_dir + ".alt.mod")
    open(mf, "w").write(src)
    open(os.path.join(BUILD, module_dir + ".alt.sum"), "a").close()
    return ["-modfile=" + mf]


def build_go(pkgs=("dch",), race=False):
    res = {}
    for pkg in pkgs:
        src = os.path.join(ROOT, "harness", "cmd", pkg)
        if not os.path.isdir(src):
            res[pkg] = (1, "missing " + src)
            continue
        out = os.path.join(BUILD, pkg + ("_race" if race else ""))
        cmd = ["go", "build"] + _modfile("harness") + ["-tags", "verif"] + (["-race"] if race else []) + ["-o", out, "./cmd/" + pkg]
        res[pkg] = sh(cmd, cwd=os.path.join(ROOT, "harness"), timeout=900)
    return res


def build_driver(topic, ml_base, roots_v="Extract.v"):
    """Run the extraction file in driver/<topic> and compile main.ml against it."""
    d = os.path.join(ROOT, "driver", topic)
    out = os.path.join(BUILD, topic + "_driver")
    stamp_src = [os.path.join(d, roots_v), os.path.join(d, "main.ml")]
    rc, o = sh(["coqc", "-Q", COQ, "DC", "-w", "-extraction,-abstract-large-number", roots_v], cwd=d, timeout=900)
    if rc != 0:
        return rc, o
    cmd = ["ocamlfind", "ocamlopt", "-O3", "-w", "-a", "-package", "str", "-linkpkg",
           ml_base + ".mli", ml_base + ".ml", "main.ml", "-o", out]
    rc, o2 = sh(cmd, cwd=d, timeout=900)
    return rc, o + o2


# ----------------------------------------------------------------------------------------------
# theorems and assumptions
# ----------------------------------------------------------------------------------------------

THM_RE = re.compile(r"^\s*(?:Theorem|Lemma|Corollary)\s+([A-Za-z0-9_']+)", re.M)


def property_files(pid):
    """Properties/Cnn.v and Properties/Cnn_*.v"""
    fs = sorted(glob.glob(os.path.join(COQ, "Properties", pid + ".v")) +
                glob.glob(os.path.join(COQ, "Properties", pid + "_*.v")))
    return [os.path.relpath(f, COQ) for f in fs]


def theorems_of(rel_v):
    src = open(os.path.join(COQ, rel_v)).read()
    src = re.sub(r"\(\*.*?\*\)", "", src, flags=re.S)
    return THM_RE.findall(src)


def check_assumptions(pid, rel_files):
    """Loads the compiled property modules and prints the assumptions of every theorem.
    Returns {thm: 'closed' | [axioms]} for theorems whose module compiled, and the raw output."""
    os.makedirs(BUILD, exist_ok=True)
    lines = []
    names = []
    for rel in rel_files:
        if not vo_ok(rel):
            continue
        mod = "DC." + rel[:-2].replace(os.sep, ".")
        lines.append("Require %s." % mod)
        for t in theorems_of(rel):
            lines.append('Print Assumptions %s.%s.' % (mod, t))
            names.append(t)
    if not names:
        return {}, ""
    path = os.path.join(BUILD, "assume_%s.v" % pid)
    open(path, "w").write("\n".join(lines) + "\n")
    rc, out = sh(["coqc", "-Q", COQ, "DC", path], cwd=BUILD, timeout=600)
    res = {}
    # coqc prints one block per Print Assumptions, in order
    blocks = re.split(r"(?=Closed under the global context|Axioms:)", out)
    blocks = [b for b in blocks if b.startswith("Closed under") or b.startswith("Axioms:")]
    for t, b in zip(names, blocks):
        if b.startswith("Closed under"):
            res[t] = "closed"
        else:
            res[t] = [l.strip() for l in b.splitlines()[1:] if l.strip()]
    if rc != 0 or len(blocks) != len(names):
        res["__error__"] = out[-2000:]
    return res, out


FORBIDDEN_RE = re.compile(r"\b(Admitted|admit|Axiom|Axioms|Parameter|Parameters|Conjecture|Unset\s+Guard|bypass_check|Admit\s+Obligations|native_compute)\b")


REQ_RE = re.compile(r"From\s+DC\s+Require\s+(?:Import\s+|Export\s+)?([^.]*(?:\.[A-Za-z_][^.\s]*)*)\.\s", re.S)


def dep_closure(rel_files):
    """Transitive closure of `From DC Require … X.Y` dependencies, as .v paths relative to COQ."""
    seen, todo = set(), list(rel_files)
    while todo:
        r = todo.pop()
        if r in seen or not os.path.exists(os.path.join(COQ, r)):
            continue
        seen.add(r)
        src = open(os.path.join(COQ, r)).read()
        src = re.sub(r"\(\*.*?\*\)", "", src, flags=re.S)
        for m in re.finditer(r"(?:From\s+DC\s+)?Require\s+(?:Import\s+|Export\s+)?(.*?)\.(?=\s)", src, flags=re.S):
            for mod in m.group(1).split():
                mod = mod.strip()
                if mod.startswith("DC."):
                    mod = mod[3:]
                cand = mod.replace(".", os.sep) + ".v"
                if os.path.exists(os.path.join(COQ, cand)):
                    todo.append(cand)
    return sorted(seen)


def forbidden_scan(rel_files):
    """grep the property's files and everything they depend on for forbidden commands (comments stripped)."""
    hits = []
    for rel in dep_closure(rel_files):
        src = open(os.path.join(COQ, rel)).read()
        src = re.sub(r"\(\*.*?\*\)", "", src, flags=re.S)
        src = re.sub(r'"(?:[^"]|"")*"', '""', src)      # string literals (generated inventories quote Go source text)
        for m in FORBIDDEN_RE.finditer(src):
            hits.append("%s: %s" % (rel, m.group(0)))
    return hits


# ----------------------------------------------------------------------------------------------
# known findings, violations, evidence
# ----------------------------------------------------------------------------------------------

def known_findings(pid):
    p = os.path.join(ROOT, "known_findings.json")
    if not os.path.exists(p):
        return []
    data = json.load(open(p))
    return [e for e in data.get("findings", []) if e.get("property") == pid and e.get("status") == "open"]


class Report:
    def __init__(self, pid, tier, seed):
        self.pid, self.tier, self.seed = pid, tier, seed
        self.t0 = time.time()
        self.violations = []      # (kind, description, replay path, found_input)
        self.known = []
        self.coverage = {}
        self.assumptions = []
        self.known_list = known_findings(pid)

    def is_known(self, key=None, input_hex=None):
        for e in self.known_list:
            if key is not None and e.get("key") == key:
                return e
            if input_hex is not None and e.get("input_hex") == input_hex:
                return e
        return None

    def violation(self, kind, what, data, found_input=True, key=None, input_hex=None):
        """Record a violation (or a known finding when listed). data goes into the replay file."""
        e = self.is_known(key=key, input_hex=input_hex)
        if e is not None:
            msg = "KNOWN-FINDING: property=%s %s" % (self.pid, e.get("what", what))
            if msg not in self.known:
                self.known.append(msg)
                print(msg, flush=True)
            return
        os.makedirs(os.path.join(ROOT, "replays"), exist_ok=True)
        blob = json.dumps(data, sort_keys=True)
        h = hashlib.sha1(blob.encode()).hexdigest()[:12]
        path = os.path.join(ROOT, "replays", "%s-%s.json" % (self.pid, h))
        rec = {"property": self.pid, "kind": kind, "what": what, "seed": self.seed, "tier": self.tier}
        rec.update(data)
        json.dump(rec, open(path, "w"), indent=1, sort_keys=True)
        line = "VIOLATION property=%s replay=%s" % (self.pid, path)
        if not found_input:
            line += " no-failing-input-found"
        if len(self.violations) < 20:
            print(line, flush=True)
            log(what)
        self.violations.append((kind, what, path, found_input))

    def finish(self, level="proof"):
        # runs against another checkout (VERIF_REPO, used by bin/seedtest) must not overwrite the evidence of /repo
        evdir = os.path.join(ROOT, "evidence") if REPO == "/repo" else os.path.join(BUILD, "evidence_alt")
        os.makedirs(evdir, exist_ok=True)
        ev = {
            "property_id": self.pid,
            "tier": self.tier,
            "seed": self.seed,
            "level": level,
            "coverage": self.coverage,
            "assumptions": self.assumptions,
            "wall_s": round(time.time() - self.t0, 2),
            "violations": len(self.violations),
            "known_findings_reported": self.known,
        }
        json.dump(ev, open(os.path.join(evdir, self.pid + ".json"), "w"), indent=1, sort_keys=True)
        log("%s %s: %d violation(s), %d known finding(s), %.1fs" %
            (self.pid, self.tier, len(self.violations), len(self.known), time.time() - self.t0))
        return 1 if self.violations else 0


def proof_stage(rep, pid, extra_targets=(), needs_translators=None):
    """Common first stage of every check: regenerate Gen, make the property's .vo files, collect
    theorems and assumptions, report broken obligations. Returns a dict with the details and the list
    of broken obligations (each a dict); the caller searches for a failing input before reporting."""
    with Lock():
        tr = build_translators(only=needs_translators)
        rel = property_files(pid)
        targets = [r + "o" for r in rel] + list(extra_targets)
        rc, mlog = coq_make(targets)
        open(os.path.join(BUILD, "make_%s.log" % pid), "w").write(mlog)
        assum, raw = check_assumptions(pid, rel)
    broken = []
    for name, (trc, tout) in tr.items():
        if trc != 0:
            broken.append({"obligation": "translator:" + name, "detail": tout[-1500:]})
    thms = []
    for r in rel:
        names = theorems_of(r)
        thms += [(r, t) for t in names]
        if not vo_ok(r):
            m = re.search(r"File \"\./%s\", line (\d+).*?\n(.*?)(?=\n\S*make|\Z)" % re.escape(r), mlog, flags=re.S)
            detail = (m.group(0)[:1500] if m else mlog[-1500:])
            broken.append({"obligation": "coq:" + r, "theorems": names, "detail": detail})
    for t, a in assum.items():
        if t == "__error__":
            broken.append({"obligation": "assumptions", "detail": a})
        elif a != "closed":
            bad = [x for x in a if x.split(":")[0].strip() not in ALLOWED_AXIOMS]
            if bad:
                broken.append({"obligation": "axioms:" + t, "detail": "; ".join(bad)})
    forb = forbidden_scan(rel)
    rep.coverage["files_in_proof"] = dep_closure(rel)
    if forb:
        broken.append({"obligation": "forbidden-commands", "detail": "; ".join(forb[:20])})
    discharged = sum(1 for (r, t) in thms if vo_ok(r) and assum.get(t) == "closed")
    if discharged < len(thms) and not broken:
        # never let an undischarged theorem go unreported
        missing = [t for (r, t) in thms if not (vo_ok(r) and assum.get(t) == "closed")]
        broken.append({"obligation": "assumptions-missing", "detail": "no Print Assumptions result for %s; vo_ok=%s; raw output: %s" %
                       (missing[:5], {r: vo_ok(r) for r in rel}, raw[-1500:])})
    if rep.tier == "thorough" and not broken:
        # independent re-check of the compiled property modules and everything they depend on
        mods = ["DC." + r[:-2].replace(os.sep, ".") for r in rel]
        crc, cout = sh(["coqchk", "-silent", "-o", "-Q", COQ, "DC"] + mods, cwd=COQ, timeout=5400)
        m = re.search(r"\* Axioms:(.*?)\n\s*\n\* Constants", cout, flags=re.S)
        axioms = [a.strip() for a in (m.group(1).strip().splitlines() if m else []) if a.strip() and a.strip() != "<none>"]
        rep.coverage["coqchk"] = {"rc": crc, "axioms": axioms, "modules": mods,
                                  "summary": cout[cout.find("CONTEXT SUMMARY"):][:1200]}
        if crc != 0:
            broken.append({"obligation": "coqchk", "detail": cout[-1500:]})
        else:
            # axioms declared by the standard library itself may be loaded by an imported library; they are reported in the
            # evidence (Print Assumptions already shows that no property theorem depends on them); anything else is ours
            foreign = [a for a in axioms if not a.startswith("Coq.")]
            if foreign:
                broken.append({"obligation": "coqchk-axioms", "detail": "; ".join(foreign)})
    rep.coverage.update({
        "obligations": max(len(thms), 1),
        "discharged": discharged,
        "theorems": ["%s:%s" % (r, t) for (r, t) in thms],
        "print_assumptions": {t: a for t, a in assum.items() if t != "__error__"},
        "checker_cmd": "cd /verif/coq && make -k -j16 " + " ".join(targets) + "  (coqc 8.16.1, full .vo) ; coqc build/assume_%s.v (Print Assumptions)" % pid,
        "translators": {k: v[0] for k, v in tr.items()},
    })
    return {"broken": broken, "theorems": thms, "make_log": mlog}


def report_broken(rep, broken, found_input_violation):
    """After the search: report every broken obligation that the search did not explain."""
    for b in broken:
        if found_input_violation:
            # a concrete failing input has been reported already; still record the obligation in its own replay
            rep.violation("obligation", "proof obligation no longer checks: %s" % b["obligation"], b, found_input=True,
                          key="obligation:" + b["obligation"])
        else:
            rep.violation("obligation", "proof obligation no longer checks: %s" % b["obligation"], b, found_input=False,
                          key="obligation:" + b["obligation"])


def diff_lines(a_path, b_path, limit=5, proj=None):
    """Compare two result files line by line; returns (n_lines, list of (index, a, b))."""
    out = []
    n = 0
    with open(a_path) as fa, open(b_path) as fb:
        for i, (la, lb) in enumerate(zip_longest_lines(fa, fb)):
            n += 1
            if proj is not None:
                la, lb = proj(la), proj(lb)
            if la != lb and len(out) < limit:
                out.append((i, la, lb))
            elif la != lb:
                out.append(None)
    mism = len(out)
    return n, [o for o in out if o is not None], mism


def zip_longest_lines(fa, fb):
    import itertools
    for la, lb in itertools.zip_longest(fa, fb, fillvalue="<missing>\n"):
        yield la.rstrip("\n"), lb.rstrip("\n")


def run_to_file(cmd, in_path, out_path, timeout=3600, cwd=BUILD, unlimited_stack=False):
    c = " ".join(cmd) if isinstance(cmd, list) else cmd
    pre = "ulimit -s unlimited 2>/dev/null; " if unlimited_stack else ""
    full = "%s%s < %s > %s" % (pre, c, in_path, out_path)
    rc, out = sh(full, cwd=cwd, timeout=timeout, shell=True)
    return rc, out


def parallel_map_files(cmd, in_path, out_path, shards=16, timeout=3600, unlimited_stack=False, mem_kb=0):
    """Split in_path into `shards` consecutive pieces, run cmd on each in parallel, concatenate."""
    lines = open(in_path).read().splitlines(True)
    if len(lines) < shards * 4:
        return run_to_file(cmd, in_path, out_path, timeout, unlimited_stack=unlimited_stack)
    per = (len(lines) + shards - 1) // shards
    procs = []
    pre = "ulimit -s unlimited 2>/dev/null; " if unlimited_stack else ""
    if mem_kb:
        # a worker whose subject allocates without bound fails by itself (Go: "fatal error: out of memory") instead of pushing the
        # whole machine into the OOM killer
        pre += "ulimit -v %d 2>/dev/null; " % mem_kb
    c = " ".join(cmd) if isinstance(cmd, list) else cmd
    for i in range(shards):
        part = lines[i * per:(i + 1) * per]
        if not part:
            continue
        pi, po = "%s.part%d" % (in_path, i), "%s.part%d" % (out_path, i)
        open(pi, "w").writelines(part)
        p = subprocess.Popen(["/bin/bash", "-c", "%s%s < %s > %s" % (pre, c, pi, po)], cwd=BUILD, env=GOENV,
                             stderr=subprocess.PIPE)
        procs.append((p, pi, po))
    rc_all, err = 0, ""
    t_end = time.time() + timeout
    for p, pi, po in procs:
        try:
            _, e = p.communicate(timeout=max(1, t_end - time.time()))
        except subprocess.TimeoutExpired:
            p.kill()
            e = b"[timeout]"
            rc_all = 124
        if p.returncode not in (0, None):
            rc_all = rc_all or p.returncode
        err += (e or b"").decode("utf-8", "replace")
    with open(out_path, "w") as fo:
        for _, pi, po in procs:
            if os.path.exists(po):
                data = open(po).read()
                # a worker that was killed leaves a last line without its end: never let it merge with the next shard's first line
                fo.write(data if (not data or data.endswith("\n")) else data + "\n")
                os.remove(po)
            os.remove(pi)
    return rc_all, err


def itertools_zip3(fa, fb, fc):
    import itertools
    for a, b, c in itertools.zip_longest(fa, fb, fc, fillvalue="<missing>\n"):
        yield a.rstrip("\n"), b.rstrip("\n"), c.rstrip("\n")


def run_generator_compare(cmd, timeout=3000):
    """Runs one of the checks/gen_*_cases.py scripts in --run mode. Returns (rc, output, summary dict of
    every name=int pair on the last line, list of report blocks)."""
    rc, out = sh(cmd, timeout=timeout)
    lines = out.strip().splitlines()
    summary = {}
    if lines:
        for m in re.finditer(r"([A-Za-z_/!= -]*?[A-Za-z_]+)=(\d+)", lines[-1]):
            summary[m.group(1).strip()] = int(m.group(2))
    blocks = re.split(r"\n(?=[A-Z][A-Z!=-]+[A-Z]\s)", "\n" + "\n".join(lines[:-1]))
    blocks = [b.strip() for b in blocks if b.strip()]
    return rc, out, summary, blocks


def build_topic(go_pkgs=(), drivers=()):
    """Build Go harness programs and extraction drivers; returns list of broken obligations."""
    broken = []
    with Lock():
        g = build_go(go_pkgs)
        for k, (rc, out) in g.items():
            if rc != 0:
                broken.append({"obligation": "build:go-" + k, "detail": out[-1500:]})
        for topic, base in drivers:
            ex = [os.path.basename(x) for x in glob.glob(os.path.join(ROOT, "driver", topic, "*.v"))]
            rc, out = build_driver(topic, base, ex[0] if ex else "Extract.v")
            if rc != 0:
                broken.append({"obligation": "build:driver-" + topic, "detail": out[-1500:]})
    return broken
